use lightning::util::persist::KVStoreSync;
use persistsim::kv::SimKv;
use persistsim::PersistSim;
use simcore::runner::run_isolated;
use simcore::{mix, Sim, Tier};

#[test]
fn lazy_removal_crash_states() {
	let kv = SimKv::new(1, 7, true); // lazy removals deferred in the live view
	kv.write("a", "b", "k1", vec![1]).unwrap();
	kv.write("a", "b", "k2", vec![2]).unwrap();
	kv.remove("a", "b", "k1", true).unwrap();
	// still visible while the process lives
	assert_eq!(kv.read("a", "b", "k1").unwrap(), vec![1]);
	let snap = kv.current();
	assert_eq!(snap.crash_state(&|_| false).len(), 1); // removal took effect
	assert_eq!(snap.crash_state(&|_| true).len(), 2); // removal lost
	// a later write supersedes the pending removal
	kv.write("a", "b", "k1", vec![3]).unwrap();
	let snap = kv.current();
	assert!(snap.lazy_pending.is_empty());
	assert_eq!(snap.crash_state(&|_| false).len(), 2);
	// a store sync makes pending removals durable and invisible
	kv.remove("a", "b", "k2", true).unwrap();
	assert_eq!(kv.flush_lazy(), 1);
	assert!(kv.read("a", "b", "k2").is_err());
	let mut l = kv.list("a", "b").unwrap();
	l.sort();
	assert_eq!(l, vec!["k1".to_string()]);
}

#[test]
fn injected_error_fires_once() {
	let kv = SimKv::new(0, 1, true);
	kv.arm_error(1, false);
	assert!(kv.write("a", "", "x", vec![1]).is_ok());
	assert!(kv.write("a", "", "y", vec![1]).is_err());
	assert!(kv.read("a", "", "y").is_err()); // had no effect
	assert!(kv.write("a", "", "y", vec![1]).is_ok());
}

#[test]
fn same_seed_same_history() {
	simcore::runner::install_panic_hook();
	for profile in ["sync", "async-fifo"] {
		for i in 0..3u64 {
			let seed = mix(1, i);
			let a = run_isolated(|| PersistSim.run(profile, seed, Tier::Quick));
			let b = run_isolated(|| PersistSim.run(profile, seed, Tier::Quick));
			assert_eq!(a.history_fp, b.history_fp);
			assert!(a.violations.is_empty(), "{:?}", a.violations);
			assert!(a.harness_errors.is_empty(), "{:?}", a.harness_errors);
		}
	}
}

/// The candidate finding of profile `async`: an update file lands before its predecessor's, the
/// process dies, and `read_all_channel_monitors_with_updates` panics. Some seed among the first
/// few dozen shows it, and replaying that run's recorded trace reproduces the same oracle failure.
/// (replays/C19-async-cross-key-order.json is a minimised instance; like every replay file it is
/// tied to the version of the lnsim world it was recorded with.)
#[test]
fn async_cross_key_reordering_is_found_and_replays() {
	simcore::runner::install_panic_hook();
	let want = persistsim::asyncp::ORACLE_REORDER;
	for i in 0..60u64 {
		let seed = mix(1, i);
		let out = run_isolated(|| PersistSim.run("async", seed, Tier::Quick));
		assert!(out.harness_errors.is_empty(), "{:?}", out.harness_errors);
		if out.violations.iter().any(|v| v.oracle == want) {
			let rep = out.replay.clone().expect("failing run carries its replay");
			let again = run_isolated(|| PersistSim.replay(&rep));
			assert!(again.violations.iter().any(|v| v.oracle == want), "{:?}", again.violations);
			assert_eq!(again.history_fp, out.history_fp);
			return;
		}
		assert!(out.violations.is_empty(), "{:?}", out.violations);
	}
	panic!("no run showed the cross-key reordering failure");
}
