//! transportsim: see /verif/DESIGN.md
