//! persistsim: see /verif/DESIGN.md
