#!/usr/bin/env python3
"""merge later trial files into /verif/seeded/results.tsv (later verdicts replace earlier ones)"""
import sys, collections
rows = collections.OrderedDict()
for f in sys.argv[1:]:
    for l in open(f):
        if "\t" not in l: continue
        p, m, c, t, rc, orc = (l.rstrip("\n").split("\t") + [""] * 6)[:6]
        rows[(p, m, c, t)] = (rc, orc)
keys = sorted(rows.keys(), key=lambda k: (k[0], k[1]))
with open("/verif/seeded/results.tsv", "w") as o:
    for k in keys:
        o.write("\t".join(list(k) + list(rows[k])) + "\n")
print(len(keys), "rows")
