#!/usr/bin/env bash
# Builds a private copy of /verif in /tmp/vsnap whose simulators compile against a scratch worktree
# of /repo (/tmp/mut/repo), so seeded changes can be tried without touching /repo or /verif.
set -eu
rm -rf /tmp/vsnap; mkdir -p /tmp/mut
git -C /repo worktree remove --force /tmp/mut/repo 2>/dev/null || true
git -C /repo worktree add /tmp/mut/repo HEAD >/dev/null
mkdir -p /tmp/vsnap
rsync -a --exclude target --exclude .git --exclude replays --exclude evidence /verif/ /tmp/vsnap/
mkdir -p /tmp/vsnap/evidence /tmp/vsnap/replays
grep -rl '/repo/' /tmp/vsnap/sim /tmp/vsnap/sim-store --include=Cargo.toml | xargs sed -i 's#"/repo/#"/tmp/mut/repo/#g'
echo snapshot ready
