//! blocksyncsim: deterministic simulation of lightning-block-sync (property C20).
//!
//! The real `SpvClient`, `ChainPoller` and `init::synchronize_listeners` run on top of a
//! `BlockSource` that answers from a simulator-owned block tree, fails or lies at a chosen request
//! index, and completes its futures after a chosen number of `Pending`s. Recording listeners are
//! checked against a stack model of "the chain the listener believes in". See /verif/DESIGN.md §C20.

pub mod exec;
pub mod listener;
pub mod sched;
pub mod source;
pub mod tree;
pub mod world;

use sched::Gen;
use serde_json::Value;
use simcore::{fnv_extend, Rng, RunOutcome, Sim, Tier};
use source::FaultSpec;
use world::{Action, Config, World};

pub struct BlockSyncSim;

pub const PROFILES: [&str; 3] = ["sync", "tiplies", "cancel"];

fn run_walk(cfg: Config, rng: &mut Rng, seed: u64) -> RunOutcome {
	let mut w = World::new(cfg.clone());
	w.out.seed = seed;
	let mut gen = Gen::new(&cfg);
	let mut sched = rng.fork("schedule");
	gen.setup(&mut sched);
	let mut idle = 0;
	while (w.trace.len() as u32) < cfg.gen.max_steps && !w.dead && idle < 64 {
		let a = gen.next(&w, &mut sched);
		if w.apply(&a) {
			idle = 0;
		} else {
			idle += 1;
		}
	}
	// close with a fault-free poll: whatever happened, the client must now reach the best tip
	if !w.dead && w.client.is_some() {
		w.apply(&Action::Poll { faults: vec![], pend: vec![], forget_stale: false, cancel_after: None });
	}
	w.finish()
}

fn with_fault(op: &Action, f: FaultSpec) -> Action {
	match op {
		Action::Poll { pend, forget_stale, .. } => Action::Poll {
			faults: vec![f],
			pend: pend.clone(),
			forget_stale: *forget_stale,
			cancel_after: None,
		},
		Action::InitSync { starts, forget_stale, pend, .. } => Action::InitSync {
			starts: starts.clone(),
			forget_stale: *forget_stale,
			faults: vec![f],
			pend: pend.clone(),
		},
		other => other.clone(),
	}
}

/// Enumeration mode: one scenario (prefix, tip move, operation), then the operation is re-executed
/// in a fresh world once for every request index k with a fault at k, followed by a fault-free poll.
fn run_enumerate(cfg: Config, rng: &mut Rng, seed: u64) -> RunOutcome {
	let mut w = World::new(cfg.clone());
	w.out.seed = seed;
	let mut gen = Gen::new(&cfg);
	let mut sched = rng.fork("schedule");
	gen.setup(&mut sched);
	let prefix_len = sched.range(4, (cfg.gen.max_steps as u64 / 2).max(6)) as usize;
	let mut idle = 0;
	while (w.trace.len() < prefix_len || !gen.queue.is_empty() || w.client.is_none()) && !w.dead && idle < 64 {
		let a = gen.next(&w, &mut sched);
		if w.apply(&a) {
			idle = 0;
		} else {
			idle += 1;
		}
	}
	if w.dead || w.client.is_none() {
		return w.finish();
	}
	// the move
	let which = sched.below(3);
	let a = gen.gen_move(&w, &mut sched, which);
	w.apply(&a);
	while let Some(a) = gen.queue.pop_front() {
		w.apply(&a);
	}
	if w.dead {
		return w.finish();
	}
	let prefix: Vec<Action> = w.trace.clone();
	// the operation, first without faults to learn the number of requests
	let op = if sched.chance(1, 4) { gen.gen_init(&w, &mut sched, false) } else { gen.gen_poll(&w, &mut sched, false) };
	if !w.apply(&op) || w.dead {
		return w.finish();
	}
	let n_req = w.last_op_requests;
	w.out.bump("probe:enumerated_scenarios");
	let names = cfg.gen.kinds.clone();
	if names.is_empty() {
		return w.finish();
	}
	let mut cases: Vec<(u32, String)> = Vec::new();
	if (n_req as usize) * names.len() <= 48 {
		for k in 0..n_req {
			for nm in names.iter() {
				cases.push((k, nm.clone()));
			}
		}
		w.out.bump("probe:enumerated_all_indices_all_kinds");
	} else {
		let off = sched.below(names.len() as u64) as usize;
		let ks: Vec<u32> = if n_req <= 48 {
			w.out.bump("probe:enumerated_all_indices");
			(0..n_req).collect()
		} else {
			(0..48).map(|_| sched.below(n_req as u64) as u32).collect()
		};
		for (i, k) in ks.into_iter().enumerate() {
			cases.push((k, names[(i + off) % names.len()].clone()));
		}
	}
	let mut hist = w.hist;
	for (k, nm) in cases {
		let kind = gen.kind_from_name(&nm, &w, &mut sched);
		let f = FaultSpec { at: k, kind, arg: sched.next_u64() as u32 };
		let mut sub = World::new(cfg.clone());
		sub.quiet = true;
		for a in prefix.iter() {
			sub.apply(a);
		}
		sub.quiet = false;
		sub.apply(&with_fault(&op, f));
		if !sub.dead && sub.client.is_some() {
			sub.apply(&Action::Poll { faults: vec![], pend: vec![], forget_stale: false, cancel_after: None });
		}
		hist = fnv_extend(hist, &sub.hist.to_le_bytes());
		w.out.bump("enumerated_cases");
		w.faults_fired += sub.faults_fired;
		w.reorgs += sub.reorgs;
		let mut so = sub.finish();
		for (key, v) in so.counters.iter() {
			if key != "pow_hashes" {
				w.out.add(key, *v);
			}
		}
		for e in so.harness_errors.drain(..) {
			w.out.harness_errors.push(e);
		}
		if w.out.state_fps.len() < 4096 {
			w.out.state_fps.extend(so.state_fps.iter().take(8));
		}
		if !so.violations.is_empty() && w.out.violations.is_empty() {
			w.out.violations = so.violations.clone();
			let mut o = w.finish();
			o.replay = so.replay.clone();
			o.history_fp = hist;
			return o;
		}
	}
	w.hist = hist;
	w.finish()
}

impl Sim for BlockSyncSim {
	fn name(&self) -> &'static str {
		"blocksyncsim"
	}

	fn run(&self, profile: &str, seed: u64, tier: Tier) -> RunOutcome {
		let mut rng = Rng::new(seed);
		let cfg = sched::gen_config(profile, &mut rng, tier);
		if cfg.gen.enumerate {
			run_enumerate(cfg, &mut rng, seed)
		} else {
			run_walk(cfg, &mut rng, seed)
		}
	}

	fn replay(&self, replay: &Value) -> RunOutcome {
		let cfg: Config = match serde_json::from_value(replay["config"].clone()) {
			Ok(c) => c,
			Err(e) => {
				let mut o = RunOutcome::default();
				o.harness_errors.push(format!("bad replay config: {}", e));
				return o;
			},
		};
		let trace: Vec<Action> = match serde_json::from_value(replay["trace"].clone()) {
			Ok(t) => t,
			Err(e) => {
				let mut o = RunOutcome::default();
				o.harness_errors.push(format!("bad replay trace: {}", e));
				return o;
			},
		};
		let mut w = World::new(cfg);
		for a in trace.iter() {
			if w.dead {
				break;
			}
			w.apply(a);
		}
		w.finish()
	}

	fn components(&self) -> (Vec<String>, Vec<String>) {
		(
			vec![
				"lightning_block_sync::SpvClient (poll_best_tip, update_chain_tip)".into(),
				"lightning_block_sync::ChainNotifier (find_difference_*, disconnect_blocks, connect_blocks)".into(),
				"lightning_block_sync::HeaderCache".into(),
				"lightning_block_sync::poll::ChainPoller + Validate (proof of work, block hash, merkle root, check_builds_on on Regtest)".into(),
				"lightning_block_sync::init::{synchronize_listeners, validate_best_block_header} incl. MultiResultFuturePoller".into(),
				"lightning::chain::BlockLocator".into(),
				"bitcoin::block::Header::validate_pow / Block::check_merkle_root (real PoW at the regtest target)".into(),
			],
			vec![
				"BlockSource (SimSource: answers from the simulator's block tree, injects faults per request index)".into(),
				"chain::Listen (RecordingListener + fan-out)".into(),
				"async executor (single-threaded busy poll, no tokio)".into(),
				"block tree / miner (regtest-difficulty headers, coinbase-only or small blocks)".into(),
			],
		)
	}
}
