//! Swarm configuration and the scheduler that turns the run PRNG into explicit actions.

use crate::engine::{type_info, Action, CutMode, Offsets, Val};
use crate::msgs::{Tail, NUM_TYPES};
use crate::reader::{Chunking, ErrKind};
use serde::{Deserialize, Serialize};
use simcore::{Rng, Tier};

pub const KINDS: usize = 13;
pub const KIND_NAMES: [&str; KINDS] = [
	"Clean", "CutEof", "CutTruncate", "CutIoErr", "Mutate", "Extend", "TlvInsert", "TlvRewrite", "TlvShuffle",
	"Inflate", "BadByte", "Raw", "IoErrInSkippedTlv",
];

/// message types whose model lists at least one u16 length/count prefix / one range-checked byte
/// (only used to make `Inflate` / `BadByte` actions enabled more often; checked by a unit test)
pub const HAS_PREFIX: &[u16] = &[0, 1, 2, 3, 4, 16, 17, 21, 24, 25, 27, 28, 31, 33, 34, 35, 37, 42, 43, 45, 48];
pub const HAS_RANGE_BYTE: &[u16] = &[5, 6, 7, 8, 11, 12, 13, 14, 31, 38, 40, 45, 46, 48];

#[derive(Clone, Debug, Serialize, Deserialize)]
pub struct Config {
	pub profile: String,
	/// message types (indices) this run draws from
	pub types: Vec<u16>,
	/// weight of each action kind, order of `KIND_NAMES`
	pub weights: Vec<u32>,
	/// percentage of values generated with near-frame-limit sizes allowed
	pub big_pct: u32,
	/// number of executed actions
	pub cases: u32,
	/// which chunking modes are in use: bit0 All, bit1 One, bit2 Fixed, bit3 Random
	pub chunk_modes: u8,
}

pub fn gen_config(profile: &str, rng: &mut Rng, tier: Tier) -> Config {
	let mut r = rng.fork("config");
	let mut weights: Vec<u32> = match profile {
		"ioskip" => vec![1, 0, 0, 0, 0, 0, 0, 0, 0, 0, 0, 0, 8],
		_ => vec![10, 4, 3, 3, 4, 5, 8, 5, 3, 4, 4, 6, 0],
	};
	if profile != "ioskip" {
		// swarm: switch some fault kinds off, amplify others
		let mut alive = 0;
		for w in weights.iter_mut() {
			if *w == 0 {
				continue;
			}
			if r.chance(1, 4) {
				*w = 0;
			} else {
				*w *= r.range(1, 4) as u32;
				alive += 1;
			}
		}
		if alive < 2 {
			weights[0] = 10;
			weights[1] = 4;
			weights[6] = 8;
		}
	}
	let types: Vec<u16> = if r.chance(1, 3) {
		(0..NUM_TYPES).collect()
	} else {
		let n = r.range(3, 12) as usize;
		let mut all: Vec<u16> = (0..NUM_TYPES).collect();
		r.shuffle(&mut all);
		all.truncate(n);
		all.sort();
		all
	};
	let big_pct = *r.pick(&[0u32, 0, 5, 15, 40]);
	let cases = match tier {
		Tier::Quick => r.range(6, 16) as u32,
		Tier::Thorough => r.range(20, 60) as u32,
	};
	let mut chunk_modes = (r.below(15) + 1) as u8;
	if chunk_modes & 0b1110 == 0 && r.coin() {
		chunk_modes |= 0b1000;
	}
	Config { profile: profile.to_string(), types, weights, big_pct, cases, chunk_modes }
}

fn chunking(cfg: &Config, r: &mut Rng, heavy: bool) -> Chunking {
	let mut modes: Vec<u8> = (0..4).filter(|i| cfg.chunk_modes & (1 << i) != 0).collect();
	if heavy {
		// sweeps over large encodings: one byte per call would cost ~10^7 calls
		modes.retain(|m| *m != 1);
	}
	if modes.is_empty() {
		return Chunking::All;
	}
	match *r.pick(&modes) {
		0 => Chunking::All,
		1 => Chunking::One,
		2 => Chunking::Fixed(*r.pick(if heavy { &[64u16, 1000, 4096][..] } else { &[2u16, 3, 7, 33, 64, 4096][..] })),
		_ => Chunking::Random {
			seed: r.next_u64(),
			max: *r.pick(if heavy { &[256u16, 5000][..] } else { &[2u16, 4, 16, 256, 5000][..] }),
		},
	}
}

fn hexbytes(r: &mut Rng, n: usize) -> String {
	let mut b = vec![0u8; n];
	r.fill(&mut b);
	simcore::hex(&b)
}

/// A TLV type this message does not define.
fn unknown_type(r: &mut Rng, known: &[u64], odd: bool) -> u64 {
	for _ in 0..32 {
		let base = match r.below(6) {
			0 => r.range(0, 8),
			1 => r.range(0, 0xfc),
			2 => r.range(0xfd, 0xffff),
			3 => r.range(0x10000, 0xffff_ffff),
			4 => r.range(0x1_0000_0000, u64::MAX - 2),
			_ => r.range(65530, 110000),
		};
		let t = (base & !1) | (odd as u64);
		if !known.contains(&t) {
			return t;
		}
	}
	if odd {
		0xfffd
	} else {
		0xfffc
	}
}

pub fn next_action(cfg: &Config, r: &mut Rng) -> Action {
	let kind = r.weighted(&cfg.weights);
	let needs_tlv = matches!(kind, 6 | 7 | 8 | 12);
	let mut ty = *r.pick(&cfg.types);
	if needs_tlv {
		// prefer a type with a TLV tail (and, for rewrite/shuffle, with defined TLVs)
		for _ in 0..8 {
			let (tail, known) = type_info(ty);
			let ok = tail == Tail::Tlv && (kind == 6 || kind == 12 || !known.is_empty()) && (kind != 8 || known.len() >= 1);
			if ok {
				break;
			}
			ty = *r.pick(&cfg.types);
		}
	}
	if kind == 9 || kind == 10 {
		let list: &[u16] = if kind == 9 { HAS_PREFIX } else { HAS_RANGE_BYTE };
		for _ in 0..8 {
			if list.contains(&ty) {
				break;
			}
			ty = *r.pick(&cfg.types);
		}
	}
	let (_, known) = type_info(ty);
	let big = r.below(100) < cfg.big_pct as u64;
	let v = Val { ty, vseed: r.next_u64(), big };
	let sweep = matches!(kind, 1 | 2 | 3 | 4);
	let chunk = chunking(cfg, r, sweep && big);
	match kind {
		0 => Action::Clean { v, chunk, slack: r.range(0, 64) as u8 },
		1 => Action::Cut { v, mode: CutMode::Eof, offs: Offsets::Auto { seed: r.next_u64() }, chunk },
		2 => Action::Cut { v, mode: CutMode::Truncate, offs: Offsets::Auto { seed: r.next_u64() }, chunk },
		3 => {
			let k = *r.pick(&[ErrKind::Other, ErrKind::BrokenPipe, ErrKind::TimedOut, ErrKind::ConnectionReset]);
			Action::Cut { v, mode: CutMode::IoErr(k), offs: Offsets::Auto { seed: r.next_u64() }, chunk }
		},
		4 => Action::Mutate { v, offs: Offsets::Auto { seed: r.next_u64() }, mseed: r.next_u64(), bit_only: r.coin(), chunk },
		5 => {
			let n = r.range(1, 64) as usize;
			// bias towards bytes that look like TLV records: (type, len, value)
			let extra = match r.below(4) {
				0 => hexbytes(r, n),
				1 => {
					let t = unknown_type(r, known, true);
					let mut b = crate::tlvmodel::bigsize(t);
					let vl = r.range(0, 20) as usize;
					b.extend_from_slice(&crate::tlvmodel::bigsize(vl as u64));
					b.extend(std::iter::repeat(0xab).take(vl));
					simcore::hex(&b)
				},
				2 => {
					let t = unknown_type(r, known, false);
					let mut b = crate::tlvmodel::bigsize(t);
					b.push(0);
					simcore::hex(&b)
				},
				_ => simcore::hex(&vec![0u8; n]),
			};
			Action::Extend { v, extra, chunk }
		},
		6 => {
			let odd = r.chance(3, 5);
			let typ = unknown_type(r, known, odd);
			let vl = *r.pick(&[0usize, 0, 1, 2, 8, 33, 252, 253, 300]);
			let (tw, lw, claim) = match r.below(10) {
				0 => (*r.pick(&[3u8, 5, 9]), 0, None),
				1 => (0, *r.pick(&[3u8, 5, 9]), None),
				2 => (0, 0, Some(*r.pick(&[0xffffu64, 0x10000, 0xffff_ffff, 0x1_0000_0000, 1 << 40, u64::MAX - 1, u64::MAX]))),
				3 => (0, 0, Some(vl as u64 + 1 + r.below(5))),
				_ => (0, 0, None),
			};
			Action::TlvInsert { v, typ, val: hexbytes(r, vl), tw, lw, claim, chunk }
		},
		7 => {
			let field = r.below(2) as u8;
			let (w, claim) = if field == 1 && r.chance(1, 2) {
				(0, Some(*r.pick(&[0xfdu64, 0xffff, 0x10000, 0xffff_ffff, 0x1_0000_0000, 1 << 48, u64::MAX])))
			} else {
				(*r.pick(&[3u8, 5, 9]), None)
			};
			Action::TlvRewrite { v, rec: r.below(4) as u16, field, w, claim, chunk }
		},
		8 => Action::TlvShuffle { v, rec: r.below(4) as u16, dup: r.chance(1, 2), chunk },
		9 => {
			if r.chance(1, 3) {
				Action::Deflate { v, which: r.below(4) as u16, chunk }
			} else {
				Action::Inflate { v, which: r.below(4) as u16, plus_one: r.coin(), chunk }
			}
		},
		10 => Action::BadByte { v, which: r.below(8) as u16, chunk },
		11 => {
			let len = match r.below(6) {
				0 => r.range(0, 8),
				1 => r.range(0, 400),
				2 => r.range(0, 2000),
				3 => 65535,
				_ => r.range(30, 200),
			} as u32;
			let keep = if r.coin() { r.range(0, len as u64) as u32 } else { 0 };
			Action::Raw { v, nseed: r.next_u64(), len, keep, fill: *r.pick(&[0u8, 1, 2, 2, 2, 2]), chunk }
		},
		_ => {
			let typ = unknown_type(r, known, true);
			let k = *r.pick(&[ErrKind::Other, ErrKind::BrokenPipe, ErrKind::TimedOut, ErrKind::ConnectionReset]);
			Action::IoErrInSkippedTlv { v, typ, vlen: r.range(1, 300) as u16, at: r.next_u64() as u16, kind: k, chunk }
		},
	}
}
