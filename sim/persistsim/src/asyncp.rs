//! Part (c): MonitorUpdatingPersisterAsync (placeholder until the sync part is solid).

use serde_json::Value;
use simcore::{RunOutcome, Tier};

pub fn run(seed: u64, _tier: Tier) -> RunOutcome {
	RunOutcome::new("async", seed)
}

pub fn replay(_replay: &Value) -> RunOutcome {
	RunOutcome::new("async", 0)
}
