//! C12: persisted objects survive serialization — equality at every step, update before/after a
//! round trip, shadow read of the manager, and storage faults on the read path.

use crate::infra::*;
use crate::world::*;
use lightning::chain::channelmonitor::{ChannelMonitor, ChannelMonitorUpdate};
use lightning::chain::BlockLocator;
use lightning::io;
use lightning::ln::channelmanager::{ChannelManagerReadArgs, RecentPaymentDetails};
use lightning::ln::types::ChannelId;
use lightning::util::ser::{Readable, ReadableArgs, Writeable};
use simcore::runner::catch;
use std::collections::BTreeSet;
use std::sync::Arc;

/// Reader over stored bytes that delivers PRNG-free, deterministic chunks and fails at an offset.
pub struct FaultyReader<'a> {
	pub data: &'a [u8],
	pub pos: usize,
	/// EOF (short/torn write) at this offset
	pub eof_at: Option<usize>,
	/// io::Error at this offset
	pub err_at: Option<usize>,
	pub chunk: usize,
}

impl<'a> io::Read for FaultyReader<'a> {
	fn read(&mut self, buf: &mut [u8]) -> Result<usize, io::Error> {
		let mut end = self.data.len();
		if let Some(e) = self.eof_at {
			end = end.min(e);
		}
		if let Some(e) = self.err_at {
			if self.pos >= e {
				return Err(io::Error::new(io::ErrorKind::Other, "injected read error"));
			}
			end = end.min(e);
		}
		if self.pos >= end {
			return Ok(0);
		}
		let n = buf.len().min(self.chunk.max(1)).min(end - self.pos);
		buf[..n].copy_from_slice(&self.data[self.pos..self.pos + n]);
		self.pos += n;
		Ok(n)
	}
}

fn offsets(len: usize) -> Vec<usize> {
	if len <= 4096 {
		(0..len).collect()
	} else {
		// 512 offsets: a deterministic stride plus the edges
		let mut v: BTreeSet<usize> = BTreeSet::new();
		let step = (len / 480).max(1);
		let mut k = 0;
		while k < len {
			v.insert(k);
			k += step;
		}
		for e in 0..16 {
			v.insert(e.min(len - 1));
			v.insert(len - 1 - e.min(len - 1));
		}
		v.into_iter().collect()
	}
}

impl World {
	pub fn read_monitor(
		&self, n: usize, bytes: &[u8],
	) -> Result<Result<ChannelMonitor<SimSigner>, String>, (String, String)> {
		let keys = self.nodes[n].keys.clone();
		catch(|| {
			<(BlockLocator, ChannelMonitor<SimSigner>)>::read(&mut &bytes[..], (&*keys, &*keys))
				.map(|x| x.1)
				.map_err(|e| format!("{:?}", e))
		})
	}

	/// (a) every live monitor of node n: write, read, equal, re-write equal.
	pub fn roundtrip_monitors(&mut self, n: usize) {
		let mon = match self.nodes[n].live.as_ref() {
			Some(l) => l.monitor.clone(),
			None => return,
		};
		for cid in mon.list_monitors() {
			let bytes = match mon.get_monitor(cid) {
				Ok(m) => m.encode(),
				Err(_) => continue,
			};
			self.out.bump("oracle:C12-a monitor equals itself after write/read");
			match self.read_monitor(n, &bytes) {
				Ok(Ok(m2)) => {
					let same = match mon.get_monitor(cid) {
						Ok(m) => m.verif_eq(&m2),
						Err(_) => true,
					};
					if !same {
						self.violate(
							"C12",
							"C12-a monitor differs after write/read",
							format!("node {} channel {}: read(write(m)) != m (update id {})", n, cid, m2.get_latest_update_id()),
						);
					}
					// (byte equality of a second serialisation is not demanded: hash-map iteration
					// order depends on insertion history; a second round trip must still be equal)
					let again = m2.encode();
					if again.len() != bytes.len() {
						self.out.bump("probe:monitor_reserialised_with_other_length");
					}
					match self.read_monitor(n, &again) {
						Ok(Ok(m3)) => {
							if !m2.verif_eq(&m3) {
								self.violate(
									"C12",
									"C12-a monitor differs after a second write/read",
									format!("node {} channel {}", n, cid),
								);
							}
						},
						_ => self.violate(
							"C12",
							"C12-a re-serialised monitor does not read back",
							format!("node {} channel {}", n, cid),
						),
					}
					if !m2.get_claimable_balances().is_empty() {
						self.out.bump("probe:roundtrip_monitor_with_balances");
					}
				},
				Ok(Err(e)) => self.violate(
					"C12",
					"C12-a monitor does not read back",
					format!("node {} channel {}: {}", n, cid, e),
				),
				Err((m, l)) => self.violate(
					"C12",
					"C12-0 panic while reading a monitor",
					format!("node {} channel {}: {} at {}", n, cid, m, l),
				),
			}
		}
	}

	/// (b) the manager read back into a shadow: same observable state.
	pub fn roundtrip_manager(&mut self, n: usize) {
		let (mgr, mon) = match self.nodes[n].live.as_ref() {
			Some(l) => (l.manager.clone(), l.monitor.clone()),
			None => return,
		};
		if self.nodes[n].cfg.deferred {
			return;
		}
		// only at points where no monitor write is in flight (a legal snapshot + durable monitors)
		{
			let d = self.nodes[n].disk.lock().unwrap();
			if d.chans.values().any(|c| !c.completions.is_empty()) {
				return;
			}
		}
		let bytes = mgr.encode();
		let mut mons: Vec<(ChannelId, ChannelMonitor<SimSigner>)> = Vec::new();
		for cid in mon.list_monitors() {
			let b = match mon.get_monitor(cid) {
				Ok(m) => m.encode(),
				Err(_) => continue,
			};
			match self.read_monitor(n, &b) {
				Ok(Ok(m)) => mons.push((cid, m)),
				_ => return,
			}
		}
		self.out.bump("oracle:C12-b manager equals itself after write/read");
		let node = &self.nodes[n];
		let persister = Arc::new(SimPersister {
			disk: Arc::new(std::sync::Mutex::new(DiskState::default())),
			keys: Arc::clone(&node.keys),
			broadcaster: Arc::new(SimBroadcaster::new()),
		});
		let shadow_bcast = Arc::new(SimBroadcaster::new());
		let shadow_cm: Arc<SimChainMonitor> = Arc::new(lightning::chain::chainmonitor::ChainMonitor::new(
			None,
			Arc::clone(&shadow_bcast),
			Arc::clone(&node.logger),
			Arc::clone(&node.fee),
			Arc::clone(&persister),
			Arc::clone(&node.keys),
			lightning::sign::NodeSigner::get_peer_storage_key(&*node.keys),
			false,
		));
		let watch = Arc::new(WatchTap::new(Arc::clone(&shadow_cm)));
		let refs: Vec<&ChannelMonitor<SimSigner>> = mons.iter().map(|(_, m)| m).collect();
		let args = ChannelManagerReadArgs::new(
			Arc::clone(&node.keys),
			Arc::clone(&node.keys),
			Arc::clone(&node.keys),
			Arc::clone(&node.fee),
			Arc::clone(&watch),
			Arc::clone(&shadow_bcast),
			Arc::clone(&node.router),
			Arc::clone(&node.router),
			Arc::clone(&node.logger),
			node.user_cfg.clone(),
			refs,
		);
		let r = catch(|| <(BlockLocator, SimManager)>::read(&mut &bytes[..], args));
		let shadow = match r {
			Ok(Ok((_, m))) => m,
			Ok(Err(e)) => {
				self.violate(
					"C12",
					"C12-b manager does not read back",
					format!("node {}: {:?}", n, e),
				);
				return;
			},
			Err((m, l)) => {
				self.violate("C12", "C12-0 panic while reading a manager", format!("node {}: {} at {}", n, m, l));
				return;
			},
		};
		// observable state that does not depend on the connection
		let mut a: Vec<String> = mgr
			.list_channels()
			.iter()
			.map(|d| {
				let mut inb: Vec<(u64, u64)> = d.pending_inbound_htlcs.iter().map(|h| (h.htlc_id, h.amount_msat)).collect();
				inb.sort();
				format!(
					"{} {:?} {} {} {} {:?} {:?} {:?} {:?} {:?} in{:?}",
					d.channel_id,
					d.funding_txo,
					d.channel_value_satoshis,
					d.is_outbound,
					d.is_channel_ready,
					d.short_channel_id,
					d.unspendable_punishment_reserve,
					d.confirmations_required,
					d.force_close_spend_delay,
					d.inbound_htlc_minimum_msat,
					inb
				)
			})
			.collect();
		let mut b: Vec<String> = shadow
			.list_channels()
			.iter()
			.map(|d| {
				let mut inb: Vec<(u64, u64)> = d.pending_inbound_htlcs.iter().map(|h| (h.htlc_id, h.amount_msat)).collect();
				inb.sort();
				format!(
					"{} {:?} {} {} {} {:?} {:?} {:?} {:?} {:?} in{:?}",
					d.channel_id,
					d.funding_txo,
					d.channel_value_satoshis,
					d.is_outbound,
					d.is_channel_ready,
					d.short_channel_id,
					d.unspendable_punishment_reserve,
					d.confirmations_required,
					d.force_close_spend_delay,
					d.inbound_htlc_minimum_msat,
					inb
				)
			})
			.collect();
		// A channel whose funding output is already being spent (its ChannelMonitor allows no further
		// updates) is closed by ChannelManager::read straight away, while the live manager closes it
		// when it next handles the monitor's event: such channels are left out of the comparison.
		let mut closing: Vec<String> = Vec::new();
		for (ci, c) in self.chans.iter().enumerate() {
			let in_outbox = self.nodes[n]
				.broadcaster
				.outbox
				.lock()
				.unwrap()
				.iter()
				.any(|(tx, _)| tx.input.iter().any(|i| i.previous_output == c.funding));
			let spent = !self.chain.utxos.contains_key(&c.funding)
				|| self.chain.mempool.iter().any(|t| t.input.iter().any(|i| i.previous_output == c.funding));
			if in_outbox || spent {
				closing.push(format!("{}", c.channel_id));
				let _ = ci;
			}
		}
		a.retain(|x| !closing.iter().any(|c| x.starts_with(c.as_str())));
		b.retain(|x| !closing.iter().any(|c| x.starts_with(c.as_str())));
		a.sort();
		b.sort();
		// inbound HTLCs the peer announced but never committed are dropped by the implied
		// disconnection; compare only when the live node has none of those
		let uncommitted = mgr.list_channels().iter().any(|d| {
			d.pending_inbound_htlcs.iter().any(|h| {
				matches!(
					h.state,
					Some(lightning::ln::channel_state::InboundHTLCStateDetails::AwaitingRemoteRevokeToAdd)
				)
			})
		});
		if a != b && !uncommitted {
			self.violate(
				"C12",
				"C12-b manager shows different channels after write/read",
				format!("node {}: original {:?} / read back {:?}", n, a, b),
			);
		}
		// pending events and the completion actions attached to them (hooks H6/H7): reading back may
		// add events (what start-up regenerates from the monitors), it never loses or reorders one
		// of the original's, nor its action
		{
			let render = |m: &SimManager| -> Vec<String> {
				let evs = m.verif_pending_events();
				let acts = m.verif_pending_event_actions();
				evs.iter().zip(acts.iter()).map(|(e, a)| format!("{:?} / action {:?}", e, a)).collect()
			};
			let (ea, eb) = (render(&mgr), render(&shadow));
			self.out.bump("oracle:C12-b pending events and their actions survive write/read");
			if ea.iter().any(|x| x.contains("action Some")) {
				self.out.bump("probe:roundtrip_manager_with_event_completion_action");
				if ea.iter().any(|x| x.contains("action None")) {
					self.out.bump("probe:roundtrip_manager_with_mixed_event_queue");
				}
			}
			let mut j = 0;
			let mut missing = None;
			for x in ea.iter() {
				while j < eb.len() && &eb[j] != x {
					j += 1;
				}
				if j >= eb.len() {
					missing = Some(x.clone());
					break;
				}
				j += 1;
			}
			if let Some(x) = missing {
				let short = |v: &Vec<String>| -> Vec<String> { v.iter().map(|s| s.chars().take(160).collect()).collect() };
				self.violate(
					"C12",
					"C12-b manager loses a pending event or its completion action after write/read",
					format!("node {}: {} is not (in order) in the read-back queue; original {:?} / read back {:?}", n, x.chars().take(300).collect::<String>(), short(&ea), short(&eb)),
				);
			}
		}
		// balances, limits and outbound HTLCs of channels whose HTLCs are all committed on both sides
		// (nothing for the implied disconnection to drop or to hold back)
		{
			use lightning::ln::channel_state::{InboundHTLCStateDetails as I, OutboundHTLCStateDetails as O};
			let row = |d: &lightning::ln::channel_state::ChannelDetails| -> Option<(String, String)> {
				let quiet = d.pending_inbound_htlcs.iter().all(|h| matches!(h.state, Some(I::Committed)))
					&& d.pending_outbound_htlcs.iter().all(|h| matches!(h.state, Some(O::Committed)));
				if !quiet || !d.is_channel_ready {
					return None;
				}
				let mut outb: Vec<(Option<u64>, u64, u32)> =
					d.pending_outbound_htlcs.iter().map(|h| (h.htlc_id, h.amount_msat, h.cltv_expiry)).collect();
				outb.sort();
				Some((
					format!("{}", d.channel_id),
					format!(
						"out_cap {} in_cap {} next_out_max {} next_out_min {} feerate {:?} out{:?}",
						d.outbound_capacity_msat,
						d.inbound_capacity_msat,
						d.next_outbound_htlc_limit_msat,
						d.next_outbound_htlc_minimum_msat,
						d.feerate_sat_per_1000_weight,
						outb
					),
				))
			};
			let la: Vec<(String, String)> = mgr.list_channels().iter().filter_map(|d| row(d)).collect();
			let lb: Vec<(String, String)> = shadow.list_channels().iter().filter_map(|d| row(d)).collect();
			// an update_add_htlc the peer has sent but not yet signed for (RemoteAnnounced on this side)
			// is invisible in ChannelDetails and omitted by write(): only channels on which neither
			// side has an unsigned update on the wire are compared
			let mut noisy: Vec<String> = Vec::new();
			for (ci, c) in self.chans.iter().enumerate() {
				let l = &self.ledgers[ci];
				let queued = self.queues.get(&(c.a, c.b)).map(|q| !q.is_empty()).unwrap_or(false)
					|| self.queues.get(&(c.b, c.a)).map(|q| !q.is_empty()).unwrap_or(false);
				if queued || l.disabled || !l.have_params || !l.sides[0].pending.is_empty() || !l.sides[1].pending.is_empty() {
					noisy.push(format!("{}", c.channel_id));
				}
			}
			for (id, x) in la.iter() {
				if closing.contains(id) || noisy.contains(id) {
					continue;
				}
				if let Some((_, y)) = lb.iter().find(|(i, _)| i == id) {
					self.out.bump("oracle:C12-b balances and limits survive write/read");
					if x != y {
						self.violate(
							"C12",
							"C12-b manager shows different balances or limits after write/read",
							format!("node {} channel {}: original {} / read back {}", n, id, x, y),
						);
					}
				}
			}
		}
		let pay = |m: &SimManager| -> Vec<String> {
			let mut v: Vec<String> = m
				.list_recent_payments()
				.iter()
				.map(|p| match p {
					RecentPaymentDetails::Pending { payment_id, payment_hash, total_msat, .. } => {
						format!("pending {} {} {}", payment_id, payment_hash, total_msat)
					},
					RecentPaymentDetails::Fulfilled { payment_id, payment_hash, .. } => {
						format!("fulfilled {} {:?}", payment_id, payment_hash)
					},
					RecentPaymentDetails::Abandoned { payment_id, payment_hash, .. } => {
						format!("abandoned {} {}", payment_id, payment_hash)
					},
					RecentPaymentDetails::AwaitingInvoice { payment_id } => format!("awaiting {}", payment_id),
				})
				.collect();
			v.sort();
			v
		};
		let (pa, pb) = (pay(&mgr), pay(&shadow));
		// Reading back implies a disconnection: a payment whose HTLCs were not yet committed is
		// failed by it, so a pending payment may be gone; nothing may appear or change otherwise.
		// ChannelManager::read also takes preimages straight from the ChannelMonitors, which the live
		// manager only learns at its next round of monitor events: pending -> fulfilled with the same
		// payment id is the read-back copy being ahead, not a different object.
		let ahead = |x: &String| -> bool {
			if let Some(rest) = x.strip_prefix("fulfilled ") {
				let id = rest.split(' ').next().unwrap_or("");
				return pa.iter().any(|y| y.starts_with(&format!("pending {} ", id)));
			}
			// likewise pending -> abandoned: the read-back copy has already failed the HTLCs the
			// implied disconnection drops (or an on-chain failure its monitors replay) and only
			// waits for its PaymentFailed event to be handled
			if let Some(rest) = x.strip_prefix("abandoned ") {
				let id = rest.split(' ').next().unwrap_or("");
				return pa.iter().any(|y| y.starts_with(&format!("pending {} ", id)));
			}
			false
		};
		let appeared: Vec<&String> = pb.iter().filter(|x| !pa.contains(x) && !ahead(x)).collect();
		// (an abandoned payment that only waited for such uncommitted HTLCs is completed by the same
		// disconnection and leaves the list as well)
		let lost: Vec<&String> = pa
			.iter()
			.filter(|x| !pb.contains(x) && !x.starts_with("pending") && !x.starts_with("abandoned"))
			.collect();
		if !appeared.is_empty() || !lost.is_empty() {
			self.violate(
				"C12",
				"C12-b manager shows different payments after write/read",
				format!("node {}: original {:?} / read back {:?}", n, pa, pb),
			);
		}
		if !pa.is_empty() {
			self.out.bump("probe:roundtrip_manager_with_pending_payments");
		}
	}

	/// (c) storage faults on the read path of every durable blob of node n.
	pub fn read_faults(&mut self, n: usize) {
		let blobs: Vec<([u8; 32], Vec<u8>)> = {
			let d = self.nodes[n].disk.lock().unwrap();
			d.chans.iter().filter_map(|(k, c)| c.durable.as_ref().map(|(_, b)| (*k, b.clone()))).collect()
		};
		let keys = self.nodes[n].keys.clone();
		for (k, bytes) in blobs {
			for off in offsets(bytes.len()) {
				for mode in 0..2 {
					self.out.bump("oracle:C12-c truncated or failing read is refused");
					self.out.bump(if mode == 0 { "fault:stored_bytes_truncated" } else { "fault:read_io_error" });
					let chunk = 1 + (off % 97);
					let r = catch(|| {
						let mut rd = FaultyReader {
							data: &bytes[..],
							pos: 0,
							eof_at: if mode == 0 { Some(off) } else { None },
							err_at: if mode == 1 { Some(off) } else { None },
							chunk,
						};
						<(BlockLocator, ChannelMonitor<SimSigner>)>::read(&mut rd, (&*keys, &*keys)).is_ok()
					});
					match r {
						Ok(false) => {},
						Ok(true) => self.violate(
							"C12",
							"C12-c truncated monitor accepted",
							format!(
								"node {} channel {}: {} of {} bytes ({}) deserialised successfully",
								n,
								simcore::hex(&k[..4]),
								off,
								bytes.len(),
								if mode == 0 { "short read" } else { "read error" }
							),
						),
						Err((m, l)) => self.violate(
							"C12",
							"C12-0 panic while reading damaged bytes",
							format!("node {} channel {} offset {} of {}: {} at {}", n, simcore::hex(&k[..4]), off, bytes.len(), m, l),
						),
					}
				}
			}
			// single bit flips: never a panic (an undetected flip inside a value is outside what a
			// format without checksums can promise)
			for off in offsets(bytes.len()).into_iter().step_by(3) {
				let mut b2 = bytes.clone();
				b2[off] ^= 1 << (off % 8);
				self.out.bump("fault:stored_bit_flip");
				let r = catch(|| {
					<(BlockLocator, ChannelMonitor<SimSigner>)>::read(&mut &b2[..], (&*keys, &*keys)).is_ok()
				});
				if let Err((m, l)) = r {
					// ChannelMonitor::read re-serialises the holder commitment data under
					// cfg(debug_assertions) to cross-check it; on corrupted input that self-check
					// itself asserts. Debug-only code, absent from release builds: not a finding.
					let debug_selfcheck = l.contains("chain/channelmonitor.rs")
						&& (m.contains("Every offered non-dust HTLC should have a corresponding source")
							|| m.contains("sources.next().is_none()"));
					if debug_selfcheck {
						self.out.bump("probe:bit_flip_tripped_debug_only_selfcheck");
						continue;
					}
					self.violate(
						"C12",
						"C12-0 panic while reading damaged bytes",
						format!("node {} channel {} bit flip at {}: {} at {}", n, simcore::hex(&k[..4]), off, m, l),
					);
				}
			}
			// ChannelMonitorUpdate blobs seen at the Watch seam are covered in scan_watch_log
		}
	}

	pub fn check_update_roundtrip(&mut self, n: usize, bytes: &[u8]) {
		self.out.bump("oracle:C12-a monitor update equals itself after write/read");
		let r = catch(|| ChannelMonitorUpdate::read(&mut &bytes[..]).map(|u| u.encode()));
		match r {
			Ok(Ok(b2)) => {
				if b2 != bytes {
					self.violate(
						"C12",
						"C12-a monitor update re-serialises differently",
						format!("node {}: {} vs {} bytes", n, b2.len(), bytes.len()),
					);
				}
			},
			Ok(Err(e)) => self.violate(
				"C12",
				"C12-a monitor update does not read back",
				format!("node {}: {:?}", n, e),
			),
			Err((m, l)) => self.violate(
				"C12",
				"C12-0 panic while reading a monitor update",
				format!("node {}: {} at {}", n, m, l),
			),
		}
	}
}
