//! C08: HTLC deadlines. Profile `deadlines` lets the chain run past HTLC expiries while a peer is
//! gone for good or cut off from the network, under the environment the property assumes: every
//! responsive node sees each block as it is mined, responsive connected peers exchange what they
//! have to say within a block, disks complete their writes within a block, and broadcast
//! transactions confirm in the next block (T1-T3 instantiated at one block).

use crate::world::*;
use lightning::ln::channel_state::{InboundHTLCDetails, OutboundHTLCDetails};
use std::collections::BTreeMap;

/// LDK's documented constants (ln/channelmanager.rs, chain/channelmonitor.rs)
pub const LATENCY_GRACE_PERIOD_BLOCKS: u32 = 3;
pub const CLTV_CLAIM_BUFFER: u32 = 36;

#[derive(Clone, Debug, Default)]
pub struct HtlcView {
	/// (outbound?, cltv_expiry, payment hash, known to a commitment transaction?)
	pub htlcs: Vec<(bool, u32, [u8; 32], bool)>,
	pub height: u32,
}

impl World {
	pub fn do_partition(&mut self, n: usize) -> bool {
		if n >= self.nodes.len() || self.partitioned.contains(&n) || self.nodes[n].live.is_none() {
			return false;
		}
		self.partitioned.insert(n);
		self.ever_unresponsive.insert(n);
		self.out.bump("fault:peer_partitioned");
		for p in 0..self.nodes.len() {
			if p != n && (self.is_conn(n, p) || self.is_conn(p, n)) {
				self.do_disconnect(n, p, 0);
			}
		}
		self.note(&format!("node {} cut off from its peers", n));
		true
	}

	pub fn do_heal(&mut self, n: usize) -> bool {
		if !self.partitioned.remove(&n) {
			return false;
		}
		self.out.bump("fault:partition_healed");
		self.note(&format!("node {} reachable again", n));
		true
	}

	pub fn do_gone(&mut self, n: usize) -> bool {
		if n >= self.nodes.len() || self.nodes[n].live.is_none() || self.nodes.iter().filter(|x| x.gone).count() >= 1 {
			return false;
		}
		self.complete_all_monitor_writes(n);
		if !self.do_crash(n, &vec![0u8; 8]) {
			return false;
		}
		self.nodes[n].gone = true;
		self.ever_unresponsive.insert(n);
		self.out.bump("fault:peer_gone_for_good");
		self.note(&format!("node {} gone for good", n));
		true
	}

	/// May x and y talk to each other right now?
	pub fn reachable(&self, x: usize, y: usize) -> bool {
		!self.partitioned.contains(&x)
			&& !self.partitioned.contains(&y)
			&& self.nodes[x].live.is_some()
			&& self.nodes[y].live.is_some()
	}

	/// One block at a time: mine, tell every live node, let disks finish, let responsive peers
	/// talk, let applications handle events and relay transactions; then check the deadlines.
	pub fn do_mine_paced(&mut self, count: u32) -> bool {
		let n_nodes = self.nodes.len();
		for _ in 0..count {
			if self.dead {
				break;
			}
			// T3 (downtime bound): a crashed node is back within two blocks, long before any deadline
			// of its own could pass while it is down
			let h = self.chain.tip_height();
			for n in 0..n_nodes {
				if self.nodes[n].live.is_none() && !self.nodes[n].gone {
					match self.nodes[n].down_since {
						None => self.nodes[n].down_since = Some(h),
						Some(d) if h >= d + 2 => {
							self.do_restart(n, 0);
							self.nodes[n].down_since = None;
						},
						_ => {},
					}
				} else {
					self.nodes[n].down_since = None;
				}
			}
			self.do_mine(1);
			for n in 0..n_nodes {
				self.do_sync(n, 255);
			}
			for _round in 0..6 {
				let mut progress = false;
				for n in 0..n_nodes {
					// the background processor persists the manager (which also flushes a deferred
					// ChainMonitor) and the disk finishes its writes well within a block
					progress |= self.complete_all_monitor_writes(n);
					self.do_persist_mgr(n);
					progress |= self.complete_all_monitor_writes(n);
				}
				let pairs: Vec<(usize, usize)> = self.conn.keys().filter(|(a, b)| a < b).cloned().collect();
				for (a, b) in pairs {
					if !self.reachable(a, b) {
						continue;
					}
					if self.is_conn(a, b) != self.is_conn(b, a) {
						self.do_disconnect(a, b, 0);
					}
					if !self.is_conn(a, b) && !self.is_conn(b, a) {
						progress |= self.do_reconnect(a, b);
					}
				}
				for n in 0..n_nodes {
					progress |= self.do_pump(n);
				}
				let keys: Vec<(usize, usize)> = self.queues.keys().cloned().collect();
				for (f, t) in keys {
					if !self.reachable(f, t) {
						continue;
					}
					while self.do_deliver(f, t) {
						progress = true;
					}
				}
				for n in 0..n_nodes {
					progress |= self.do_drain(n);
					self.do_forward(n);
					progress |= self.do_pump(n);
					// with crashes enabled the broadcaster is sometimes a block late, so that a crash
					// can fall between a broadcast and its relay
					let slow = *self.cfg.weights.get("Crash").unwrap_or(&0) > 0
						&& (self.chain.tip_height() as usize + n) % 3 == 0;
					if !slow {
						progress |= self.do_relay(n);
					}
				}
				if !progress || self.dead {
					break;
				}
			}
			if !self.dead {
				self.deadline_oracles();
			}
		}
		true
	}

	/// Records, per (node, channel), the HTLCs the node's manager shows (used when a later
	/// ChannelClosed event says "HTLCs timed out").
	pub fn record_htlc_views(&mut self) {
		for n in 0..self.nodes.len() {
			let mgr = match self.mgr(n) {
				Some(m) => m,
				None => continue,
			};
			let h = self.nodes[n].synced_height;
			for d in mgr.list_channels() {
				let ci = match self.chans.iter().position(|c| c.channel_id == d.channel_id) {
					Some(c) => c,
					None => continue,
				};
				let mut v = HtlcView { htlcs: Vec::new(), height: h };
				for o in d.pending_outbound_htlcs.iter() {
					let o: &OutboundHTLCDetails = o;
					v.htlcs.push((true, o.cltv_expiry, o.payment_hash.0, o.state.is_some()));
				}
				for i in d.pending_inbound_htlcs.iter() {
					let i: &InboundHTLCDetails = i;
					v.htlcs.push((false, i.cltv_expiry, i.payment_hash.0, i.state.is_some()));
				}
				self.htlc_views.insert((n, ci), v);
			}
		}
	}

	fn funding_spend_known(&self, ci: usize) -> bool {
		let f = self.chans[ci].funding;
		!self.chain.utxos.contains_key(&f)
			|| self.chain.mempool.iter().any(|t| t.input.iter().any(|i| i.previous_output == f))
	}

	/// C08-3: after a block has been fully processed, no channel a node still treats as open
	/// carries an HTLC past the height at which the node must have gone on chain.
	pub fn deadline_oracles(&mut self) {
		let h = self.chain.tip_height();
		for n in 0..self.nodes.len() {
			let mgr = match self.mgr(n) {
				Some(m) => m,
				None => continue,
			};
			if self.nodes[n].synced_height != h {
				continue;
			}
			let mut found: Vec<String> = Vec::new();
			for d in mgr.list_channels() {
				let ci = match self.chans.iter().position(|c| c.channel_id == d.channel_id) {
					Some(c) => c,
					None => continue,
				};
				if self.funding_spend_known(ci) {
					continue;
				}
				self.out.bump("oracle:C08-3 on chain in time");
				for o in d.pending_outbound_htlcs.iter() {
					if o.state.is_some() && o.cltv_expiry + LATENCY_GRACE_PERIOD_BLOCKS <= h {
						found.push(format!(
							"channel {} still open at height {} with an outbound HTLC that expired at {}",
							ci, h, o.cltv_expiry
						));
					}
					if o.state.is_some() && o.cltv_expiry + LATENCY_GRACE_PERIOD_BLOCKS == h + 1 {
						self.out.bump("probe:outbound_htlc_one_block_before_forced_close");
					}
				}
				for i in d.pending_inbound_htlcs.iter() {
					// the recipient's application has released the preimage to the library
					let claimed = self.pays.iter().any(|p| {
						p.hash == i.payment_hash
							&& p.to == n && p.claim_called.is_some()
							&& p.claim_incarnation == Some(self.nodes[n].incarnation)
							// a claim at or after the deadline comes too late: the node has failed the
							// payment back itself and claim_funds does nothing
							&& matches!((p.claim_height, p.claim_deadline), (Some(c), Some(d)) if c < d)
					});
					if claimed && i.state.is_some() && i.cltv_expiry <= h + CLTV_CLAIM_BUFFER {
						// the claim may simply be on its way off-chain: only a claim that was made at
						// least one fully processed block ago and is still unresolved counts
						let old = self.pays.iter().any(|p| {
							p.hash == i.payment_hash && p.claim_height.map(|ch| ch + 1 < h).unwrap_or(false)
						});
						if old {
							found.push(format!(
								"channel {} still open at height {} with a claimed inbound HTLC expiring at {}",
								ci, h, i.cltv_expiry
							));
						}
					}
				}
			}
			for f in found {
				self.violate(
					"C08",
					"C08-3 node did not go on chain in time",
					format!("node {}: {}", n, f),
				);
			}
		}
	}

	/// C08-4: a channel closed because "HTLCs timed out" really had an HTLC at its deadline.
	pub fn oracle_on_timeout_close(&mut self, n: usize, ci: usize) {
		self.out.bump("oracle:C08-4 timeout close is justified");
		self.out.bump("probe:channel_closed_for_htlc_timeout");
		let h = self.nodes[n].synced_height;
		let view = match self.htlc_views.get(&(n, ci)) {
			Some(v) => v.clone(),
			None => return,
		};
		// every update_add_htlc ever delivered on this channel, from the wire (the manager's own list
		// omits HTLCs it has already removed locally but which a commitment transaction still holds)
		let mut on_wire: Vec<(bool, u32)> = self
			.oracle
			.adds_by_chan
			.get(&ci)
			.map(|v| v.iter().map(|(sender, cltv)| (*sender == n, *cltv)).collect())
			.unwrap_or_default();
		// plus whatever the manager itself listed when last asked (HTLCs it has signed for but whose
		// update_add_htlc never left the node because the peer disconnected first)
		for (outbound, expiry, _, _) in view.htlcs.iter() {
			on_wire.push((*outbound, *expiry));
		}
		let justified = on_wire.iter().any(|(outbound, expiry)| {
			if *outbound {
				expiry + LATENCY_GRACE_PERIOD_BLOCKS <= h
			} else {
				*expiry <= h + CLTV_CLAIM_BUFFER
			}
		});
		if !justified {
			self.violate(
				"C08",
				"C08-4 channel closed for an HTLC timeout before any deadline",
				format!(
					"node {} closed channel {} with reason HTLCsTimedOut at height {}; HTLCs ever added on it (outbound, expiry): {:?}",
					n,
					ci,
					h,
					on_wire
				),
			);
		}
		// C08-5: a timeout on a channel whose two peers were both responsive all along
		let c = self.chans[ci].clone();
		let both_fine = [c.a, c.b].iter().all(|x| {
			!self.ever_unresponsive.contains(x) && self.nodes[*x].incarnation == 0 && self.nodes[*x].live.is_some()
		});
		self.out.bump("oracle:C08-5 channel between responsive peers never times out");
		if both_fine && self.cfg.profile == "deadlines" {
			self.violate(
				"C08",
				"C08-5 channel between two responsive peers closed for an HTLC timeout",
				format!(
					"node {} closed channel {} (peers {} and {}, both connected and responsive throughout) with reason HTLCsTimedOut at height {}; HTLCs (outbound, expiry): {:?}",
					n,
					ci,
					c.a,
					c.b,
					h,
					view.htlcs.iter().map(|x| (x.0, x.1)).collect::<Vec<_>>()
				),
			);
		}
	}

	/// C08-2 / C04-3: a claim made strictly below the advertised deadline is honoured.
	pub fn claim_window_oracle(&mut self) {
		let pays = self.pays.clone();
		for p in pays.iter() {
			let (ch, dl) = match (p.claim_height, p.claim_deadline) {
				(Some(c), Some(d)) => (c, d),
				_ => continue,
			};
			if p.claim_incarnation != Some(self.nodes[p.to].incarnation) || self.nodes[p.to].gone {
				continue;
			}
			self.out.bump("oracle:C08-2 claim below the deadline is honoured");
			if ch + 1 == dl {
				self.out.bump("probe:claimed_one_block_below_deadline");
			}
			if ch < dl && p.ev.claimed.is_empty() {
				self.violate(
					"C08",
					"C08-2 claim below the advertised deadline was not honoured",
					format!(
						"pay {}: node {} called claim_funds at height {} with claim_deadline {} and never saw PaymentClaimed",
						p.idx, p.to, ch, dl
					),
				);
			}
		}
	}
}

pub type HtlcViews = BTreeMap<(usize, usize), HtlcView>;
