//! A single-threaded executor: polls one future to completion with a no-op waker. The source's
//! futures become ready after a chosen number of polls, so busy polling is all that is needed.

use std::future::Future;
use std::pin::pin;
use std::task::{Context, Poll, RawWaker, RawWakerVTable, Waker};

fn vt_clone(_: *const ()) -> RawWaker {
	RawWaker::new(std::ptr::null(), &VTABLE)
}
fn vt_noop(_: *const ()) {}
static VTABLE: RawWakerVTable = RawWakerVTable::new(vt_clone, vt_noop, vt_noop, vt_noop);

fn noop_waker() -> Waker {
	// SAFETY: the vtable functions do nothing and never dereference the data pointer.
	unsafe { Waker::from_raw(RawWaker::new(std::ptr::null(), &VTABLE)) }
}

/// Returns the output and the number of times the future returned `Pending`; `None` if the future
/// did not complete within `max_polls` (a harness error: the sim's futures always complete).
pub fn block_on<F: Future>(fut: F, max_polls: u64) -> (Option<F::Output>, u64) {
	let waker = noop_waker();
	let mut cx = Context::from_waker(&waker);
	let mut fut = pin!(fut);
	let mut pendings = 0u64;
	loop {
		match fut.as_mut().poll(&mut cx) {
			Poll::Ready(v) => return (Some(v), pendings),
			Poll::Pending => {
				pendings += 1;
				if pendings > max_polls {
					return (None, pendings);
				}
			},
		}
	}
}
