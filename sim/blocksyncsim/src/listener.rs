//! `RecordingListener`: a `chain::Listen` that only records what it is told. The world replays the
//! record against its own stack model after every action.

use bitcoin::block::{Block, Header};
use bitcoin::hashes::Hash;
use bitcoin::BlockHash;
use lightning::chain::transaction::TransactionData;
use lightning::chain::{BlockLocator, Listen};
use std::sync::Mutex;

#[derive(Clone, Debug, PartialEq, Eq)]
pub enum Ev {
	Connected {
		header: Header,
		height: u32,
		/// delivered through `block_connected` (full block) rather than `filtered_block_connected`
		full: bool,
		ntx: usize,
		/// FNV over the txids delivered
		tx_fp: u64,
	},
	Disconnected {
		hash: BlockHash,
		height: u32,
	},
}

pub struct RecListener {
	pub evs: Mutex<Vec<Ev>>,
}

impl RecListener {
	pub fn new() -> RecListener {
		RecListener { evs: Mutex::new(Vec::new()) }
	}
	pub fn take_from(&self, from: usize) -> Vec<Ev> {
		let g = match self.evs.lock() {
			Ok(g) => g,
			Err(p) => p.into_inner(),
		};
		g[from.min(g.len())..].to_vec()
	}
	pub fn len(&self) -> usize {
		match self.evs.lock() {
			Ok(g) => g.len(),
			Err(p) => p.into_inner().len(),
		}
	}
	fn push(&self, e: Ev) {
		match self.evs.lock() {
			Ok(mut g) => g.push(e),
			Err(p) => p.into_inner().push(e),
		}
	}
}

pub fn txids_fp<'a>(it: impl Iterator<Item = &'a bitcoin::Transaction>) -> (usize, u64) {
	let mut fp = 0xcbf29ce484222325u64;
	let mut n = 0;
	for tx in it {
		fp = simcore::fnv_extend(fp, tx.compute_txid().as_byte_array());
		n += 1;
	}
	(n, fp)
}

impl Listen for RecListener {
	fn filtered_block_connected(&self, header: &Header, txdata: &TransactionData, height: u32) {
		let (ntx, tx_fp) = txids_fp(txdata.iter().map(|(_, tx)| *tx));
		self.push(Ev::Connected { header: *header, height, full: false, ntx, tx_fp });
	}

	fn block_connected(&self, block: &Block, height: u32) {
		let (ntx, tx_fp) = txids_fp(block.txdata.iter());
		self.push(Ev::Connected { header: block.header, height, full: true, ntx, tx_fp });
	}

	fn blocks_disconnected(&self, fork_point_block: BlockLocator) {
		self.push(Ev::Disconnected {
			hash: fork_point_block.block_hash,
			height: fork_point_block.height,
		});
	}
}

/// What the `SpvClient` notifies: every listener of the client, in order.
pub struct FanOut {
	pub listeners: Vec<std::sync::Arc<RecListener>>,
}

impl Listen for FanOut {
	fn filtered_block_connected(&self, header: &Header, txdata: &TransactionData, height: u32) {
		for l in self.listeners.iter() {
			l.filtered_block_connected(header, txdata, height);
		}
	}
	fn block_connected(&self, block: &Block, height: u32) {
		for l in self.listeners.iter() {
			l.block_connected(block, height);
		}
	}
	fn blocks_disconnected(&self, fork_point_block: BlockLocator) {
		for l in self.listeners.iter() {
			l.blocks_disconnected(fork_point_block);
		}
	}
}
