//! Trace minimisation: ddmin over the `trace` array of a replay object. A candidate is accepted
//! only if replaying it fails the *same* `(property, oracle)`.

use crate::runner::run_isolated;
use crate::{RunOutcome, Sim};
use serde_json::Value;
use std::time::{Duration, Instant};

/// The context tag an oracle appends to its message ("[...]": which recognised history this is),
/// shortened so that numbers inside it do not matter. Known findings are matched on these tags, so
/// a minimised trace must keep the tag (or the absence of one) of the original failure.
pub fn context_tag(message: &str) -> String {
	match message.find(" [") {
		Some(i) => message[i + 2..].chars().take(40).collect(),
		None => String::new(),
	}
}

fn fails_same_tag(
	sim: &dyn Sim, replay: &Value, property: &str, oracle: &str, tag: Option<&str>,
) -> Option<RunOutcome> {
	let out = run_isolated(|| sim.replay(replay));
	if out.violations.iter().any(|v| {
		v.property == property && v.oracle == oracle && tag.map(|t| context_tag(&v.message) == t).unwrap_or(true)
	}) {
		Some(out)
	} else {
		None
	}
}

fn with_trace(replay: &Value, trace: &[Value]) -> Value {
	let mut r = replay.clone();
	r["trace"] = Value::Array(trace.to_vec());
	r
}

/// Returns the minimised replay object and the number of replays spent.
/// `wall_budget` only bounds how far minimisation goes; any result is a valid failing replay.
pub fn shrink(
	sim: &dyn Sim, replay: &Value, property: &str, oracle: &str, wall_budget: Duration,
) -> (Value, u64) {
	let start = Instant::now();
	let mut spent = 0u64;
	let mut trace: Vec<Value> = match replay.get("trace").and_then(|t| t.as_array()) {
		Some(t) => t.clone(),
		None => return (replay.clone(), 0),
	};
	// First make sure the literal replay fails at all (it should: same actions, no PRNG).
	spent += 1;
	let tag: String = match fails_same_tag(sim, &with_trace(replay, &trace), property, oracle, None) {
		Some(out) => out
			.violations
			.iter()
			.find(|v| v.property == property && v.oracle == oracle)
			.map(|v| context_tag(&v.message))
			.unwrap_or_default(),
		None => return (replay.clone(), spent),
	};
	let fails_same = |sim: &dyn Sim, r: &Value, p: &str, o: &str| fails_same_tag(sim, r, p, o, Some(tag.as_str()));
	// Truncate after the failing step: everything after the first failure is irrelevant.
	let mut n = 2usize;
	while trace.len() >= 2 && start.elapsed() < wall_budget {
		let chunk = (trace.len() + n - 1) / n;
		let mut reduced = false;
		let mut i = 0;
		while i < trace.len() && start.elapsed() < wall_budget {
			let end = (i + chunk).min(trace.len());
			let mut cand = Vec::with_capacity(trace.len() - (end - i));
			cand.extend_from_slice(&trace[..i]);
			cand.extend_from_slice(&trace[end..]);
			spent += 1;
			if !cand.is_empty()
				&& fails_same(sim, &with_trace(replay, &cand), property, oracle).is_some()
			{
				trace = cand;
				n = (n - 1).max(2);
				reduced = true;
				// stay at same i: the next chunk moved into this position
			} else {
				i = end;
			}
		}
		if !reduced {
			if chunk <= 1 {
				break;
			}
			n = (n * 2).min(trace.len());
		}
	}
	(with_trace(replay, &trace), spent)
}
