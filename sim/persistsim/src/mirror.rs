//! The persister under test and the reference model around it.
//!
//! A `Mirror` is the storage side of one simulated node: the REAL
//! `lightning::util::persist::MonitorUpdatingPersister` over a `SimKv`, fed with exactly the
//! `persist_new_channel` / `update_persisted_channel` calls the node's `ChainMonitor` made
//! (update bytes + the serialised in-memory monitor handed to the call), plus
//! `cleanup_stale_updates`, `archive_persisted_channel`, restarts of the persister, store syncs
//! and injected store errors. After every call the crash states at every store-operation
//! boundary inside the call are recovered with a fresh persister and checked against the model.

use crate::kv::{join, OpKind, SimKv, Snapshot, Val};
use bitcoin::{ScriptBuf, Transaction};
use lightning::chain::channelmonitor::{ChannelMonitor, ChannelMonitorUpdate};
use lightning::chain::chainmonitor::Persist;
use lightning::chain::{BlockLocator, ChannelMonitorUpdateStatus};
use lightning::ln::script::ShutdownScript;
use lightning::sign::{EntropySource, SignerProvider};
use lightning::util::dyn_signer::DynSigner;
use lightning::util::persist::{
	MonitorUpdatingPersister, ARCHIVED_CHANNEL_MONITOR_PERSISTENCE_PRIMARY_NAMESPACE,
	CHANNEL_MONITOR_PERSISTENCE_PRIMARY_NAMESPACE,
	CHANNEL_MONITOR_UPDATE_PERSISTENCE_PRIMARY_NAMESPACE,
	MONITOR_UPDATING_PERSISTER_PREPEND_SENTINEL,
};
use lightning::util::ser::{Readable, ReadableArgs, Writeable};
use lightning::util::test_channel_signer::{EnforcementState, TestChannelSigner};
use lnsim::chain::ChainModel;
use lnsim::infra::{SignerLog, SimBroadcaster, SimFee, SimKeys, SimLogger, SimSigner};
use simcore::runner::catch;
use simcore::{fnv, fnv_extend, RunOutcome};
use std::collections::BTreeMap;
use std::sync::atomic::{AtomicU64, Ordering};
use std::sync::{Arc, Mutex};

pub type Mon = ChannelMonitor<SimSigner>;
pub type Mup = MonitorUpdatingPersister<
	Arc<SimKv>,
	Arc<SimLogger>,
	Arc<MirrorKeys>,
	Arc<MirrorKeys>,
	Arc<SimBroadcaster>,
	Arc<SimFee>,
>;

// ---------------------------------------------------------------------------------------------
// Keys for everything the mirror deserialises: the node's real key material (so recovered
// monitors hold the right keys) but its own signer-policy state and signer log, so that monitors
// recovered at old crash points never touch the live node's HSM state, and a deterministic
// entropy source of its own (the live node's entropy counter is not advanced by recoveries).

pub struct MirrorKeys {
	pub node_keys: Arc<SimKeys>,
	pub states: Mutex<BTreeMap<[u8; 32], Arc<Mutex<EnforcementState>>>>,
	pub log: SignerLog,
	pub ctr: AtomicU64,
}

impl MirrorKeys {
	pub fn new(node_keys: Arc<SimKeys>) -> Self {
		MirrorKeys {
			node_keys,
			states: Mutex::new(BTreeMap::new()),
			log: Arc::new(Mutex::new(Vec::new())),
			ctr: AtomicU64::new(0),
		}
	}
}

impl EntropySource for MirrorKeys {
	fn get_secure_random_bytes(&self) -> [u8; 32] {
		let c = self.ctr.fetch_add(1, Ordering::Relaxed);
		let mut out = [0x5au8; 32];
		out[..8].copy_from_slice(&c.to_le_bytes());
		out
	}
}

impl SignerProvider for MirrorKeys {
	type EcdsaSigner = SimSigner;

	fn generate_channel_keys_id(&self, inbound: bool, user_channel_id: u128) -> [u8; 32] {
		self.node_keys.km.generate_channel_keys_id(inbound, user_channel_id)
	}
	fn derive_channel_signer(&self, channel_keys_id: [u8; 32]) -> SimSigner {
		let inner = self.node_keys.km.derive_channel_keys(&channel_keys_id);
		let state = {
			let mut s = self.states.lock().unwrap();
			Arc::clone(
				s.entry(channel_keys_id)
					.or_insert_with(|| Arc::new(Mutex::new(EnforcementState::new()))),
			)
		};
		// Policy checks off: they describe the live channel's signing order, which a monitor
		// recovered at an old crash point legitimately does not follow.
		let inner = TestChannelSigner::new_with_revoked(DynSigner::new(inner), state, true, true);
		// Bound the private log (nobody reads it).
		{
			let mut l = self.log.lock().unwrap();
			if l.len() > 1024 {
				l.clear();
			}
		}
		SimSigner { inner, log: Arc::clone(&self.log), keys_id: channel_keys_id }
	}
	fn get_destination_script(&self, channel_keys_id: [u8; 32]) -> Result<ScriptBuf, ()> {
		self.node_keys.km.get_destination_script(channel_keys_id)
	}
	fn get_shutdown_scriptpubkey(&self) -> Result<ShutdownScript, ()> {
		self.node_keys.km.get_shutdown_scriptpubkey()
	}
}

// ---------------------------------------------------------------------------------------------

pub fn read_monitor(keys: &Arc<MirrorKeys>, bytes: &[u8]) -> Result<Mon, String> {
	match catch(|| <(BlockLocator, Mon)>::read(&mut &bytes[..], (&**keys, &**keys))) {
		Ok(Ok((_, m))) => Ok(m),
		Ok(Err(e)) => Err(format!("decode error {:?}", e)),
		Err((m, l)) => Err(format!("panic {} at {}", m, l)),
	}
}

/// One monitor handed to the persister (the "in-memory monitor as of that call").
pub struct Handed {
	pub call: usize,
	/// `get_latest_update_id()` of the blob
	pub id: u64,
	pub blob: Val,
	/// the `ChannelMonitorUpdate` of the call, if any
	pub update: Option<Val>,
	pub mon: Option<Arc<Mon>>,
	pub height: u32,
	/// chain epoch of the node when the monitor was handed over: even = between two chain
	/// deliveries (equal even epochs: no chain data arrived in between), odd = unknown
	pub epoch: u64,
}

#[derive(Default)]
pub struct ChanModel {
	pub key: String,
	pub chan_id: [u8; 32],
	/// highest update id the persister reported as persisted (`Completed`)
	pub acked: Option<u64>,
	pub handed: Vec<Handed>,
	/// update id -> index into `handed` of the latest call that carried this update
	pub update_by_id: BTreeMap<u64, usize>,
	/// id of the full monitor most recently written under `monitors//<key>`
	pub stored_id: Option<u64>,
	pub archive_started: bool,
	/// what the archive call read: (handed index of the stored monitor, highest update applied)
	pub archive_expect: Option<(usize, u64)>,
	/// the channel's history is over (archived): later calls are not forwarded
	pub ended: bool,
	/// per-channel crash sub-states already recovered and compared: fp -> recovered id
	pub verified: BTreeMap<u64, u64>,
}

#[derive(Clone, Debug)]
pub enum CallKind {
	New,
	Update { has_update: bool },
	Cleanup,
	Archive,
	Reload,
	Other,
}

pub struct CallRec {
	pub kind: CallKind,
	pub chan: Option<String>,
	pub handed_idx: Option<usize>,
	pub id: u64,
	pub acked: bool,
}

pub struct Ctx<'a> {
	pub out: &'a mut RunOutcome,
	pub chain: &'a ChainModel,
	pub step: u64,
	pub hist: &'a mut u64,
	/// chain epoch of the node whose calls are being forwarded (see `Handed::epoch`)
	pub epoch: u64,
}

impl<'a> Ctx<'a> {
	fn note(&mut self, s: &str) {
		*self.hist = fnv_extend(*self.hist, s.as_bytes());
		if std::env::var("VERIF_TRACE").is_ok() {
			eprintln!("[{}] persist: {}", self.step, s);
		}
	}
	fn violate(&mut self, oracle: &str, msg: String) {
		if std::env::var("VERIF_TRACE").is_ok() {
			eprintln!("[{}] VIOLATION C19 {}: {}", self.step, oracle, msg);
		}
		let step = self.step;
		self.out.violate("C19", oracle, step, msg);
	}
}

pub struct Mirror {
	pub node: usize,
	pub kv: Arc<SimKv>,
	pub keys: Arc<MirrorKeys>,
	pub logger: Arc<SimLogger>,
	pub broadcaster: Arc<SimBroadcaster>,
	pub fee: Arc<SimFee>,
	pub mup: Mup,
	pub max_pending: u64,
	pub max_changed: bool,
	pub dead: bool,
	pub chans: BTreeMap<String, ChanModel>,
	pub chan_keys: BTreeMap<[u8; 32], String>,
	pub calls: Vec<CallRec>,
	pub ops_seen: usize,
	pub coin_seed: u64,
	pub list_salt: u64,
	pub lazy_samples: u8,
	pub crash_states: u64,
	pub odd_epoch: u64,
	pub diag: u32,
}

fn new_mup(
	kv: &Arc<SimKv>, logger: &Arc<SimLogger>, keys: &Arc<MirrorKeys>,
	broadcaster: &Arc<SimBroadcaster>, fee: &Arc<SimFee>, max_pending: u64,
) -> Mup {
	MonitorUpdatingPersister::new(
		Arc::clone(kv),
		Arc::clone(logger),
		max_pending,
		Arc::clone(keys),
		Arc::clone(keys),
		Arc::clone(broadcaster),
		Arc::clone(fee),
	)
}

fn status_name(s: &ChannelMonitorUpdateStatus) -> &'static str {
	match s {
		ChannelMonitorUpdateStatus::Completed => "Completed",
		ChannelMonitorUpdateStatus::InProgress => "InProgress",
		ChannelMonitorUpdateStatus::UnrecoverableError => "UnrecoverableError",
	}
}

pub struct MirrorCfg {
	pub max_pending: u64,
	pub lazy_mode: u8,
	pub coin_seed: u64,
	pub list_salt: u64,
	pub lazy_samples: u8,
}

impl Mirror {
	pub fn new(node: usize, node_keys: Arc<SimKeys>, fee: Arc<SimFee>, c: &MirrorCfg) -> Mirror {
		let kv = Arc::new(SimKv::new(c.lazy_mode, c.list_salt, true));
		let keys = Arc::new(MirrorKeys::new(node_keys));
		let logger = Arc::new(SimLogger::new(100 + node));
		let broadcaster = Arc::new(SimBroadcaster::new());
		let mup = new_mup(&kv, &logger, &keys, &broadcaster, &fee, c.max_pending);
		Mirror {
			node,
			kv,
			keys,
			logger,
			broadcaster,
			fee,
			mup,
			max_pending: c.max_pending,
			max_changed: false,
			dead: false,
			chans: BTreeMap::new(),
			chan_keys: BTreeMap::new(),
			calls: Vec::new(),
			ops_seen: 0,
			coin_seed: c.coin_seed,
			list_salt: c.list_salt,
			lazy_samples: c.lazy_samples,
			crash_states: 0,
			odd_epoch: 1_000_001,
			diag: 0,
		}
	}

	fn begin_call(&mut self, kind: CallKind, chan: Option<String>, handed_idx: Option<usize>, id: u64) -> usize {
		let idx = self.calls.len();
		self.calls.push(CallRec { kind, chan, handed_idx, id, acked: false });
		self.kv.set_call(idx);
		idx
	}

	fn drain_broadcasts(&self) {
		self.broadcaster.take();
	}

	// -----------------------------------------------------------------------------------------
	// calls forwarded from the node

	/// `persist_new_channel` (initial registration, or reload after a restart).
	pub fn call_new(&mut self, ctx: &mut Ctx, chan_id: [u8; 32], blob: Vec<u8>) {
		if self.dead {
			return;
		}
		let mon = match read_monitor(&self.keys, &blob) {
			Ok(m) => m,
			Err(e) => {
				ctx.out.harness_errors.push(format!("handed monitor does not deserialise: {}", e));
				self.dead = true;
				return;
			},
		};
		let key = format!("{}", mon.persistence_key());
		self.chan_keys.insert(chan_id, key.clone());
		let cm = self.chans.entry(key.clone()).or_default();
		cm.key = key.clone();
		cm.chan_id = chan_id;
		if cm.ended {
			ctx.out.bump("probe:call_after_archive_dropped");
			return;
		}
		let id = mon.get_latest_update_id();
		let height = mon.current_best_block().height;
		let mon = Arc::new(mon);
		let hidx = cm.handed.len();
		let call = self.calls.len();
		cm.handed.push(Handed {
			call,
			id,
			blob: Arc::new(blob),
			update: None,
			mon: Some(Arc::clone(&mon)),
			height,
			epoch: ctx.epoch,
		});
		self.begin_call(CallKind::New, Some(key.clone()), Some(hidx), id);
		let mup = &self.mup;
		let name = mon.persistence_key();
		let res = catch(|| Persist::<SimSigner>::persist_new_channel(mup, name, &*mon));
		self.drain_broadcasts();
		let status = match res {
			Ok(s) => s,
			Err((m, l)) => {
				ctx.violate("C19-0 panic", format!("persist_new_channel panicked: {} at {}", m, l));
				self.dead = true;
				return;
			},
		};
		ctx.note(&format!("n{} new {} id {} -> {}", self.node, &key[..8], id, status_name(&status)));
		ctx.out.bump("call:persist_new_channel");
		self.finish_persist_call(ctx, call, &key, id, status);
	}

	/// `update_persisted_channel(name, update, monitor)`.
	pub fn call_update(
		&mut self, ctx: &mut Ctx, chan_id: [u8; 32], update: Option<Vec<u8>>, blob: Vec<u8>,
	) {
		if self.dead {
			return;
		}
		let key = match self.chan_keys.get(&chan_id) {
			Some(k) => k.clone(),
			None => {
				// a channel the mirror has not been told about: register it first
				ctx.out.bump("probe:update_for_unregistered_channel");
				self.call_new(ctx, chan_id, blob);
				return;
			},
		};
		if self.chans[&key].ended {
			ctx.out.bump("probe:call_after_archive_dropped");
			return;
		}
		let mon = match read_monitor(&self.keys, &blob) {
			Ok(m) => m,
			Err(e) => {
				ctx.out.harness_errors.push(format!("handed monitor does not deserialise: {}", e));
				self.dead = true;
				return;
			},
		};
		let upd: Option<ChannelMonitorUpdate> = match update.as_ref() {
			Some(b) => match ChannelMonitorUpdate::read(&mut &b[..]) {
				Ok(u) => Some(u),
				Err(e) => {
					ctx.out.harness_errors.push(format!("handed update does not deserialise: {:?}", e));
					self.dead = true;
					return;
				},
			},
			None => None,
		};
		let id = mon.get_latest_update_id();
		if let Some(u) = upd.as_ref() {
			if u.update_id != id {
				// ChainMonitor always hands the monitor *after* the update
				ctx.out.harness_errors.push(format!(
					"capture mismatch: update id {} with monitor at {}",
					u.update_id, id
				));
				self.dead = true;
				return;
			}
			for s in u.verif_steps() {
				ctx.out.bump(&format!("update_step:{}", s.0));
			}
		}
		let height = mon.current_best_block().height;
		let mon = Arc::new(mon);
		let call = self.calls.len();
		let has_update = upd.is_some();
		{
			let cm = self.chans.get_mut(&key).unwrap();
			let hidx = cm.handed.len();
			cm.handed.push(Handed {
				call,
				id,
				blob: Arc::new(blob),
				update: update.map(Arc::new),
				mon: Some(Arc::clone(&mon)),
				height,
				epoch: ctx.epoch,
			});
			if has_update {
				cm.update_by_id.insert(id, hidx);
			}
			self.begin_call(CallKind::Update { has_update }, Some(key.clone()), Some(hidx), id);
		}
		let mup = &self.mup;
		let name = mon.persistence_key();
		let res = catch(|| {
			Persist::<SimSigner>::update_persisted_channel(mup, name, upd.as_ref(), &*mon)
		});
		self.drain_broadcasts();
		let status = match res {
			Ok(s) => s,
			Err((m, l)) => {
				ctx.violate("C19-0 panic", format!("update_persisted_channel panicked: {} at {}", m, l));
				self.dead = true;
				return;
			},
		};
		ctx.note(&format!(
			"n{} upd {} id {} update={} -> {}",
			self.node,
			&key[..8],
			id,
			has_update,
			status_name(&status)
		));
		ctx.out.bump(if has_update { "call:update_persisted_channel" } else { "call:update_persisted_channel_full" });
		self.finish_persist_call(ctx, call, &key, id, status);
	}

	fn finish_persist_call(
		&mut self, ctx: &mut Ctx, call: usize, key: &str, id: u64, status: ChannelMonitorUpdateStatus,
	) {
		// crash points inside the call: the call has not been acknowledged yet
		self.after_call(ctx, call);
		match status {
			ChannelMonitorUpdateStatus::Completed => {
				self.calls[call].acked = true;
				let cm = self.chans.get_mut(key).unwrap();
				if cm.acked.map_or(true, |a| a < id) {
					cm.acked = Some(id);
				}
			},
			ChannelMonitorUpdateStatus::UnrecoverableError => {
				// LDK panics by design here: the node is down from this store operation on.
				ctx.out.bump("fault:store_error_fatal_to_node");
				ctx.note(&format!("n{} dies of an unrecoverable persistence error", self.node));
				self.dead = true;
			},
			ChannelMonitorUpdateStatus::InProgress => {
				ctx.violate(
					"C19-9 sync persister answered InProgress",
					format!("node {} call {} on {}", self.node, call, key),
				);
			},
		}
		// the state the caller sees once the call has returned
		self.check_current(ctx, call);
	}

	// -----------------------------------------------------------------------------------------
	// the simulator's own persister-level actions

	pub fn act_cleanup(&mut self, ctx: &mut Ctx, lazy: bool) -> bool {
		if self.dead {
			return false;
		}
		let call = self.begin_call(CallKind::Cleanup, None, None, 0);
		let mup = &self.mup;
		let res = catch(|| mup.cleanup_stale_updates(lazy));
		match res {
			Ok(r) => {
				ctx.note(&format!("n{} cleanup lazy={} -> {}", self.node, lazy, r.is_ok()));
				if r.is_err() {
					ctx.out.bump("probe:cleanup_returned_error");
				}
			},
			Err((m, l)) => {
				ctx.violate("C19-0 panic", format!("cleanup_stale_updates panicked: {} at {}", m, l));
				self.dead = true;
				return true;
			},
		}
		self.after_call(ctx, call);
		self.check_current(ctx, call);
		true
	}

	pub fn act_flush(&mut self, ctx: &mut Ctx) -> bool {
		if self.dead {
			return false;
		}
		let n = self.kv.flush_lazy();
		ctx.note(&format!("n{} store sync: {} lazy removals durable", self.node, n));
		n > 0
	}

	pub fn act_arm_err(&mut self, ctx: &mut Ctx, after: u32, applied: bool) -> bool {
		if self.dead {
			return false;
		}
		self.kv.arm_error(after, applied);
		ctx.note(&format!("n{} arm store error after {} ops applied={}", self.node, after, applied));
		true
	}

	/// `archive_persisted_channel` on the `idx`-th channel (by key order) that is still active.
	pub fn act_archive(&mut self, ctx: &mut Ctx, idx: usize) -> bool {
		if self.dead {
			return false;
		}
		let keys: Vec<String> =
			self.chans.values().filter(|c| !c.ended && c.acked.is_some()).map(|c| c.key.clone()).collect();
		if keys.is_empty() {
			return false;
		}
		let key = keys[idx % keys.len()].clone();
		let name = match self.chans[&key].handed.last().and_then(|h| h.mon.as_ref()) {
			Some(m) => m.persistence_key(),
			None => return false,
		};
		let call = self.begin_call(CallKind::Archive, Some(key.clone()), None, 0);
		// what the call will read: the visible stored monitor and the visible updates above it
		let expect = {
			let g = self.kv.inner.lock().unwrap();
			let (_, base, ups, _) = Self::chan_fp(&g.live, &key);
			base.and_then(|b| {
				let c = g.ops[b].call;
				self.calls[c].handed_idx.map(|h| {
					let base_id = self.calls[c].id;
					let upto = ups.iter().map(|(id, _)| *id).filter(|id| *id > base_id).max().unwrap_or(base_id);
					(h, upto)
				})
			})
		};
		{
			let cm = self.chans.get_mut(&key).unwrap();
			if expect.is_some() {
				cm.archive_expect = expect;
			}
			cm.archive_started = true;
			cm.ended = true;
		}
		let mup = &self.mup;
		let res = catch(|| Persist::<SimSigner>::archive_persisted_channel(mup, name));
		self.drain_broadcasts();
		if let Err((m, l)) = res {
			ctx.violate("C19-0 panic", format!("archive_persisted_channel panicked: {} at {}", m, l));
			self.dead = true;
			return true;
		}
		ctx.note(&format!("n{} archive {}", self.node, &key[..8]));
		self.after_call(ctx, call);
		self.check_current(ctx, call);
		true
	}

	/// A clean restart of the storage side: read everything back with a fresh persister
	/// (possibly with a different `maximum_pending_updates`) and, as `ChainMonitor::watch_channel`
	/// does on startup, `persist_new_channel` every monitor read.
	pub fn act_reload(&mut self, ctx: &mut Ctx, new_max: Option<u64>) -> bool {
		if self.dead {
			return false;
		}
		if let Some(m) = new_max {
			if m != self.max_pending {
				self.max_changed = true;
				ctx.out.bump("probe:reload_changed_max_pending");
			}
			self.max_pending = m;
		}
		self.mup =
			new_mup(&self.kv, &self.logger, &self.keys, &self.broadcaster, &self.fee, self.max_pending);
		let call = self.begin_call(CallKind::Reload, None, None, 0);
		let mup = &self.mup;
		let res = catch(|| mup.read_all_channel_monitors_with_updates());
		self.drain_broadcasts();
		let mons = match res {
			Ok(Ok(v)) => v,
			Ok(Err(e)) => {
				// only an injected read/list error may make a restart fail
				let injected = {
					let g = self.kv.inner.lock().unwrap();
					g.ops[self.ops_seen..].iter().any(|o| o.err)
				};
				if !injected {
					ctx.violate(
						"C19-1 recovery fails",
						format!("node {} restart: read_all_channel_monitors_with_updates: {}", self.node, e),
					);
				} else {
					ctx.out.bump("probe:restart_failed_on_injected_error");
				}
				self.after_call(ctx, call);
				return true;
			},
			Err((m, l)) => {
				ctx.violate("C19-0 panic", format!("restart read panicked: {} at {}", m, l));
				self.dead = true;
				return true;
			},
		};
		self.after_call(ctx, call);
		ctx.note(&format!("n{} reload: {} monitors, max_pending {}", self.node, mons.len(), self.max_pending));
		ctx.out.bump("probe:persister_reloaded");
		let mut sorted: Vec<Mon> = mons.into_iter().map(|(_, m)| m).collect();
		sorted.sort_by_key(|m| format!("{}", m.persistence_key()));
		for m in sorted {
			if self.dead {
				break;
			}
			let key = format!("{}", m.persistence_key());
			let chan_id = m.channel_id().0;
			let was_ended = self.chans.get(&key).map_or(false, |c| c.ended);
			if was_ended {
				// archived, but its lazy removal is not visible yet: the node loads it again
				ctx.out.bump("probe:archived_monitor_reloaded");
				self.chans.get_mut(&key).unwrap().ended = false;
			}
			let blob = m.encode();
			// The reloaded monitor carries the chain view of the in-memory monitor it equals, if any.
			let inherit = self.chans.get(&key).and_then(|c| {
				let id = m.get_latest_update_id();
				c.handed.iter().rev().filter(|h| h.id == id).find_map(|h| {
					h.mon.as_ref().and_then(|hm| if m.verif_eq(hm) { Some(h.epoch) } else { None })
				})
			});
			let saved = ctx.epoch;
			ctx.epoch = match inherit {
				Some(e) => e,
				None => {
					self.odd_epoch += 2;
					self.odd_epoch
				},
			};
			self.call_new(ctx, chan_id, blob);
			ctx.epoch = saved;
			if was_ended {
				if let Some(c) = self.chans.get_mut(&key) {
					c.ended = true;
				}
			}
		}
		true
	}

	// -----------------------------------------------------------------------------------------
	// oracles

	/// Store-operation level oracles over the ops of the call just executed, then the crash
	/// states at every operation boundary inside it.
	fn after_call(&mut self, ctx: &mut Ctx, call: usize) {
		let ops: Vec<crate::kv::Op> = {
			let g = self.kv.inner.lock().unwrap();
			g.ops[self.ops_seen..].to_vec()
		};
		let bad: Vec<String> = std::mem::take(&mut self.kv.inner.lock().unwrap().bad_keys);
		for b in bad {
			ctx.violate("C19-8 invalid store key", format!("node {}: {}", self.node, b));
		}
		let first = self.ops_seen;
		self.ops_seen += ops.len();
		let kind = self.calls[call].kind.clone();
		let mut writes: Vec<&crate::kv::Op> = Vec::new();
		for (i, op) in ops.iter().enumerate() {
			let opi = first + i;
			*ctx.hist = fnv_extend(*ctx.hist, op.kind.name().as_bytes());
			*ctx.hist = fnv_extend(*ctx.hist, join(&op.primary, &op.secondary, &op.key).as_bytes());
			if let Some(v) = op.value.as_ref() {
				*ctx.hist = fnv_extend(*ctx.hist, &fnv(v).to_le_bytes());
			}
			ctx.out.bump(&format!("storeop:{}", op.kind.name()));
			if op.err {
				ctx.out.bump(&format!("fault:store_error_{}", op.kind.name()));
				ctx.out.bump(if op.applied { "fault:store_error_op_took_effect" } else { "fault:store_error_op_had_no_effect" });
			}
			match op.kind {
				OpKind::Write => {
					writes.push(op);
					if op.applied && op.primary == CHANNEL_MONITOR_PERSISTENCE_PRIMARY_NAMESPACE {
						// model: which monitor is stored now
						if let Some(cm) = self.chans.get_mut(&op.key) {
							cm.stored_id = Some(self.calls[op.call].id);
						}
					}
				},
				OpKind::Remove { lazy } => {
					if op.primary == CHANNEL_MONITOR_UPDATE_PERSISTENCE_PRIMARY_NAMESPACE {
						ctx.out.bump("oracle:C19-5 cleanup below stored monitor");
						let uid: Option<u64> = op.key.parse().ok();
						let stored = self.chans.get(&op.secondary).and_then(|c| c.stored_id);
						match (uid, stored) {
							(Some(u), Some(s)) if u <= s => {
								if op.existed {
									ctx.out.bump("probe:stale_update_removed");
								}
							},
							_ => {
								ctx.violate(
									"C19-5 cleanup removes an update the stored monitor does not contain",
									format!(
										"node {} op {} (call {} {:?}): remove(lazy={}) of update {} of {} while the stored monitor is at {:?} (key existed: {})",
										self.node, opi, op.call, kind, lazy, op.key, &op.secondary[..8.min(op.secondary.len())], stored, op.existed
									),
								);
							},
						}
						if lazy && op.deferred {
							ctx.out.bump("probe:lazy_removal_deferred_still_visible");
						}
					}
				},
				_ => {},
			}
		}
		// reference write plan of the call (what DESIGN calls the maximum_pending_updates semantics)
		self.check_write_plan(ctx, call, &writes);

		let snaps = self.kv.take_snaps();
		let n = snaps.len();
		for (i, (opi, snap)) in snaps.into_iter().enumerate() {
			// the last snapshot is the state after the call: checked by `check_current` with the
			// acknowledgement taken into account
			if i + 1 == n {
				break;
			}
			self.check_snapshot(ctx, &snap, opi, false);
		}
	}

	fn check_write_plan(&mut self, ctx: &mut Ctx, call: usize, writes: &[&crate::kv::Op]) {
		let rec = &self.calls[call];
		let (key, hidx) = match (&rec.kind, rec.chan.as_ref(), rec.handed_idx) {
			(CallKind::New, Some(k), Some(h)) | (CallKind::Update { .. }, Some(k), Some(h)) => (k.clone(), h),
			_ => return,
		};
		ctx.out.bump("oracle:C19-6 write plan");
		let handed = &self.chans[&key].handed[hidx];
		let id = handed.id;
		let expect_update_write = match rec.kind {
			CallKind::Update { has_update: true } => {
				id != u64::MAX && self.max_pending != 0 && id % self.max_pending != 0
			},
			_ => false,
		};
		let bad = |why: &str| -> String {
			format!(
				"node {} call {} ({:?}) on {} id {} with maximum_pending_updates {}: {}; writes: {:?}",
				self.node,
				call,
				rec.kind,
				&key[..8],
				id,
				self.max_pending,
				why,
				writes.iter().map(|o| join(&o.primary, &o.secondary, &o.key)).collect::<Vec<_>>()
			)
		};
		if writes.len() != 1 {
			// an injected error on an earlier read never happens in these calls; exactly one write
			if writes.is_empty() && self.calls_ops_had_error(call) {
				return;
			}
			ctx.violate("C19-6 write plan differs from the reference model", bad("expected exactly one write"));
			return;
		}
		let w = writes[0];
		let v = w.value.as_ref().unwrap();
		if expect_update_write {
			ctx.out.bump("probe:update_written_incrementally");
			let ok_key = w.primary == CHANNEL_MONITOR_UPDATE_PERSISTENCE_PRIMARY_NAMESPACE
				&& w.secondary == key
				&& w.key == format!("{}", id);
			if !ok_key {
				ctx.violate(
					"C19-6 write plan differs from the reference model",
					bad("expected the update to be written under monitor_updates/<monitor>/<id>"),
				);
				return;
			}
			if Some(&v[..]) != handed.update.as_ref().map(|u| &u[..]) {
				ctx.violate(
					"C19-6 stored update bytes differ from the update handed over",
					bad("value mismatch"),
				);
			}
		} else {
			ctx.out.bump(match rec.kind {
				CallKind::New => "probe:full_monitor_written_new",
				CallKind::Update { has_update: true } => "probe:full_monitor_written_consolidation",
				_ => "probe:full_monitor_written_no_update",
			});
			let ok_key = w.primary == CHANNEL_MONITOR_PERSISTENCE_PRIMARY_NAMESPACE
				&& w.secondary.is_empty()
				&& w.key == key;
			if !ok_key {
				ctx.violate(
					"C19-6 write plan differs from the reference model",
					bad("expected a full monitor under monitors//<monitor>"),
				);
				return;
			}
			let has_sentinel = v.starts_with(MONITOR_UPDATING_PERSISTER_PREPEND_SENTINEL);
			if has_sentinel != (self.max_pending != 0) {
				ctx.violate(
					"C19-6 write plan differs from the reference model",
					bad("sentinel prefix must be present iff maximum_pending_updates != 0"),
				);
			}
			if self.max_pending == 0 {
				ctx.out.bump("probe:max_pending_zero_full_write");
			}
		}
	}

	fn calls_ops_had_error(&self, call: usize) -> bool {
		let g = self.kv.inner.lock().unwrap();
		g.ops.iter().rev().take_while(|o| o.call == call).any(|o| o.err)
	}

	/// The state visible after the call returned (acknowledgements included).
	fn check_current(&mut self, ctx: &mut Ctx, _call: usize) {
		let snap = self.kv.current();
		let opi = self.ops_seen;
		self.check_snapshot(ctx, &snap, opi, true);
	}

	fn coin(&self, variant: u64, opi: usize, key: &str) -> bool {
		let mut h = fnv(&self.coin_seed.to_le_bytes());
		h = fnv_extend(h, &variant.to_le_bytes());
		h = fnv_extend(h, &(opi as u64).to_le_bytes());
		h = fnv_extend(h, key.as_bytes());
		(h >> 17) & 1 == 1
	}

	/// All sampled crash states after one prefix of the op log.
	fn check_snapshot(&mut self, ctx: &mut Ctx, snap: &Snapshot, opi: usize, full_read: bool) {
		// every lazy removal took effect
		let st = snap.crash_state(&|_| false);
		self.check_state(ctx, &st, opi, "all lazy removals effective", full_read);
		if snap.lazy_pending.is_empty() {
			return;
		}
		ctx.out.bump("fault:crash_with_lazy_removals_pending");
		// none of them did
		let st = snap.crash_state(&|_| true);
		self.check_state(ctx, &st, opi, "no pending lazy removal effective", false);
		if snap.lazy_pending.len() >= 2 {
			for v in 0..self.lazy_samples as u64 {
				let st = snap.crash_state(&|k| self.coin(v, opi, k));
				self.check_state(ctx, &st, opi, "some lazy removals lost", false);
			}
		}
	}

	/// Sub-state of one channel: which writes its monitor and update files stem from.
	fn chan_fp(state: &BTreeMap<String, (Val, usize)>, key: &str) -> (u64, Option<usize>, Vec<(u64, usize)>, bool) {
		let mk = join(CHANNEL_MONITOR_PERSISTENCE_PRIMARY_NAMESPACE, "", key);
		let base = state.get(&mk).map(|(_, o)| *o);
		let prefix = format!("{}/{}/", CHANNEL_MONITOR_UPDATE_PERSISTENCE_PRIMARY_NAMESPACE, key);
		let mut ups: Vec<(u64, usize)> = Vec::new();
		for (k, (_, o)) in state.range(prefix.clone()..) {
			if !k.starts_with(&prefix) {
				break;
			}
			if let Ok(id) = k[prefix.len()..].parse::<u64>() {
				ups.push((id, *o));
			}
		}
		ups.sort();
		let archived =
			state.contains_key(&join(ARCHIVED_CHANNEL_MONITOR_PERSISTENCE_PRIMARY_NAMESPACE, "", key));
		let mut h = fnv(key.as_bytes());
		h = fnv_extend(h, &(base.map_or(u64::MAX, |b| b as u64)).to_le_bytes());
		for (id, o) in ups.iter() {
			h = fnv_extend(h, &id.to_le_bytes());
			h = fnv_extend(h, &(*o as u64).to_le_bytes());
		}
		h = fnv_extend(h, &[archived as u8]);
		(h, base, ups, archived)
	}

	fn check_state(
		&mut self, ctx: &mut Ctx, state: &BTreeMap<String, (Val, usize)>, opi: usize, what: &str,
		full_read: bool,
	) {
		self.crash_states += 1;
		ctx.out.bump("fault:crash_point");
		let keys: Vec<String> = self.chans.keys().cloned().collect();
		// which channels are in a sub-state not seen before
		let mut todo: Vec<(String, u64, Option<usize>, Vec<(u64, usize)>, bool)> = Vec::new();
		for key in keys.iter() {
			let (fp, base, ups, archived) = Self::chan_fp(state, key);
			let cm = &self.chans[key];
			if cm.acked.is_none() && base.is_none() {
				continue;
			}
			match cm.verified.get(&fp) {
				Some(rid) => {
					// recovered before from an identical sub-state: only the acknowledgement moves
					ctx.out.bump("oracle:C19-2 acknowledged updates survive");
					if let Some(a) = cm.acked {
						if *rid < a {
							ctx.violate(
								"C19-2 acknowledged update lost",
								format!(
									"node {} crash before op {} ({}): {} recovers at update id {} but {} was acknowledged",
									self.node, opi, what, &key[..8], rid, a
								),
							);
						}
					}
				},
				None => todo.push((key.clone(), fp, base, ups, archived)),
			}
		}
		if todo.is_empty() && !full_read {
			ctx.out.bump("probe:crash_state_already_verified");
			return;
		}
		ctx.out.bump("probe:crash_state_recovered");
		*ctx.hist = fnv_extend(*ctx.hist, &(opi as u64).to_le_bytes());
		let kv = Arc::new(SimKv::from_state(state, self.list_salt ^ opi as u64));
		let bc = Arc::new(SimBroadcaster::new());
		let mup = new_mup(&kv, &self.logger, &self.keys, &bc, &self.fee, self.max_pending);
		let mut recovered: BTreeMap<String, Mon> = BTreeMap::new();
		if full_read {
			ctx.out.bump("oracle:C19-1 recovery succeeds (read_all)");
			match catch(|| mup.read_all_channel_monitors_with_updates()) {
				Ok(Ok(v)) => {
					for (_, m) in v {
						recovered.insert(format!("{}", m.persistence_key()), m);
					}
				},
				Ok(Err(e)) => {
					ctx.violate(
						"C19-1 recovery fails",
						format!(
							"node {} crash before op {} ({}): read_all_channel_monitors_with_updates returned {}",
							self.node, opi, what, e
						),
					);
					return;
				},
				Err((m, l)) => {
					ctx.violate(
						"C19-1 recovery fails",
						format!(
							"node {} crash before op {} ({}): read_all_channel_monitors_with_updates panicked: {} at {}",
							self.node, opi, what, m, l
						),
					);
					return;
				},
			}
		}
		for (key, fp, base, ups, archived) in todo {
			let mut rec: Option<Mon> = recovered.remove(&key);
			if !full_read && base.is_some() {
				ctx.out.bump("oracle:C19-1 recovery succeeds (single monitor)");
				match catch(|| mup.read_channel_monitor_with_updates(&key)) {
					Ok(Ok((_, m))) => rec = Some(m),
					Ok(Err(e)) => {
						ctx.violate(
							"C19-1 recovery fails",
							format!(
								"node {} crash before op {} ({}): read_channel_monitor_with_updates({}) returned {}",
								self.node, opi, what, &key[..8], e
							),
						);
						continue;
					},
					Err((m, l)) => {
						ctx.violate(
							"C19-1 recovery fails",
							format!(
								"node {} crash before op {} ({}): read_channel_monitor_with_updates({}) panicked: {} at {}",
								self.node, opi, what, &key[..8], m, l
							),
						);
						continue;
					},
				}
			}
			bc.take();
			self.judge_channel(ctx, state, opi, what, &key, fp, base, &ups, archived, rec);
		}
	}

	#[allow(clippy::too_many_arguments)]
	fn judge_channel(
		&mut self, ctx: &mut Ctx, state: &BTreeMap<String, (Val, usize)>, opi: usize, what: &str,
		key: &str, fp: u64, base: Option<usize>, ups: &[(u64, usize)], archived: bool, rec: Option<Mon>,
	) {
		let where_ = format!("node {} crash before op {} ({}), channel {}", self.node, opi, what, &key[..8]);
		let acked = self.chans[key].acked;
		let archive_started = self.chans[key].archive_started;
		let (r, from_archive) = match rec {
			Some(r) => (r, false),
			None => {
				// not loadable from the primary namespace
				ctx.out.bump("oracle:C19-4 archived monitor not lost");
				if !archive_started {
					if acked.is_some() {
						ctx.violate(
							"C19-2 acknowledged monitor missing",
							format!("{}: no monitor recovered although update {:?} was acknowledged", where_, acked),
						);
					}
					return;
				}
				if !archived {
					ctx.violate(
						"C19-4 archived monitor neither loadable nor in the archive",
						format!("{}: acknowledged {:?}", where_, acked),
					);
					return;
				}
				let ak = join(ARCHIVED_CHANNEL_MONITOR_PERSISTENCE_PRIMARY_NAMESPACE, "", key);
				let bytes = &state[&ak].0;
				match read_monitor(&self.keys, bytes) {
					Ok(m) => {
						ctx.out.bump("probe:monitor_only_in_archive");
						(m, true)
					},
					Err(e) => {
						ctx.violate(
							"C19-4 archived monitor unreadable",
							format!("{}: {}", where_, e),
						);
						return;
					},
				}
			},
		};
		if !from_archive && archived {
			ctx.out.bump("probe:monitor_in_primary_and_archive");
		}
		let rid = r.get_latest_update_id();
		*ctx.hist = fnv_extend(*ctx.hist, &rid.to_le_bytes());
		ctx.out.bump("oracle:C19-2 acknowledged updates survive");
		if let Some(a) = acked {
			if rid < a {
				ctx.violate(
					"C19-2 acknowledged update lost",
					format!("{}: recovered at update id {} but {} was acknowledged", where_, rid, a),
				);
				return;
			}
		}
		// ---- equality with the in-memory monitor of that update
		ctx.out.bump("oracle:C19-3 recovered equals in-memory monitor");
		let ops_call = |o: usize| -> usize { self.kv.inner.lock().unwrap().ops[o].call };
		let mut ok = true;
		if from_archive {
			// written from a read-with-updates at archive time: the stored monitor of that moment
			// plus the updates above it
			match self.chans[key].archive_expect {
				Some((bh, upto)) => match self.reference(key, bh, upto) {
					Ok(refm) => {
						if !r.verif_eq(&refm) {
							ok = false;
							ctx.violate(
								"C19-3 archived monitor differs from stored monitor + handed updates",
								format!("{}: archived at id {}, expected id {}", where_, rid, upto),
							);
						}
					},
					Err(e) => {
						ok = false;
						ctx.violate(
							"C19-3 reference recovery impossible",
							format!("{}: archived id {}: {}", where_, rid, e),
						);
					},
				},
				None => {
					ok = false;
					ctx.violate(
						"C19-4 archive holds a monitor the archive call could not have read",
						format!("{}: archived at id {}", where_, rid),
					);
				},
			}
		} else if let Some(b) = base {
			let base_call = ops_call(b);
			let base_h = self.calls[base_call].handed_idx;
			let applied: Vec<u64> = {
				let base_id = self.calls[base_call].id;
				ups.iter().map(|(id, _)| *id).filter(|id| *id > base_id).collect()
			};
			if applied.len() >= 1 {
				ctx.out.bump("probe:recovered_by_applying_updates");
			}
			if applied.len() >= 3 {
				ctx.out.bump("probe:recovered_by_applying_3plus_updates");
			}
			if ups.len() > applied.len() {
				ctx.out.bump("probe:stale_updates_present_at_recovery");
			}
			ctx.out.bump("oracle:C19-7 pending updates bounded");
			if !self.max_changed && self.max_pending != 0 && applied.len() as u64 > self.max_pending {
				ctx.violate(
					"C19-7 more pending updates than maximum_pending_updates",
					format!("{}: {} updates above the stored monitor, maximum {}", where_, applied.len(), self.max_pending),
				);
			}
			match base_h {
				Some(bh) if applied.is_empty() => {
					if !self.equal_mod_tip(ctx, &r, key, bh, EqMode::Strict) {
						ok = false;
						ctx.violate(
							"C19-3 recovered monitor differs from the stored in-memory monitor",
							format!("{}: no updates applied, id {}", where_, rid),
						);
					}
				},
				Some(bh) => {
					// (1) reference recovery: handed base + handed updates, in id order
					ctx.out.bump("oracle:C19-3 recovered equals reference recovery");
					match self.reference(key, bh, rid) {
						Ok(refm) => {
							if !r.verif_eq(&refm) {
								ok = false;
								ctx.violate(
									"C19-3 recovered monitor differs from base monitor + handed updates",
									format!("{}: base id {}, recovered id {}", where_, self.calls[base_call].id, rid),
								);
							}
						},
						Err(e) => {
							ok = false;
							ctx.violate(
								"C19-3 reference recovery impossible",
								format!("{}: base id {}, recovered id {}: {}", where_, self.calls[base_call].id, rid, e),
							);
						},
					}
					// (2) the in-memory monitor of the call that wrote update `rid`
					let last = ups.iter().rev().find(|(id, _)| *id == rid).map(|(_, o)| *o);
					match last.map(|o| ops_call(o)).and_then(|c| self.calls[c].handed_idx) {
						Some(uh) => {
							let (be, me) = (self.chans[key].handed[bh].epoch, self.chans[key].handed[uh].epoch);
							// no chain data reached the node between the stored monitor and this update
							let same_chain_view = be == me
								&& be % 2 == 0 && self.chans[key].handed[bh].height == self.chans[key].handed[uh].height;
							if be == me && be % 2 == 0 && !same_chain_view {
								ctx.out.bump("other:epoch_guard_height_mismatch");
							}
							if ok && !same_chain_view {
								// Chain data arrived in between without the monitor being persisted
								// (ChainMonitor persists on ~every 5th block only). The in-memory monitor
								// interleaved blocks and updates in an order recovery cannot reproduce
								// (claim heights, timers differ): compared for information only.
								ctx.out.bump("probe:in_memory_compare_skipped_chain_data_between");
								if self.equal_mod_tip(ctx, &r, key, uh, EqMode::WithReplay) {
									ctx.out.bump("probe:tip_aligned_equal");
								} else {
									ctx.out.bump("probe:tip_aligned_unequal");
								}
							} else if ok && !self.equal_mod_tip(ctx, &r, key, uh, EqMode::SameTip) {
								ok = false;
								ctx.violate(
									"C19-3 recovered monitor differs from the in-memory monitor of its update",
									format!(
										"{}: base id {} at height {}, recovered id {}, in-memory height {}",
										where_,
										self.calls[base_call].id,
										self.chans[key].handed[bh].height,
										rid,
										self.chans[key].handed[uh].height
									),
								);
							}
						},
						None => {
							ok = false;
							ctx.violate(
								"C19-3 recovered update id has no update file",
								format!("{}: recovered id {}", where_, rid),
							);
						},
					}
				},
				None => {
					// full monitor written by archive? never under the primary namespace
					ctx.out.bump("probe:base_without_handed_monitor");
				},
			}
		}
		if ok {
			self.chans.get_mut(key).unwrap().verified.insert(fp, rid);
		}
	}

	/// Base monitor + the updates handed to the persister for ids (base id, upto], applied in order
	/// with the library's own `update_monitor` — what a loss-free store must yield.
	fn reference(&self, key: &str, base_h: usize, upto: u64) -> Result<Mon, String> {
		let cm = &self.chans[key];
		let base = &cm.handed[base_h];
		let m = read_monitor(&self.keys, &base.blob)?;
		let bc = SimBroadcaster::new();
		for id in (base.id + 1)..=upto {
			let h = cm.update_by_id.get(&id).ok_or_else(|| format!("update {} was never handed over", id))?;
			let bytes = cm.handed[*h].update.as_ref().unwrap();
			let u = ChannelMonitorUpdate::read(&mut &bytes[..]).map_err(|e| format!("{:?}", e))?;
			let fee = &self.fee;
			let logger = &self.logger;
			match catch(|| m.update_monitor(&u, &bc, fee, logger)) {
				Ok(Ok(())) => {},
				Ok(Err(())) => return Err(format!("update_monitor({}) failed", id)),
				Err((msg, loc)) => return Err(format!("update_monitor({}) panicked: {} at {}", id, msg, loc)),
			}
		}
		Ok(m)
	}

	fn diag(&mut self, r: &Mon, mem: &Mon, key: &str) {
		if std::env::var("VERIF_DIAG").is_ok() && self.diag < 3 {
			self.diag += 1;
			let a = r.encode();
			let b = mem.encode();
			let first = a.iter().zip(b.iter()).position(|(x, y)| x != y);
			eprintln!(
				"DIAG mismatch {} r.id={} mem.id={} rh={} mh={} len {} vs {} first diff {:?} r.claims={} m.claims={}",
				&key[..8], r.get_latest_update_id(), mem.get_latest_update_id(), r.current_best_block().height,
				mem.current_best_block().height, a.len(), b.len(), first, r.has_pending_claims(), mem.has_pending_claims()
			);
		}
	}

	/// `r` equals the monitor handed over in `handed[h]`:
	/// 1. directly; or
	/// 2. after `r` has been brought to that monitor's chain tip ("once brought to the same chain
	///    tip"); or
	/// 3. as 1/2 after the events both monitors still hold for the application (`MonitorEvent`s for
	///    the `ChannelManager`, `Event`s for the user) have been handed out. The live node hands
	///    these out without persisting the monitor, so the stored monitor legitimately still holds
	///    events the in-memory one no longer has; they are re-delivered after a restart.
	fn equal_mod_tip(&mut self, ctx: &mut Ctx, r: &Mon, key: &str, hidx: usize, mode: EqMode) -> bool {
		let cm = &self.chans[key];
		let mem: Arc<Mon> = match cm.handed[hidx].mon.as_ref() {
			Some(m) => Arc::clone(m),
			None => return false,
		};
		if r.verif_eq(&mem) {
			ctx.out.bump("probe:equal_without_chain_replay");
			return true;
		}
		if mode == EqMode::Strict {
			return false;
		}
		let mem_drained = match read_monitor(&self.keys, &cm.handed[hidx].blob) {
			Ok(c) => c,
			Err(_) => return false,
		};
		let mem_events = drain_events(&mem_drained, &self.logger);
		let eq_drained = |ctx: &mut Ctx, cand: &Mon, probe: &str| -> bool {
			let c = match read_monitor(&self.keys, &cand.encode()) {
				Ok(c) => c,
				Err(_) => return false,
			};
			let ev = drain_events(&c, &self.logger);
			if c.verif_eq(&mem_drained) {
				// nothing the in-memory monitor still owed the application may be missing
				if mem_events.iter().all(|e| ev.contains(e)) {
					ctx.out.bump(probe);
					return true;
				}
			}
			false
		};
		let rh = r.current_best_block().height;
		let mh = mem.current_best_block().height;
		if rh > mh {
			return false;
		}
		if rh == mh && eq_drained(ctx, r, "probe:equal_after_event_drain") {
			return true;
		}
		if mode == EqMode::SameTip {
			self.diag(r, &mem, key);
			return false;
		}
		// Bring a copy of `r` to the tip `mem` saw, block by block, in the delivery style the node
		// uses; `mem` may also be between the two halves of a block's delivery.
		let copy = match read_monitor(&self.keys, &r.encode()) {
			Ok(c) => c,
			Err(_) => return false,
		};
		let bc = SimBroadcaster::new();
		let tip = ctx.chain.tip_height();
		let mut h = rh;
		loop {
			// half step: transactions of the next block seen, best block not yet moved
			if h == mh {
				if h + 1 <= tip {
					let b = ctx.chain.block_at(h + 1);
					if !b.txs.is_empty() {
						let half = match read_monitor(&self.keys, &copy.encode()) {
							Ok(c) => c,
							Err(_) => return false,
						};
						let txdata: Vec<(usize, &Transaction)> =
							b.txs.iter().enumerate().map(|(i, t)| (i + 1, t)).collect();
						let res = catch(|| {
							half.transactions_confirmed(&b.header, &txdata, h + 1, &bc, &self.fee, &self.logger)
						});
						if res.is_ok() {
							if half.verif_eq(&mem) {
								ctx.out.bump("probe:equal_after_chain_replay_half_block");
								return true;
							}
							if eq_drained(ctx, &half, "probe:equal_after_chain_replay_half_block_and_event_drain") {
								return true;
							}
						}
					}
				}
				break;
			}
			h += 1;
			if h > tip {
				break;
			}
			let b = ctx.chain.block_at(h);
			let txdata: Vec<(usize, &Transaction)> =
				b.txs.iter().enumerate().map(|(i, t)| (i + 1, t)).collect();
			let res = catch(|| {
				if !txdata.is_empty() {
					copy.transactions_confirmed(&b.header, &txdata, h, &bc, &self.fee, &self.logger);
				}
				copy.best_block_updated(&b.header, h, &bc, &self.fee, &self.logger);
			});
			if res.is_err() {
				return false;
			}
			if h == mh {
				if copy.verif_eq(&mem) {
					ctx.out.bump("probe:equal_after_chain_replay");
					return true;
				}
				if eq_drained(ctx, &copy, "probe:equal_after_chain_replay_and_event_drain") {
					return true;
				}
			}
		}
		false
	}
}

#[derive(Clone, Copy, PartialEq, Eq, Debug)]
pub enum EqMode {
	/// `verif_eq` only
	Strict,
	/// also after handing out pending events on both sides
	SameTip,
	/// also after replaying the blocks the in-memory monitor saw
	WithReplay,
}

/// Hands out (and returns a rendering of) everything the monitor holds for the application.
pub fn drain_events(m: &Mon, logger: &Arc<SimLogger>) -> Vec<String> {
	let mut out: Vec<String> = Vec::new();
	for e in m.get_and_clear_pending_monitor_events() {
		out.push(format!("MonitorEvent:{}", simcore::hex(&e.encode())));
	}
	let evs = std::cell::RefCell::new(Vec::new());
	let handler = |e: lightning::events::Event| {
		evs.borrow_mut().push(format!("{:?}", e));
		Ok(())
	};
	let _ = m.process_pending_events(&&handler, logger);
	out.extend(evs.into_inner());
	out
}

