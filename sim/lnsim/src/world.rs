//! The simulated world: nodes, links, chain, payments; and the execution of actions.

use crate::chain::{synthetic_funding_tx, Admit, ChainModel};
use crate::infra::*;
use crate::ledger::Ledger;
use bitcoin::hashes::sha256::Hash as Sha256;
use bitcoin::hashes::Hash;
use bitcoin::secp256k1::PublicKey;
use bitcoin::{Network, Transaction};
use lightning::chain::chainmonitor::ChainMonitor;
use lightning::chain::{BlockLocator, ChannelMonitorUpdateStatus, Confirm, Watch};
use lightning::events::{Event, EventsProvider};
use lightning::ln::channelmanager::{
	ChainParameters, ChannelManager, PaymentId, RecentPaymentDetails,
};
use lightning::ln::msgs::{self, BaseMessageHandler, ChannelMessageHandler, MessageSendEvent};
use lightning::ln::outbound_payment::RecipientOnionFields;
use lightning::ln::types::ChannelId;
use lightning::routing::router::{Path, PaymentParameters, Route, RouteHop, RouteParameters};
use lightning::sign::NodeSigner;
use lightning::types::payment::{PaymentHash, PaymentPreimage, PaymentSecret};
use lightning::util::config::{MaxDustHTLCExposure, UserConfig};
use lightning::events::bump_transaction::sync::BumpTransactionEventHandlerSync;
use lightning::util::ser::{LengthReadable, Writeable};
use lightning::util::test_utils::TestWalletSource;
use lightning::util::wallet_utils::WalletSync;
use serde::{Deserialize, Serialize};
use simcore::runner::catch;
use simcore::{fnv, fnv_extend, RunOutcome};
use std::cell::RefCell;
use std::collections::{BTreeMap, BTreeSet, VecDeque};
use std::sync::atomic::{AtomicBool, Ordering};
use std::sync::{Arc, Mutex};
use std::time::Duration;

pub const FINAL_CLTV: u32 = 70;

pub type SimWalletSync = WalletSync<Arc<TestWalletSource>, Arc<SimLogger>>;
pub type SimBumpHandler = BumpTransactionEventHandlerSync<
	Arc<SimBroadcaster>,
	Arc<SimWalletSync>,
	Arc<SimKeys>,
	Arc<SimLogger>,
>;

#[derive(Clone, Copy, Debug, PartialEq, Eq, Serialize, Deserialize)]
pub enum ChanType {
	Legacy,
	Anchors,
	ZeroFee,
}

#[derive(Clone, Debug, Serialize, Deserialize)]
pub struct ChanSpec {
	pub a: usize,
	pub b: usize,
	pub value_sat: u64,
	pub push_msat: u64,
}

#[derive(Clone, Debug, Serialize, Deserialize)]
pub struct NodeCfg {
	pub deferred: bool,
	pub async_default: bool,
	pub fee_base_msat: u32,
	pub fee_prop_millionths: u32,
	pub cltv_delta: u16,
	pub htlc_minimum_msat: u64,
	pub max_accepted_htlcs: u16,
	pub reserve_ppm: u32,
	pub inflight_pct: u8,
	/// None = default FeeRateMultiplier; Some(x) = FixedLimitMsat(x)
	pub max_dust_exposure_msat: Option<u64>,
	pub to_self_delay: u16,
}

impl Default for NodeCfg {
	fn default() -> Self {
		NodeCfg {
			deferred: false,
			async_default: false,
			fee_base_msat: 1000,
			fee_prop_millionths: 0,
			cltv_delta: 72,
			htlc_minimum_msat: 1,
			max_accepted_htlcs: 50,
			reserve_ppm: 10_000,
			inflight_pct: 100,
			max_dust_exposure_msat: None,
			to_self_delay: 144,
		}
	}
}

#[derive(Clone, Debug, Serialize, Deserialize)]
pub struct Config {
	pub profile: String,
	pub chan_type: ChanType,
	pub nodes: Vec<NodeCfg>,
	pub chans: Vec<ChanSpec>,
	pub max_steps: u64,
	pub max_payments: usize,
	pub weights: BTreeMap<String, u32>,
	pub node_seed: u64,
}

/// Everything that can happen. Explicit arguments: replaying a trace needs no PRNG.
#[derive(Clone, Debug, Serialize, Deserialize, PartialEq)]
pub enum Action {
	Pump { n: usize },
	Deliver { from: usize, to: usize },
	/// side: 0 = both ends notice, 1 = only `a` notices now, 2 = only `b`
	Disconnect { a: usize, b: usize, side: u8 },
	Reconnect { a: usize, b: usize },
	/// paths: per path the channel indices from the sender on; amts: amount delivered per path;
	/// fee_delta_msat: deliberate over(+)/under(-)payment of every forwarding fee
	Send {
		from: usize,
		to: usize,
		paths: Vec<Vec<usize>>,
		amts: Vec<u64>,
		fee_delta_msat: i64,
		cltv_delta_adj: i32,
		/// C04: a sender-side flaw the recipient must refuse. 1: a bit of the payment secret
		/// flipped, 2: the secret of the previous payment to this recipient, 3: less than the
		/// amount the recipient registered, 4: the onion announces a larger total than is sent,
		/// 5: the payment secret (registered with a custom final CLTV delta) expired hours ago
		#[serde(default)]
		flaw: u8,
	},
	Drain { n: usize },
	Forward { n: usize },
	Tick { n: usize },
	Claim { n: usize, pay: usize },
	FailBack { n: usize, pay: usize },
	SetFee { n: usize, rate: u32 },
	/// the node changes the forwarding policy of all its channels (update_partial_channel_config);
	/// mix != 0: from now on senders routing through it pay the cheaper fee and the smaller CLTV
	/// delta of the old and the new policy (an HTLC that satisfies neither policy as a whole when
	/// the two moved in opposite directions)
	SetPolicy { n: usize, fee_base: u32, fee_prop: u32, cltv_delta: u16, mix: u8 },
	CloseCoop { n: usize, chan: usize },
	ForceClose { n: usize, chan: usize },
	CompleteMon { n: usize, chan: usize, which: u8 },
	AsyncOn { n: usize, chan: usize },
	PersistMgr { n: usize },
	Relay { n: usize },
	Mine { count: u32 },
	Sync { n: usize, style: u8 },
	/// pick[i] selects, for the i-th channel of the node, which blob survives: 0 = durable,
	/// k>0 = the k-th in-flight candidate (clamped)
	Crash { n: usize, pick: Vec<u8> },
	/// arm a crash inside the `at`-th next Persist call (the write itself reaches disk iff `after`)
	ArmCrash { n: usize, at: u64, after: bool },
	Restart { n: usize, style: u8 },
	Abandon { n: usize, pay: usize },
	/// C03: the sender of payment `pay` calls send again with the same PaymentId while the library
	/// still lists that payment
	Resend { pay: usize },
	Sweep { n: usize },
	Reorg { depth: u32, readmit: bool, new_len: u32 },
	Settle,
	/// close everything, mine until all monitors have drained, sweep, then the wealth oracle
	Liquidate,
	/// C06: node `n` gets the `age`-th newest of its revoked commitments on `chan` mined, with the
	/// HTLC transactions selected by `same_block` in the same block and those of `later` handed to
	/// the miner afterwards; the victim sees the chain `v_late` blocks late
	Cheat { n: usize, chan: usize, age: u32, same_block: u32, later: u32, v_late: u8 },
	/// C05 (Byzantine peer): the message at the head of the queue from->to is altered in flight
	/// before delivery. kind 0: revoke_and_ack with a different (valid scalar) secret, 1:
	/// revoke_and_ack with the secret of the wrong commitment number (the next point's parent
	/// replaced), 2: commitment_signed with a signature made invalid
	Tamper { from: usize, to: usize, kind: u8 },
	/// C14: the update_add_htlc at the head of the queue from->to is altered in flight (kind 0: a
	/// bit of the onion's hop data, 1: a bit of its HMAC, 2: its ephemeral key, 3: a bit of the
	/// payment hash) and delivered
	Corrupt { from: usize, to: usize, kind: u8, bit: u32 },
	/// C07: the previous, not yet revoked holder commitment of `n` on `chan` gets mined
	ClosePrev { n: usize, chan: usize },
	/// C08: node `n` loses all its connections and cannot reconnect until `Heal`
	Partition { n: usize },
	Heal { n: usize },
	/// C08: node `n` stops for good (its operator never comes back)
	Gone { n: usize },
	/// perturbations of the liquidation phase (see justice::LiqPlan)
	LiqPlan {
		holds: Vec<(u32, u32)>,
		restarts: Vec<(u32, usize)>,
		fees: Vec<(u32, usize, u32)>,
		/// (round, depth): the last `depth` (< 6) blocks are replaced, their transactions going
		/// back to the mempool
		#[serde(default)]
		reorgs: Vec<(u32, u32)>,
	},
}

impl Action {
	pub fn kind(&self) -> &'static str {
		match self {
			Action::Pump { .. } => "Pump",
			Action::Deliver { .. } => "Deliver",
			Action::Disconnect { .. } => "Disconnect",
			Action::Reconnect { .. } => "Reconnect",
			Action::Send { .. } => "Send",
			Action::Drain { .. } => "Drain",
			Action::Forward { .. } => "Forward",
			Action::Tick { .. } => "Tick",
			Action::Claim { .. } => "Claim",
			Action::FailBack { .. } => "FailBack",
			Action::SetFee { .. } => "SetFee",
			Action::SetPolicy { .. } => "SetPolicy",
			Action::CloseCoop { .. } => "CloseCoop",
			Action::ForceClose { .. } => "ForceClose",
			Action::CompleteMon { .. } => "CompleteMon",
			Action::AsyncOn { .. } => "AsyncOn",
			Action::PersistMgr { .. } => "PersistMgr",
			Action::Relay { .. } => "Relay",
			Action::Mine { .. } => "Mine",
			Action::Sync { .. } => "Sync",
			Action::Crash { .. } => "Crash",
			Action::ArmCrash { .. } => "ArmCrash",
			Action::Restart { .. } => "Restart",
			Action::Abandon { .. } => "Abandon",
			Action::Resend { .. } => "Resend",
			Action::Sweep { .. } => "Sweep",
			Action::Reorg { .. } => "Reorg",
			Action::Settle => "Settle",
			Action::Liquidate => "Liquidate",
			Action::Cheat { .. } => "Cheat",
			Action::Tamper { .. } => "Tamper",
			Action::ClosePrev { .. } => "ClosePrev",
			Action::Corrupt { .. } => "Corrupt",
			Action::Partition { .. } => "Partition",
			Action::Heal { .. } => "Heal",
			Action::Gone { .. } => "Gone",
			Action::LiqPlan { .. } => "LiqPlan",
		}
	}
	pub fn actor(&self) -> usize {
		match self {
			Action::Pump { n }
			| Action::Drain { n }
			| Action::Forward { n }
			| Action::Tick { n }
			| Action::Claim { n, .. }
			| Action::FailBack { n, .. }
			| Action::SetFee { n, .. }
			| Action::SetPolicy { n, .. }
			| Action::CloseCoop { n, .. }
			| Action::ForceClose { n, .. }
			| Action::CompleteMon { n, .. }
			| Action::AsyncOn { n, .. }
			| Action::PersistMgr { n }
			| Action::Relay { n }
			| Action::Sync { n, .. }
			| Action::Crash { n, .. }
			| Action::ArmCrash { n, .. }
			| Action::Restart { n, .. }
			| Action::Sweep { n }
			| Action::Cheat { n, .. }
			| Action::ClosePrev { n, .. }
			| Action::Partition { n }
			| Action::Heal { n }
			| Action::Gone { n }
			| Action::Abandon { n, .. } => *n,
			Action::Deliver { to, .. } | Action::Tamper { to, .. } | Action::Corrupt { to, .. } => *to,
			Action::Disconnect { a, .. } | Action::Reconnect { a, .. } => *a,
			Action::Send { from, .. } => *from,
			Action::Mine { .. } | Action::Reorg { .. } | Action::Settle | Action::Liquidate | Action::LiqPlan { .. } | Action::Resend { .. } => 99,
		}
	}
}

#[derive(Clone, Debug)]
pub enum WireMsg {
	OpenChannel(msgs::OpenChannel),
	AcceptChannel(msgs::AcceptChannel),
	FundingCreated(msgs::FundingCreated),
	FundingSigned(msgs::FundingSigned),
	ChannelReady(msgs::ChannelReady),
	Add(msgs::UpdateAddHTLC),
	Fulfill(msgs::UpdateFulfillHTLC),
	Fail(msgs::UpdateFailHTLC),
	FailMalformed(msgs::UpdateFailMalformedHTLC),
	Fee(msgs::UpdateFee),
	Commit(Vec<msgs::CommitmentSigned>),
	Revoke(msgs::RevokeAndACK),
	Shutdown(msgs::Shutdown),
	ClosingSigned(msgs::ClosingSigned),
	Reestablish(msgs::ChannelReestablish),
	AnnSigs(msgs::AnnouncementSignatures),
	ChanUpdate(msgs::ChannelUpdate),
	Error(msgs::ErrorMessage),
	Warning(msgs::WarningMessage),
}

impl WireMsg {
	pub fn kind(&self) -> &'static str {
		match self {
			WireMsg::OpenChannel(_) => "open_channel",
			WireMsg::AcceptChannel(_) => "accept_channel",
			WireMsg::FundingCreated(_) => "funding_created",
			WireMsg::FundingSigned(_) => "funding_signed",
			WireMsg::ChannelReady(_) => "channel_ready",
			WireMsg::Add(_) => "update_add_htlc",
			WireMsg::Fulfill(_) => "update_fulfill_htlc",
			WireMsg::Fail(_) => "update_fail_htlc",
			WireMsg::FailMalformed(_) => "update_fail_malformed_htlc",
			WireMsg::Fee(_) => "update_fee",
			WireMsg::Commit(_) => "commitment_signed",
			WireMsg::Revoke(_) => "revoke_and_ack",
			WireMsg::Shutdown(_) => "shutdown",
			WireMsg::ClosingSigned(_) => "closing_signed",
			WireMsg::Reestablish(_) => "channel_reestablish",
			WireMsg::AnnSigs(_) => "announcement_signatures",
			WireMsg::ChanUpdate(_) => "channel_update",
			WireMsg::Error(_) => "error",
			WireMsg::Warning(_) => "warning",
		}
	}
	pub fn channel_id(&self) -> Option<ChannelId> {
		Some(match self {
			WireMsg::OpenChannel(m) => m.common_fields.temporary_channel_id,
			WireMsg::AcceptChannel(m) => m.common_fields.temporary_channel_id,
			WireMsg::FundingCreated(m) => m.temporary_channel_id,
			WireMsg::FundingSigned(m) => m.channel_id,
			WireMsg::ChannelReady(m) => m.channel_id,
			WireMsg::Add(m) => m.channel_id,
			WireMsg::Fulfill(m) => m.channel_id,
			WireMsg::Fail(m) => m.channel_id,
			WireMsg::FailMalformed(m) => m.channel_id,
			WireMsg::Fee(m) => m.channel_id,
			WireMsg::Commit(m) => m[0].channel_id,
			WireMsg::Revoke(m) => m.channel_id,
			WireMsg::Shutdown(m) => m.channel_id,
			WireMsg::ClosingSigned(m) => m.channel_id,
			WireMsg::Reestablish(m) => m.channel_id,
			WireMsg::AnnSigs(m) => m.channel_id,
			WireMsg::ChanUpdate(_) => return None,
			WireMsg::Error(m) => m.channel_id,
			WireMsg::Warning(m) => m.channel_id,
		})
	}
	pub fn encode(&self) -> Vec<u8> {
		match self {
			WireMsg::OpenChannel(m) => m.encode(),
			WireMsg::AcceptChannel(m) => m.encode(),
			WireMsg::FundingCreated(m) => m.encode(),
			WireMsg::FundingSigned(m) => m.encode(),
			WireMsg::ChannelReady(m) => m.encode(),
			WireMsg::Add(m) => m.encode(),
			WireMsg::Fulfill(m) => m.encode(),
			WireMsg::Fail(m) => m.encode(),
			WireMsg::FailMalformed(m) => m.encode(),
			WireMsg::Fee(m) => m.encode(),
			WireMsg::Commit(m) => {
				let mut v = Vec::new();
				for c in m {
					v.extend(c.encode());
				}
				v
			},
			WireMsg::Revoke(m) => m.encode(),
			WireMsg::Shutdown(m) => m.encode(),
			WireMsg::ClosingSigned(m) => m.encode(),
			WireMsg::Reestablish(m) => m.encode(),
			WireMsg::AnnSigs(m) => m.encode(),
			WireMsg::ChanUpdate(m) => m.encode(),
			WireMsg::Error(m) => m.encode(),
			WireMsg::Warning(m) => m.encode(),
		}
	}
	/// Every simulated wire hop re-encodes and re-decodes the message (the wire format is part of
	/// what runs for real). `None` means the round trip failed or changed the message.
	pub fn roundtrip(&self) -> Option<WireMsg> {
		fn rt<T: Writeable + LengthReadable + PartialEq>(m: &T) -> Option<T> {
			let b = m.encode();
			let r = T::read_from_fixed_length_buffer(&mut &b[..]).ok()?;
			if r == *m {
				Some(r)
			} else {
				None
			}
		}
		Some(match self {
			WireMsg::OpenChannel(m) => WireMsg::OpenChannel(rt(m)?),
			WireMsg::AcceptChannel(m) => WireMsg::AcceptChannel(rt(m)?),
			WireMsg::FundingCreated(m) => WireMsg::FundingCreated(rt(m)?),
			WireMsg::FundingSigned(m) => WireMsg::FundingSigned(rt(m)?),
			WireMsg::ChannelReady(m) => WireMsg::ChannelReady(rt(m)?),
			WireMsg::Add(m) => WireMsg::Add(rt(m)?),
			WireMsg::Fulfill(m) => WireMsg::Fulfill(rt(m)?),
			WireMsg::Fail(m) => WireMsg::Fail(rt(m)?),
			WireMsg::FailMalformed(m) => WireMsg::FailMalformed(rt(m)?),
			WireMsg::Fee(m) => WireMsg::Fee(rt(m)?),
			WireMsg::Commit(m) => {
				let mut v = Vec::new();
				for c in m {
					v.push(rt(c)?);
				}
				WireMsg::Commit(v)
			},
			WireMsg::Revoke(m) => WireMsg::Revoke(rt(m)?),
			WireMsg::Shutdown(m) => WireMsg::Shutdown(rt(m)?),
			WireMsg::ClosingSigned(m) => WireMsg::ClosingSigned(rt(m)?),
			WireMsg::Reestablish(m) => WireMsg::Reestablish(rt(m)?),
			WireMsg::AnnSigs(m) => WireMsg::AnnSigs(rt(m)?),
			WireMsg::ChanUpdate(m) => WireMsg::ChanUpdate(rt(m)?),
			WireMsg::Error(m) => WireMsg::Error(rt(m)?),
			WireMsg::Warning(m) => WireMsg::Warning(rt(m)?),
		})
	}
}

pub struct Live {
	pub manager: Arc<SimManager>,
	pub monitor: Arc<SimChainMonitor>,
	pub watch: Arc<WatchTap>,
	pub persister: Arc<SimPersister>,
}

pub struct Node {
	pub idx: usize,
	pub cfg: NodeCfg,
	pub keys: Arc<SimKeys>,
	pub logger: Arc<SimLogger>,
	pub fee: Arc<SimFee>,
	pub broadcaster: Arc<SimBroadcaster>,
	pub filter: Arc<SimFilter>,
	pub router: Arc<SimRouter>,
	pub disk: Disk,
	pub live: Option<Live>,
	pub node_id: PublicKey,
	pub user_cfg: UserConfig,
	/// payments this node's application may still claim or fail (it saw PaymentClaimable)
	pub claimables: BTreeMap<usize, ClaimableInfo>,
	pub signer_cursor: usize,
	pub watch_cursor: usize,
	pub persist_cursor: usize,
	pub incarnation: u32,
	/// height of the best block this node's manager was last told about
	pub synced_height: u32,
	pub wallet: Arc<TestWalletSource>,
	pub bump: SimBumpHandler,
	pub sweeps: Vec<crate::onchain::PendingSweep>,
	pub unsweepable_sat: u64,
	pub forward_fees_told_msat: u64,
	/// channels closed with OutdatedChannelManager in the current incarnation
	/// forwarding policies (fee base, proportional, CLTV delta) this node advertised before its
	/// current one (`cfg`), oldest first
	pub policy_hist: Vec<(u32, u32, u16)>,
	/// senders mix the previous and the current policy of this node (see Action::SetPolicy)
	pub policy_mix: bool,
	pub outdated_chans: BTreeSet<usize>,
	/// channels closed with OutdatedChannelManager in any incarnation so far
	pub ever_outdated_chans: BTreeSet<usize>,
	/// terminal events (payment id, is PaymentSent) this incarnation inherited, still unhandled, in
	/// the queue of the manager snapshot it was loaded from: generated by an earlier incarnation
	pub inherited_terminal: Vec<([u8; 32], bool)>,
	/// events offered to this node's handler so far (seed of the replay-request fault)
	pub event_seq: u64,
	/// step of the node's last chain sync, and whether some reorganisation found it with chain
	/// data processed after its last poll of pending (monitor) events
	pub last_sync_step: u64,
	pub unpolled_at_reorg: bool,
	/// step at which the current incarnation started
	pub live_since_step: u64,
	/// channels with a completed monitor write the ChannelManager has not been told about yet
	pub unprocessed_completions: BTreeSet<[u8; 32]>,
	/// channels this node reported closed (any reason) in this / in an earlier incarnation
	pub closed_this_incarnation: BTreeSet<usize>,
	pub closed_in_earlier_incarnation: BTreeSet<usize>,
	/// generation of the manager snapshot each restart loaded
	pub loaded_gens: Vec<u64>,
	/// channels that were closed (user force close or peer error) while an asynchronous monitor
	/// write of that channel was still in flight
	pub closed_inflight: BTreeSet<usize>,
	/// C12 round-trip checks after every action that touched this node
	pub check_roundtrip: bool,
	/// C11: how this incarnation is told about the chain, what it was told, its shadow monitors
	pub style: u8,
	pub view: Vec<bitcoin::BlockHash>,
	pub shadows: BTreeMap<[u8; 32], crate::chainstyle::Shadow>,
	pub check_styles: bool,
	/// the node's operator turned cheater and took the node down for good (profile `justice`)
	pub gone: bool,
	/// step of the last Pump / Drain (both make the manager poll its monitors' pending events)
	pub last_poll_step: u64,
	/// height at which the node went down (profile `deadlines` bounds the downtime, T3)
	pub down_since: Option<u32>,
	/// chain height when this incarnation finished its start-up sync (0 for the first)
	pub live_since_height: u32,
}

#[derive(Clone, Debug)]
pub struct ClaimableInfo {
	pub amount_msat: u64,
	pub claim_deadline: Option<u32>,
	pub seen_at_height: u32,
}

#[derive(Clone, Debug)]
pub struct ChanInfo {
	pub idx: usize,
	pub a: usize,
	pub b: usize,
	pub value_sat: u64,
	pub push_msat: u64,
	pub channel_id: ChannelId,
	pub funding: bitcoin::OutPoint,
	pub scid: u64,
	/// a close of this channel was requested by the simulated user (coop or force)
	pub close_requested: bool,
	pub force_closed_by: Option<usize>,
	/// the simulated user asked for a cooperative close
	pub coop_requested: bool,
	/// some node reported the channel cooperatively closed
	pub coop_done: bool,
	/// a violation was already reported for this channel; its consequences are not re-reported
	pub tainted: bool,
}

#[derive(Clone, Debug)]
pub struct PathInfo {
	pub chans: Vec<usize>,
	pub nodes: Vec<usize>,
	/// amount carried on each hop (hop_amts[0] is what the sender puts on its first channel)
	pub hop_amts: Vec<u64>,
	pub hop_cltv_deltas: Vec<u32>,
}

#[derive(Clone, Debug, Default)]
pub struct PayEvents {
	pub sent: Vec<(u64, u32, Option<u64>, u64)>, // (step, incarnation, fee_paid, amount)
	pub failed: Vec<(u64, u32)>,
	pub path_failed: Vec<(u64, Option<u64>, bool)>, // (step, scid, permanently)
	/// manager snapshot generation current when each PaymentSent / PaymentPathFailed was handled
	pub sent_gen: Vec<u64>,
	pub failed_gen: Vec<u64>,
	pub path_failed_gen: Vec<u64>,
	pub claimable: Vec<(u64, u64)>,                 // (step, amount)
	pub claimed: Vec<(u64, u64)>,
}

#[derive(Clone, Debug)]
pub struct Pay {
	pub idx: usize,
	pub from: usize,
	pub to: usize,
	pub preimage: PaymentPreimage,
	pub hash: PaymentHash,
	pub secret: PaymentSecret,
	pub total_msat: u64,
	pub paths: Vec<PathInfo>,
	pub id: PaymentId,
	/// the sender's API accepted the payment (something is or was in flight)
	pub accepted: bool,
	pub send_step: u64,
	pub claim_called: Option<u64>,
	pub fail_called: Option<u64>,
	pub ev: PayEvents,
	/// the route deliberately violates a forwarding policy (must be failed by the forwarder)
	pub policy_violating: bool,
	pub sender_balances_before: Vec<(usize, u64)>,
	/// after a restart the sender no longer lists the payment (it was sent after the manager
	/// snapshot the node restarted from): it must have no HTLC in flight and never complete
	pub forgotten: Option<u64>,
	/// first manager snapshot generation that can contain this payment
	pub first_gen: u64,
	/// manager snapshot generation current when the recipient called claim_funds
	pub claim_gen: Option<u64>,
	/// height, advertised deadline and recipient incarnation when claim_funds was called
	pub claim_height: Option<u32>,
	pub claim_deadline: Option<u32>,
	pub claim_incarnation: Option<u32>,
	/// best block height of the sender when the payment was sent
	pub send_height: u32,
	/// profile `onionline`: the one forwarding hop (index into the path's nodes) that is under-paid
	pub underpaid_hop: Option<usize>,
	/// C04: the sender-side flaw of this payment (0 = none); a flawed payment must be refused
	pub flaw: u8,
	/// the sender restarted from a ChannelManager snapshot taken before it handled this payment's
	/// PaymentSent: every later incarnation descends from a manager that does not know about it
	pub sent_handling_lost: bool,
	/// likewise for PaymentFailed: reported, then rolled back by a restart from an older snapshot
	pub failed_handling_lost: bool,
	/// the sender restarted from a manager snapshot older than the payment and re-learned it
	/// from its ChannelMonitors
	pub rehydrated: bool,
}

thread_local! {
	/// configuration and every action attempted so far of the run executing on this thread: lets
	/// a library panic that escapes outside an action (e.g. inside a read-only query of the
	/// scheduler or the fingerprint) still be reported with a replayable trace
	pub static CURRENT_RUN: std::cell::RefCell<Option<(Config, Vec<Action>)>> = std::cell::RefCell::new(None);
}

pub struct World {
	pub cfg: Config,
	pub chain: ChainModel,
	pub nodes: Vec<Node>,
	pub queues: BTreeMap<(usize, usize), VecDeque<WireMsg>>,
	/// conn[(x, y)] = x believes it is connected to y
	pub conn: BTreeMap<(usize, usize), bool>,
	pub chans: Vec<ChanInfo>,
	pub pays: Vec<Pay>,
	pub ledgers: Vec<Ledger>,
	pub clock: u64,
	pub step: u64,
	pub out: RunOutcome,
	pub hist: u64,
	pub inter: u64,
	pub trace: Vec<Action>,
	pub dead: bool,
	pub strict_offchain: bool,
	pub state_fps: BTreeSet<u64>,
	pub sample: Vec<String>,
	pub in_settle: bool,
	pub oracle: crate::oracle::OracleState,
	/// C06: (node, chan) -> the node's archived holder commitments
	pub archive: BTreeMap<(usize, usize), Vec<crate::justice::ArchEntry>>,
	pub cheat: Option<crate::justice::CheatState>,
	/// set while a Tamper action delivers the head of a queue
	pub tamper: Option<u8>,
	pub tampers_done: u32,
	pub onion: crate::onionline::OnionState,
	pub corrupt_in_progress: bool,
	pub last_reorg_step: u64,
	/// nodes that revoked a holder commitment after handing it to the broadcaster (C05-2): the peer
	/// may punish them, which the conservation oracle then reports as a consequence
	pub revoked_after_broadcast: BTreeSet<usize>,
	/// (node, chan): the node handed its commitment to the broadcaster and then crashed while
	/// monitor writes of that channel were still `InProgress` (and were lost)
	pub broadcast_on_lost_state: BTreeSet<(usize, usize)>,
	/// reorganisations that drop the removed transactions keep those no live node would re-broadcast
	pub readmit_foreign: bool,
	/// batch-sweep checks already made: (node, number of outputs, first outpoint)
	pub batch_sweep_checked: BTreeSet<(usize, usize, bitcoin::OutPoint)>,
	/// C08: nodes currently cut off; nodes that were ever cut off or gone; last HTLC views
	pub partitioned: BTreeSet<usize>,
	pub ever_unresponsive: BTreeSet<usize>,
	pub htlc_views: crate::deadlines::HtlcViews,
	pub liq_plan: Option<crate::justice::LiqPlan>,
}

pub fn node_user_config(chan_type: ChanType, nc: &NodeCfg) -> UserConfig {
	let mut c = UserConfig::default();
	c.channel_config.forwarding_fee_base_msat = nc.fee_base_msat;
	c.channel_config.forwarding_fee_proportional_millionths = nc.fee_prop_millionths;
	c.channel_config.cltv_expiry_delta = nc.cltv_delta;
	if let Some(x) = nc.max_dust_exposure_msat {
		c.channel_config.max_dust_htlc_exposure = MaxDustHTLCExposure::FixedLimitMsat(x);
	}
	c.channel_handshake_config.announce_for_forwarding = true;
	c.channel_handshake_config.our_htlc_minimum_msat = nc.htlc_minimum_msat;
	c.channel_handshake_config.our_max_accepted_htlcs = nc.max_accepted_htlcs;
	c.channel_handshake_config.their_channel_reserve_proportional_millionths = nc.reserve_ppm;
	c.channel_handshake_config.announced_channel_max_inbound_htlc_value_in_flight_percentage =
		nc.inflight_pct;
	c.channel_handshake_config.our_to_self_delay = nc.to_self_delay;
	c.channel_handshake_limits.force_announced_channel_preference = false;
	match chan_type {
		ChanType::Legacy => {
			c.channel_handshake_config.negotiate_anchors_zero_fee_htlc_tx = false;
			c.channel_handshake_config.negotiate_anchor_zero_fee_commitments = false;
		},
		ChanType::Anchors => {
			c.channel_handshake_config.negotiate_anchors_zero_fee_htlc_tx = true;
			c.channel_handshake_config.negotiate_anchor_zero_fee_commitments = false;
		},
		ChanType::ZeroFee => {
			c.channel_handshake_config.negotiate_anchors_zero_fee_htlc_tx = false;
			c.channel_handshake_config.negotiate_anchor_zero_fee_commitments = true;
		},
	}
	c
}

fn build_live(node: &Node, manager_bytes: Option<&[u8]>) -> Result<Live, String> {
	let _ = manager_bytes;
	let persister = Arc::new(SimPersister {
		disk: Arc::clone(&node.disk),
		keys: Arc::clone(&node.keys),
		broadcaster: Arc::clone(&node.broadcaster),
	});
	let monitor: Arc<SimChainMonitor> = Arc::new(ChainMonitor::new(
		Some(Arc::clone(&node.filter)),
		Arc::clone(&node.broadcaster),
		Arc::clone(&node.logger),
		Arc::clone(&node.fee),
		Arc::clone(&persister),
		Arc::clone(&node.keys),
		node.keys.get_peer_storage_key(),
		node.cfg.deferred,
	));
	let watch = Arc::new(WatchTap::new(Arc::clone(&monitor)));
	*watch.tools.lock().unwrap() =
		Some((Arc::clone(&node.keys), Arc::clone(&node.fee), Arc::clone(&node.logger)));
	watch.check_update_commutes.store(node.check_roundtrip, std::sync::atomic::Ordering::Relaxed);
	let network = Network::Bitcoin;
	let params = ChainParameters { network, best_block: BlockLocator::from_network(network) };
	let manager = Arc::new(ChannelManager::new(
		Arc::clone(&node.fee),
		Arc::clone(&watch),
		Arc::clone(&node.broadcaster),
		Arc::clone(&node.router),
		Arc::clone(&node.router),
		Arc::clone(&node.logger),
		Arc::clone(&node.keys),
		Arc::clone(&node.keys),
		Arc::clone(&node.keys),
		node.user_cfg.clone(),
		params,
		42,
	));
	Ok(Live { manager, monitor, watch, persister })
}

impl World {
	pub fn new(cfg: Config) -> World {
		CURRENT_RUN.with(|c| *c.borrow_mut() = Some((cfg.clone(), Vec::new())));
		let mut nodes = Vec::new();
		for (idx, nc) in cfg.nodes.iter().enumerate() {
			let mut seed = [0u8; 32];
			seed[..8].copy_from_slice(&cfg.node_seed.to_le_bytes());
			seed[8] = idx as u8;
			seed[31] = 0x5a;
			let keys = Arc::new(SimKeys::new(idx, seed));
			let node_id = keys.get_node_id(lightning::sign::Recipient::Node).unwrap();
			let disk: Disk = Arc::new(Mutex::new(DiskState::default()));
			disk.lock().unwrap().async_default = nc.async_default;
			let logger = Arc::new(SimLogger::new(idx));
			let broadcaster = Arc::new(SimBroadcaster::new());
			let mut wsk = [0x77u8; 32];
			wsk[0] = idx as u8 + 1;
			wsk[1..9].copy_from_slice(&cfg.node_seed.to_le_bytes());
			let wallet = Arc::new(TestWalletSource::new(
				bitcoin::secp256k1::SecretKey::from_slice(&wsk).expect("wallet key"),
			));
			let wallet_sync = Arc::new(WalletSync::new(Arc::clone(&wallet), Arc::clone(&logger)));
			let bump = BumpTransactionEventHandlerSync::new(
				Arc::clone(&broadcaster),
				wallet_sync,
				Arc::clone(&keys),
				Arc::clone(&logger),
			);
			let mut node = Node {
				idx,
				cfg: nc.clone(),
				keys,
				logger,
				fee: Arc::new(SimFee::new()),
				broadcaster,
				filter: Arc::new(SimFilter::new()),
				router: Arc::new(SimRouter),
				disk,
				live: None,
				node_id,
				user_cfg: node_user_config(cfg.chan_type, nc),
				claimables: BTreeMap::new(),
				signer_cursor: 0,
				watch_cursor: 0,
				persist_cursor: 0,
				incarnation: 0,
				synced_height: 0,
				wallet,
				bump,
				sweeps: Vec::new(),
				unsweepable_sat: 0,
				forward_fees_told_msat: 0,
				policy_hist: Vec::new(),
				policy_mix: false,
				outdated_chans: BTreeSet::new(),
				ever_outdated_chans: BTreeSet::new(),
				inherited_terminal: Vec::new(),
				event_seq: 0,
				last_sync_step: 0,
				unpolled_at_reorg: false,
				live_since_step: 0,
				unprocessed_completions: BTreeSet::new(),
				closed_this_incarnation: BTreeSet::new(),
				closed_in_earlier_incarnation: BTreeSet::new(),
				loaded_gens: Vec::new(),
				closed_inflight: BTreeSet::new(),
				check_roundtrip: cfg.profile == "roundtrip",
				style: if cfg.profile == "chainstyle" {
					// debugging aid: VERIF_LIVE_STYLE forces every node's own delivery style
					match std::env::var("VERIF_LIVE_STYLE").ok().and_then(|v| v.parse::<u8>().ok()) {
						Some(v) => v % crate::chainstyle::N_STYLES,
						None => (cfg.node_seed.wrapping_add(idx as u64 * 3) % crate::chainstyle::N_STYLES as u64) as u8,
					}
				} else {
					0
				},
				view: Vec::new(),
				shadows: BTreeMap::new(),
				check_styles: cfg.profile == "chainstyle",
				gone: false,
				last_poll_step: 0,
				down_since: None,
				live_since_height: 0,
			};
			node.live = Some(build_live(&node, None).expect("fresh node"));
			nodes.push(node);
		}
		let strict = cfg.profile == "offchain";
		World {
			out: RunOutcome::new(&cfg.profile, 0),
			cfg,
			chain: ChainModel::new(),
			nodes,
			queues: BTreeMap::new(),
			conn: BTreeMap::new(),
			chans: Vec::new(),
			pays: Vec::new(),
			ledgers: Vec::new(),
			clock: 1_700_000_000,
			step: 0,
			hist: fnv(b"lnsim"),
			inter: fnv(b"inter"),
			trace: Vec::new(),
			dead: false,
			strict_offchain: strict,
			state_fps: BTreeSet::new(),
			sample: Vec::new(),
			in_settle: false,
			oracle: Default::default(),
			archive: BTreeMap::new(),
			cheat: None,
			tamper: None,
			tampers_done: 0,
			onion: Default::default(),
			corrupt_in_progress: false,
			last_reorg_step: 0,
			revoked_after_broadcast: BTreeSet::new(),
			broadcast_on_lost_state: BTreeSet::new(),
			readmit_foreign: false,
			batch_sweep_checked: BTreeSet::new(),
			partitioned: BTreeSet::new(),
			ever_unresponsive: BTreeSet::new(),
			htlc_views: BTreeMap::new(),
			liq_plan: None,
		}
	}

	pub fn note(&mut self, s: &str) {
		self.hist = fnv_extend(self.hist, s.as_bytes());
		if std::env::var("VERIF_TRACE").is_ok() {
			eprintln!("[{}] {}", self.step, s);
		}
	}

	pub fn violate(&mut self, property: &str, oracle: &str, msg: String) {
		if std::env::var("VERIF_TRACE").is_ok() {
			eprintln!("[{}] VIOLATION {} {}: {}", self.step, property, oracle, msg);
		}
		let step = self.step;
		// profile `justice` decides C06: what the victim broadcasts and recovers there is the
		// punishment of a revoked commitment (C06-1 validity, C06-3 fees, C06-4 balances / sweeps)
		if self.cfg.profile == "justice" && self.cheat.is_some() && property == "C07" {
			let o = oracle.replacen("C07-", "C06/C07-", 1);
			self.out.violate("C06", &o, step, msg);
			return;
		}
		// profiles `crash` / `crashsweep` decide C10: "after reconnection every HTLC that was pending
		// at the crash still resolves correctly: forwarded claims are replayed upstream, outbound
		// payments reach a truthful terminal event" - what the forwarding, payment and receive
		// oracles report there is reported under C10
		if matches!(self.cfg.profile.as_str(), "crash" | "crashsweep") && matches!(property, "C02" | "C03" | "C04") {
			let o = format!("C10/{}", oracle);
			self.out.violate("C10", &o, step, msg);
			return;
		}
		// profile `chainstyle` decides C11: what the on-chain oracles (validity of broadcasts, balances
		// that drain, conservation) report there happened under reorganisations and mixed delivery
		// styles - "a reorganisation shallower than that depth fully retracts the effects of the
		// transactions it removes"
		if self.cfg.profile == "chainstyle" && property == "C07" {
			let o = format!("C11/{}", oracle);
			self.out.violate("C11", &o, step, msg);
			return;
		}
		// profile `asyncpersist` decides C09: "once completions arrive, in any order and after any
		// delay, exactly the held messages are released" - a payment or forward that never completes
		// there is a held message (or fail-back) that was never released
		if self.cfg.profile == "asyncpersist" && matches!(property, "C02" | "C03" | "C04") {
			let o = format!("C09/{}", oracle);
			self.out.violate("C09", &o, step, msg);
			return;
		}
		self.out.violate(property, oracle, step, msg);
	}

	pub fn harness_error(&mut self, msg: String) {
		if self.out.harness_errors.len() < 5 {
			self.out.harness_errors.push(format!("step {}: {}", self.step, msg));
		}
		self.dead = true;
	}

	pub fn mgr(&self, n: usize) -> Option<Arc<SimManager>> {
		self.nodes[n].live.as_ref().map(|l| Arc::clone(&l.manager))
	}

	pub fn is_conn(&self, x: usize, y: usize) -> bool {
		*self.conn.get(&(x, y)).unwrap_or(&false)
	}

	/// A panic inside library code while executing an action: attributed to a property by the
	/// fixed table of DESIGN §7.1.
	pub fn library_panic(&mut self, what: &str, msg: String, loc: String) {
		if self.dead {
			// the run already ended with a library panic; what follows inside the same composite
			// action (poisoned locks) is its consequence, not a second finding
			return;
		}
		let profile = self.cfg.profile.clone();
		let (prop, oracle) = if loc.contains("test_channel_signer.rs") {
			("C05", "C05-policy signer assertion")
		} else if msg.contains("Completed while prior")
			|| msg.contains("Watch::update_channel returned Completed while")
		{
			self.harness_error(format!("simulator broke the Persist contract: {} at {}", msg, loc));
			return;
		} else if loc.contains("chain/onchaintx.rs") || loc.contains("chain/package.rs") {
			// LDK's own (debug) assertions in the claim machinery are treated as on-chain oracles
			("C07", "C07-0 panic in on-chain claim handling")
		} else if msg.contains("Tried to fulfill an HTLC that was already failed") {
			// the forwarder learnt the preimage from downstream after it had failed the upstream HTLC
			// back: the downstream HTLC was still claimable when it did so (C02), whatever the profile
			("C02", "C02-1 upstream HTLC failed back while the downstream HTLC was still claimable")
		} else if msg.contains("found_blocker") {
			// LDK's own debug assertion in the duplicate-claim path (FreeDuplicateClaimImmediately
			// without the RAA blocker it wants to free), reached after a restart: C10's subject
			("C10", "C10-0 debug assertion found_blocker after a restart")
		} else if msg.contains("Channels originating a payment resolution must have") {
			// a channel whose funding output the ChannelMonitor has already seen spent was resumed by a
			// restarted ChannelManager instead of being force-closed (C10), whatever the profile
			("C10", "C10-2 channel resumed although its ChannelMonitor had seen the funding spent")
		} else if what.starts_with("Restart") {
			("C10", "C10-1 restart panicked")
		} else {
			match profile.as_str() {
				"offchain" => ("C01", "C01-3 panic"),
				"forward" => ("C02", "C02-0 panic"),
				"payments" => ("C03", "C03-0 panic"),
				"receive" => ("C04", "C04-0 panic"),
				"asyncpersist" => ("C09", "C09-0 panic"),
				"crash" => ("C10", "C10-0 panic"),
				"onchain" => ("C07", "C07-0 panic"),
				"justice" => ("C06", "C06-0 panic"),
				"deadlines" => ("C08", "C08-0 panic"),
				"chainstyle" => ("C11", "C11-0 panic"),
				"roundtrip" => ("C12", "C12-0 panic"),
				"onionline" => ("C14", "C14-0 panic"),
				"tamper" => ("C05", "C05-0 panic"),
				_ => ("C01", "C01-3 panic"),
			}
		};
		self.violate(prop, oracle, format!("library panicked during {}: {} at {}", what, msg, loc));
		self.dead = true;
	}

	// -----------------------------------------------------------------------------------------
	// setup

	pub fn connect(&mut self, a: usize, b: usize) {
		let (ma, mb) = match (self.mgr(a), self.mgr(b)) {
			(Some(x), Some(y)) => (x, y),
			_ => return,
		};
		let init_b = msgs::Init {
			features: mb.init_features(),
			networks: None,
			remote_network_address: None,
		};
		let init_a = msgs::Init {
			features: ma.init_features(),
			networks: None,
			remote_network_address: None,
		};
		let ida = self.nodes[a].node_id;
		let idb = self.nodes[b].node_id;
		ma.peer_connected(idb, &init_b, true).unwrap();
		mb.peer_connected(ida, &init_a, false).unwrap();
		self.conn.insert((a, b), true);
		self.conn.insert((b, a), true);
		self.queues.entry((a, b)).or_default().clear();
		self.queues.entry((b, a)).or_default().clear();
	}

	pub fn node_index(&self, id: &PublicKey) -> Option<usize> {
		self.nodes.iter().position(|n| n.node_id == *id)
	}

	/// Runs pump/deliver/drain to quiescence with everything synchronous. Setup only.
	fn setup_pump_all(&mut self) {
		for _ in 0..200 {
			let mut progress = false;
			for n in 0..self.nodes.len() {
				progress |= self.do_pump(n);
			}
			let keys: Vec<(usize, usize)> = self.queues.keys().cloned().collect();
			for (f, t) in keys {
				while self.do_deliver(f, t) {
					progress = true;
				}
			}
			for n in 0..self.nodes.len() {
				progress |= self.do_drain(n);
				self.complete_all_monitor_writes(n);
				if self.nodes[n].cfg.deferred {
					self.do_persist_mgr(n);
					progress |= self.complete_all_monitor_writes(n);
				}
			}
			if !progress || self.dead {
				break;
			}
		}
	}

	pub fn setup(&mut self) {
		simcore_set_now(self.clock);
		// initial chain so that heights are not tiny
		self.chain.mine_empty(10);
		self.seed_wallets();
		let specs = self.cfg.chans.clone();
		let mut pairs = BTreeSet::new();
		for s in specs.iter() {
			pairs.insert((s.a.min(s.b), s.a.max(s.b)));
		}
		for (a, b) in pairs.iter() {
			self.connect(*a, *b);
		}
		for (ci, s) in specs.iter().enumerate() {
			let ma = self.mgr(s.a).unwrap();
			let idb = self.nodes[s.b].node_id;
			let res = catch(|| ma.create_channel(idb, s.value_sat, s.push_msat, ci as u128 + 1, None, None));
			match res {
				Ok(Ok(_)) => {},
				Ok(Err(e)) => {
					self.harness_error(format!("create_channel failed: {:?}", e));
					return;
				},
				Err((m, l)) => {
					self.library_panic("setup create_channel", m, l);
					return;
				},
			}
			self.chans.push(ChanInfo {
				idx: ci,
				a: s.a,
				b: s.b,
				value_sat: s.value_sat,
				push_msat: s.push_msat,
				channel_id: ChannelId([0; 32]),
				funding: bitcoin::OutPoint::null(),
				scid: 0,
				close_requested: false,
				force_closed_by: None,
				coop_requested: false,
				coop_done: false,
				tainted: false,
			});
			self.ledgers.push(Ledger::new(ci, s.a, s.b, s.value_sat, s.push_msat));
			self.setup_pump_all();
			if self.dead {
				return;
			}
		}
		// confirm fundings
		self.chain.mine_empty(8);
		for n in 0..self.nodes.len() {
			self.do_sync(n, 255);
		}
		self.setup_pump_all();
		// learn channel ids / scids
		for ci in 0..self.chans.len() {
			let (a, funding) = (self.chans[ci].a, self.chans[ci].funding);
			let ma = self.mgr(a).unwrap();
			let det = ma.list_channels().into_iter().find(|d| {
				d.funding_txo.map(|o| o.into_bitcoin_outpoint()) == Some(funding)
			});
			match det {
				Some(d) => {
					self.chans[ci].channel_id = d.channel_id;
					self.chans[ci].scid = d.short_channel_id.unwrap_or(0);
					if !d.is_usable {
						self.harness_error(format!("channel {} not usable after setup", ci));
					}
				},
				None => self.harness_error(format!("channel {} missing after setup", ci)),
			}
		}
		for n in 0..self.nodes.len() {
			self.do_persist_mgr(n);
			self.nodes[n].broadcaster.take();
			if self.nodes[n].check_styles {
				self.make_shadows(n);
			}
		}
		self.note("setup done");
	}

	// -----------------------------------------------------------------------------------------
	// message plumbing

	fn enqueue(&mut self, from: usize, to_id: &PublicKey, m: WireMsg) {
		let to = match self.node_index(to_id) {
			Some(t) => t,
			None => return,
		};
		if !self.is_conn(from, to) {
			self.out.bump("probe:msg_for_disconnected_peer_dropped");
			return;
		}
		self.observe_emit(from, to, &m);
		self.queues.entry((from, to)).or_default().push_back(m);
	}

	pub fn do_pump(&mut self, n: usize) -> bool {
		self.nodes[n].last_poll_step = self.step;
		self.nodes[n].unprocessed_completions.clear();
		let mgr = match self.mgr(n) {
			Some(m) => m,
			None => return false,
		};
		let events = match catch(|| mgr.get_and_clear_pending_msg_events()) {
			Ok(e) => e,
			Err((m, l)) => {
				self.library_panic("Pump", m, l);
				return false;
			},
		};
		let any = !events.is_empty();
		for ev in events {
			self.route_event(n, ev);
		}
		self.after_node_action(n);
		any
	}

	fn route_event(&mut self, n: usize, ev: MessageSendEvent) {
		use MessageSendEvent as E;
		match ev {
			E::SendOpenChannel { node_id, msg } => self.enqueue(n, &node_id, WireMsg::OpenChannel(msg)),
			E::SendAcceptChannel { node_id, msg } => {
				self.enqueue(n, &node_id, WireMsg::AcceptChannel(msg))
			},
			E::SendFundingCreated { node_id, msg } => {
				self.enqueue(n, &node_id, WireMsg::FundingCreated(msg))
			},
			E::SendFundingSigned { node_id, msg } => {
				self.enqueue(n, &node_id, WireMsg::FundingSigned(msg))
			},
			E::SendChannelReady { node_id, msg } => self.enqueue(n, &node_id, WireMsg::ChannelReady(msg)),
			E::SendAnnouncementSignatures { node_id, msg } => {
				self.enqueue(n, &node_id, WireMsg::AnnSigs(msg))
			},
			E::UpdateHTLCs { node_id, channel_id: _, updates } => {
				let msgs::CommitmentUpdate {
					update_add_htlcs,
					update_fulfill_htlcs,
					update_fail_htlcs,
					update_fail_malformed_htlcs,
					update_fee,
					commitment_signed,
				} = updates;
				for m in update_add_htlcs {
					self.enqueue(n, &node_id, WireMsg::Add(m));
				}
				for m in update_fulfill_htlcs {
					self.enqueue(n, &node_id, WireMsg::Fulfill(m));
				}
				for m in update_fail_htlcs {
					self.enqueue(n, &node_id, WireMsg::Fail(m));
				}
				for m in update_fail_malformed_htlcs {
					self.enqueue(n, &node_id, WireMsg::FailMalformed(m));
				}
				if let Some(m) = update_fee {
					self.enqueue(n, &node_id, WireMsg::Fee(m));
				}
				if !commitment_signed.is_empty() {
					self.enqueue(n, &node_id, WireMsg::Commit(commitment_signed));
				}
			},
			E::SendRevokeAndACK { node_id, msg } => self.enqueue(n, &node_id, WireMsg::Revoke(msg)),
			E::SendClosingSigned { node_id, msg } => {
				self.enqueue(n, &node_id, WireMsg::ClosingSigned(msg))
			},
			E::SendShutdown { node_id, msg } => self.enqueue(n, &node_id, WireMsg::Shutdown(msg)),
			E::SendChannelReestablish { node_id, msg } => {
				self.enqueue(n, &node_id, WireMsg::Reestablish(msg))
			},
			E::SendChannelUpdate { node_id, msg } => self.enqueue(n, &node_id, WireMsg::ChanUpdate(msg)),
			E::HandleError { node_id, action } => self.route_error(n, &node_id, action),
			E::BroadcastChannelAnnouncement { .. }
			| E::BroadcastChannelUpdate { .. }
			| E::BroadcastNodeAnnouncement { .. }
			| E::SendChannelAnnouncement { .. }
			| E::SendPeerStorage { .. }
			| E::SendPeerStorageRetrieval { .. }
			| E::SendChannelRangeQuery { .. }
			| E::SendShortIdsQuery { .. }
			| E::SendReplyChannelRange { .. }
			| E::SendGossipTimestampFilter { .. } => {},
			other => {
				self.out.bump("probe:unrouted_msg_event");
				let s = format!("{:?}", other);
				self.note(&format!("unrouted event from {}: {}", n, &s[..s.len().min(60)]));
			},
		}
	}

	fn route_error(&mut self, n: usize, to_id: &PublicKey, action: msgs::ErrorAction) {
		use msgs::ErrorAction as A;
		let to = match self.node_index(to_id) {
			Some(t) => t,
			None => return,
		};
		match action {
			A::DisconnectPeer { msg } => {
				if let Some(m) = msg {
					self.on_error_emitted(n, to, &m.data, m.channel_id, "error+disconnect");
					self.enqueue(n, to_id, WireMsg::Error(m));
				}
				self.note(&format!("node {} disconnects peer {}", n, to));
				self.out.bump("probe:ldk_initiated_disconnect");
				// the error (if any) travels before the socket closes
				while self.do_deliver(n, to) {}
				self.do_disconnect(n, to, 0);
			},
			A::DisconnectPeerWithWarning { msg } => {
				self.on_warning_emitted(n, to, &msg.data, msg.channel_id, true);
				self.out.bump("probe:ldk_initiated_disconnect");
				while self.do_deliver(n, to) {}
				self.do_disconnect(n, to, 0);
			},
			A::SendErrorMessage { msg } => {
				self.on_error_emitted(n, to, &msg.data, msg.channel_id, "error");
				self.enqueue(n, to_id, WireMsg::Error(msg));
			},
			A::SendWarningMessage { msg, .. } => {
				self.on_warning_emitted(n, to, &msg.data, msg.channel_id, false);
				self.enqueue(n, to_id, WireMsg::Warning(msg));
			},
			A::IgnoreError | A::IgnoreAndLog(_) | A::IgnoreDuplicateGossip => {},
		}
	}

	/// True once any node has handed a cooperative closing transaction of channel `c` to its
	/// broadcaster: from then on the close is final for that node, and whatever its peer does
	/// about a lost last closing_signed (error, unilateral close) is a consequence of message
	/// loss, not a disagreement.
	pub fn refresh_coop_done(&mut self, c: usize) -> bool {
		if self.chans[c].coop_done {
			return true;
		}
		let funding = self.chans[c].funding;
		for n in self.nodes.iter() {
			let o = n.broadcaster.outbox.lock().unwrap();
			if o.iter().any(|(tx, kind)| {
				kind == "CooperativeClose" && tx.input.iter().any(|i| i.previous_output == funding)
			}) {
				self.chans[c].coop_done = true;
				return true;
			}
		}
		false
	}

	fn chan_by_id(&self, id: &ChannelId) -> Option<usize> {
		self.chans.iter().position(|c| c.channel_id == *id)
	}

	fn on_error_emitted(&mut self, n: usize, to: usize, data: &str, chan: ChannelId, kind: &str) {
		self.note(&format!("node {} -> {} {}: {}", n, to, kind, data));
		self.out.bump("probe:error_message_emitted");
		// LDK's documented protective timeout (two timer ticks without progress in the closing
		// negotiation): a consequence of how the scheduler paces ticks against message delivery,
		// not a disagreement between the peers. Treated like a user-requested force close.
		if data.contains("closing_signed negotiation failed to finish within two timer ticks") {
			self.out.bump("probe:closing_negotiation_timeout_force_close");
			if let Some(c) = self.chan_by_id(&chan) {
				if self.chans[c].force_closed_by.is_none() {
					self.chans[c].force_closed_by = Some(n);
				}
				self.chans[c].close_requested = true;
				self.ledgers[c].disabled = true;
			}
			return;
		}
		// BOLT-2's inherent race: the funder sends an HTLC (or fee update) it can afford on the
		// commitments it knows while the peer's own not-yet-acknowledged update_add_htlc raise the
		// fee the funder must pay; the receiver then finds the funder below its reserve and, as the
		// spec prescribes, fails the channel. Reported as its own oracle (a known finding).
		if self.strict_offchain
			&& (data.contains("under remote reserve value") || data.contains("cannot afford"))
		{
			if let Some(c) = self.chan_by_id(&chan) {
				if !self.ledgers[c].disabled {
					let side = self.ledgers[c].side_of(n).unwrap_or(0);
					let crossing = self.ledgers[c].unacked_adds_or_fees(side);
					let own_fulfills = self.ledgers[c].unacked_fulfills(1 - side);
					let ctx = if crossing > 0 {
						format!(
							"crossing updates: {} update_add_htlc/update_fee of the complaining node were not yet acknowledged by the funder when its HTLC arrived",
							crossing
						)
					} else if own_fulfills > 0 {
						format!(
							"sender's uncommitted fulfils: the funder counted {} inbound HTLC(s) it had just fulfilled (update_fulfill_htlc sent, not yet committed) towards its balance, the receiver does not until the commitment_signed",
							own_fulfills
						)
					} else {
						"no crossing updates: the sender's reported limit was simply too high".to_string()
					};
					self.violate(
						"C01",
						"C01-3 reserve violation closes the channel between honest peers",
						format!("node {} closes channel {} on node {}: {} [{}]", n, c, to, data, ctx),
					);
					self.chans[c].tainted = true;
					self.ledgers[c].disabled = true;
					return;
				}
			}
		}
		// Two honest peers whose channel state is consistent never disagree about it: an error that
		// says they do (outside profile `offchain`, which judges every error) is reported whatever
		// the profile; after a restart it means the restored state was not what the peer was told.
		const DISAGREEMENTS: [&str; 8] = [
			"Remote skipped HTLC ID",
			"Invalid commitment tx signature",
			"Invalid HTLC tx signature",
			"Got a revoke commitment secret which didn't correspond",
			"Previous secrets did not match new one",
			"Received an unexpected revoke_and_ack",
			"Remote tried to fulfill/fail an HTLC we couldn't find",
			"Peer sent a garbage channel_reestablish",
		];
		if !self.strict_offchain {
			if let Some(pat) = DISAGREEMENTS.iter().find(|p| data.contains(**p)) {
				let c = self.chan_by_id(&chan);
				let excused = c.map(|c| self.chans[c].tainted).unwrap_or(true);
				self.out.bump("oracle:C10-4 honest peers never disagree about channel state");
				if !excused {
					let restarted = self.nodes[n].incarnation > 0 || self.nodes[to].incarnation > 0;
					// without a restart this is C01's subject; it is reported under the property whose
					// check runs this profile so that it is never lost as another check's business
					let own = self.loss_property(n, &[]);
					let own_oracle = format!("{}-D peers disagree about channel state", own);
					let (prop, oracle) = if restarted {
						("C10", "C10-4 peers disagree about channel state after a restart")
					} else {
						(own, own_oracle.as_str())
					};
					if let Some(c) = c {
						self.chans[c].tainted = true;
					}
					self.violate(
						prop,
						oracle,
						format!("node {} fails channel {:?} with node {}: {} [{}]", n, c, to, data, pat),
					);
				}
			}
		}
		// Only stale messages for a channel that was already closed cooperatively (or that the
		// user force-closed) may be answered with an error.
		let expected = match self.chan_by_id(&chan) {
			Some(c) => {
				self.refresh_coop_done(c) || self.chans[c].force_closed_by.is_some() || self.chans[c].tainted
			},
			None => false,
		};
		if self.strict_offchain && !expected {
			let msg = format!("node {} sent {} to node {} on channel {}: {}", n, kind, to, chan, data);
			// The emitter may already have closed the channel for a reason the simulator has not been
			// told yet: its ChannelClosed event is still queued, and the error message announcing the
			// close was dropped by a disconnection. The verdict waits for that event.
			let gone = self
				.mgr(n)
				.map(|m| !m.list_channels().iter().any(|d| d.channel_id == chan))
				.unwrap_or(false);
			// (likewise when the *peer* has closed it and says so with a channel_reestablish that
			// makes this node close: the verdict follows the peer's reason)
			let peer_gone = data.contains("invalid channel_reestablish to force close in a non-standard way");
			if let (true, Some(c)) = (gone || peer_gone, self.chan_by_id(&chan)) {
				self.oracle.suspect_errors.push((n, c, msg));
				self.out.bump("probe:error_verdict_deferred_to_channel_closed_event");
				return;
			}
			self.violate("C01", "C01-3 protocol error in honest operation", msg);
		}
	}

	fn on_warning_emitted(&mut self, n: usize, to: usize, data: &str, chan: ChannelId, disc: bool) {
		self.note(&format!("node {} -> {} warning (disconnect={}): {}", n, to, disc, data));
		self.out.bump("probe:warning_emitted");
		if data.contains("Disconnecting due to timeout awaiting response") {
			self.out.bump("probe:timeout_disconnect");
			return;
		}
		let expected = match self.chan_by_id(&chan) {
			Some(c) => {
				self.refresh_coop_done(c) || self.chans[c].force_closed_by.is_some() || self.chans[c].tainted
			},
			None => false,
		};
		if self.strict_offchain && !expected {
			self.violate(
				"C01",
				"C01-3 protocol warning in honest operation",
				format!("node {} warned node {} on channel {}: {}", n, to, chan, data),
			);
		}
	}

	pub fn do_deliver(&mut self, from: usize, to: usize) -> bool {
		let m = match self.queues.get_mut(&(from, to)).and_then(|q| q.pop_front()) {
			Some(m) => m,
			None => return false,
		};
		let mgr = match self.mgr(to) {
			Some(m) => m,
			None => {
				self.out.bump("probe:msg_to_dead_node_dropped");
				return true;
			},
		};
		if !self.is_conn(to, from) {
			self.out.bump("probe:msg_after_receiver_disconnected_dropped");
			return true;
		}
		let m2 = match m.roundtrip() {
			Some(x) => x,
			None => {
				self.violate(
					"C13",
					"C13-1 wire round trip of a library-constructed message",
					format!("{} from node {} did not survive encode/decode: {:?}", m.kind(), from, m),
				);
				return true;
			},
		};
		self.hist = fnv_extend(self.hist, &m2.encode());
		self.note(&format!("deliver {}->{} {}", from, to, m2.kind()));
		self.out.bump(&format!("msg:{}", m2.kind()));
		self.observe_deliver(from, to, &m2);
		if let WireMsg::Error(e) = &m2 {
			if let Some(c) = self.chan_by_id(&e.channel_id) {
				self.note_close_with_inflight(to, c);
			}
		}
		// C14: a clean retransmission (after a reconnect) of an update_add_htlc whose first copy was
		// altered in flight supersedes the altered copy, which the receiver forgot on disconnect
		if let WireMsg::Add(a) = &m2 {
			if !self.corrupt_in_progress {
				if let Some((_, k, ci)) = self.onion.corrupted.get(&a.payment_hash.0).cloned() {
					let same_link = self.chans[ci].channel_id == a.channel_id
						&& self.pays.iter().any(|p| p.hash == a.payment_hash && p.paths.iter().any(|x| x.nodes.get(k) == Some(&to)));
					if same_link {
						self.onion.corrupted.remove(&a.payment_hash.0);
						self.out.bump("probe:altered_add_superseded_by_clean_retransmission");
					}
				}
			}
		}
		let mut m2 = m2;
		let mut tampered_chan = None;
		if let Some(kind) = self.tamper.take() {
			tampered_chan = self.apply_tamper(&mut m2, kind);
			if let Some(c) = tampered_chan {
				self.out.bump(&format!("fault:tampered_{}", m2.kind()));
				self.chans[c].tainted = true;
				self.chans[c].close_requested = true;
				if self.chans[c].force_closed_by.is_none() {
					self.chans[c].force_closed_by = Some(to);
				}
				self.ledgers[c].disabled = true;
			}
		}
		let src = self.nodes[from].node_id;
		let res = catch(|| match &m2 {
			WireMsg::OpenChannel(x) => mgr.handle_open_channel(src, x),
			WireMsg::AcceptChannel(x) => mgr.handle_accept_channel(src, x),
			WireMsg::FundingCreated(x) => mgr.handle_funding_created(src, x),
			WireMsg::FundingSigned(x) => mgr.handle_funding_signed(src, x),
			WireMsg::ChannelReady(x) => mgr.handle_channel_ready(src, x),
			WireMsg::Add(x) => mgr.handle_update_add_htlc(src, x),
			WireMsg::Fulfill(x) => mgr.handle_update_fulfill_htlc(src, x.clone()),
			WireMsg::Fail(x) => mgr.handle_update_fail_htlc(src, x),
			WireMsg::FailMalformed(x) => mgr.handle_update_fail_malformed_htlc(src, x),
			WireMsg::Fee(x) => mgr.handle_update_fee(src, x),
			WireMsg::Commit(x) => mgr.handle_commitment_signed_batch_test(src, x),
			WireMsg::Revoke(x) => mgr.handle_revoke_and_ack(src, x),
			WireMsg::Shutdown(x) => mgr.handle_shutdown(src, x),
			WireMsg::ClosingSigned(x) => mgr.handle_closing_signed(src, x),
			WireMsg::Reestablish(x) => mgr.handle_channel_reestablish(src, x),
			WireMsg::AnnSigs(x) => mgr.handle_announcement_signatures(src, x),
			WireMsg::ChanUpdate(x) => mgr.handle_channel_update(src, x),
			WireMsg::Error(x) => mgr.handle_error(src, x),
			WireMsg::Warning(_) => {},
		});
		if let Err((msg, loc)) = res {
			self.library_panic(&format!("Deliver {}", m2.kind()), msg, loc);
		}
		self.after_node_action(to);
		if let Some(c) = tampered_chan {
			// C05-5: a forged revocation / an invalid commitment signature is refused: the receiver
			// fails the channel instead of advancing its state
			self.out.bump("oracle:C05-5 forged revocation or signature is refused");
			let cid = self.chans[c].channel_id;
			let still_open = self
				.mgr(to)
				.map(|m| m.list_channels().iter().any(|d| d.channel_id == cid))
				.unwrap_or(false);
			if still_open && !self.dead {
				self.violate(
					"C05",
					"C05-5 forged message accepted",
					format!(
						"node {} processed a {} from node {} on channel {} that had been altered in flight and kept the channel open",
						to,
						m2.kind(),
						from,
						c
					),
				);
			}
		}
		true
	}

	/// Alters `m` as a Byzantine peer would; returns the channel concerned when something changed.
	fn apply_tamper(&mut self, m: &mut WireMsg, kind: u8) -> Option<usize> {
		match m {
			WireMsg::Revoke(r) => {
				let c = self.chan_by_id(&r.channel_id)?;
				match kind {
					0 => {
						// another valid scalar
						let mut s = r.per_commitment_secret;
						s[31] ^= 0x01;
						s[0] &= 0x7f;
						if s == r.per_commitment_secret {
							return None;
						}
						r.per_commitment_secret = s;
					},
					_ => {
						// a secret that is a valid scalar but belongs to nothing
						let mut s = [0x11u8; 32];
						s[5] = (self.step & 0xff) as u8;
						r.per_commitment_secret = s;
					},
				}
				Some(c)
			},
			WireMsg::Commit(batch) => {
				let first = batch.first_mut()?;
				let c = self.chans.iter().position(|x| x.channel_id == first.channel_id)?;
				// swap in the signature of something else: sign-valid encoding, wrong message
				let mut ser = first.signature.serialize_compact();
				ser[40] ^= 0x40;
				match bitcoin::secp256k1::ecdsa::Signature::from_compact(&ser) {
					Ok(sig) => first.signature = sig,
					Err(_) => return None,
				}
				Some(c)
			},
			_ => None,
		}
	}

	pub fn do_tamper(&mut self, from: usize, to: usize, kind: u8) -> bool {
		let head_ok = match self.queues.get(&(from, to)).and_then(|q| q.front()) {
			Some(WireMsg::Revoke(_)) => kind < 2,
			Some(WireMsg::Commit(_)) => kind == 2,
			_ => false,
		};
		if !head_ok || !self.is_conn(to, from) || self.nodes[to].live.is_none() {
			return false;
		}
		self.tamper = Some(kind);
		self.tampers_done += 1;
		let r = self.do_deliver(from, to);
		self.tamper = None;
		r
	}

	pub fn do_disconnect(&mut self, a: usize, b: usize, side: u8) {
		let ida = self.nodes[a].node_id;
		let idb = self.nodes[b].node_id;
		if (side == 0 || side == 1) && self.is_conn(a, b) {
			if let Some(m) = self.mgr(a) {
				if let Err((msg, loc)) = catch(|| m.peer_disconnected(idb)) {
					self.library_panic("Disconnect", msg, loc);
				}
			}
			self.conn.insert((a, b), false);
			self.ledger_disconnect(a, b);
			self.after_node_action(a);
		}
		if (side == 0 || side == 2) && self.is_conn(b, a) {
			if let Some(m) = self.mgr(b) {
				if let Err((msg, loc)) = catch(|| m.peer_disconnected(ida)) {
					self.library_panic("Disconnect", msg, loc);
				}
			}
			self.conn.insert((b, a), false);
			self.ledger_disconnect(b, a);
			self.after_node_action(b);
		}
		if !self.is_conn(a, b) && !self.is_conn(b, a) {
			// the connection is gone: nothing in flight survives
			self.queues.entry((a, b)).or_default().clear();
			self.queues.entry((b, a)).or_default().clear();
		}
	}

	pub fn do_reconnect(&mut self, a: usize, b: usize) -> bool {
		if self.is_conn(a, b) || self.is_conn(b, a) {
			return false;
		}
		if self.nodes[a].live.is_none() || self.nodes[b].live.is_none() {
			return false;
		}
		if self.partitioned.contains(&a) || self.partitioned.contains(&b) {
			return false;
		}
		// anything either side still wants to say to the dead connection is discarded first
		self.connect(a, b);
		self.after_node_action(a);
		self.after_node_action(b);
		true
	}

	// -----------------------------------------------------------------------------------------
	// events

	pub fn do_drain(&mut self, n: usize) -> bool {
		self.nodes[n].last_poll_step = self.step;
		self.nodes[n].unprocessed_completions.clear();
		let (mgr, mon) = match self.nodes[n].live.as_ref() {
			Some(l) => (Arc::clone(&l.manager), Arc::clone(&l.monitor)),
			None => return false,
		};
		let evs: RefCell<Vec<Event>> = RefCell::new(Vec::new());
		// fault: the application's handler cannot deal with a payment event right now and asks for
		// it to be replayed (`Err(ReplayEvent)`): the library stops handing out events, keeps this
		// one and everything behind it, and offers them again at the next round. Never during
		// setup, settle or liquidation (faults have stopped there).
		let knob = *self.cfg.weights.get("ReplayEvent").unwrap_or(&0) as u64;
		let may_refuse = knob > 0 && !self.in_settle && self.step > 0;
		let base = self.cfg.node_seed ^ ((n as u64 + 1) << 40) ^ self.nodes[n].event_seq.wrapping_mul(0x9e37_79b9_7f4a_7c15);
		let seen = std::cell::Cell::new(0u64);
		let refused = std::cell::Cell::new(false);
		let res = catch(|| {
			mgr.process_pending_events(&|e: Event| {
				let k = seen.get();
				seen.set(k + 1);
				let payment_event = matches!(
					e,
					Event::PaymentSent { .. }
						| Event::PaymentFailed { .. } | Event::PaymentPathFailed { .. }
						| Event::PaymentPathSuccessful { .. }
						| Event::PaymentClaimed { .. }
						| Event::PaymentForwarded { .. }
				);
				if may_refuse && payment_event && !refused.get() && simcore::fnv_extend(base, &k.to_le_bytes()) % knob == 0 {
					refused.set(true);
					return Err(lightning::events::ReplayEvent());
				}
				evs.borrow_mut().push(e);
				Ok(())
			});
			mon.process_pending_events(&|e: Event| {
				evs.borrow_mut().push(e);
				Ok(())
			});
		});
		if let Err((m, l)) = res {
			self.library_panic("Drain", m, l);
			return false;
		}
		self.nodes[n].event_seq += seen.get();
		if refused.get() {
			self.out.bump("fault:event_handler_asked_for_replay");
		}
		let evs = evs.into_inner();
		let any = !evs.is_empty();
		for e in evs {
			self.handle_event(n, e);
		}
		self.after_node_action(n);
		any
	}

	fn pay_by_hash(&self, h: &PaymentHash) -> Option<usize> {
		self.pays.iter().position(|p| p.hash == *h)
	}
	fn pay_by_id(&self, id: &PaymentId) -> Option<usize> {
		self.pays.iter().position(|p| p.id == *id)
	}

	fn handle_event(&mut self, n: usize, e: Event) {
		let name = event_name(&e);
		self.out.bump(&format!("event:{}", name));
		self.note(&format!("node {} event {}", n, name));
		let step = self.step;
		let inc = self.nodes[n].incarnation;
		match e {
			Event::OpenChannelRequest { temporary_channel_id, counterparty_node_id, .. } => {
				let mgr = self.mgr(n).unwrap();
				let r = catch(|| {
					mgr.accept_inbound_channel(&temporary_channel_id, &counterparty_node_id, 7, None)
				});
				match r {
					Ok(Ok(())) => {},
					Ok(Err(e)) => self.harness_error(format!("accept_inbound_channel: {:?}", e)),
					Err((m, l)) => self.library_panic("accept", m, l),
				}
			},
			Event::FundingGenerationReady {
				temporary_channel_id,
				counterparty_node_id,
				channel_value_satoshis,
				output_script,
				user_channel_id,
				..
			} => {
				let ci = (user_channel_id as usize).saturating_sub(1);
				let tx = synthetic_funding_tx(ci as i32 + 1, channel_value_satoshis, output_script);
				let mgr = self.mgr(n).unwrap();
				let r = catch(|| {
					mgr.funding_transaction_generated(
						temporary_channel_id,
						counterparty_node_id,
						tx.clone(),
					)
				});
				match r {
					Ok(Ok(())) => {},
					Ok(Err(e)) => self.harness_error(format!("funding_transaction_generated: {:?}", e)),
					Err((m, l)) => self.library_panic("funding", m, l),
				}
				if ci < self.chans.len() {
					self.chans[ci].funding = bitcoin::OutPoint { txid: tx.compute_txid(), vout: 0 };
					self.ledgers[ci].funding = Some(self.chans[ci].funding);
				}
				self.chain.mine_setup_tx(tx);
			},
			Event::PaymentClaimable { payment_hash, amount_msat, claim_deadline, .. } => {
				if let Some(pi) = self.pay_by_hash(&payment_hash) {
					self.pays[pi].ev.claimable.push((step, amount_msat));
					let h = self.nodes[n].synced_height;
					self.nodes[n].claimables.insert(
						pi,
						ClaimableInfo { amount_msat, claim_deadline, seen_at_height: h },
					);
					self.oracle_on_claimable(n, pi, amount_msat, claim_deadline);
					self.onion_oracle_on_claimable(n, pi);
				} else {
					self.violate(
						"C04",
						"C04-1 PaymentClaimable for a payment nobody registered",
						format!("node {} hash {}", n, payment_hash),
					);
				}
			},
			Event::PaymentClaimed { payment_hash, amount_msat, .. } => {
				if let Some(pi) = self.pay_by_hash(&payment_hash) {
					self.pays[pi].ev.claimed.push((step, amount_msat));
					self.oracle_on_claimed(n, pi, amount_msat);
				}
			},
			Event::PaymentSent { payment_id, payment_preimage, payment_hash, fee_paid_msat, amount_msat, .. } => {
				let pi = payment_id.and_then(|id| self.pay_by_id(&id)).or_else(|| self.pay_by_hash(&payment_hash));
				if let Some(pi) = pi {
					let g = self.nodes[n].disk.lock().unwrap().manager_generation;
					self.pays[pi].ev.sent_gen.push(g);
					self.pays[pi].ev.sent.push((step, inc, fee_paid_msat, amount_msat.unwrap_or(0)));
					self.oracle_on_sent(n, pi, payment_preimage, payment_hash, fee_paid_msat, amount_msat);
				} else {
					self.violate(
						"C03",
						"C03-1 PaymentSent for unknown payment",
						format!("node {} hash {}", n, payment_hash),
					);
				}
			},
			Event::PaymentFailed { payment_id, .. } => {
				if let Some(pi) = self.pay_by_id(&payment_id) {
					self.pays[pi].ev.failed.push((step, inc));
					let g = self.nodes[n].disk.lock().unwrap().manager_generation;
					self.pays[pi].ev.failed_gen.push(g);
					self.oracle_on_failed(n, pi);
				}
			},
			Event::PaymentPathSuccessful { payment_id, path, hold_times, .. } => {
				if let Some(pi) = self.pay_by_id(&payment_id) {
					self.onion_oracle_on_path_successful(n, pi, path.hops.len(), hold_times.len());
				}
			},
			Event::PaymentPathFailed { payment_id, short_channel_id, payment_failed_permanently, failure, path, .. } => {
				if let Some(pi) = payment_id.and_then(|id| self.pay_by_id(&id)) {
					if let (lightning::events::PathFailure::OnPath { .. }, Some(h)) = (&failure, path.hops.first()) {
						if self.pays[pi].from == n {
							self.oracle_on_path_failed_chain_depth(n, pi, h.short_channel_id);
						}
					}
					let g = self.nodes[n].disk.lock().unwrap().manager_generation;
					self.pays[pi].ev.path_failed_gen.push(g);
					self.pays[pi].ev.path_failed.push((step, short_channel_id, payment_failed_permanently));
					// whom the decoded failure blames: a channel and/or a node
					let (blamed_chan, blamed_node) = match &failure {
						lightning::events::PathFailure::OnPath { network_update: Some(u) } => match u {
							lightning::routing::gossip::NetworkUpdate::ChannelFailure { short_channel_id, .. } => {
								(Some(*short_channel_id), None)
							},
							lightning::routing::gossip::NetworkUpdate::NodeFailure { node_id, .. } => (None, Some(*node_id)),
						},
						_ => (None, None),
					};
					if let lightning::events::PathFailure::InitialSend { .. } = &failure {
						// the HTLC never left the sender: nothing was attributed to anybody
						return;
					}
					self.onion_oracle_on_path_failed(n, pi, short_channel_id, blamed_chan, blamed_node, payment_failed_permanently);
				}
			},
			Event::PaymentForwarded { total_fee_earned_msat, outbound_amount_forwarded_msat, claim_from_onchain_tx, .. } => {
				self.nodes[n].forward_fees_told_msat += total_fee_earned_msat.unwrap_or(0);
				self.oracle_on_forwarded(n, total_fee_earned_msat, outbound_amount_forwarded_msat, claim_from_onchain_tx);
			},
			Event::ChannelClosed { channel_id, reason, .. } => {
				self.on_channel_closed(n, channel_id, format!("{:?}", reason));
			},
			Event::BumpTransaction(_) | Event::SpendableOutputs { .. } => {
				self.on_chain_event(n, e);
			},
			_ => {},
		}
	}

	fn on_channel_closed(&mut self, n: usize, channel_id: ChannelId, reason: String) {
		self.note(&format!("node {} ChannelClosed {} {}", n, channel_id, reason));
		let ci = self.chan_by_id(&channel_id);
		if let Some(c) = ci {
			self.nodes[n].closed_this_incarnation.insert(c);
		}
		let short = reason.split(|c: char| !c.is_alphanumeric()).next().unwrap_or("").to_string();
		self.out.bump(&format!("closure:{}", short));
		let coop = short.contains("CooperativeClosure");
		if self.strict_offchain
			&& (reason.contains("under remote reserve value") || reason.contains("cannot afford"))
		{
			// classified (and reported) when the error message is emitted, see on_error_emitted
			if let Some(c) = ci {
				if !self.chans[c].tainted {
					let peer = if self.chans[c].a == n { self.chans[c].b } else { self.chans[c].a };
					let cid = self.chans[c].channel_id;
					let text = reason.clone();
					self.on_error_emitted(n, peer, &text, cid, "error");
				}
				return;
			}
		}
		if short == "HTLCsTimedOut" {
			if let Some(c) = ci {
				self.oracle_on_timeout_close(n, c);
			}
		}
		if short == "OutdatedChannelManager" {
			if let Some(c) = ci {
				self.nodes[n].outdated_chans.insert(c);
				self.nodes[n].ever_outdated_chans.insert(c);
			}
			self.out.bump("probe:channel_closed_outdated_manager");
		}
		if reason.contains("closing_signed negotiation failed to finish within two timer ticks") {
			if let Some(c) = self.chan_by_id(&channel_id) {
				self.oracle.suspect_errors.retain(|(sn, sc, _)| !(*sn == n && *sc == c));
			}
			// see on_error_emitted: documented protective timeout, treated as requested
			if let Some(c) = ci {
				if self.chans[c].force_closed_by.is_none() {
					self.chans[c].force_closed_by = Some(n);
				}
				self.chans[c].close_requested = true;
				self.ledgers[c].disabled = true;
			}
		}
		let requested = match ci {
			Some(c) => {
				if coop && self.chans[c].coop_requested {
					self.chans[c].coop_done = true;
					true
				} else if self.refresh_coop_done(c) {
					// the peer already completed the cooperative close; our last closing_signed
					// got lost (disconnect) or its closing transaction confirmed first
					self.out.bump("probe:peer_coop_closed_before_last_closing_signed");
					true
				} else {
					// a force close the simulated user asked for (never in profile `offchain`)
					self.chans[c].force_closed_by.is_some() || self.chans[c].tainted
				}
			},
			None => false,
		};
		if self.strict_offchain
			&& !requested
			&& reason.contains("invalid channel_reestablish to force close in a non-standard way")
		{
			// the peer closed the channel first (its ChannelClosed event may not have been handled
			// yet): judged at the end by the peer's reason
			if let Some(c) = ci {
				self.oracle.suspect_closes.push((n, c, format!("node {} reports channel {} closed: {}", n, channel_id, reason)));
				return;
			}
		}
		if self.strict_offchain && !requested {
			self.violate(
				"C01",
				"C01-3 channel closed in honest operation",
				format!("node {} reports channel {} closed: {}", n, channel_id, reason),
			);
		}
	}

	// -----------------------------------------------------------------------------------------
	// application actions

	pub fn do_forward(&mut self, n: usize) -> bool {
		let mgr = match self.mgr(n) {
			Some(m) => m,
			None => return false,
		};
		if let Err((m, l)) = catch(|| mgr.process_pending_htlc_forwards()) {
			self.library_panic("Forward", m, l);
		}
		self.after_node_action(n);
		true
	}

	pub fn do_tick(&mut self, n: usize) -> bool {
		let mgr = match self.mgr(n) {
			Some(m) => m,
			None => return false,
		};
		if let Err((m, l)) = catch(|| mgr.timer_tick_occurred()) {
			self.library_panic("Tick", m, l);
		}
		self.after_node_action(n);
		true
	}

	/// Forwarding policy of node `n` as the sender must honour it.
	fn fwd_fee(&self, n: usize, amt_out: u64) -> u64 {
		let c = &self.nodes[n].cfg;
		let cur = c.fee_base_msat as u64 + amt_out * c.fee_prop_millionths as u64 / 1_000_000;
		match (self.nodes[n].policy_mix, self.nodes[n].policy_hist.last()) {
			(true, Some((b, p, _))) => cur.min(*b as u64 + amt_out * *p as u64 / 1_000_000),
			_ => cur,
		}
	}

	/// CLTV delta a sender leaves node `n` (the smaller of the previous and the current policy's
	/// when the senders mix them).
	fn fwd_delta(&self, n: usize) -> u16 {
		let cur = self.nodes[n].cfg.cltv_delta;
		match (self.nodes[n].policy_mix, self.nodes[n].policy_hist.last()) {
			(true, Some((_, _, d))) => cur.min(*d),
			_ => cur,
		}
	}

	pub fn do_set_policy(&mut self, n: usize, fee_base: u32, fee_prop: u32, cltv_delta: u16, mix: u8) -> bool {
		let mgr = match self.mgr(n) {
			Some(m) => m,
			None => return false,
		};
		if n >= self.nodes.len() || cltv_delta < 48 {
			return false;
		}
		let upd = lightning::util::config::ChannelConfigUpdate {
			forwarding_fee_base_msat: Some(fee_base),
			forwarding_fee_proportional_millionths: Some(fee_prop),
			cltv_expiry_delta: Some(cltv_delta),
			..Default::default()
		};
		let mut any = false;
		for c in self.chans.clone().iter() {
			if c.a != n && c.b != n {
				continue;
			}
			let peer = if c.a == n { c.b } else { c.a };
			let pid = self.nodes[peer].node_id;
			match catch(|| mgr.update_partial_channel_config(&pid, &[c.channel_id], &upd)) {
				Ok(Ok(())) => any = true,
				Ok(Err(_)) => {},
				Err((m, l)) => {
					self.library_panic("SetPolicy", m, l);
					return true;
				},
			}
		}
		if !any {
			return false;
		}
		let old = (self.nodes[n].cfg.fee_base_msat, self.nodes[n].cfg.fee_prop_millionths, self.nodes[n].cfg.cltv_delta);
		self.nodes[n].policy_hist.push(old);
		self.nodes[n].cfg.fee_base_msat = fee_base;
		self.nodes[n].cfg.fee_prop_millionths = fee_prop;
		self.nodes[n].cfg.cltv_delta = cltv_delta;
		self.nodes[n].policy_mix = mix != 0;
		self.out.bump("fault:forwarding_policy_changed");
		if mix != 0 && ((fee_base > old.0 || fee_prop > old.1) && cltv_delta < old.2 || (fee_base < old.0 || fee_prop < old.1) && cltv_delta > old.2) {
			self.out.bump("fault:senders_mix_two_policies_that_moved_in_opposite_directions");
		}
		self.note(&format!("node {} policy {:?} -> ({}, {}, {}) mix {}", n, old, fee_base, fee_prop, cltv_delta, mix));
		self.after_node_action(n);
		true
	}

	/// Final-hop CLTV delta of path `pi`. Profile `deadlines` explores the recipient's acceptance
	/// boundary (HTLC_FAIL_BACK_BUFFER = 39 blocks) and gives the parts of a multi-part payment
	/// different expiries; a pure function of the amounts so that a trace needs no extra field.
	pub fn final_cltv_for(&self, amts: &[u64], pi: usize) -> u32 {
		if self.cfg.profile != "deadlines" {
			return FINAL_CLTV;
		}
		const GRID: [u32; 16] = [2, 3, 4, 5, 37, 38, 39, 40, 41, 42, 43, 44, 70, 70, 70, 100];
		let base = GRID[(amts[0] % 16) as usize];
		if pi == 0 {
			base
		} else {
			base + (amts[pi] % 4) as u32
		}
	}

	pub fn build_paths(
		&self, from: usize, paths: &[Vec<usize>], amts: &[u64], fee_delta: i64, cltv_adj: i32,
	) -> Option<Vec<PathInfo>> {
		let mut out = Vec::new();
		for (pi, chans) in paths.iter().enumerate() {
			let mut nodes = Vec::new();
			let mut cur = from;
			for ci in chans.iter() {
				let c = self.chans.get(*ci)?;
				let next = if c.a == cur {
					c.b
				} else if c.b == cur {
					c.a
				} else {
					return None;
				};
				nodes.push(next);
				cur = next;
			}
			let k = chans.len();
			let mut hop_amts = vec![0u64; k];
			let mut deltas = vec![0u32; k];
			hop_amts[k - 1] = amts[pi];
			deltas[k - 1] = self.final_cltv_for(amts, pi);
			// profile `onionline`: a negative adjustment -(j+1) under-pays forwarding hop j alone, by one
			let single = self.cfg.profile == "onionline";
			for i in (0..k - 1).rev() {
				// node nodes[i] forwards from chans[i] to chans[i+1]
				let fd = if single { if fee_delta == -(i as i64 + 1) { -1 } else { 0 } } else { fee_delta };
				let ca = if single { if cltv_adj == -(i as i32 + 1) { -1 } else { 0 } } else { cltv_adj };
				let fee = self.fwd_fee(nodes[i], hop_amts[i + 1]) as i64 + fd;
				hop_amts[i] = (hop_amts[i + 1] as i64 + fee.max(0)) as u64;
				deltas[i] = (self.fwd_delta(nodes[i]) as i32 + ca).max(0) as u32;
			}
			out.push(PathInfo { chans: chans.clone(), nodes, hop_amts, hop_cltv_deltas: deltas });
		}
		Some(out)
	}

	pub fn do_send(
		&mut self, from: usize, to: usize, paths: &[Vec<usize>], amts: &[u64], fee_delta: i64,
		cltv_adj: i32, flaw: u8,
	) -> bool {
		let (ms, mr) = match (self.mgr(from), self.mgr(to)) {
			(Some(a), Some(b)) => (a, b),
			_ => return false,
		};
		let infos = match self.build_paths(from, paths, amts, fee_delta, cltv_adj) {
			Some(i) => i,
			None => return false,
		};
		if infos.iter().any(|p| *p.nodes.last().unwrap() != to) {
			return false;
		}
		let idx = self.pays.len();
		let total: u64 = amts.iter().sum();
		let mut pre = [0u8; 32];
		pre[..8].copy_from_slice(&(idx as u64 + 1).to_be_bytes());
		pre[8..16].copy_from_slice(&self.cfg.node_seed.to_be_bytes());
		let preimage = PaymentPreimage(pre);
		let hash = PaymentHash(Sha256::hash(&pre).to_byte_array());
		// flaw 3: the recipient registers (and expects) more than the sender will pay
		let registered_min = match flaw {
			3 => Some(total + 1 + total / 50),
			0 => None,
			_ => Some(total),
		};
		// flaw 5: the payment secret expires (custom final CLTV delta, short expiry) hours before the
		// sender gets round to paying
		let (expiry_secs, custom_cltv) = if flaw == 5 { (600u32, Some(43 + (idx as u16 % 20))) } else { (7200u32, None) };
		let secret = match catch(|| mr.create_inbound_payment_for_hash(hash, registered_min, expiry_secs, custom_cltv, None)) {
			Ok(Ok((s, _))) => s,
			Ok(Err(())) => {
				self.harness_error("create_inbound_payment_for_hash failed".into());
				return false;
			},
			Err((m, l)) => {
				self.library_panic("create_inbound_payment", m, l);
				return false;
			},
		};
		let mut idb = [0u8; 32];
		idb[..8].copy_from_slice(&(idx as u64 + 1).to_le_bytes());
		let id = PaymentId(idb);
		let route_paths: Vec<Path> = infos
			.iter()
			.map(|p| {
				let hops = (0..p.chans.len())
					.map(|i| {
						let node = p.nodes[i];
						let nm = self.mgr(node);
						let fee_msat = if i + 1 < p.chans.len() {
							p.hop_amts[i] - p.hop_amts[i + 1]
						} else {
							p.hop_amts[i]
						};
						RouteHop {
							pubkey: self.nodes[node].node_id,
							node_features: nm.as_ref().map(|m| m.node_features()).unwrap_or_else(|| ms.node_features()),
							short_channel_id: self.chans[p.chans[i]].scid,
							channel_features: ms.channel_features(),
							fee_msat,
							cltv_expiry_delta: p.hop_cltv_deltas[i],
							maybe_announced_channel: true,
						}
					})
					.collect();
				Path { hops, blinded_tail: None }
			})
			.collect();
		let route_params = RouteParameters::from_payment_params_and_value(
			PaymentParameters::from_node_id(
				self.nodes[to].node_id,
				infos.iter().map(|p| *p.hop_cltv_deltas.last().unwrap()).min().unwrap_or(FINAL_CLTV),
			),
			total,
		);
		let mut route_params = route_params;
		// the route is given, not searched for: no fee budget applies
		route_params.max_total_routing_fee_msat = None;
		if self.nodes.len() > 10 {
			// long lines: let the library itself work out how many hops fit into the packet instead
			// of stopping at its default estimate of 19
			route_params.payment_params.max_path_length = 20;
		}
		let route = Route { paths: route_paths, route_params };
		if flaw == 5 {
			// three hours pass (block timestamps are the library's clock for secret expiry)
			self.chain.time += 3 * 3600;
			self.clock += 3 * 3600;
			self.do_mine(1);
			for x in 0..self.nodes.len() {
				self.do_sync(x, 255);
			}
		}
		let genuine_secret = secret;
		let mut secret = secret;
		let mut onion_total = total;
		match flaw {
			1 => secret.0[7] ^= 0x10,
			2 => match self.pays.iter().rev().find(|p| p.to == to) {
				Some(prev) => secret = prev.secret,
				None => secret.0[0] ^= 0x01,
			},
			4 => onion_total = total + total / 3 + 1,
			_ => {},
		}
		let onion = RecipientOnionFields::secret_only(secret, onion_total);
		// what the channel said it could carry, for the send-limit oracle
		let first_hop_limits: Vec<(usize, u64, u64, u64, bool)> = infos
			.iter()
			.map(|p| {
				let ci = p.chans[0];
				let cid = self.chans[ci].channel_id;
				let d = ms.list_channels().into_iter().find(|d| d.channel_id == cid);
				match d {
					Some(d) => (
						ci,
						p.hop_amts[0],
						d.next_outbound_htlc_minimum_msat,
						d.next_outbound_htlc_limit_msat,
						d.is_usable,
					),
					None => (ci, p.hop_amts[0], 0, 0, false),
				}
			})
			.collect();
		let balances_before = self.balances_of(from);
		let res = catch(|| ms.send_payment_with_route(route, hash, onion, id));
		let api_ok = match res {
			Ok(r) => r.is_ok(),
			Err((m, l)) => {
				self.library_panic("Send", m, l);
				return false;
			},
		};
		let pending = api_ok && payment_has_pending_work(&ms, id);
		let underpays = cltv_adj < 0
			|| (fee_delta < 0
				&& infos.iter().any(|p| {
					(0..p.nodes.len().saturating_sub(1)).any(|i| self.fwd_fee(p.nodes[i], p.hop_amts[i + 1]) > 0)
				}));
		// profile `onionline`: which single forwarding hop is under-paid (if its fee is not zero anyway)
		let underpaid_hop = if self.cfg.profile == "onionline" && infos.len() == 1 {
			let p = &infos[0];
			let fwd = p.nodes.len().saturating_sub(1);
			let by_fee = if fee_delta < 0 { Some((-fee_delta - 1) as usize) } else { None };
			let by_cltv = if cltv_adj < 0 { Some((-cltv_adj - 1) as usize) } else { None };
			match (by_cltv, by_fee) {
				(Some(j), _) if j < fwd => Some(j),
				(_, Some(j)) if j < fwd && self.fwd_fee(p.nodes[j], p.hop_amts[j + 1]) > 0 => Some(j),
				_ => None,
			}
		} else {
			None
		};
		let underpays = if self.cfg.profile == "onionline" { underpaid_hop.is_some() } else { underpays };
		self.pays.push(Pay {
			idx,
			from,
			to,
			preimage,
			hash,
			secret: genuine_secret,
			total_msat: total,
			paths: infos,
			id,
			accepted: pending,
			send_step: self.step,
			claim_called: None,
			fail_called: None,
			ev: PayEvents::default(),
			policy_violating: underpays,
			sender_balances_before: balances_before,
			forgotten: None,
			first_gen: self.nodes[from].disk.lock().unwrap().manager_generation + 1,
			claim_gen: None,
			claim_height: None,
			claim_deadline: None,
			claim_incarnation: None,
			send_height: self.nodes[from].synced_height,
			underpaid_hop,
			flaw,
			sent_handling_lost: false,
			failed_handling_lost: false,
			rehydrated: false,
		});
		self.note(&format!("send pay {} {}->{} total {} accepted {}", idx, from, to, total, pending));
		self.out.bump(if pending { "probe:send_accepted" } else { "probe:send_refused" });
		if flaw != 0 && pending {
			self.out.bump(&format!(
				"fault:flawed_payment_{}",
				match flaw {
					1 => "secret_bit_flipped",
					2 => "secret_of_another_payment",
					3 => "below_registered_amount",
					5 => "secret_expired_hours_ago",
					_ => "onion_total_above_parts_sent",
				}
			));
		}
		self.oracle_send_limits(from, idx, &first_hop_limits, pending);
		self.after_node_action(from);
		true
	}

	pub fn balances_of(&self, n: usize) -> Vec<(usize, u64)> {
		let mut v = Vec::new();
		if let Some(m) = self.mgr(n) {
			for d in m.list_channels() {
				if let Some(ci) = self.chan_by_id(&d.channel_id) {
					v.push((ci, d.outbound_capacity_msat));
				}
			}
		}
		v.sort();
		v
	}

	pub fn do_claim(&mut self, n: usize, pay: usize) -> bool {
		if !self.nodes[n].claimables.contains_key(&pay) {
			return false;
		}
		let mgr = match self.mgr(n) {
			Some(m) => m,
			None => return false,
		};
		let pre = self.pays[pay].preimage;
		self.pays[pay].claim_called = Some(self.step);
		self.pays[pay].claim_gen = Some(self.nodes[n].disk.lock().unwrap().manager_generation);
		self.pays[pay].claim_height = Some(self.nodes[n].synced_height);
		self.pays[pay].claim_deadline = self.nodes[n].claimables.get(&pay).and_then(|c| c.claim_deadline);
		self.pays[pay].claim_incarnation = Some(self.nodes[n].incarnation);
		self.nodes[n].claimables.remove(&pay);
		if let Err((m, l)) = catch(|| mgr.claim_funds(pre)) {
			self.library_panic("Claim", m, l);
		}
		self.note(&format!("node {} claims pay {}", n, pay));
		self.after_node_action(n);
		true
	}

	pub fn do_fail_back(&mut self, n: usize, pay: usize) -> bool {
		if !self.nodes[n].claimables.contains_key(&pay) {
			return false;
		}
		let mgr = match self.mgr(n) {
			Some(m) => m,
			None => return false,
		};
		let h = self.pays[pay].hash;
		self.pays[pay].fail_called = Some(self.step);
		self.nodes[n].claimables.remove(&pay);
		if let Err((m, l)) = catch(|| mgr.fail_htlc_backwards(&h)) {
			self.library_panic("FailBack", m, l);
		}
		self.note(&format!("node {} fails pay {}", n, pay));
		self.after_node_action(n);
		true
	}

	pub fn do_set_fee(&mut self, n: usize, rate: u32) -> bool {
		self.nodes[n].fee.normal.store(rate, Ordering::Relaxed);
		self.note(&format!("node {} fee estimate {}", n, rate));
		true
	}

	pub fn do_close_coop(&mut self, n: usize, chan: usize) -> bool {
		let mgr = match self.mgr(n) {
			Some(m) => m,
			None => return false,
		};
		let c = self.chans[chan].clone();
		let peer = if c.a == n { c.b } else { c.a };
		let pid = self.nodes[peer].node_id;
		match catch(|| mgr.close_channel(&c.channel_id, &pid)) {
			Ok(Ok(())) => {
				self.chans[chan].close_requested = true;
				self.chans[chan].coop_requested = true;
				self.note(&format!("node {} close_channel {}", n, chan));
				self.out.bump("probe:coop_close_requested");
			},
			Ok(Err(_)) => {},
			Err((m, l)) => self.library_panic("CloseCoop", m, l),
		}
		self.after_node_action(n);
		true
	}

	pub fn note_close_with_inflight(&mut self, n: usize, chan: usize) {
		let key = self.chans[chan].channel_id.0;
		let inflight = {
			let d = self.nodes[n].disk.lock().unwrap();
			d.chans.get(&key).map(|c| !c.completions.is_empty()).unwrap_or(false)
		} || self.nodes[n].unprocessed_completions.contains(&key)
			// a deferred ChainMonitor holds queued updates the disk has not even seen yet
			|| (self.nodes[n].cfg.deferred
				&& self.nodes[n].live.as_ref().map_or(false, |l| l.monitor.pending_operation_count() > 0));
		let open = self
			.mgr(n)
			.map(|m| m.list_channels().iter().any(|d| d.channel_id.0 == key))
			.unwrap_or(false);
		if inflight && open {
			self.nodes[n].closed_inflight.insert(chan);
			self.out.bump("probe:channel_closed_with_monitor_update_in_flight");
		}
	}

	pub fn do_force_close(&mut self, n: usize, chan: usize) -> bool {
		let mgr = match self.mgr(n) {
			Some(m) => m,
			None => return false,
		};
		let c = self.chans[chan].clone();
		let peer = if c.a == n { c.b } else { c.a };
		let pid = self.nodes[peer].node_id;
		self.note_close_with_inflight(n, chan);
		match catch(|| {
			mgr.force_close_broadcasting_latest_txn(&c.channel_id, &pid, "sim force close".to_string())
		}) {
			Ok(Ok(())) => {
				self.chans[chan].close_requested = true;
				if self.chans[chan].force_closed_by.is_none() {
					self.chans[chan].force_closed_by = Some(n);
				}
				self.note(&format!("node {} force-closes {}", n, chan));
				self.out.bump("probe:force_close_requested");
			},
			Ok(Err(_)) => {},
			Err((m, l)) => self.library_panic("ForceClose", m, l),
		}
		self.after_node_action(n);
		true
	}

	// -----------------------------------------------------------------------------------------
	// persistence

	pub fn complete_all_monitor_writes(&mut self, n: usize) -> bool {
		let mut any = false;
		loop {
			let next = {
				let d = self.nodes[n].disk.lock().unwrap();
				d.chans.iter().find(|(_, c)| !c.completions.is_empty()).map(|(k, _)| *k)
			};
			match next {
				Some(k) => {
					any |= self.complete_one(n, k, 0);
				},
				None => break,
			}
			if self.dead {
				break;
			}
		}
		any
	}

	fn complete_one(&mut self, n: usize, chan_key: [u8; 32], which: u8) -> bool {
		let mon = match self.nodes[n].live.as_ref() {
			Some(l) => Arc::clone(&l.monitor),
			None => return false,
		};
		let taken = {
			let mut d = self.nodes[n].disk.lock().unwrap();
			let cd = match d.chans.get_mut(&chan_key) {
				Some(c) => c,
				None => return false,
			};
			if cd.completions.is_empty() {
				return false;
			}
			let i = match which {
				0 => 0,
				1 => cd.completions.len() - 1,
				_ => cd.completions.len() / 2,
			};
			let (id, bytes) = cd.completions.remove(i);
			// the write is now known complete: it is the restart baseline
			cd.candidates.retain(|(cid, _)| *cid > id);
			if cd.durable.as_ref().map_or(true, |(did, _)| *did <= id) {
				cd.durable = Some((id, bytes));
			}
			id
		};
		let cid = ChannelId(chan_key);
		// until the ChannelManager next processes monitor events it still treats this channel as
		// "update in progress"
		self.nodes[n].unprocessed_completions.insert(chan_key);
		match catch(|| mon.channel_monitor_updated(cid, taken)) {
			Ok(Ok(())) => {},
			Ok(Err(e)) => self.harness_error(format!("channel_monitor_updated: {:?}", e)),
			Err((m, l)) => self.library_panic("CompleteMon", m, l),
		}
		self.note(&format!("node {} monitor write {} of {} complete", n, taken, simcore::hex(&chan_key[..4])));
		self.out.bump("probe:monitor_write_completed_async");
		self.after_node_action(n);
		true
	}

	pub fn do_complete_mon(&mut self, n: usize, chan: usize, which: u8) -> bool {
		let key = self.chans[chan].channel_id.0;
		self.complete_one(n, key, which)
	}

	pub fn do_async_on(&mut self, n: usize, chan: usize) -> bool {
		let key = self.chans[chan].channel_id.0;
		let mut d = self.nodes[n].disk.lock().unwrap();
		let e = d.async_chans.entry(key).or_insert(false);
		if *e {
			return false;
		}
		*e = true;
		drop(d);
		self.note(&format!("node {} chan {} persistence now async", n, chan));
		self.out.bump("fault:switch_to_async_persist");
		true
	}

	pub fn do_persist_mgr(&mut self, n: usize) -> bool {
		let (mgr, mon) = match self.nodes[n].live.as_ref() {
			Some(l) => (Arc::clone(&l.manager), Arc::clone(&l.monitor)),
			None => return false,
		};
		let deferred = self.nodes[n].cfg.deferred;
		let logger = Arc::clone(&self.nodes[n].logger);
		let res = catch(|| {
			let pending = if deferred { mon.pending_operation_count() } else { 0 };
			let _ = mgr.get_and_clear_needs_persistence();
			let bytes = mgr.encode();
			let queued: Vec<([u8; 32], bool)> = mgr
				.verif_pending_events()
				.iter()
				.filter_map(|e| match e {
					Event::PaymentSent { payment_id: Some(id), .. } => Some((id.0, true)),
					Event::PaymentFailed { payment_id, .. } => Some((payment_id.0, false)),
					_ => None,
				})
				.collect();
			(pending, bytes, queued)
		});
		match res {
			Ok((pending, bytes, queued)) => {
				{
					let mut d = self.nodes[n].disk.lock().unwrap();
					if !d.frozen {
						d.manager = Some(bytes);
						d.manager_pending_terminal = queued;
						d.manager_generation += 1;
					}
				}
				if deferred {
					if let Err((m, l)) = catch(|| mon.flush(pending, &logger)) {
						self.library_panic("PersistMgr flush", m, l);
					}
				}
			},
			Err((m, l)) => self.library_panic("PersistMgr", m, l),
		}
		self.after_node_action(n);
		true
	}

	// -----------------------------------------------------------------------------------------
	// chain

	pub fn do_relay(&mut self, n: usize) -> bool {
		let txs = self.nodes[n].broadcaster.take();
		if txs.is_empty() {
			return false;
		}
		for (tx, kind) in txs {
			if kind == "CooperativeClose" {
				for c in 0..self.chans.len() {
					if tx.input.iter().any(|i| i.previous_output == self.chans[c].funding) {
						self.chans[c].coop_done = true;
					}
				}
			}
			let r = self.chain.admit(&tx, true);
			self.out.bump(&format!("relay:{}", admit_name(&r)));
			if std::env::var("VERIF_TRACE").is_ok() {
				let ins: Vec<String> = tx.input.iter().map(|i| format!("{}:{}", &i.previous_output.txid.to_string()[..8], i.previous_output.vout)).collect();
				self.note(&format!(
					"node {} relays {} {} -> {:?} [in {} fee {:?} lt {} h {}]",
					n,
					kind,
					tx.compute_txid(),
					r,
					ins.join(","),
					self.chain.fee_of(&tx),
					tx.lock_time.to_consensus_u32(),
					self.chain.tip_height()
				));
			}
			self.oracle_on_broadcast(n, &tx, &kind, &r);
		}
		true
	}

	pub fn do_mine(&mut self, count: u32) -> bool {
		let txs = self.chain.mine_all();
		for t in txs.iter() {
			self.note(&format!("mined {} at {}", t.compute_txid(), self.chain.tip_height()));
		}
		if count > 1 {
			self.chain.mine_empty(count - 1);
		}
		self.resync_wallets();
		self.clock += 600 * count as u64;
		self.out.sim_blocks += count as u64;
		true
	}

	/// Brings node `n` (manager and chain monitor) to the tip of the best chain in the node's
	/// delivery style (`style` 255 = the node's own), handling reorganisations.
	pub fn do_sync(&mut self, n: usize, style: u8) -> bool {
		let (mgr, mon) = match self.nodes[n].live.as_ref() {
			Some(l) => (Arc::clone(&l.manager), Arc::clone(&l.monitor)),
			None => return false,
		};
		let tip = self.chain.tip_height();
		let on_chain = {
			let v = &self.nodes[n].view;
			let h = self.nodes[n].synced_height;
			(h as usize) < v.len() && h <= tip && v[h as usize] == self.chain.block_at(h).header.block_hash()
		};
		if self.nodes[n].synced_height >= tip && on_chain {
			return false;
		}
		let _ = style;
		let style = self.nodes[n].style;
		let tgt = crate::chainstyle::LiveTarget { mgr, mon, filter: Arc::clone(&self.nodes[n].filter) };
		let mut view = std::mem::take(&mut self.nodes[n].view);
		let mut height = self.nodes[n].synced_height;
		if view.is_empty() {
			// a fresh node knows the genesis block only
			view.push(self.chain.block_at(0).header.block_hash());
		}
		let mut counters = Vec::new();
		let res = catch(|| crate::chainstyle::drive(&self.chain, &tgt, &mut view, &mut height, style, &mut counters));
		self.nodes[n].view = view;
		self.nodes[n].synced_height = height;
		self.nodes[n].last_sync_step = self.step;
		for c in counters {
			self.out.bump(&c);
		}
		if let Err((m, l)) = res {
			self.library_panic("Sync", m, l);
			return true;
		}
		self.after_node_action(n);
		if self.nodes[n].check_styles && !self.dead {
			self.shadow_compare(n);
		}
		true
	}

	// -----------------------------------------------------------------------------------------
	// bookkeeping after anything touched node n

	pub fn after_node_action(&mut self, n: usize) {
		self.scan_signer_log(n);
		self.scan_watch_log(n);
		if self.nodes[n].check_roundtrip && !self.frozen(n) && !self.in_settle {
			self.roundtrip_monitors(n);
		}
	}

	pub fn fingerprint(&mut self) {
		if self.cfg.profile == "deadlines" {
			self.record_htlc_views();
		}
		let mut h = fnv(b"state");
		for n in 0..self.nodes.len() {
			match self.mgr(n) {
				Some(m) => {
					for d in m.list_channels() {
						let ci = self.chan_by_id(&d.channel_id).unwrap_or(99);
						let mut ins = [0u8; 8];
						for i in d.pending_inbound_htlcs.iter() {
							let k = i.state.as_ref().map(|s| s.clone() as usize).unwrap_or(7).min(7);
							ins[k] = (ins[k] + 1).min(3);
						}
						let mut outs = [0u8; 8];
						for o in d.pending_outbound_htlcs.iter() {
							let k = o.state.as_ref().map(|s| s.clone() as usize).unwrap_or(7).min(7);
							outs[k] = (outs[k] + 1).min(3);
						}
						h = fnv_extend(h, &[n as u8, ci as u8, d.is_usable as u8, d.is_channel_ready as u8]);
						h = fnv_extend(h, &ins);
						h = fnv_extend(h, &outs);
					}
				},
				None => h = fnv_extend(h, &[n as u8, 0xff]),
			}
			let d = self.nodes[n].disk.lock().unwrap();
			let inflight: usize = d.chans.values().map(|c| c.completions.len()).sum();
			h = fnv_extend(h, &[inflight.min(3) as u8]);
		}
		for ((f, t), q) in self.queues.iter() {
			h = fnv_extend(h, &[*f as u8, *t as u8, q.len().min(3) as u8, self.is_conn(*f, *t) as u8]);
		}
		if self.state_fps.len() < 4096 {
			self.state_fps.insert(h);
		}
	}

	// -----------------------------------------------------------------------------------------
	// action dispatch

	pub fn apply(&mut self, a: &Action) -> bool {
		if self.dead {
			return false;
		}
		CURRENT_RUN.with(|c| {
			if let Some((_, t)) = c.borrow_mut().as_mut() {
				t.push(a.clone());
			}
		});
		self.step += 1;
		self.clock += 1;
		simcore_set_now(self.clock);
		for node in self.nodes.iter() {
			node.broadcaster.now_step.store(self.step, Ordering::Relaxed);
		}
		let did = match a {
			// calls with side effects inside the library count as executed even when they
			// produce nothing observable (replay must repeat them)
			Action::Pump { n } => {
				let live = self.nodes[*n].live.is_some();
				self.do_pump(*n);
				live
			},
			Action::Deliver { from, to } => self.do_deliver(*from, *to),
			Action::Disconnect { a, b, side } => {
				if !self.is_conn(*a, *b) && !self.is_conn(*b, *a) {
					false
				} else {
					self.out.bump(if *side == 0 { "fault:disconnect_both" } else { "fault:disconnect_one_sided" });
					self.do_disconnect(*a, *b, *side);
					true
				}
			},
			Action::Reconnect { a, b } => self.do_reconnect(*a, *b),
			Action::Send { from, to, paths, amts, fee_delta_msat, cltv_delta_adj, flaw } => {
				self.do_send(*from, *to, paths, amts, *fee_delta_msat, *cltv_delta_adj, *flaw)
			},
			Action::Drain { n } => {
				let live = self.nodes[*n].live.is_some();
				self.do_drain(*n);
				live
			},
			Action::Forward { n } => self.do_forward(*n),
			Action::Tick { n } => self.do_tick(*n),
			Action::Claim { n, pay } => self.do_claim(*n, *pay),
			Action::FailBack { n, pay } => self.do_fail_back(*n, *pay),
			Action::SetFee { n, rate } => self.do_set_fee(*n, *rate),
			Action::SetPolicy { n, fee_base, fee_prop, cltv_delta, mix } => self.do_set_policy(*n, *fee_base, *fee_prop, *cltv_delta, *mix),
			Action::CloseCoop { n, chan } => self.do_close_coop(*n, *chan),
			Action::ForceClose { n, chan } => self.do_force_close(*n, *chan),
			Action::CompleteMon { n, chan, which } => self.do_complete_mon(*n, *chan, *which),
			Action::AsyncOn { n, chan } => self.do_async_on(*n, *chan),
			Action::PersistMgr { n } => {
				let r = self.do_persist_mgr(*n);
				if self.nodes[*n].check_roundtrip && !self.frozen(*n) {
					self.roundtrip_manager(*n);
				}
				r
			},
			Action::Relay { n } => self.do_relay(*n),
			Action::Mine { count } => {
				if self.cfg.profile == "deadlines" {
					self.do_mine_paced(*count)
				} else {
					let r = self.do_mine(*count);
					for n in 0..self.nodes.len() {
						self.do_sync(n, 255);
					}
					r
				}
			},
			Action::Sync { n, style } => self.do_sync(*n, *style),
			Action::Crash { n, pick } => self.do_crash(*n, pick),
			Action::ArmCrash { n, at, after } => self.do_arm_crash(*n, *at, *after),
			Action::Restart { n, style } => self.do_restart(*n, *style),
			Action::Abandon { n, pay } => self.do_abandon(*n, *pay),
			Action::Resend { pay } => self.do_resend(*pay),
			Action::Sweep { n } => self.do_sweep(*n),
			Action::Reorg { depth, readmit, new_len } => {
				let r = self.do_reorg(*depth, *readmit, *new_len);
				if r {
					for n in 0..self.nodes.len() {
						self.do_sync(n, 255);
					}
				}
				r
			},
			Action::Settle => {
				self.settle();
				true
			},
			Action::Liquidate => {
				self.liquidate();
				true
			},
			Action::Tamper { from, to, kind } => self.do_tamper(*from, *to, *kind),
			Action::ClosePrev { n, chan } => self.do_close_prev(*n, *chan),
			Action::Corrupt { from, to, kind, bit } => self.do_corrupt(*from, *to, *kind, *bit),
			Action::Partition { n } => self.do_partition(*n),
			Action::Heal { n } => self.do_heal(*n),
			Action::Gone { n } => self.do_gone(*n),
			Action::Cheat { n, chan, age, same_block, later, v_late } => {
				self.do_cheat(*n, *chan, *age, *same_block, *later, *v_late)
			},
			Action::LiqPlan { holds, restarts, fees, reorgs } => self.do_liq_plan(crate::justice::LiqPlan {
				holds: holds.clone(),
				restarts: restarts.clone(),
				fees: fees.clone(),
				reorgs: reorgs.clone(),
			}),
		};
		if matches!(self.cfg.profile.as_str(), "justice" | "onchain") && !self.dead && self.cheat.is_none() && !self.in_settle {
			self.archive_commitments();
		}
		// an action during which the run died (library panic) is part of the trace
		if did || self.dead {
			self.out.bump(&format!("action:{}", a.kind()));
			self.inter = fnv_extend(self.inter, a.kind().as_bytes());
			self.inter = fnv_extend(self.inter, &[a.actor() as u8]);
			if self.sample.len() < 40 {
				self.sample.push(format!("{:?}", a));
			}
			self.trace.push(a.clone());
			if !self.dead {
				self.check_frozen_crash();
				self.fingerprint();
			}
		}
		did
	}

	/// C03: "while a payment is pending, a second send with the same payment id is refused".
	pub fn do_resend(&mut self, pay: usize) -> bool {
		use lightning::ln::channelmanager::RecentPaymentDetails as R;
		use lightning::ln::outbound_payment::RetryableSendFailure;
		if pay >= self.pays.len() {
			return false;
		}
		let p = self.pays[pay].clone();
		let n = p.from;
		let mgr = match self.mgr(n) {
			Some(m) => m,
			None => return false,
		};
		let listed = mgr.list_recent_payments().iter().any(|r| match r {
			R::Pending { payment_id, .. } | R::Fulfilled { payment_id, .. } | R::Abandoned { payment_id, .. } => *payment_id == p.id,
			_ => false,
		});
		if !listed {
			return false;
		}
		// any well-formed route will do: one hop over a usable channel of the sender
		let usable = mgr.list_usable_channels();
		let (scid, peer_id) = match usable.iter().find_map(|d| d.short_channel_id.map(|s| (s, d.counterparty.node_id))) {
			Some(x) => x,
			None => return false,
		};
		let amt = 1_000_000u64;
		let hop = RouteHop {
			pubkey: peer_id,
			node_features: mgr.node_features(),
			short_channel_id: scid,
			channel_features: mgr.channel_features(),
			fee_msat: amt,
			cltv_expiry_delta: FINAL_CLTV,
			maybe_announced_channel: true,
		};
		let mut route_params = RouteParameters::from_payment_params_and_value(
			PaymentParameters::from_node_id(peer_id, FINAL_CLTV),
			amt,
		);
		route_params.max_total_routing_fee_msat = None;
		let route = Route { paths: vec![Path { hops: vec![hop], blinded_tail: None }], route_params };
		let onion = RecipientOnionFields::secret_only(p.secret, amt);
		self.out.bump("oracle:C03-8 second send with a listed payment id is refused");
		match catch(|| mgr.send_payment_with_route(route, p.hash, onion, p.id)) {
			Ok(Err(RetryableSendFailure::DuplicatePayment)) => {},
			Ok(Ok(())) => {
				self.violate(
					"C03",
					"C03-8 second send with the id of a listed payment accepted",
					format!("node {} pay {}: send_payment with the PaymentId of a payment the node still lists returned Ok", n, pay),
				);
				self.dead = true;
			},
			Ok(Err(e)) => {
				self.violate(
					"C03",
					"C03-8 second send with the id of a listed payment accepted",
					format!("node {} pay {}: send_payment with the PaymentId of a payment the node still lists returned {:?} instead of DuplicatePayment", n, pay, e),
				);
				self.dead = true;
			},
			Err((m, l)) => self.library_panic("Resend", m, l),
		}
		self.after_node_action(n);
		true
	}

	pub fn do_abandon(&mut self, n: usize, pay: usize) -> bool {
		let mgr = match self.mgr(n) {
			Some(m) => m,
			None => return false,
		};
		if pay >= self.pays.len() || self.pays[pay].from != n {
			return false;
		}
		let id = self.pays[pay].id;
		if let Err((m, l)) = catch(|| mgr.abandon_payment(id)) {
			self.library_panic("Abandon", m, l);
		}
		self.after_node_action(n);
		true
	}

	// -----------------------------------------------------------------------------------------
	// settle: faults stop, everything completes, fair round-robin until nothing changes

	pub fn settle(&mut self) {
		self.in_settle = true;
		// faults stop: partitions heal
		self.partitioned.clear();
		let n_nodes = self.nodes.len();
		// faults stop: disarm pending crash points
		for n in 0..n_nodes {
			self.nodes[n].disk.lock().unwrap().crash_at = None;
		}
		for n in 0..n_nodes {
			if self.nodes[n].live.is_none() {
				self.do_restart(n, 0);
			}
		}
		let mut quiet_rounds = 0;
		for round in 0..400 {
			if self.dead {
				break;
			}
			let mut progress = false;
			for n in 0..n_nodes {
				progress |= self.complete_all_monitor_writes(n);
				self.do_persist_mgr(n);
			}
			// reconnect whatever is down
			let pairs: Vec<(usize, usize)> = self.conn.keys().filter(|(a, b)| a < b).cloned().collect();
			for (a, b) in pairs {
				if self.is_conn(a, b) != self.is_conn(b, a) {
					self.do_disconnect(a, b, 0);
					progress = true;
				}
				if !self.is_conn(a, b) && !self.is_conn(b, a) {
					progress |= self.do_reconnect(a, b);
				}
			}
			for n in 0..n_nodes {
				progress |= self.do_pump(n);
			}
			let keys: Vec<(usize, usize)> = self.queues.keys().cloned().collect();
			for (f, t) in keys {
				while self.do_deliver(f, t) {
					progress = true;
				}
			}
			for n in 0..n_nodes {
				progress |= self.do_drain(n);
				self.do_forward(n);
				progress |= self.do_pump(n);
			}
			// the application resolves what it still holds: claim everything it can
			for n in 0..n_nodes {
				let pend: Vec<usize> = self.nodes[n].claimables.keys().cloned().collect();
				for p in pend {
					progress |= self.do_claim(n, p);
				}
			}
			// chain: relay and mine whatever is pending
			let mut chain_moved = false;
			for n in 0..n_nodes {
				chain_moved |= self.do_relay(n);
			}
			if !self.chain.mempool.is_empty() {
				self.do_mine(1);
				chain_moved = true;
			}
			if chain_moved || round % 8 == 7 {
				for n in 0..n_nodes {
					progress |= self.do_sync(n, 255);
				}
			}
			progress |= chain_moved;
			if round % 4 == 3 {
				for n in 0..n_nodes {
					self.do_tick(n);
				}
			}
			if progress {
				quiet_rounds = 0;
			} else {
				quiet_rounds += 1;
				if quiet_rounds >= 6 {
					break;
				}
			}
		}
		self.in_settle = false;
		self.note("settled");
	}

	pub fn finish(mut self) -> RunOutcome {
		self.out.steps = self.step;
		self.out.sim_seconds = self.clock - 1_700_000_000;
		self.out.history_fp = self.hist;
		self.out.interleaving_fp = self.inter;
		self.out.state_fps = self.state_fps.iter().cloned().collect();
		self.out.sample = Some(serde_json::json!({
			"profile": self.cfg.profile,
			"chan_type": format!("{:?}", self.cfg.chan_type),
			"nodes": self.cfg.nodes.len(),
			"channels": self.cfg.chans.len(),
			"first_actions": self.sample,
		}));
		if !self.out.violations.is_empty() || !self.out.harness_errors.is_empty() {
			self.out.replay = Some(serde_json::json!({
				"sim": "lnsim",
				"profile": self.cfg.profile,
				"config": serde_json::to_value(&self.cfg).unwrap(),
				"trace": serde_json::to_value(&self.trace).unwrap(),
			}));
		}
		self.out
	}
}

pub fn simcore_set_now(secs: u64) {
	lightning::util::verif::set_now(Duration::from_secs(secs));
}

pub fn payment_has_pending_work(m: &SimManager, id: PaymentId) -> bool {
	for p in m.list_recent_payments() {
		match p {
			RecentPaymentDetails::Pending { payment_id, .. } if payment_id == id => return true,
			RecentPaymentDetails::AwaitingInvoice { payment_id } if payment_id == id => return true,
			_ => {},
		}
	}
	false
}

pub fn admit_name(a: &Admit) -> &'static str {
	match a {
		Admit::Accepted => "accepted",
		Admit::Replaced(_) => "replaced",
		Admit::AlreadyKnown => "already_known",
		Admit::MissingOrSpent(_) => "missing_or_spent",
		Admit::ScriptFail(_) => "script_fail",
		Admit::NonFinal(_) => "non_final",
		Admit::NegativeFee(_) => "negative_fee",
		Admit::Policy(_) => "policy",
	}
}

pub fn event_name(e: &Event) -> String {
	let s = format!("{:?}", e);
	s.split(|c: char| !c.is_alphanumeric()).next().unwrap_or("").to_string()
}
