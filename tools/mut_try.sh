#!/usr/bin/env bash
# usage: tools/mut_try.sh <patch.diff> <Cxx> [quick|thorough]   (after tools/mut_snapshot.sh)
set -u
patch="$1"; prop="$2"; tier="${3:-quick}"
git -C /tmp/mut/repo checkout -q -- . ; git -C /tmp/mut/repo apply "$patch" || { echo "APPLY-FAILED $patch"; exit 3; }
out=$(cd /tmp/vsnap && VERIF_SHRINK_SECS=${VERIF_SHRINK_SECS:-10} ./check "$prop" "$tier" 2>&1); rc=$?
git -C /tmp/mut/repo checkout -q -- .
echo "$out" | grep -E "^(VIOLATION|KNOWN-FINDING|HARNESS|verif: property=.*exit=)" | cut -c1-330 | head -8
echo "MUTATION $(basename $(dirname $patch)) of $(basename $(dirname $(dirname $patch))) vs $prop/$tier: exit=$rc"
