//! gossipsim: see /verif/DESIGN.md
