//! Swarm configuration and the scheduler: the only place that draws from the PRNG.

use crate::model::STALE_SECS;
use crate::universe::*;
use crate::world::*;
use simcore::{Rng, Tier};
use std::collections::{BTreeSet, VecDeque};

pub fn gen_config(profile: &str, rng: &mut Rng, tier: Tier) -> Config {
	let mode = match profile {
		"chaos" => Mode::Chaos,
		"order" => Mode::Order,
		_ => {
			if rng.chance(70, 100) {
				Mode::Chaos
			} else {
				Mode::Order
			}
		},
	};
	let n_nodes = rng.range(4, 7) as usize;
	let n_chans = rng.range(3, 10) as usize;
	let mut chans: Vec<ChanCfg> = Vec::new();
	let mut used = BTreeSet::new();
	for _ in 0..n_chans {
		let a = rng.below(n_nodes as u64) as usize;
		let mut b = rng.below(n_nodes as u64 - 1) as usize;
		if b >= a {
			b += 1;
		}
		let scid = loop {
			let s = (rng.range(100_000, 800_000) << 40) | (rng.range(1, 3000) << 16) | rng.range(0, 3);
			if used.insert(s) {
				break s;
			}
		};
		let capacity_sats = match rng.below(5) {
			0 => rng.range(1_000, 20_000),
			1 => 100_000,
			2 => rng.range(100_000, 16_777_215),
			3 => 16_777_216,
			_ => rng.range(20_000_000, 500_000_000),
		};
		chans.push(ChanCfg { scid, a, b, capacity_sats });
	}
	let quick = tier == Tier::Quick;
	let max_steps = if quick { rng.range(50, 130) } else { rng.range(80, 320) };
	let pick = |rng: &mut Rng, xs: &[u32]| -> u32 { *rng.pick(xs) };
	let async_on = rng.chance(70, 100);
	let gen = GenCfg {
		w_ca: pick(rng, &[8, 14, 22]),
		w_cu: pick(rng, &[20, 35, 50]),
		w_na: pick(rng, &[6, 12, 20]),
		w_dup: pick(rng, &[0, 6, 15]),
		w_resolve: if async_on { pick(rng, &[3, 8, 16]) } else { 0 },
		w_process: if async_on { pick(rng, &[3, 8, 16]) } else { 1 },
		w_clock: pick(rng, &[0, 4, 10]),
		w_prune: pick(rng, &[0, 3, 8]),
		w_chan_fail: pick(rng, &[0, 1, 4]),
		w_node_fail: pick(rng, &[0, 1, 3]),
		w_roundtrip: pick(rng, &[0, 2, 5]),
		w_rgs: if quick { pick(rng, &[0, 0, 1, 3]) } else { pick(rng, &[0, 2, 5]) },
		lookup_pct: pick(rng, &[0, 30, 70, 100]),
		async_pct: if async_on { pick(rng, &[15, 40, 80]) } else { 0 },
		bad_pct: pick(rng, &[5, 20, 40]),
		big_clock_pct: pick(rng, &[5, 25, 50]),
		order_lookup: rng.below(3) as u8,
		dup_pct: pick(rng, &[10, 30, 60]),
	};
	Config {
		profile: profile.to_string(),
		mode,
		key_seed: rng.next_u64(),
		n_nodes,
		chans,
		start_time: 1_700_000_000 + rng.below(10_000_000),
		max_steps,
		gen,
	}
}

pub struct Sched {
	next_uid: u32,
	past: Vec<Action>,
	queues: Vec<VecDeque<Action>>,
	tail: VecDeque<Action>,
	winding: bool,
}

fn is_message(a: &Action) -> bool {
	matches!(a, Action::ChanAnn { .. } | Action::ChanUpd { .. } | Action::NodeAnn { .. } | Action::Rgs { .. })
}

impl Sched {
	pub fn new(wd: &World, rng: &mut Rng) -> Sched {
		let mut s = Sched { next_uid: 1, past: Vec::new(), queues: Vec::new(), tail: VecDeque::new(), winding: false };
		if wd.cfg.mode == Mode::Order {
			s.plan_order(wd, rng);
		}
		s
	}

	fn uid(&mut self) -> u32 {
		let u = self.next_uid;
		self.next_uid += 1;
		u
	}

	pub fn next(&mut self, wd: &World, rng: &mut Rng) -> Option<Action> {
		let a = match wd.cfg.mode {
			Mode::Chaos => self.next_chaos(wd, rng),
			Mode::Order => self.next_order(wd, rng),
		};
		if let Some(a) = &a {
			if is_message(a) && self.past.len() < 400 {
				self.past.push(a.clone());
			}
		}
		a
	}

	// ---- chaos ------------------------------------------------------------------------------

	fn next_chaos(&mut self, wd: &World, rng: &mut Rng) -> Option<Action> {
		if wd.finished {
			return None;
		}
		if wd.step >= wd.cfg.max_steps {
			if !self.winding {
				// wind down: complete what is outstanding, one last round trip, finish
				self.winding = true;
				let gut = &wd.gs[0];
				for _ in 0..gut.outstanding() {
					self.tail.push_back(Action::ResolveUtxo { g: 0, idx: 0, answer: UtxoAnswer::Real });
				}
				self.tail.push_back(Action::Process { g: 0 });
				self.tail.push_back(Action::RoundTrip { g: 0, adopt: false });
			}
			return Some(self.tail.pop_front().unwrap_or(Action::Finish));
		}
		let gc = &wd.cfg.gen;
		let gut = &wd.gs[0];
		let w = [
			gc.w_ca,
			gc.w_cu,
			gc.w_na,
			if self.past.is_empty() { 0 } else { gc.w_dup },
			if gut.outstanding() > 0 { gc.w_resolve } else { 0 },
			if gut.model.completed_waiting() > 0 { gc.w_process * 2 } else { gc.w_process / 3 },
			gc.w_clock,
			gc.w_prune,
			gc.w_chan_fail,
			gc.w_node_fail,
			gc.w_roundtrip,
			gc.w_rgs,
		];
		Some(match rng.weighted(&w) {
			0 => self.gen_ca(wd, rng),
			1 => self.gen_cu(wd, rng),
			2 => self.gen_na(wd, rng),
			3 => rng.pick(&self.past).clone(),
			4 => Action::ResolveUtxo {
				g: 0,
				idx: rng.below(gut.outstanding() as u64) as usize,
				answer: match rng.weighted(&[65, 12, 15, 8]) {
					0 => UtxoAnswer::Real,
					1 => UtxoAnswer::WrongScript,
					2 => UtxoAnswer::UnknownTx,
					_ => UtxoAnswer::UnknownChain,
				},
			},
			5 => Action::Process { g: 0 },
			6 => {
				let secs = if rng.chance(gc.big_clock_pct as u64, 100) {
					match rng.below(4) {
						0 => rng.range(3 * 86400, 10 * 86400),
						1 => STALE_SECS - 3600 + rng.below(7200),
						2 => rng.range(15 * 86400, 30 * 86400),
						_ => 7 * 86400 - 600 + rng.below(1200),
					}
				} else if rng.coin() {
					rng.range(1, 600)
				} else {
					rng.range(3600, 48 * 3600)
				};
				Action::Clock { secs }
			},
			7 => Action::Prune { g: 0, with_time: rng.coin() },
			8 => {
				let scid = if rng.chance(80, 100) && !wd.uni.chans.is_empty() {
					// prefer channels the graph knows
					let known: Vec<usize> = (0..wd.uni.chans.len()).filter(|i| gut.model.has_chan(wd.uni.chans[*i].scid)).collect();
					if !known.is_empty() {
						ScidRef::Chan(*rng.pick(&known))
					} else {
						ScidRef::Chan(rng.below(wd.uni.chans.len() as u64) as usize)
					}
				} else {
					ScidRef::Phantom(rng.below(N_PHANTOM as u64) as u8)
				};
				Action::ChanFail { g: 0, scid, permanent: rng.chance(75, 100), via_update: rng.coin() }
			},
			9 => Action::NodeFail {
				g: 0,
				node: rng.below(wd.uni.total_nodes() as u64) as usize,
				permanent: rng.chance(75, 100),
				via_update: rng.coin(),
			},
			10 => Action::RoundTrip { g: 0, adopt: rng.chance(35, 100) },
			_ => self.gen_rgs(wd, rng),
		})
	}

	fn gen_rgs(&mut self, wd: &World, rng: &mut Rng) -> Action {
		let gut = &wd.gs[0];
		let nch = wd.uni.chans.len();
		let now = wd.now as u32;
		let version = if rng.coin() { 1 } else { 2 };
		let latest_seen = match rng.below(10) {
			0 => now.saturating_sub(rng.range(14 * 86400 + 1, 20 * 86400) as u32),
			1 | 2 => now.saturating_sub(rng.range(6 * 86400, 8 * 86400) as u32),
			3 => now.saturating_add(rng.range(0, 86400) as u32),
			_ => now.saturating_sub(rng.range(0, 5 * 86400) as u32),
		};
		let mut anns = Vec::new();
		let mut scids: Vec<ScidRef> = Vec::new();
		for _ in 0..rng.range(0, 5) {
			let (scid, a, b) = if rng.chance(90, 100) {
				let c = rng.below(nch as u64) as usize;
				let (mut a, mut b) = (wd.uni.chans[c].a, wd.uni.chans[c].b);
				if rng.chance(8, 100) {
					a = rng.below(wd.uni.total_nodes() as u64) as usize;
					b = (a + 1 + rng.below(wd.uni.total_nodes() as u64 - 1) as usize) % wd.uni.total_nodes();
				}
				(ScidRef::Chan(c), a, b)
			} else {
				let a = rng.below(wd.uni.total_nodes() as u64) as usize;
				let b = (a + 1 + rng.below(wd.uni.total_nodes() as u64 - 1) as usize) % wd.uni.total_nodes();
				(ScidRef::Phantom(rng.below(N_PHANTOM as u64) as u8), a, b)
			};
			let funding = match (scid, rng.below(3)) {
				(ScidRef::Chan(c), 0) => Some(wd.uni.chans[c].capacity_sats),
				_ => None,
			};
			scids.push(scid);
			anns.push(RgsAnnSpec { scid, a, b, sorted: !rng.chance(3, 100), funding });
		}
		for s in gut.model.chan_scids() {
			if let Some(c) = wd.uni.chan_by_scid(s) {
				scids.push(ScidRef::Chan(c));
			}
		}
		if scids.is_empty() || rng.chance(10, 100) {
			scids.push(ScidRef::Chan(rng.below(nch as u64) as usize));
		}
		let mut upds = Vec::new();
		for _ in 0..rng.range(1, 6) {
			let scid = *rng.pick(&scids);
			let cap_m = match scid {
				ScidRef::Chan(c) => wd.uni.chans[c].capacity_sats * 1000,
				_ => 100_000_000,
			};
			upds.push(RgsUpdSpec {
				scid,
				dir: rng.below(2) as u8,
				disabled: rng.chance(20, 100),
				incremental: rng.chance(40, 100),
				cltv: if rng.coin() { Some(rng.range(6, 400) as u16) } else { None },
				hmin: if rng.coin() { Some(rng.range(0, 5000)) } else { None },
				base: Some(self.uid()),
				prop: if rng.coin() { Some(rng.below(5000) as u32) } else { None },
				hmax: match rng.below(6) {
					0 | 1 => None,
					2 => Some(cap_m),
					3 => Some(cap_m + rng.range(1, 1_000_000)),
					_ => Some(rng.range(1, cap_m)),
				},
			});
		}
		let defaults = (rng.range(6, 200) as u16, rng.range(0, 2000), self.uid(), rng.below(3000) as u32, rng.range(1_000_000, 5_000_000_000));
		Action::Rgs {
			g: 0,
			snap: RgsSpec { version, chain_ok: !rng.chance(4, 100), latest_seen, with_time: rng.chance(60, 100), anns, upds, defaults },
		}
	}

	fn gen_utxo(&self, wd: &World, rng: &mut Rng) -> UtxoPlan {
		let gc = &wd.cfg.gen;
		if !rng.chance(gc.lookup_pct as u64, 100) {
			return UtxoPlan::NoLookup;
		}
		if rng.chance(gc.async_pct as u64, 100) {
			return UtxoPlan::Async;
		}
		let ans = match rng.weighted(&[75, 10, 10, 5]) {
			0 => UtxoAnswer::Real,
			1 => UtxoAnswer::WrongScript,
			2 => UtxoAnswer::UnknownTx,
			_ => UtxoAnswer::UnknownChain,
		};
		if gc.async_pct > 0 && rng.chance(10, 100) {
			UtxoPlan::AsyncDone(ans)
		} else {
			UtxoPlan::Sync(ans)
		}
	}

	fn gen_ca(&mut self, wd: &World, rng: &mut Rng) -> Action {
		let gc = &wd.cfg.gen;
		let gut = &wd.gs[0];
		let nch = wd.uni.chans.len();
		// prefer channels not yet in the graph
		let missing: Vec<usize> = (0..nch).filter(|i| !gut.model.has_chan(wd.uni.chans[*i].scid)).collect();
		let c = if !missing.is_empty() && rng.chance(65, 100) { *rng.pick(&missing) } else { rng.below(nch as u64) as usize };
		let cc = &wd.uni.chans[c];
		let mut spec = CaSpec {
			scid: ScidRef::Chan(c),
			a: cc.a,
			b: cc.b,
			btc: BtcRef::Real,
			chain_ok: true,
			sorted: true,
			sig: SigSpec::Good,
			excess: match rng.below(10) {
				0 => rng.range(1, 64) as u16,
				1 => 1025 + rng.below(200) as u16,
				_ => 0,
			},
		};
		if rng.chance(gc.bad_pct as u64, 100) {
			match rng.weighted(&[22, 10, 8, 8, 22, 6, 4, 12, 8]) {
				0 => spec.sig = SigSpec::Rogue(rng.below(4) as u8),
				1 => spec.sig = SigSpec::OtherMsg(rng.below(4) as u8),
				2 => spec.sig = SigSpec::Swapped,
				3 => spec.chain_ok = false,
				4 => {
					// same scid, other peers
					let total = wd.uni.total_nodes();
					let a = rng.below(total as u64) as usize;
					let mut b = rng.below(total as u64 - 1) as usize;
					if b >= a {
						b += 1;
					}
					spec.a = a;
					spec.b = b;
					spec.btc = if rng.coin() { BtcRef::Real } else { BtcRef::Fresh(rng.below(3) as u8) };
				},
				5 => spec.sorted = false,
				6 => spec.btc = BtcRef::Same,
				7 => {
					spec.scid = ScidRef::Phantom(rng.below(N_PHANTOM as u64) as u8);
					if rng.coin() {
						spec.a = rng.below(wd.uni.total_nodes() as u64) as usize;
						spec.b = (spec.a + 1 + rng.below(wd.uni.total_nodes() as u64 - 1) as usize) % wd.uni.total_nodes();
					}
				},
				_ => spec.btc = BtcRef::Fresh(rng.below(3) as u8),
			}
		}
		Action::ChanAnn { g: 0, spec, signed: rng.chance(88, 100), handler: rng.coin(), utxo: self.gen_utxo(wd, rng) }
	}

	fn gen_cu(&mut self, wd: &World, rng: &mut Rng) -> Action {
		let gc = &wd.cfg.gen;
		let gut = &wd.gs[0];
		let nch = wd.uni.chans.len();
		let bad = rng.chance(gc.bad_pct as u64, 100);
		// which channel
		let known: Vec<usize> = (0..nch).filter(|i| gut.model.has_chan(wd.uni.chans[*i].scid)).collect();
		let pending: Vec<usize> = (0..nch).filter(|i| gut.model.pending_for_scid(wd.uni.chans[*i].scid)).collect();
		let scid_ref = if !pending.is_empty() && rng.chance(35, 100) {
			ScidRef::Chan(*rng.pick(&pending))
		} else if !known.is_empty() && rng.chance(85, 100) {
			ScidRef::Chan(*rng.pick(&known))
		} else if rng.chance(75, 100) {
			ScidRef::Chan(rng.below(nch as u64) as usize)
		} else {
			ScidRef::Phantom(rng.below(N_PHANTOM as u64) as u8)
		};
		let scid = wd.uni.scid_of(scid_ref).unwrap();
		let dir = rng.below(2) as u8;
		let mch = gut.model.chan(scid);
		let cap_sats = match scid_ref {
			ScidRef::Chan(i) => wd.uni.chans[i].capacity_sats,
			_ => 100_000,
		};
		let now = wd.now as u32;
		let cur = mch.and_then(|c| c.dirs[dir as usize].as_ref().map(|d| d.ts));
		let ts = match (cur, rng.below(100)) {
			(Some(t), 0..=49) => t.saturating_add(rng.range(1, 2000) as u32),
			(Some(t), 50..=61) => t,
			(Some(t), 62..=73) => t.saturating_sub(rng.range(1, 2000) as u32),
			(_, 74..=79) => now.saturating_sub(rng.range(13 * 86400, 16 * 86400) as u32),
			(_, 80..=83) => now.saturating_add(rng.range(1, 86400) as u32),
			_ => now.saturating_sub(rng.range(0, 12 * 86400) as u32),
		};
		let capm = cap_sats * 1000;
		let mut hmax = match rng.below(10) {
			0 | 1 => capm,
			2..=5 => capm - rng.below(capm.min(1_000_000)),
			_ => rng.range(1, capm),
		};
		// who signs: the node the direction bit designates, as far as the simulator can tell
		let (n1, n2) = match (mch, scid_ref) {
			(Some(c), _) => (c.n1, c.n2),
			(None, ScidRef::Chan(i)) => {
				let (a, b) = (wd.uni.node_id[wd.uni.chans[i].a], wd.uni.node_id[wd.uni.chans[i].b]);
				if a < b {
					(a, b)
				} else {
					(b, a)
				}
			},
			(None, _) => (wd.uni.node_id[0], wd.uni.node_id[1]),
		};
		let src = if dir == 0 { n1 } else { n2 };
		let other = if dir == 0 { n2 } else { n1 };
		let idx_of = |pk: &Pk| wd.uni.node_id.iter().position(|x| x == pk).unwrap_or(0);
		let mut signer = Signer::Node(idx_of(&src));
		let mut tampered = false;
		let mut chain_ok = true;
		if bad {
			match rng.weighted(&[20, 18, 18, 10, 17, 14, 3]) {
				0 => signer = Signer::Node(idx_of(&other)),
				1 => signer = Signer::Rogue(rng.below(N_ROGUE as u64) as u8),
				2 => tampered = true,
				3 => chain_ok = false,
				4 => hmax = capm + 1,
				5 => hmax = capm + rng.range(2, 1_000_000_000),
				_ => hmax = MAX_VALUE_MSAT + rng.range(0, 1),
			}
		}
		let spec = CuSpec {
			scid: scid_ref,
			dir,
			ts,
			disabled: rng.chance(20, 100),
			cltv: rng.range(6, 400) as u16,
			hmin: rng.range(0, 5000),
			hmax,
			uid: self.uid(),
			prop: rng.below(5000) as u32,
			chain_ok,
			signer,
			tampered,
			excess: match rng.below(12) {
				0 => rng.range(1, 64) as u16,
				1 => 1025 + rng.below(100) as u16,
				_ => 0,
			},
		};
		let entry = match rng.weighted(&[55, 22, 13, 10]) {
			0 => CuEntry::Handle,
			1 => CuEntry::Direct,
			2 => CuEntry::Unsigned,
			_ => CuEntry::VerifyOnly,
		};
		Action::ChanUpd { g: 0, spec, entry }
	}

	fn gen_na(&mut self, wd: &World, rng: &mut Rng) -> Action {
		let gc = &wd.cfg.gen;
		let gut = &wd.gs[0];
		let total = wd.uni.total_nodes();
		let known: Vec<usize> = (0..total).filter(|i| gut.model.node(&wd.uni.node_id[*i]).is_some()).collect();
		let node = if !known.is_empty() && rng.chance(80, 100) { *rng.pick(&known) } else { rng.below(total as u64) as usize };
		let cur = gut.model.node(&wd.uni.node_id[node]).and_then(|n| n.ann.as_ref().map(|a| a.ts));
		let now = wd.now as u32;
		let ts = match (cur, rng.below(100)) {
			(Some(t), 0..=54) => t.saturating_add(rng.range(1, 5000) as u32),
			(Some(t), 55..=69) => t,
			(Some(t), 70..=84) => t.saturating_sub(rng.range(1, 5000) as u32),
			_ => now.saturating_sub(rng.range(0, 20 * 86400) as u32),
		};
		let mut signer = Signer::Node(node);
		let mut tampered = false;
		if rng.chance(gc.bad_pct as u64, 100) {
			match rng.below(3) {
				0 => signer = Signer::Node((node + 1) % total),
				1 => signer = Signer::Rogue(rng.below(N_ROGUE as u64) as u8),
				_ => tampered = true,
			}
		}
		let spec = NaSpec {
			node,
			ts,
			uid: self.uid(),
			rgb: [rng.below(256) as u8, rng.below(256) as u8, rng.below(256) as u8],
			feat: rng.below(4) as u8,
			addrs: rng.below(3) as u8,
			signer,
			tampered,
			excess: match rng.below(12) {
				0 => rng.range(1, 64) as u16,
				1 => 1025 + rng.below(100) as u16,
				_ => 0,
			},
		};
		let entry = match rng.weighted(&[60, 25, 15]) {
			0 => NaEntry::Handle,
			1 => NaEntry::Direct,
			_ => NaEntry::Unsigned,
		};
		Action::NodeAnn { g: 0, spec, entry }
	}

	// ---- order independence -----------------------------------------------------------------

	fn plan_order(&mut self, wd: &World, rng: &mut Rng) {
		#[derive(Clone)]
		enum M {
			Ca(CaSpec, bool),
			Cu(CuSpec, bool),
			Na(NaSpec, bool),
		}
		let gc = &wd.cfg.gen;
		let uni = &wd.uni;
		let now = wd.now as u32;
		let mut chosen: Vec<usize> = (0..uni.chans.len()).filter(|_| rng.chance(80, 100)).collect();
		if chosen.len() < 2 {
			chosen = (0..uni.chans.len()).collect();
		}
		let mut msgs: Vec<M> = Vec::new();
		let mut nodes = BTreeSet::new();
		for c in chosen.iter() {
			let cc = &uni.chans[*c];
			nodes.insert(cc.a);
			nodes.insert(cc.b);
			msgs.push(M::Ca(
				CaSpec {
					scid: ScidRef::Chan(*c),
					a: cc.a,
					b: cc.b,
					btc: BtcRef::Real,
					chain_ok: true,
					sorted: true,
					sig: SigSpec::Good,
					excess: if rng.chance(10, 100) { 1025 + rng.below(50) as u16 } else { 0 },
				},
				rng.chance(90, 100),
			));
			let (ia, ib) = (uni.node_id[cc.a], uni.node_id[cc.b]);
			let (lo, hi) = if ia < ib { (cc.a, cc.b) } else { (cc.b, cc.a) };
			for dir in 0..2u8 {
				let k = rng.below(4);
				let mut used = BTreeSet::new();
				for _ in 0..k {
					let ts = loop {
						let t = now - rng.range(0, 10 * 86400) as u32;
						if used.insert(t) {
							break t;
						}
					};
					let capm = cc.capacity_sats * 1000;
					let hmax = match rng.below(3) {
						0 => capm,
						1 => capm - rng.below(capm.min(100_000)),
						_ => rng.range(1, capm),
					};
					let uid = self.uid();
					msgs.push(M::Cu(
						CuSpec {
							scid: ScidRef::Chan(*c),
							dir,
							ts,
							disabled: rng.chance(20, 100),
							cltv: rng.range(6, 400) as u16,
							hmin: rng.range(0, 5000),
							hmax,
							uid,
							prop: rng.below(5000) as u32,
							chain_ok: true,
							signer: Signer::Node(if dir == 0 { lo } else { hi }),
							tampered: false,
							excess: if rng.chance(8, 100) { 1025 + rng.below(50) as u16 } else { 0 },
						},
						rng.chance(90, 100),
					));
				}
			}
		}
		for n in nodes.iter() {
			let k = rng.below(3);
			let mut used = BTreeSet::new();
			for _ in 0..k {
				let ts = loop {
					let t = now - rng.range(0, 20 * 86400) as u32;
					if used.insert(t) {
						break t;
					}
				};
				let uid = self.uid();
				msgs.push(M::Na(
					NaSpec {
						node: *n,
						ts,
						uid,
						rgb: [rng.below(256) as u8, 1, 2],
						feat: rng.below(4) as u8,
						addrs: rng.below(3) as u8,
						signer: Signer::Node(*n),
						tampered: false,
						excess: if rng.chance(8, 100) { 1025 + rng.below(50) as u16 } else { 0 },
					},
					rng.chance(90, 100),
				));
			}
		}
		// two random legal orders (each announcement before what refers to it) with duplication
		for g in 0..2usize {
			let mut remaining: Vec<usize> = (0..msgs.len()).collect();
			let mut emitted: Vec<usize> = Vec::new();
			let mut have_scid: BTreeSet<ScidKey> = BTreeSet::new();
			let mut have_node: BTreeSet<usize> = BTreeSet::new();
			let mut q = VecDeque::new();
			let to_action = |m: &M, rng: &mut Rng| -> Action {
				match m {
					M::Ca(spec, signed) => Action::ChanAnn {
						g,
						spec: spec.clone(),
						signed: *signed,
						handler: rng.coin(),
						utxo: match gc.order_lookup {
							0 => UtxoPlan::NoLookup,
							1 => UtxoPlan::Sync(UtxoAnswer::Real),
							_ => match rng.below(5) {
								0 | 1 => UtxoPlan::Async,
								2 => UtxoPlan::AsyncDone(UtxoAnswer::Real),
								_ => UtxoPlan::Sync(UtxoAnswer::Real),
							},
						},
					},
					M::Cu(spec, signed) => Action::ChanUpd {
						g,
						spec: spec.clone(),
						entry: if !*signed {
							CuEntry::Unsigned
						} else if rng.coin() {
							CuEntry::Handle
						} else {
							CuEntry::Direct
						},
					},
					M::Na(spec, signed) => Action::NodeAnn {
						g,
						spec: spec.clone(),
						entry: if !*signed {
							NaEntry::Unsigned
						} else if rng.coin() {
							NaEntry::Handle
						} else {
							NaEntry::Direct
						},
					},
				}
			};
			while !remaining.is_empty() {
				let ready: Vec<usize> = remaining
					.iter()
					.cloned()
					.filter(|i| match &msgs[*i] {
						M::Ca(..) => true,
						M::Cu(s, _) => have_scid.contains(&scid_key(s.scid)),
						M::Na(s, _) => have_node.contains(&s.node),
					})
					.collect();
				let i = *rng.pick(&ready);
				remaining.retain(|x| *x != i);
				if let M::Ca(s, _) = &msgs[i] {
					have_scid.insert(scid_key(s.scid));
					have_node.insert(s.a);
					have_node.insert(s.b);
				}
				q.push_back(to_action(&msgs[i], rng));
				emitted.push(i);
				while rng.chance(gc.dup_pct as u64, 200) {
					let j = *rng.pick(&emitted);
					q.push_back(to_action(&msgs[j], rng));
				}
			}
			self.queues.push(q);
		}
	}

	fn next_order(&mut self, wd: &World, rng: &mut Rng) -> Option<Action> {
		if wd.finished {
			return None;
		}
		if let Some(a) = self.tail.pop_front() {
			return Some(a);
		}
		let live: Vec<usize> = (0..self.queues.len()).filter(|g| !self.queues[*g].is_empty()).collect();
		if live.is_empty() {
			for g in 0..wd.gs.len() {
				for _ in 0..wd.gs[g].outstanding() {
					self.tail.push_back(Action::ResolveUtxo { g, idx: 0, answer: UtxoAnswer::Real });
				}
				self.tail.push_back(Action::Process { g });
				if rng.coin() {
					self.tail.push_back(Action::RoundTrip { g, adopt: false });
				}
			}
			self.tail.push_back(Action::Finish);
			return self.tail.pop_front();
		}
		let g = *rng.pick(&live);
		let gut = &wd.gs[g];
		if gut.outstanding() > 0 && rng.chance(25, 100) {
			return Some(Action::ResolveUtxo { g, idx: rng.below(gut.outstanding() as u64) as usize, answer: UtxoAnswer::Real });
		}
		if gut.model.completed_waiting() > 0 && rng.chance(40, 100) {
			return Some(Action::Process { g });
		}
		if rng.chance(2, 100) {
			return Some(Action::RoundTrip { g, adopt: false });
		}
		self.queues[g].pop_front()
	}
}

type ScidKey = (u8, usize);
fn scid_key(s: ScidRef) -> ScidKey {
	match s {
		ScidRef::Chan(i) => (0, i),
		ScidRef::Phantom(k) => (1, k as usize),
	}
}
