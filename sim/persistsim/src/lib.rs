//! persistsim: decides the persister half of property C19 — "on top of an atomic key-value store,
//! `MonitorUpdatingPersister` recovers after a crash between any two store operations a monitor
//! that includes every update it had reported as persisted and equals the in-memory monitor as of
//! that update; its clean-up never deletes an update that recovery still needs."
//!
//! See /verif/DESIGN.md §5 C19 (b) and (c).
//!
//! Structure of one run:
//! * an `lnsim::world::World` (2–3 real `ChannelManager`s + `ChainMonitor`s) produces realistic
//!   monitor-update histories: payments, claims, fails, fee updates, cooperative and force closes,
//!   on-chain resolution;
//! * after every world action the persist calls the node's `ChainMonitor` made are captured (update
//!   bytes from the `Watch` tap, the serialised in-memory monitor from the node's simulated disk)
//!   and forwarded, in order, to a `Mirror`: the real `MonitorUpdatingPersister` over a `SimKv`;
//! * after every forwarded call, and every persister-level action of the simulator
//!   (`cleanup_stale_updates`, `archive_persisted_channel`, restart, store sync, injected store
//!   error), every crash state at a store-operation boundary is recovered with a fresh persister
//!   and checked (`mirror.rs`).

pub mod asyncp;
pub mod kv;
pub mod mirror;

use lightning::util::ser::Writeable;
use lnsim::world::{Action as WAction, World};
use mirror::{Ctx, Mirror, MirrorCfg};
use serde::{Deserialize, Serialize};
use serde_json::{json, Value};
use simcore::{fnv, fnv_extend, Rng, RunOutcome, Sim, Tier};
use std::collections::{BTreeMap, BTreeSet};

pub const MAX_PENDING_CHOICES: [u64; 7] = [0, 1, 2, 3, 5, 10, 100];

#[derive(Clone, Debug, Serialize, Deserialize)]
pub struct MirrorSpec {
	pub node: usize,
	pub max_pending: u64,
}

#[derive(Clone, Debug, Serialize, Deserialize)]
pub struct Config {
	pub world: lnsim::world::Config,
	pub mirrors: Vec<MirrorSpec>,
	/// in-run visibility of lazy removals (see kv.rs)
	pub lazy_mode: u8,
	pub coin_seed: u64,
	pub list_salt: u64,
	/// number of random "some lazy removals lost" crash states per op boundary
	pub lazy_samples: u8,
	pub steps: u64,
	/// weights of the three action families
	pub w_world: u32,
	pub w_chain: u32,
	pub w_persist: u32,
	/// weights inside the persister family
	pub w_cleanup: u32,
	pub w_reload: u32,
	pub w_archive: u32,
	pub w_flush: u32,
	pub w_err: u32,
	/// percent chance that in-flight monitor writes of the world are completed right after an action
	pub eager_complete_pct: u8,
	pub reload_changes_max: bool,
	/// from this many executed actions on, channel closes are enabled with these weights and the
	/// chain family gets `w_chain_late`
	pub close_after: u64,
	pub w_close_coop: u32,
	pub w_force_close: u32,
	pub w_chain_late: u32,
}

#[derive(Clone, Debug, Serialize, Deserialize, PartialEq)]
pub enum Action {
	/// an action of the lnsim world
	W(WAction),
	Cleanup { node: usize, lazy: bool },
	Reload { node: usize, max: Option<u64> },
	Archive { node: usize, idx: usize },
	Flush { node: usize },
	ArmErr { node: usize, after: u32, applied: bool },
}

impl Action {
	pub fn kind(&self) -> String {
		match self {
			Action::W(a) => format!("W{}", a.kind()),
			Action::Cleanup { lazy, .. } => format!("Cleanup{}", if *lazy { "Lazy" } else { "Strict" }),
			Action::Reload { .. } => "Reload".into(),
			Action::Archive { .. } => "Archive".into(),
			Action::Flush { .. } => "Flush".into(),
			Action::ArmErr { .. } => "ArmErr".into(),
		}
	}
	pub fn actor(&self) -> usize {
		match self {
			Action::W(a) => a.actor(),
			Action::Cleanup { node, .. }
			| Action::Reload { node, .. }
			| Action::Archive { node, .. }
			| Action::Flush { node }
			| Action::ArmErr { node, .. } => *node,
		}
	}
}

#[derive(Default)]
struct Capture {
	persist_cursor: usize,
	watch_cursor: usize,
	updates: BTreeMap<([u8; 32], u64), Vec<u8>>,
}

pub struct Run {
	pub cfg: Config,
	pub wd: World,
	pub mirrors: Vec<Mirror>,
	caps: Vec<Capture>,
	pub out: RunOutcome,
	pub hist: u64,
	pub inter: u64,
	pub trace: Vec<Action>,
	pub effective: u64,
	pub step: u64,
	pub state_fps: BTreeSet<u64>,
	pub sample: Vec<String>,
	pub world_dead_noted: bool,
	/// per node: chain epoch (even between chain deliveries, odd while one is in progress)
	pub epochs: Vec<u64>,
}

pub fn gen_config(rng: &mut Rng, tier: Tier) -> Config {
	let mut r = rng.fork("persist-config");
	let mut world = lnsim::sched::gen_config("persist", rng, tier);
	for n in world.nodes.iter_mut() {
		// every persist call leaves its blob among the node's in-flight candidates, which is where
		// the capture reads it from
		n.async_default = true;
		n.deferred = false;
	}
	let w = &mut world.weights;
	let mut set = |k: &str, v: u32| {
		w.insert(k.to_string(), v);
	};
	set("CompleteMon", *r.pick(&[20, 40, 80]));
	set("AsyncOn", 0);
	set("PersistMgr", 1);
	set("Crash", 0);
	set("ArmCrash", 0);
	set("Restart", 0);
	// closes are switched on by the driver late in the run (`close_after`)
	set("CloseCoop", 0);
	set("ForceClose", 0);
	set("Disconnect", *r.pick(&[0, 1, 2]));
	set("Send", *r.pick(&[12, 20, 30]));
	set("Claim", *r.pick(&[8, 12, 20]));
	world.max_payments = r.range(2, 10) as usize;
	let steps = match tier {
		Tier::Quick => r.range(100, 350),
		Tier::Thorough => r.range(150, 700),
	};
	world.max_steps = steps;
	let n_nodes = world.nodes.len();
	// swarm: which nodes are mirrored (at least one; the middle node of a line is the forwarder)
	let mut mirrors = Vec::new();
	for n in 0..n_nodes {
		if r.chance(2, 3) {
			mirrors.push(MirrorSpec { node: n, max_pending: *r.pick(&MAX_PENDING_CHOICES) });
		}
	}
	if mirrors.is_empty() {
		let n = if n_nodes >= 3 { 1 } else { r.below(n_nodes as u64) as usize };
		mirrors.push(MirrorSpec { node: n, max_pending: *r.pick(&MAX_PENDING_CHOICES) });
	}
	Config {
		world,
		mirrors,
		lazy_mode: r.below(3) as u8,
		coin_seed: r.next_u64(),
		list_salt: r.next_u64(),
		lazy_samples: *r.pick(&[1, 2, 2, 3]),
		steps,
		w_world: 100,
		w_chain: *r.pick(&[0, 1, 3, 6]),
		w_persist: *r.pick(&[2, 5, 10]),
		w_cleanup: *r.pick(&[0, 3, 6]),
		w_reload: *r.pick(&[0, 2, 4]),
		w_archive: *r.pick(&[0, 0, 1, 2]),
		w_flush: *r.pick(&[0, 2, 6]),
		w_err: *r.pick(&[0, 0, 1, 2]),
		eager_complete_pct: *r.pick(&[0, 50, 90, 100]),
		reload_changes_max: r.chance(1, 3),
		close_after: steps * r.range(30, 95) / 100,
		w_close_coop: *r.pick(&[0, 1, 2, 4]),
		w_force_close: *r.pick(&[0, 1, 2, 4]),
		w_chain_late: *r.pick(&[5, 15, 30]),
	}
}

impl Run {
	pub fn new(cfg: Config, seed: u64) -> Run {
		let wd = World::new(cfg.world.clone());
		let mut out = RunOutcome::new("sync", seed);
		out.seed = seed;
		Run {
			cfg,
			wd,
			mirrors: Vec::new(),
			caps: Vec::new(),
			out,
			hist: fnv(b"persistsim"),
			inter: fnv(b"inter"),
			trace: Vec::new(),
			effective: 0,
			step: 0,
			state_fps: BTreeSet::new(),
			sample: Vec::new(),
			world_dead_noted: false,
			epochs: vec![0; 8],
		}
	}

	pub fn setup(&mut self) {
		self.wd.setup();
		if self.wd.dead {
			self.out.bump("other:world_setup_failed");
			return;
		}
		for spec in self.cfg.mirrors.clone() {
			if spec.node >= self.wd.nodes.len() {
				continue;
			}
			let node = &self.wd.nodes[spec.node];
			let mc = MirrorCfg {
				max_pending: spec.max_pending,
				lazy_mode: self.cfg.lazy_mode,
				coin_seed: self.cfg.coin_seed ^ spec.node as u64,
				list_salt: self.cfg.list_salt ^ (spec.node as u64) << 8,
				lazy_samples: self.cfg.lazy_samples,
			};
			let mut m = Mirror::new(
				spec.node,
				std::sync::Arc::clone(&node.keys),
				std::sync::Arc::clone(&node.fee),
				&mc,
			);
			self.out.bump(&format!("cfg:max_pending_{}", spec.max_pending));
			// initial registration: the node's monitors as they are in memory after channel setup
			let mut cap = Capture::default();
			if let Some(live) = node.live.as_ref() {
				let mut ids = live.monitor.list_monitors();
				ids.sort_by_key(|c| c.0);
				let mut blobs = Vec::new();
				for id in ids {
					if let Ok(mon) = live.monitor.get_monitor(id) {
						blobs.push((id.0, mon.encode()));
					}
				}
				cap.watch_cursor = live.watch.log.lock().unwrap().len();
				cap.persist_cursor = node.disk.lock().unwrap().log.len();
				for (cid, blob) in blobs {
					let mut ctx = Ctx { out: &mut self.out, chain: &self.wd.chain, step: 0, hist: &mut self.hist, epoch: 0 };
					m.call_new(&mut ctx, cid, blob);
				}
			}
			self.mirrors.push(m);
			self.caps.push(cap);
		}
	}

	/// Forwards the persist calls the world's nodes made since the last scan.
	fn scan(&mut self) {
		for mi in 0..self.mirrors.len() {
			let n = self.mirrors[mi].node;
			let node = &self.wd.nodes[n];
			let cap = &mut self.caps[mi];
			if let Some(live) = node.live.as_ref() {
				let log = live.watch.log.lock().unwrap();
				let cur = cap.watch_cursor.min(log.len());
				for c in log[cur..].iter() {
					if !c.new_channel {
						cap.updates.insert((c.chan, c.update_id), c.update_bytes.clone());
					}
				}
				cap.watch_cursor = log.len();
			}
			// (chan, id, has_update, new_channel, blob)
			let mut calls: Vec<([u8; 32], u64, bool, bool, Vec<u8>)> = Vec::new();
			{
				let d = node.disk.lock().unwrap();
				let cur = cap.persist_cursor.min(d.log.len());
				let new = &d.log[cur..];
				let mut per_chan: BTreeMap<[u8; 32], usize> = BTreeMap::new();
				for pc in new.iter() {
					*per_chan.entry(pc.chan).or_insert(0) += 1;
				}
				let mut seen: BTreeMap<[u8; 32], usize> = BTreeMap::new();
				for pc in new.iter() {
					let k = per_chan[&pc.chan];
					let i = {
						let e = seen.entry(pc.chan).or_insert(0);
						*e += 1;
						*e - 1
					};
					let blob = d.chans.get(&pc.chan).and_then(|cd| {
						let len = cd.candidates.len();
						if len < k {
							return None;
						}
						let (id, b) = &cd.candidates[len - k + i];
						if *id == pc.update_id {
							Some(b.clone())
						} else {
							None
						}
					});
					match blob {
						Some(b) => calls.push((pc.chan, pc.update_id, pc.has_update, pc.new_channel, b)),
						None => {
							if self.out.harness_errors.len() < 3 {
								self.out.harness_errors.push(format!(
									"step {}: capture lost the monitor blob of node {} update {} (the world's disk model changed?)",
									self.step, n, pc.update_id
								));
							}
							self.mirrors[mi].dead = true;
						},
					}
				}
				cap.persist_cursor = d.log.len();
			}
			for (chan, id, has_update, new_channel, blob) in calls {
				let mut ctx = Ctx {
					out: &mut self.out,
					chain: &self.wd.chain,
					step: self.step,
					hist: &mut self.hist,
					epoch: self.epochs[n],
				};
				if new_channel {
					self.mirrors[mi].call_new(&mut ctx, chan, blob);
				} else if has_update {
					match self.caps[mi].updates.get(&(chan, id)) {
						Some(u) => {
							let u = u.clone();
							self.mirrors[mi].call_update(&mut ctx, chan, Some(u), blob)
						},
						None => {
							if ctx.out.harness_errors.len() < 3 {
								ctx.out.harness_errors.push(format!(
									"capture has no update bytes for node {} update {}",
									n, id
								));
							}
							self.mirrors[mi].dead = true;
						},
					}
				} else {
					ctx.out.bump("probe:persist_without_update");
					self.mirrors[mi].call_update(&mut ctx, chan, None, blob);
				}
			}
		}
	}

	fn mirror_of(&self, node: usize) -> Option<usize> {
		self.mirrors.iter().position(|m| m.node == node)
	}

	pub fn apply(&mut self, a: &Action) -> bool {
		self.step += 1;
		// every attempted action is part of the trace: a world action that "did nothing" still moved
		// the world's clock and may have processed queued work inside the library
		self.trace.push(a.clone());
		let did = match a {
			Action::W(wa) => {
				if self.wd.dead {
					false
				} else {
					// Chain data reaches a node only while its `synced_height` moves. Calls captured
					// during such an action get an odd (= "unknown chain view") epoch.
					let before: Vec<u32> = self.wd.nodes.iter().map(|n| n.synced_height).collect();
					let did = self.wd.apply(wa);
					let moved: Vec<usize> = (0..self.wd.nodes.len().min(self.epochs.len()))
						.filter(|n| self.wd.nodes[*n].synced_height != before[*n])
						.collect();
					for n in moved.iter() {
						self.epochs[*n] += 1;
					}
					self.scan();
					for n in moved.iter() {
						self.epochs[*n] += 1;
					}
					if self.wd.dead && !self.world_dead_noted {
						self.world_dead_noted = true;
						self.out.bump("other:world_died");
					}
					did
				}
			},
			_ => {
				let node = a.actor();
				match self.mirror_of(node) {
					None => false,
					Some(mi) => {
						let mut ctx = Ctx {
							out: &mut self.out,
							chain: &self.wd.chain,
							step: self.step,
							hist: &mut self.hist,
							epoch: self.epochs[node],
						};
						let m = &mut self.mirrors[mi];
						match a {
							Action::Cleanup { lazy, .. } => m.act_cleanup(&mut ctx, *lazy),
							Action::Reload { max, .. } => m.act_reload(&mut ctx, *max),
							Action::Archive { idx, .. } => m.act_archive(&mut ctx, *idx),
							Action::Flush { .. } => m.act_flush(&mut ctx),
							Action::ArmErr { after, applied, .. } => m.act_arm_err(&mut ctx, *after, *applied),
							Action::W(_) => unreachable!(),
						}
					},
				}
			},
		};
		if did {
			self.out.bump(&format!("action:{}", a.kind()));
			self.inter = fnv_extend(self.inter, a.kind().as_bytes());
			self.inter = fnv_extend(self.inter, &[a.actor() as u8]);
			if self.sample.len() < 30 {
				self.sample.push(format!("{:?}", a));
			}
			self.effective += 1;
			self.fingerprint();
		}
		did
	}

	fn fingerprint(&mut self) {
		let mut h = fnv(b"pstate");
		for m in self.mirrors.iter() {
			h = fnv_extend(h, &[m.node as u8, m.dead as u8, (m.max_pending.min(255)) as u8]);
			let snap = m.kv.current();
			h = fnv_extend(h, &[snap.lazy_pending.len().min(4) as u8]);
			for c in m.chans.values() {
				let pending = c
					.stored_id
					.map(|s| c.update_by_id.keys().filter(|k| **k > s).count())
					.unwrap_or(0);
				let phase = match (c.stored_id, m.max_pending) {
					(Some(s), mp) if mp > 0 => (s % mp).min(7) as u8,
					_ => 9,
				};
				h = fnv_extend(h, &[pending.min(6) as u8, phase, c.archive_started as u8, c.ended as u8]);
			}
		}
		if self.state_fps.len() < 4096 {
			self.state_fps.insert(h);
		}
	}

	pub fn finish(mut self, profile: &str) -> RunOutcome {
		// the world's own oracles belong to other properties
		let foreign = self.wd.out.violations.len() as u64;
		if foreign > 0 {
			self.out.add("other:lnsim_oracle_tripped", foreign);
		}
		if !self.wd.out.harness_errors.is_empty() {
			self.out.bump("other:world_harness_error");
		}
		for (k, v) in self.wd.out.counters.iter() {
			if k.starts_with("event:") || k.starts_with("closure:") || k.starts_with("msg:") || k.starts_with("probe:send_") {
				self.out.add(&format!("world:{}", k), *v);
			}
		}
		let mut crash_states = 0;
		let mut store_ops = 0;
		for m in self.mirrors.iter() {
			crash_states += m.crash_states;
			store_ops += m.kv.op_count() as u64;
		}
		self.out.add("other:store_ops", store_ops);
		self.out.profile = profile.to_string();
		self.out.steps = self.step;
		self.out.sim_seconds = self.wd.clock.saturating_sub(1_700_000_000);
		self.out.sim_blocks = self.wd.out.sim_blocks;
		self.out.history_fp = fnv_extend(self.hist, &self.wd.hist.to_le_bytes());
		self.out.interleaving_fp = self.inter;
		self.out.state_fps = self.state_fps.iter().cloned().collect();
		// non-trivial: at least one update was stored incrementally and at least one crash state
		// was recovered by applying stored updates on top of a stored monitor
		let c = |k: &str| self.out.counters.get(k).copied().unwrap_or(0);
		self.out.nontrivial =
			c("probe:update_written_incrementally") > 0 && c("probe:recovered_by_applying_updates") > 0
				|| (crash_states > 20 && self.cfg.mirrors.iter().all(|m| m.max_pending <= 1));
		self.out.sample = Some(json!({
			"profile": profile,
			"nodes": self.cfg.world.nodes.len(),
			"channels": self.cfg.world.chans.len(),
			"mirrors": self.cfg.mirrors,
			"lazy_mode": self.cfg.lazy_mode,
			"store_ops": store_ops,
			"crash_states": crash_states,
			"first_actions": self.sample,
		}));
		if !self.out.violations.is_empty()
			|| !self.out.harness_errors.is_empty()
			|| std::env::var("PERSISTSIM_FORCE_REPLAY").is_ok()
		{
			self.out.replay = Some(json!({
				"sim": "persistsim",
				"profile": profile,
				"config": serde_json::to_value(&self.cfg).unwrap(),
				"trace": serde_json::to_value(&self.trace).unwrap(),
			}));
		}
		self.out
	}
}

// ---------------------------------------------------------------------------------------------
// scheduler

pub(crate) fn pending_completions(wd: &World) -> Vec<(usize, usize)> {
	let mut v = Vec::new();
	for (i, n) in wd.nodes.iter().enumerate() {
		if n.live.is_none() {
			continue;
		}
		let d = n.disk.lock().unwrap();
		for (k, c) in d.chans.iter() {
			if !c.completions.is_empty() {
				if let Some(ci) = wd.chans.iter().position(|x| x.channel_id.0 == *k) {
					v.push((i, ci));
				}
			}
		}
	}
	v
}

/// A payment the channels can actually carry (the world's own generator aims at its limits):
/// direct or two-hop along the line, amount well inside what the first hop reports.
pub(crate) fn gen_send(wd: &World, rng: &mut Rng) -> Option<Action> {
	let n = wd.nodes.len();
	let from = rng.below(n as u64) as usize;
	let mgr = wd.mgr(from)?;
	let usable = |x: usize| -> Vec<(usize, usize)> {
		wd.chans
			.iter()
			.filter(|c| !c.close_requested && (c.a == x || c.b == x))
			.map(|c| (c.idx, if c.a == x { c.b } else { c.a }))
			.collect()
	};
	let first = usable(from);
	if first.is_empty() {
		return None;
	}
	let (c1, p1) = *rng.pick(&first);
	let mut path = vec![c1];
	let mut to = p1;
	if rng.chance(1, 2) {
		let next: Vec<(usize, usize)> = usable(p1).into_iter().filter(|(_, p)| *p != from).collect();
		if !next.is_empty() {
			let (c2, p2) = *rng.pick(&next);
			path.push(c2);
			to = p2;
		}
	}
	wd.mgr(to)?;
	let cid = wd.chans[c1].channel_id;
	let det = mgr.list_channels().into_iter().find(|d| d.channel_id == cid)?;
	if !det.is_usable {
		return None;
	}
	let (min, max) = (det.next_outbound_htlc_minimum_msat.max(1), det.next_outbound_htlc_limit_msat);
	if max <= min + 10_000 {
		return None;
	}
	let hi = (max / *rng.pick(&[3u64, 5, 10, 40])).max(min + 1);
	let amt = match rng.below(6) {
		0 => rng.range(min, (min + 2_000_000).min(hi)),
		_ => rng.range(min, hi),
	};
	Some(Action::W(WAction::Send {
		from,
		to,
		paths: vec![path],
		amts: vec![amt],
		fee_delta_msat: 0,
		cltv_delta_adj: 0,
		flaw: 0,
	}))
}

pub(crate) fn next_chain_action(wd: &World, rng: &mut Rng) -> Option<Action> {
	let n = wd.nodes.len();
	let tip = wd.chain.tip_height();
	let mut opts: Vec<(WAction, u32)> = Vec::new();
	for i in 0..n {
		if wd.nodes[i].live.is_none() {
			continue;
		}
		if wd.nodes[i].broadcaster.len() > 0 {
			opts.push((WAction::Relay { n: i }, 30));
		}
		if wd.nodes[i].synced_height < tip {
			opts.push((WAction::Sync { n: i, style: 0 }, 30));
		}
	}
	let mine_w = if wd.chain.mempool.is_empty() { 6 } else { 30 };
	opts.push((WAction::Mine { count: *rng.pick(&[1u32, 1, 1, 2, 3, 6]) }, mine_w));
	let ws: Vec<u32> = opts.iter().map(|(_, w)| *w).collect();
	let i = rng.weighted(&ws);
	Some(Action::W(opts[i].0.clone()))
}

fn next_persist_action(run: &Run, rng: &mut Rng) -> Option<Action> {
	let cfg = &run.cfg;
	let alive: Vec<usize> = run.mirrors.iter().filter(|m| !m.dead).map(|m| m.node).collect();
	if alive.is_empty() {
		return None;
	}
	let node = *rng.pick(&alive);
	let ws = [cfg.w_cleanup, cfg.w_reload, cfg.w_archive, cfg.w_flush, cfg.w_err];
	if ws.iter().all(|w| *w == 0) {
		return None;
	}
	Some(match rng.weighted(&ws) {
		0 => Action::Cleanup { node, lazy: rng.coin() },
		1 => {
			let max = if cfg.reload_changes_max && rng.chance(1, 2) {
				Some(*rng.pick(&MAX_PENDING_CHOICES))
			} else {
				None
			};
			Action::Reload { node, max }
		},
		2 => Action::Archive { node, idx: rng.below(4) as usize },
		3 => Action::Flush { node },
		_ => Action::ArmErr { node, after: rng.below(12) as u32, applied: rng.coin() },
	})
}

fn drive(run: &mut Run, rng: &mut Rng) {
	let mut sched = rng.fork("schedule");
	let mut idle = 0;
	while (run.effective) < run.cfg.steps && idle < 60 {
		if run.mirrors.iter().all(|m| m.dead) {
			break;
		}
		let late = run.effective >= run.cfg.close_after;
		if late {
			let (cc, fc) = (run.cfg.w_close_coop, run.cfg.w_force_close);
			run.wd.cfg.weights.insert("CloseCoop".to_string(), cc);
			run.wd.cfg.weights.insert("ForceClose".to_string(), fc);
		}
		let cfg = &run.cfg;
		let w_chain = if late { cfg.w_chain_late } else { cfg.w_chain };
		let fam = if run.wd.dead {
			2
		} else {
			sched.weighted(&[cfg.w_world, w_chain, cfg.w_persist])
		};
		let a = match fam {
			0 => match lnsim::sched::next_action(&run.wd, &mut sched).map(Action::W) {
				// the world wants to send: use a payment that is likely to go through
				Some(Action::W(WAction::Send { .. })) if sched.chance(4, 5) => gen_send(&run.wd, &mut sched),
				other => other,
			},
			1 => next_chain_action(&run.wd, &mut sched),
			_ => next_persist_action(run, &mut sched),
		};
		let a = match a {
			Some(a) => a,
			None => {
				idle += 1;
				if run.wd.dead {
					break;
				}
				continue;
			},
		};
		if run.apply(&a) {
			idle = 0;
		} else {
			idle += 1;
		}
		if let Action::W(_) = a {
			if !run.wd.dead && sched.below(100) < run.cfg.eager_complete_pct as u64 {
				for (n, chan) in pending_completions(&run.wd) {
					run.apply(&Action::W(WAction::CompleteMon { n, chan, which: 0 }));
				}
			}
		}
	}
	// closing phase: make sure the typical end-of-life persister actions happen at least sometimes
	if !run.out.violations.is_empty() {
		return;
	}
	let nodes: Vec<usize> = run.mirrors.iter().filter(|m| !m.dead).map(|m| m.node).collect();
	for node in nodes {
		if run.cfg.w_cleanup > 0 && sched.chance(1, 2) {
			run.apply(&Action::Cleanup { node, lazy: sched.coin() });
		}
		if run.cfg.w_reload > 0 && sched.chance(1, 3) {
			run.apply(&Action::Reload { node, max: None });
		}
	}
}

pub struct PersistSim;

fn bad_replay(msg: String) -> RunOutcome {
	let mut o = RunOutcome::default();
	o.harness_errors.push(msg);
	o
}

impl Sim for PersistSim {
	fn name(&self) -> &'static str {
		"persistsim"
	}

	fn run(&self, profile: &str, seed: u64, tier: Tier) -> RunOutcome {
		match profile {
			"async" | "async-fifo" => asyncp::run(profile, seed, tier),
			_ => {
				let mut rng = Rng::new(seed);
				let cfg = gen_config(&mut rng, tier);
				let mut run = Run::new(cfg, seed);
				run.setup();
				if !run.wd.dead {
					drive(&mut run, &mut rng);
				}
				run.finish("sync")
			},
		}
	}

	fn replay(&self, replay: &Value) -> RunOutcome {
		let profile = replay.get("profile").and_then(|p| p.as_str()).unwrap_or("sync");
		if profile == "async" || profile == "async-fifo" {
			return asyncp::replay(replay);
		}
		let cfg: Config = match serde_json::from_value(replay["config"].clone()) {
			Ok(c) => c,
			Err(e) => return bad_replay(format!("bad replay config: {}", e)),
		};
		let trace: Vec<Action> = match serde_json::from_value(replay["trace"].clone()) {
			Ok(t) => t,
			Err(e) => return bad_replay(format!("bad replay trace: {}", e)),
		};
		let mut run = Run::new(cfg, 0);
		run.setup();
		for a in trace.iter() {
			run.apply(a);
		}
		run.finish("sync")
	}

	fn components(&self) -> (Vec<String>, Vec<String>) {
		(
			vec![
				"MonitorUpdatingPersister (sync) incl. read_all_channel_monitors_with_updates, read_channel_monitor_with_updates, cleanup_stale_updates, archive_persisted_channel".into(),
				"MonitorUpdatingPersisterAsync + ChainMonitor::new_async_beta (profile async)".into(),
				"ChannelMonitor (de)serialisation and update_monitor (recovery path)".into(),
				"ChannelManager / ChainMonitor / Channel of the lnsim world producing the monitor-update histories".into(),
				"KeysManager + InMemorySigner inside TestChannelSigner".into(),
			],
			vec![
				"KVStoreSync / KVStore (SimKv: BTreeMap + op log, crash at every op boundary, lazy-removal coin, injected io::Error)".into(),
				"FutureSpawner (parks futures; the scheduler polls them)".into(),
				"the node around the persister: lnsim world (queues, chain, broadcaster, fee estimator, logger)".into(),
				"chainmonitor::Persist of the world's nodes (lnsim SimPersister); its calls are forwarded to the persister under test".into(),
			],
		)
	}
}
