#!/usr/bin/env bash
# Runs every seeded change under /verif/seeded against the checks expected to see it (after
# tools/mut_snapshot.sh). Appends "<prop> <mutation> <check> <tier> <exit> <first violating oracle>" to $OUT.
OUT=${OUT:-/verif/seeded/results.tsv}
: > "$OUT"
try() { # property mutation check [tier]
	local p=$1 m=$2 c=$3 t=${4:-quick}
	local patch=/verif/seeded/$p/$m/patch.diff
	[ -f /verif/seeded/$p/$m/patch.rebased.diff ] && patch=/verif/seeded/$p/$m/patch.rebased.diff
	git -C /tmp/mut/repo checkout -q -- .
	if ! git -C /tmp/mut/repo apply "$patch" 2>/dev/null; then echo -e "$p\t$m\t$c\t$t\tapply-failed\t" >> "$OUT"; return; fi
	local out rc
	out=$(cd /tmp/vsnap && VERIF_SHRINK_SECS=5 ./check "$c" "$t" 2>&1); rc=$?
	git -C /tmp/mut/repo checkout -q -- .
	local first=$(echo "$out" | grep -E "^VIOLATION" | head -1 | sed -E 's/.*oracle="([^"]*)".*/\1/')
	echo -e "$p\t$m\t$c\t$t\t$rc\t$first" >> "$OUT"
}
try C01 m1 C01; try C01 m2 C01
try C02 m1 C02; try C02 m2 C05; try C02 m2 C02
try C03 m1 C03; try C03 m2 C11; try C03 m2 C03
try C04 m1 C04; try C04 m1 C08; try C04 m2 C04
try C05 m1 C05; try C05 m2 C05; try C05 m2 C08
try C06 m1 C06; try C06 m2 C06
try C07 m1 C07; try C07 m2 C07
try C08 m1 C08; try C08 m1 C04; try C08 m2 C08
try C09 m1 C09; try C09 m2 C09; try C09 m2 C10
try C10 m1 C10; try C10 m2 C10
try C11 m1 C11; try C11 m2 C11
try C12 m1 C10; try C12 m1 C12; try C12 m2 C12; try C12 m2 C17
try C13 m1 C13; try C13 m2 C13
try C14 m1 C14; try C14 m2 C14
try C15 m1 C15; try C15 m2 C15
try C17 m1 C17; try C17 m2 C17
try C19 m1 C19; try C19 m2 C19
try C20 m1 C20; try C20 m2 C20
echo done >> "$OUT"
