//! The simulator-owned stream seam: a fault-injecting, request-counting `lightning::io::Read`.
//!
//! (`lightning::io` re-exports `bitcoin::io`, whose `Read` is a separate trait from `std::io::Read`
//! even under feature `std`; LDK's `Readable`/`LengthReadable` are generic over that trait.)

use lightning::io;
use serde::{Deserialize, Serialize};

/// How the bytes are handed out. Every variant is an explicit, replayable argument; `Random` is a
/// pure function of its `seed` (a private splitmix stream, not the run's scheduler PRNG).
#[derive(Clone, Copy, Debug, PartialEq, Eq, Serialize, Deserialize)]
pub enum Chunking {
	/// as much as the caller asks for
	All,
	/// one byte per `read` call
	One,
	/// at most `n` bytes per call
	Fixed(u16),
	/// between 1 and `max` bytes per call, sizes from splitmix(seed)
	Random { seed: u64, max: u16 },
}

#[derive(Clone, Copy, Debug, PartialEq, Eq, Serialize, Deserialize)]
pub enum ErrKind {
	Other,
	BrokenPipe,
	TimedOut,
	ConnectionReset,
}

impl ErrKind {
	pub fn to_io(self) -> io::ErrorKind {
		match self {
			ErrKind::Other => io::ErrorKind::Other,
			ErrKind::BrokenPipe => io::ErrorKind::BrokenPipe,
			ErrKind::TimedOut => io::ErrorKind::TimedOut,
			ErrKind::ConnectionReset => io::ErrorKind::ConnectionReset,
		}
	}
}

#[derive(Clone, Copy, Debug, PartialEq, Eq)]
pub enum Cut {
	None,
	/// the stream ends (read returns 0) once `k` bytes were delivered
	Eof(usize),
	/// the stream fails with an `io::Error` once `k` bytes were delivered
	Err(usize, ErrKind),
}

#[derive(Clone, Copy, Debug, Default)]
pub struct ReadStats {
	/// highest `pos + buf.len()` over all `read` calls (what the decoder *asked* for)
	pub max_req_end: usize,
	pub calls: u32,
	pub delivered: usize,
	/// the armed cut actually took effect (a read hit it)
	pub fired: bool,
	/// first request that started inside a nested length-prefixed region and asked for bytes
	/// beyond its end: (region start, region end, request end)
	pub nested_overread: Option<(usize, usize, usize)>,
}

pub struct FaultyReader<'a> {
	data: &'a [u8],
	pos: usize,
	chunk: Chunking,
	cstate: u64,
	cut: Cut,
	/// sorted, disjoint `[start, end)` regions whose reads go through a nested `FixedLengthReader`
	nested: &'a [(usize, usize)],
	pub stats: ReadStats,
}

fn splitmix(x: &mut u64) -> u64 {
	*x = x.wrapping_add(0x9e3779b97f4a7c15);
	let mut z = *x;
	z = (z ^ (z >> 30)).wrapping_mul(0xbf58476d1ce4e5b9);
	z = (z ^ (z >> 27)).wrapping_mul(0x94d049bb133111eb);
	z ^ (z >> 31)
}

impl<'a> FaultyReader<'a> {
	pub fn new(data: &'a [u8], chunk: Chunking, cut: Cut, nested: &'a [(usize, usize)]) -> Self {
		let cstate = match chunk {
			Chunking::Random { seed, .. } => seed,
			_ => 0,
		};
		FaultyReader { data, pos: 0, chunk, cstate, cut, nested, stats: ReadStats::default() }
	}

	fn next_chunk(&mut self) -> usize {
		match self.chunk {
			Chunking::All => usize::MAX,
			Chunking::One => 1,
			Chunking::Fixed(n) => (n as usize).max(1),
			Chunking::Random { max, .. } => {
				let m = (max as u64).max(1);
				(1 + splitmix(&mut self.cstate) % m) as usize
			},
		}
	}
}

impl<'a> io::Read for FaultyReader<'a> {
	fn read(&mut self, buf: &mut [u8]) -> io::Result<usize> {
		if buf.is_empty() {
			return Ok(0);
		}
		self.stats.calls += 1;
		let req_end = self.pos.saturating_add(buf.len());
		if req_end > self.stats.max_req_end {
			self.stats.max_req_end = req_end;
		}
		if self.stats.nested_overread.is_none() {
			// regions are few (<= a handful); linear scan
			for (s, e) in self.nested.iter() {
				if self.pos >= *s && self.pos < *e {
					if req_end > *e {
						self.stats.nested_overread = Some((*s, *e, req_end));
					}
					break;
				}
			}
		}
		let mut limit = self.data.len();
		match self.cut {
			Cut::None => {},
			Cut::Eof(k) => {
				if self.pos >= k {
					self.stats.fired = true;
					return Ok(0);
				}
				limit = limit.min(k);
			},
			Cut::Err(k, kind) => {
				if self.pos >= k {
					self.stats.fired = true;
					return Err(kind.to_io().into());
				}
				limit = limit.min(k);
			},
		}
		if self.pos >= limit {
			return Ok(0);
		}
		let n = buf.len().min(limit - self.pos).min(self.next_chunk());
		buf[..n].copy_from_slice(&self.data[self.pos..self.pos + n]);
		self.pos += n;
		self.stats.delivered += n;
		Ok(n)
	}
}
