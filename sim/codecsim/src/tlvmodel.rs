//! Reference model of BOLT-1 BigSize and TLV streams, written from the specification and
//! independent of LDK's macros. Used to (a) find the record boundaries of a valid encoding and
//! (b) predict whether a manipulated TLV tail must be rejected.

/// Minimal BigSize encoding.
pub fn bigsize(v: u64) -> Vec<u8> {
	if v < 0xfd {
		vec![v as u8]
	} else if v <= 0xffff {
		let mut o = vec![0xfd];
		o.extend_from_slice(&(v as u16).to_be_bytes());
		o
	} else if v <= 0xffff_ffff {
		let mut o = vec![0xfe];
		o.extend_from_slice(&(v as u32).to_be_bytes());
		o
	} else {
		let mut o = vec![0xff];
		o.extend_from_slice(&v.to_be_bytes());
		o
	}
}

/// BigSize encoding of `v` forced to `width` total bytes (3, 5 or 9). Non-minimal when a shorter
/// form exists. Returns None if `v` does not fit.
pub fn bigsize_wide(v: u64, width: u8) -> Option<Vec<u8>> {
	match width {
		3 if v <= 0xffff => {
			let mut o = vec![0xfd];
			o.extend_from_slice(&(v as u16).to_be_bytes());
			Some(o)
		},
		5 if v <= 0xffff_ffff => {
			let mut o = vec![0xfe];
			o.extend_from_slice(&(v as u32).to_be_bytes());
			Some(o)
		},
		9 => {
			let mut o = vec![0xff];
			o.extend_from_slice(&v.to_be_bytes());
			Some(o)
		},
		_ => None,
	}
}

#[derive(Debug, Clone, PartialEq, Eq)]
pub enum BsErr {
	Eof,
	NonMinimal,
}

/// Parses one BigSize at `b[at..]`; returns (value, encoded width).
pub fn read_bigsize(b: &[u8], at: usize) -> Result<(u64, usize), BsErr> {
	let first = *b.get(at).ok_or(BsErr::Eof)?;
	let (w, min) = match first {
		0xfd => (2usize, 0xfdu64),
		0xfe => (4, 0x1_0000),
		0xff => (8, 0x1_0000_0000),
		n => return Ok((n as u64, 1)),
	};
	if b.len() < at + 1 + w {
		return Err(BsErr::Eof);
	}
	let mut v = 0u64;
	for i in 0..w {
		v = (v << 8) | b[at + 1 + i] as u64;
	}
	if v < min {
		return Err(BsErr::NonMinimal);
	}
	Ok((v, 1 + w))
}

#[derive(Debug, Clone, PartialEq, Eq)]
pub struct Rec {
	pub typ: u64,
	/// offset of the type field (relative to the slice that was parsed)
	pub start: usize,
	pub val_start: usize,
	pub end: usize,
}

#[derive(Debug, Clone, PartialEq, Eq)]
pub enum Malformed {
	TruncatedHeader,
	NonMinimal,
	NotIncreasing,
	LengthOverrun,
}

/// Syntactic parse of a complete TLV stream (the whole slice must be consumed).
pub fn parse_stream(b: &[u8]) -> Result<Vec<Rec>, Malformed> {
	let mut recs = Vec::new();
	let mut at = 0usize;
	let mut last: Option<u64> = None;
	while at < b.len() {
		let start = at;
		let (typ, w) = match read_bigsize(b, at) {
			Ok(x) => x,
			Err(BsErr::Eof) => return Err(Malformed::TruncatedHeader),
			Err(BsErr::NonMinimal) => return Err(Malformed::NonMinimal),
		};
		at += w;
		if let Some(l) = last {
			if typ <= l {
				return Err(Malformed::NotIncreasing);
			}
		}
		last = Some(typ);
		let (len, w) = match read_bigsize(b, at) {
			Ok(x) => x,
			Err(BsErr::Eof) => return Err(Malformed::TruncatedHeader),
			Err(BsErr::NonMinimal) => return Err(Malformed::NonMinimal),
		};
		at += w;
		if len > (b.len() - at) as u64 {
			return Err(Malformed::LengthOverrun);
		}
		let end = at + len as usize;
		recs.push(Rec { typ, start, val_start: at, end });
		at = end;
	}
	Ok(recs)
}

/// What the model can say about a (possibly manipulated) TLV tail, given the original tail.
#[derive(Debug, Clone, PartialEq, Eq)]
pub enum TailVerdict {
	/// BOLT-1 requires the reader to fail.
	MustFail(&'static str),
	/// Every record is either byte-identical to the original record of the same known type or has
	/// an unknown odd type: the message must decode to the original restricted to `kept` types.
	Kept(Vec<u64>),
	/// A known-type record has a changed value: outcome depends on the value codec.
	Unknown,
}

pub fn judge_tail(orig: &[u8], now: &[u8], known: &[u64]) -> TailVerdict {
	let orig_recs = match parse_stream(orig) {
		Ok(r) => r,
		Err(_) => return TailVerdict::Unknown,
	};
	let recs = match parse_stream(now) {
		Ok(r) => r,
		Err(Malformed::TruncatedHeader) => return TailVerdict::MustFail("truncated tlv header"),
		Err(Malformed::NonMinimal) => return TailVerdict::MustFail("non-minimal bigsize"),
		Err(Malformed::NotIncreasing) => return TailVerdict::MustFail("tlv types not increasing"),
		Err(Malformed::LengthOverrun) => return TailVerdict::MustFail("tlv length overruns frame"),
	};
	let mut kept = Vec::new();
	let mut unknown_value = false;
	for r in recs.iter() {
		if known.contains(&r.typ) {
			let same = orig_recs.iter().any(|o| {
				o.typ == r.typ && orig[o.val_start..o.end] == now[r.val_start..r.end]
			});
			if same {
				kept.push(r.typ);
			} else {
				unknown_value = true;
			}
		} else if r.typ % 2 == 0 {
			return TailVerdict::MustFail("unknown even tlv type");
		}
	}
	if unknown_value {
		TailVerdict::Unknown
	} else {
		TailVerdict::Kept(kept)
	}
}

#[cfg(test)]
mod tests {
	use super::*;
	#[test]
	fn bigsize_vectors() {
		// BOLT-1 appendix A
		assert_eq!(bigsize(0), vec![0]);
		assert_eq!(bigsize(252), vec![0xfc]);
		assert_eq!(bigsize(253), vec![0xfd, 0x00, 0xfd]);
		assert_eq!(bigsize(65535), vec![0xfd, 0xff, 0xff]);
		assert_eq!(bigsize(65536), vec![0xfe, 0, 1, 0, 0]);
		assert_eq!(bigsize(4294967296), vec![0xff, 0, 0, 0, 1, 0, 0, 0, 0]);
		assert_eq!(read_bigsize(&[0xfd, 0x00, 0xfc], 0), Err(BsErr::NonMinimal));
		assert_eq!(read_bigsize(&[0xfe, 0, 0, 0xff, 0xff], 0), Err(BsErr::NonMinimal));
		assert_eq!(read_bigsize(&[0xff, 0, 0, 0, 0, 0xff, 0xff, 0xff, 0xff], 0), Err(BsErr::NonMinimal));
		assert_eq!(read_bigsize(&[0xfd, 0x00], 0), Err(BsErr::Eof));
		assert_eq!(read_bigsize(&[0xfd, 0x01, 0x00], 0), Ok((256, 3)));
	}
	#[test]
	fn stream() {
		let s = [1u8, 2, 0xaa, 0xbb, 3, 0];
		let r = parse_stream(&s).unwrap();
		assert_eq!(r.len(), 2);
		assert_eq!(r[0], Rec { typ: 1, start: 0, val_start: 2, end: 4 });
		assert_eq!(parse_stream(&[3, 0, 1, 0]), Err(Malformed::NotIncreasing));
		assert_eq!(parse_stream(&[1, 5, 0]), Err(Malformed::LengthOverrun));
		assert_eq!(judge_tail(&s, &[1, 2, 0xaa, 0xbb, 3, 0, 4, 0], &[1, 3]), TailVerdict::MustFail("unknown even tlv type"));
		assert_eq!(judge_tail(&s, &[1, 2, 0xaa, 0xbb, 5, 1, 9], &[1, 3]), TailVerdict::Kept(vec![1]));
	}
}
