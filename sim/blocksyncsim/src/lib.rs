//! blocksyncsim: see /verif/DESIGN.md
