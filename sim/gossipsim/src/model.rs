//! Reference model of the gossip graph, written from BOLT-7 and from the documented behaviour of
//! the public `NetworkGraph` API (function docs), not from the implementation's data structures.
//! It sees only message *descriptors* (ground truth about who signed what) and lookup *outcomes*.
//!
//! Rules (BOLT-7 "Requirements" of channel_announcement / channel_update / node_announcement,
//! plus the pruning section):
//!  * channel_announcement: node ids sorted, two distinct funding keys, right chain, all four
//!    signatures valid when verification is requested, funding output matches when a chain
//!    source is consulted; a known channel is not re-added (except a chain-validated
//!    announcement replacing a not-chain-validated / different-peers one, which starts afresh);
//!    channels and nodes removed for permanent failure are not re-added while remembered.
//!  * channel_update: known channel, right chain, htlc_maximum <= capacity when the capacity is
//!    known (and <= 21M BTC), strictly newer timestamp than the held one, signature by the node
//!    the direction bit designates when verification is requested.
//!  * node_announcement: node known from a channel, strictly newer timestamp, valid signature
//!    when verification is requested.
//!  * pruning at time t: directions older than 14 days dropped; a channel missing a direction
//!    whose announcement was received more than 14 days ago is removed (remembered as removed),
//!    nodes left without channels go with it; removal memory is forgotten after 7 days.
//!  * messages arriving while the announcement's chain lookup is outstanding are kept (newest
//!    per direction / per node) and processed when the lookup completes.

use crate::universe::{CaDesc, CuDesc, NaDesc, Pk, UtxoAnswer, UtxoOutcome, MAX_VALUE_MSAT};
use std::collections::{BTreeMap, BTreeSet};

pub const STALE_SECS: u64 = 14 * 24 * 3600;
pub const TOMBSTONE_SECS: u64 = 7 * 24 * 3600;

#[derive(Clone, Debug, PartialEq, Eq)]
pub struct VDir {
	pub ts: u32,
	pub enabled: bool,
	pub cltv: u16,
	pub hmin: u64,
	pub hmax: u64,
	pub base: u32,
	pub prop: u32,
}

#[derive(Clone, Debug, PartialEq, Eq)]
pub struct VChan {
	pub n1: Pk,
	pub n2: Pk,
	pub cap: Option<u64>,
	pub dirs: [Option<VDir>; 2],
}

#[derive(Clone, Debug, PartialEq, Eq)]
pub struct VNa {
	pub ts: u32,
	pub alias: [u8; 32],
	pub rgb: [u8; 3],
	pub features: Vec<u8>,
	pub addrs: Vec<u8>,
}

#[derive(Clone, Debug, PartialEq, Eq)]
pub struct VNode {
	pub chans: BTreeSet<u64>,
	pub ann: Option<VNa>,
}

/// The public read-only view: what oracle C17-1 compares.
#[derive(Clone, Debug, PartialEq, Eq, Default)]
pub struct View {
	pub chans: BTreeMap<u64, VChan>,
	pub nodes: BTreeMap<Pk, VNode>,
}

impl View {
	pub fn first_diff(&self, other: &View, me: &str, them: &str) -> Option<String> {
		for (k, v) in self.chans.iter() {
			match other.chans.get(k) {
				None => return Some(format!("channel {} present in {} but not in {}", k, me, them)),
				Some(o) if o != v => {
					return Some(format!("channel {} differs: {}={:?} {}={:?}", k, me, v, them, o))
				},
				_ => {},
			}
		}
		for k in other.chans.keys() {
			if !self.chans.contains_key(k) {
				return Some(format!("channel {} present in {} but not in {}", k, them, me));
			}
		}
		for (k, v) in self.nodes.iter() {
			match other.nodes.get(k) {
				None => {
					return Some(format!("node {} present in {} but not in {}", simcore::hex(&k[..6]), me, them))
				},
				Some(o) if o != v => {
					return Some(format!(
						"node {} differs: {}={:?} {}={:?}",
						simcore::hex(&k[..6]),
						me,
						v,
						them,
						o
					))
				},
				_ => {},
			}
		}
		for k in other.nodes.keys() {
			if !self.nodes.contains_key(k) {
				return Some(format!("node {} present in {} but not in {}", simcore::hex(&k[..6]), them, me));
			}
		}
		None
	}
}

#[derive(Clone, Debug)]
struct MChan {
	v: VChan,
	received: u64,
}

/// How the chain source is consulted for one announcement.
#[derive(Clone, Copy, Debug, PartialEq, Eq)]
pub enum Lookup {
	/// no chain source given: tentatively accept, capacity unknown
	None,
	Sync(UtxoOutcome),
	Async,
}

#[derive(Clone, Debug)]
pub struct Pending {
	pub id: u64,
	pub ca: CaDesc,
	pub signed: bool,
	pub done: Option<UtxoAnswer>,
	/// newest node announcement seen meanwhile, for node_id_1 / node_id_2
	na: [Option<(NaDesc, bool)>; 2],
	/// newest channel_update seen meanwhile, per direction bit
	cu: [Option<(CuDesc, bool)>; 2],
}

#[derive(Clone, Debug, Default)]
pub struct Model {
	chans: BTreeMap<u64, MChan>,
	nodes: BTreeMap<Pk, VNode>,
	pub tomb_chans: BTreeMap<u64, u64>,
	pub tomb_nodes: BTreeMap<Pk, u64>,
	pub pending: Vec<Pending>,
	pend_chan: BTreeMap<u64, u64>,
	pend_nodes: BTreeMap<Pk, Vec<u64>>,
	next_pending: u64,
	/// channels / nodes that were (re)created from scratch during the current step: the
	/// "never moves back in time" oracle does not compare across a re-creation
	pub reset_chans: BTreeSet<u64>,
	pub reset_nodes: BTreeSet<Pk>,
	pub stat_held: u64,
	pub stat_held_displaced: u64,
	pub stat_replaced: u64,
	/// timestamp of the last rapid-gossip-sync snapshot applied completely
	pub last_rgs: Option<u32>,
}

/// One channel of a rapid-gossip-sync snapshot (node ids in the order given, maybe unsorted).
#[derive(Clone, Debug)]
pub struct RgsAnnD {
	pub scid: u64,
	pub n1: Pk,
	pub n2: Pk,
	pub funding: Option<u64>,
}

/// One directional update of a snapshot: a full one starts from the snapshot's defaults, an
/// incremental one from what the graph holds for that direction; `Some` fields override.
#[derive(Clone, Debug)]
pub struct RgsUpdD {
	pub scid: u64,
	pub dir: u8,
	pub enabled: bool,
	pub incremental: bool,
	pub cltv: Option<u16>,
	pub hmin: Option<u64>,
	pub base: Option<u32>,
	pub prop: Option<u32>,
	pub hmax: Option<u64>,
}

#[derive(Clone, Debug)]
pub struct RgsD {
	pub chain_ok: bool,
	pub latest_seen: u32,
	/// the current time, if handed to the snapshot processing (age check + pruning)
	pub time: Option<u64>,
	pub anns: Vec<RgsAnnD>,
	pub upds: Vec<RgsUpdD>,
	pub defaults: (u16, u64, u32, u32, u64),
}

#[derive(Clone, Debug, Default)]
pub struct RgsResult {
	pub ok: bool,
	pub added: Vec<RgsAnnD>,
	pub attempted: Vec<CuDesc>,
	pub applied: u64,
	pub skipped_incremental: u64,
	pub prune: PruneEffect,
}

pub const RGS_BACKDATE_SECS: u32 = 7 * 24 * 3600;

#[derive(Clone, Copy, Debug, PartialEq, Eq)]
pub struct CaResult {
	pub accepted: bool,
	/// an asynchronous lookup was started and is now outstanding (id)
	pub started: Option<u64>,
	/// whether the chain source is consulted at all for this message
	pub consulted: bool,
}

#[derive(Clone, Debug, Default, PartialEq, Eq)]
pub struct PruneEffect {
	pub dirs_dropped: u64,
	pub chans_removed: u64,
	pub nodes_removed: u64,
	pub tombs_forgotten: u64,
}

impl Model {
	pub fn view(&self) -> View {
		View {
			chans: self.chans.iter().map(|(k, c)| (*k, c.v.clone())).collect(),
			nodes: self.nodes.clone(),
		}
	}

	pub fn begin_step(&mut self) {
		self.reset_chans.clear();
		self.reset_nodes.clear();
	}

	pub fn has_chan(&self, scid: u64) -> bool {
		self.chans.contains_key(&scid)
	}
	pub fn chan(&self, scid: u64) -> Option<&VChan> {
		self.chans.get(&scid).map(|c| &c.v)
	}
	pub fn chan_scids(&self) -> Vec<u64> {
		self.chans.keys().cloned().collect()
	}
	pub fn node(&self, pk: &Pk) -> Option<&VNode> {
		self.nodes.get(pk)
	}
	pub fn node_ids(&self) -> Vec<Pk> {
		self.nodes.keys().cloned().collect()
	}
	pub fn pending_outstanding(&self) -> usize {
		self.pending.len()
	}
	pub fn pending_for_scid(&self, scid: u64) -> bool {
		self.pend_chan.contains_key(&scid)
	}

	fn detach_chan_from_nodes(&mut self, scid: u64, n1: &Pk, n2: &Pk) -> u64 {
		let mut removed = 0;
		for n in [n1, n2] {
			let empty = match self.nodes.get_mut(n) {
				Some(node) => {
					node.chans.remove(&scid);
					node.chans.is_empty()
				},
				None => false,
			};
			if empty {
				self.nodes.remove(n);
				removed += 1;
			}
		}
		removed
	}

	fn attach_chan(&mut self, scid: u64, n1: &Pk, n2: &Pk) {
		for n in [n1, n2] {
			match self.nodes.get_mut(n) {
				Some(node) => {
					node.chans.insert(scid);
				},
				None => {
					let mut chans = BTreeSet::new();
					chans.insert(scid);
					self.nodes.insert(*n, VNode { chans, ann: None });
					self.reset_nodes.insert(*n);
				},
			}
		}
	}

	/// channel_announcement. `signed`: signature verification requested.
	pub fn chan_ann(&mut self, d: &CaDesc, signed: bool, lookup: Lookup, now: u64) -> CaResult {
		let rej = |consulted| CaResult { accepted: false, started: None, consulted };
		// trivially malformed
		if d.n1 >= d.n2 || d.b1 == d.b2 || !d.chain_ok {
			return rej(false);
		}
		// nothing new to learn
		if let Some(c) = self.chans.get(&d.scid) {
			if c.v.cap.is_some() {
				if c.v.n1 == d.n1 && c.v.n2 == d.n2 {
					return rej(false);
				}
			} else if lookup == Lookup::None {
				return rej(false);
			}
		}
		if signed && !d.sigs_ok {
			return rej(false);
		}
		if self.tomb_chans.contains_key(&d.scid)
			|| self.tomb_nodes.contains_key(&d.n1)
			|| self.tomb_nodes.contains_key(&d.n2)
		{
			return rej(false);
		}
		// the same announcement is already waiting for its lookup
		if let Some(pid) = self.pend_chan.get(&d.scid) {
			if let Some(p) = self.pending.iter().find(|p| p.id == *pid) {
				let same = if p.signed { signed && p.ca.full_id == d.full_id } else { p.ca.content_id == d.content_id };
				if same {
					return rej(false);
				}
			}
		}
		let cap = match lookup {
			Lookup::None => None,
			Lookup::Sync(UtxoOutcome::Match(v)) => Some(v),
			Lookup::Sync(_) => return rej(true),
			Lookup::Async => {
				let id = self.next_pending;
				self.next_pending += 1;
				self.pending.push(Pending {
					id,
					ca: d.clone(),
					signed,
					done: None,
					na: [None, None],
					cu: [None, None],
				});
				self.pend_chan.insert(d.scid, id);
				self.pend_nodes.entry(d.n1).or_default().push(id);
				self.pend_nodes.entry(d.n2).or_default().push(id);
				return CaResult { accepted: false, started: Some(id), consulted: true };
			},
		};
		let consulted = lookup != Lookup::None;
		if let Some(old) = self.chans.get(&d.scid).cloned() {
			if cap.is_none() {
				return rej(consulted);
			}
			// a chain-validated announcement replaces what was there; the channel starts afresh
			self.chans.remove(&d.scid);
			self.detach_chan_from_nodes(d.scid, &old.v.n1, &old.v.n2);
			self.stat_replaced += 1;
		}
		self.chans.insert(
			d.scid,
			MChan { v: VChan { n1: d.n1, n2: d.n2, cap, dirs: [None, None] }, received: now },
		);
		self.reset_chans.insert(d.scid);
		self.attach_chan(d.scid, &d.n1, &d.n2);
		CaResult { accepted: true, started: None, consulted }
	}

	/// channel_update. `only_verify`: report applicability without applying.
	pub fn chan_upd(&mut self, d: &CuDesc, signed: bool, only_verify: bool) -> bool {
		if !d.chain_ok || d.hmax > MAX_VALUE_MSAT {
			return false;
		}
		let c = match self.chans.get_mut(&d.scid) {
			Some(c) => c,
			None => {
				if let Some(pid) = self.pend_chan.get(&d.scid) {
					if let Some(p) = self.pending.iter_mut().find(|p| p.id == *pid) {
						let slot = &mut p.cu[d.dir as usize];
						let newer = match slot {
							None => true,
							Some((old, _)) => old.ts < d.ts,
						};
						if newer {
							if slot.is_some() {
								self.stat_held_displaced += 1;
							}
							*slot = Some((d.clone(), signed));
							self.stat_held += 1;
						}
					}
				}
				return false;
			},
		};
		if let Some(cap) = c.v.cap {
			if cap > MAX_VALUE_MSAT / 1000 || d.hmax > cap * 1000 {
				return false;
			}
		}
		if let Some(cur) = &c.v.dirs[d.dir as usize] {
			if cur.ts >= d.ts {
				return false;
			}
		}
		if signed {
			let src = if d.dir == 0 { &c.v.n1 } else { &c.v.n2 };
			if d.tampered || d.signer != *src {
				return false;
			}
		}
		if only_verify {
			return true;
		}
		c.v.dirs[d.dir as usize] = Some(VDir {
			ts: d.ts,
			enabled: d.enabled,
			cltv: d.cltv,
			hmin: d.hmin,
			hmax: d.hmax,
			base: d.base,
			prop: d.prop,
		});
		true
	}

	pub fn node_ann(&mut self, d: &NaDesc, signed: bool) -> bool {
		if signed {
			if let Some(n) = self.nodes.get(&d.node) {
				if let Some(a) = &n.ann {
					if a.ts == d.ts {
						return false;
					}
				}
			}
			if d.tampered || d.signer != d.node {
				return false;
			}
		}
		let n = match self.nodes.get_mut(&d.node) {
			Some(n) => n,
			None => {
				if let Some(ids) = self.pend_nodes.get(&d.node) {
					for pid in ids.clone() {
						if let Some(p) = self.pending.iter_mut().find(|p| p.id == pid) {
							let side = if p.ca.n1 == d.node { 0 } else { 1 };
							let slot = &mut p.na[side];
							let newer = match slot {
								None => true,
								Some((old, _)) => old.ts < d.ts,
							};
							if newer {
								*slot = Some((d.clone(), signed));
								self.stat_held += 1;
							}
						}
					}
				}
				return false;
			},
		};
		if let Some(a) = &n.ann {
			if a.ts >= d.ts {
				return false;
			}
		}
		n.ann = Some(VNa {
			ts: d.ts,
			alias: d.alias,
			rgb: d.rgb,
			features: d.features.clone(),
			addrs: d.addrs.clone(),
		});
		true
	}

	pub fn resolve(&mut self, id: u64, answer: UtxoAnswer) -> bool {
		match self.pending.iter_mut().find(|p| p.id == id) {
			Some(p) if p.done.is_none() => {
				p.done = Some(answer);
				true
			},
			_ => false,
		}
	}

	pub fn completed_waiting(&self) -> usize {
		self.pending.iter().filter(|p| p.done.is_some()).count()
	}

	/// Processes every completed lookup, in the order the lookups were started. Returns the number
	/// of announcements accepted.
	pub fn process_completed(
		&mut self, now: u64, outcome: &dyn Fn(UtxoAnswer, &CaDesc) -> UtxoOutcome,
	) -> (u64, u64) {
		let mut done: Vec<Pending> = Vec::new();
		let mut keep = Vec::new();
		for p in self.pending.drain(..) {
			if p.done.is_some() {
				done.push(p);
			} else {
				keep.push(p);
			}
		}
		self.pending = keep;
		let done_ids: BTreeSet<u64> = done.iter().map(|p| p.id).collect();
		self.pend_chan.retain(|_, id| !done_ids.contains(id));
		for v in self.pend_nodes.values_mut() {
			v.retain(|id| !done_ids.contains(id));
		}
		self.pend_nodes.retain(|_, v| !v.is_empty());
		let (mut accepted, mut rejected) = (0, 0);
		for p in done {
			let oc = outcome(p.done.unwrap(), &p.ca);
			if self.chan_ann(&p.ca, p.signed, Lookup::Sync(oc), now).accepted {
				accepted += 1;
			} else {
				rejected += 1;
			}
			for na in p.na.iter().flatten() {
				self.node_ann(&na.0, na.1);
			}
			// direction bit 1 first, then 0 (different directions: order is immaterial)
			for i in [1usize, 0] {
				if let Some(cu) = &p.cu[i] {
					self.chan_upd(&cu.0, cu.1, false);
				}
			}
		}
		(accepted, rejected)
	}

	pub fn chan_failed(&mut self, scid: u64, now: u64) -> bool {
		match self.chans.remove(&scid) {
			Some(c) => {
				self.tomb_chans.insert(scid, now);
				self.detach_chan_from_nodes(scid, &c.v.n1, &c.v.n2);
				true
			},
			None => false,
		}
	}

	pub fn node_failed(&mut self, node: &Pk, now: u64) -> bool {
		let n = match self.nodes.remove(node) {
			Some(n) => n,
			None => return false,
		};
		for scid in n.chans.iter() {
			if let Some(c) = self.chans.remove(scid) {
				let other = if c.v.n1 == *node { c.v.n2 } else { c.v.n1 };
				let empty = match self.nodes.get_mut(&other) {
					Some(o) => {
						o.chans.remove(scid);
						o.chans.is_empty()
					},
					None => false,
				};
				if empty {
					self.nodes.remove(&other);
				}
				self.tomb_chans.insert(*scid, now);
			}
		}
		self.tomb_nodes.insert(*node, now);
		true
	}

	/// True if pruning at time `t` would hit an exact boundary (age exactly 14 days / 7 days),
	/// where "older than" vs. "at least" is a matter of convention the property does not fix.
	pub fn prune_ambiguous(&self, t: u64) -> bool {
		if t > u32::MAX as u64 || t < STALE_SECS {
			return false;
		}
		let min = t - STALE_SECS;
		for c in self.chans.values() {
			if c.received == min {
				return true;
			}
			for d in c.v.dirs.iter().flatten() {
				if d.ts as u64 == min {
					return true;
				}
			}
		}
		self.tomb_chans.values().chain(self.tomb_nodes.values()).any(|x| t.saturating_sub(*x) == TOMBSTONE_SECS)
	}

	pub fn prune(&mut self, t: u64) -> PruneEffect {
		let mut eff = PruneEffect::default();
		if t > u32::MAX as u64 || t < STALE_SECS {
			return eff;
		}
		let min = t - STALE_SECS;
		let mut gone = Vec::new();
		for (scid, c) in self.chans.iter_mut() {
			for d in c.v.dirs.iter_mut() {
				if d.as_ref().map(|x| (x.ts as u64) < min).unwrap_or(false) {
					*d = None;
					eff.dirs_dropped += 1;
				}
			}
			if (c.v.dirs[0].is_none() || c.v.dirs[1].is_none()) && c.received < min {
				gone.push(*scid);
			}
		}
		for scid in gone {
			let c = self.chans.remove(&scid).unwrap();
			eff.nodes_removed += self.detach_chan_from_nodes(scid, &c.v.n1, &c.v.n2);
			self.tomb_chans.insert(scid, t);
			eff.chans_removed += 1;
		}
		let before = self.tomb_chans.len() + self.tomb_nodes.len();
		self.tomb_chans.retain(|_, x| t.saturating_sub(*x) < TOMBSTONE_SECS);
		self.tomb_nodes.retain(|_, x| t.saturating_sub(*x) < TOMBSTONE_SECS);
		eff.tombs_forgotten = (before - self.tomb_chans.len() - self.tomb_nodes.len()) as u64;
		eff
	}

	/// A rapid-gossip-sync snapshot from the trusted server: channels are taken without
	/// signatures or chain lookup (known ones are left alone), updates are applied as unsigned
	/// channel_updates dated one week before the snapshot's timestamp, then (if the current time
	/// is given) the graph is pruned.
	pub fn rgs(&mut self, d: &RgsD) -> RgsResult {
		let mut res = RgsResult::default();
		if !d.chain_ok {
			return res;
		}
		if let Some(t) = d.time {
			if (d.latest_seen as u64) < t.saturating_sub(STALE_SECS) {
				return res;
			}
		}
		let backdated = d.latest_seen.saturating_sub(RGS_BACKDATE_SECS);
		for a in d.anns.iter() {
			if a.n1 >= a.n2 {
				// malformed snapshot: processing stops here
				return res;
			}
			if self.chans.contains_key(&a.scid) {
				continue;
			}
			self.chans.insert(
				a.scid,
				MChan {
					v: VChan { n1: a.n1, n2: a.n2, cap: a.funding, dirs: [None, None] },
					received: backdated as u64,
				},
			);
			self.reset_chans.insert(a.scid);
			self.attach_chan(a.scid, &a.n1, &a.n2);
			res.added.push(a.clone());
		}
		for u in d.upds.iter() {
			let (mut cltv, mut hmin, mut base, mut prop, mut hmax) = d.defaults;
			if u.incremental {
				match self.chans.get(&u.scid).and_then(|c| c.v.dirs[u.dir as usize].as_ref()) {
					Some(cur) => {
						cltv = cur.cltv;
						hmin = cur.hmin;
						base = cur.base;
						prop = cur.prop;
						hmax = cur.hmax;
					},
					None => {
						res.skipped_incremental += 1;
						continue;
					},
				}
			}
			let desc = CuDesc {
				scid: u.scid,
				dir: u.dir,
				ts: backdated,
				enabled: u.enabled,
				cltv: u.cltv.unwrap_or(cltv),
				hmin: u.hmin.unwrap_or(hmin),
				hmax: u.hmax.unwrap_or(hmax),
				base: u.base.unwrap_or(base),
				prop: u.prop.unwrap_or(prop),
				chain_ok: true,
				signer: [0u8; 33],
				tampered: false,
			};
			if self.chan_upd(&desc, false, false) {
				res.applied += 1;
			}
			res.attempted.push(desc);
		}
		self.last_rgs = Some(d.latest_seen);
		if let Some(t) = d.time {
			res.prune = self.prune(t);
		}
		res.ok = true;
		res
	}

	/// The graph was replaced by its deserialised copy: removal memory is not part of the
	/// serialised form.
	pub fn adopt_deserialised(&mut self) {
		self.tomb_chans.clear();
		self.tomb_nodes.clear();
	}

	/// Internal consistency of the model itself (a failure is a harness error).
	pub fn self_check(&self) -> Result<(), String> {
		for (scid, c) in self.chans.iter() {
			for n in [&c.v.n1, &c.v.n2] {
				match self.nodes.get(n) {
					Some(node) if node.chans.contains(scid) => {},
					_ => return Err(format!("model: channel {} not listed at its node", scid)),
				}
			}
		}
		for (pk, n) in self.nodes.iter() {
			if n.chans.is_empty() {
				return Err(format!("model: node {} without channels", simcore::hex(&pk[..6])));
			}
			for s in n.chans.iter() {
				match self.chans.get(s) {
					Some(c) if c.v.n1 == *pk || c.v.n2 == *pk => {},
					_ => return Err(format!("model: node lists channel {} it is not part of", s)),
				}
			}
		}
		Ok(())
	}
}
