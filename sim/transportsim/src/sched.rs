//! The seeded scheduler: draws the per-run (swarm) configuration and picks the next action.
//! Everything it decides ends up as explicit arguments of an `Action`, so replay needs no PRNG.

use crate::handlers::MsgSpec;
use crate::net::{Owner, BIG_WINDOW, HDR_LEN};
use crate::raw::AdvMsg;
use crate::world::{Action, Config, Weights, World};
use simcore::{Rng, Tier};

pub fn gen_config(profile: &str, rng: &mut Rng, seed: u64, tier: Tier) -> Config {
	let mut r = rng.fork("config");
	let prof = match profile {
		"rotation" | "adversary" => profile,
		_ => "mix",
	};
	let n_nodes = match prof {
		"rotation" => 2,
		"adversary" => 1 + r.below(2) as usize,
		_ => {
			if r.chance(1, 4) {
				3
			} else {
				2
			}
		},
	};
	let mut features = Vec::new();
	let mut chain = Vec::new();
	for _ in 0..n_nodes {
		let mut f = vec![0u8; r.below(7) as usize];
		for b in f.iter_mut() {
			*b = (r.next_u64() as u8) & 0b1010_1010;
		}
		features.push(f);
		chain.push(r.chance(2, 3));
	}
	let scale = |r: &mut Rng, base: u32| -> u32 {
		match r.below(6) {
			0 => base / 4,
			1 => base / 2,
			2 | 3 => base,
			4 => base * 2,
			_ => base * 3,
		}
	};
	let adversary = match prof {
		"adversary" => true,
		"rotation" => false,
		_ => r.chance(3, 10),
	};
	let backpressure = prof != "rotation" && r.chance(2, 5);
	let init_window = if backpressure {
		*r.pick(&[0u64, 0, 1, 17, 18, 19, 50, 66, 100, 1000])
	} else {
		BIG_WINDOW as u64
	};
	let faulty = match prof {
		"rotation" => r.chance(1, 4),
		"adversary" => r.chance(1, 4),
		_ => r.chance(3, 5),
	};
	let mut w = Weights {
		connect: 40,
		connect_adv: if adversary { scale(&mut r, 12) + 1 } else { 0 },
		queue: scale(&mut r, 25) + 1,
		process: scale(&mut r, 30) + 2,
		tick: if r.chance(1, 2) { 0 } else { scale(&mut r, 2) },
		credit: if backpressure { scale(&mut r, 20) + 2 } else { 1 },
		wavail: if backpressure { scale(&mut r, 15) + 2 } else { 1 },
		deliver: scale(&mut r, 60) + 5,
		fault: if faulty { scale(&mut r, 4) + 1 } else { 0 },
		cut: if faulty && r.chance(1, 2) { 1 } else { 0 },
		notify: 8,
		adv_send: if adversary { scale(&mut r, 25) + 2 } else { 0 },
		app_disc: if r.chance(1, 5) { 1 } else { 0 },
	};
	let mut max_steps = 60 + r.below(if tier == Tier::Thorough { 500 } else { 300 });
	let mut msg_mix = if r.chance(1, 4) { 1 } else { 0 };
	if prof == "rotation" {
		msg_mix = 2;
		w.tick = 0;
		w.cut = 0;
		w.app_disc = 0;
		w.queue = 6;
		max_steps = 120 + r.below(120);
	}
	Config {
		profile: prof.to_string(),
		seed,
		n_nodes,
		features,
		chain,
		init_window,
		max_steps,
		current_time: 1_700_000_000u32.wrapping_add(r.below(1 << 20) as u32),
		w,
		fault_budget: if faulty { 1 + r.below(3) as u32 } else { 0 },
		fault_mask: if r.chance(1, 2) { 0b11111 } else { (1 + r.below(31)) as u32 },
		adversary,
		ignore_pause_pct: if r.chance(1, 2) { 10 + r.below(80) as u32 } else { 0 },
		msg_mix,
		deliver_all_pct: *r.pick(&[5u32, 20, 50, 80]),
	}
}

fn small_len(r: &mut Rng) -> u32 {
	match r.below(8) {
		0 => 0,
		1 => 1,
		2 => 14,
		3 => 16,
		4 => 2 + r.below(40) as u32,
		_ => r.below(300) as u32,
	}
}

fn big_len(r: &mut Rng) -> u32 {
	match r.below(8) {
		0 => 65533,
		1 => 65532,
		2 => 65531,
		3 => 8192 + r.below(8) as u32,
		4 => 4096 - 34 + r.below(40) as u32,
		_ => r.below(65534) as u32,
	}
}

fn custom_type(r: &mut Rng) -> u16 {
	match r.below(10) {
		0 => 32768,
		1 => 65531,
		2 => 32781, // odd, unknown to the receiver: ignored
		3 => 40973, // odd, unknown
		_ => {
			let base = 32768 + (r.below(2000) as u16) * 16;
			base + r.below(12) as u16
		},
	}
}

pub fn gen_spec(r: &mut Rng, mix: u8, for_adversary: bool) -> MsgSpec {
	let seed = r.next_u64();
	if mix == 2 && r.chance(4, 5) {
		return MsgSpec::Burst { ty: custom_type(r), len: r.below(40) as u32, count: 150 + r.below(500) as u32, seed };
	}
	let big = mix == 1 && r.chance(1, 3);
	let len = if big { big_len(r) } else { small_len(r) };
	match r.below(if for_adversary { 21 } else { 20 }) {
		0..=5 => MsgSpec::Custom { ty: custom_type(r), len, seed },
		6 => MsgSpec::Burst { ty: custom_type(r), len: small_len(r), count: 2 + r.below(30) as u32, seed },
		7 => MsgSpec::ChannelReady { seed },
		8 => MsgSpec::Stfu { seed },
		9 => MsgSpec::Shutdown { len: r.below(40) as u8, seed },
		10 | 11 => MsgSpec::Htlcs {
			kind: r.below(3) as u8,
			// n = 0: a commitment_signed on its own (also as the very first message of a connection)
			n: r.below(4) as u8,
			sigs: if big { r.below(484) as u16 } else { r.below(6) as u16 },
			seed,
		},
		12 => MsgSpec::Revoke { seed },
		13 => MsgSpec::Reestablish { seed },
		14 => MsgSpec::PeerStorage { len: len.min(65531), seed },
		15 => {
			if r.coin() {
				MsgSpec::TxAbort { len: len.min(65000), seed }
			} else if r.coin() {
				MsgSpec::Error { len: (len % 2000) as u16, zero: for_adversary && r.chance(1, 4), seed }
			} else {
				MsgSpec::Warning { len: (len % 2000) as u16, seed }
			}
		},
		16 => match r.below(4) {
			0 => MsgSpec::QueryRange { seed },
			1 => MsgSpec::QueryScids { n: if big { r.below(8000) as u16 } else { r.below(10) as u16 }, seed },
			2 => MsgSpec::ReplyRange { n: if big { r.below(8000) as u16 } else { r.below(10) as u16 }, seed },
			_ => MsgSpec::TsFilter { seed },
		},
		17 | 18 => MsgSpec::Onion { len: len.min(65000), seed },
		19 => MsgSpec::Custom { ty: custom_type(r), len: big_len(r), seed },
		_ => MsgSpec::Ping {
			ponglen: *r.pick(&[0u16, 1, 100, 65531, 65532, 65535]),
			byteslen: *r.pick(&[0u16, 1, 64, 1000]),
		},
	}
}

fn gen_adv(r: &mut Rng, wd: &World, ci: usize) -> Option<AdvMsg> {
	Some(gen_adv_inner(r, wd, ci)?)
}

fn gen_adv_inner(r: &mut Rng, wd: &World, ci: usize) -> Option<AdvMsg> {
	let raw = wd.conns[ci].raw.as_ref().unwrap();
	let seed = r.next_u64();
	if !raw.ready() {
		if raw.initiator && !raw.act_one_sent {
			if r.chance(4, 5) {
				return Some(AdvMsg::ActOne);
			}
		}
		if raw.model.garbage_at.is_some() || !r.chance(1, 12) {
			return None;
		}
		return Some(AdvMsg::Garbage { len: *r.pick(&[1u32, 17, 49, 50, 51, 66, 116, 300]), seed });
	}
	if raw.model.garbage_at.is_some() || raw.model.state == crate::raw::ModelState::Dead {
		if !r.chance(1, 6) {
			return None;
		}
	}
	let post = raw.model.state == crate::raw::ModelState::PostInit;
	let burst_big = wd.cfg.profile == "adversary" && r.chance(1, 12);
	let unknown_odd = *r.pick(&[3u16, 5, 11, 21, 1001, 4097, 30001, 32781, 65535]);
	let unknown_even = *r.pick(&[4u16, 6, 20, 1000, 30000, 32780, 65534]);
	let known = 32768 + (r.below(2000) as u16) * 16 + r.below(12) as u16;
	if !post {
		return Some(match r.below(16) {
			10..=15 => AdvMsg::Init { feat_seed: seed, unknown_even: false, net: r.below(2) as u8 },
			0..=5 => AdvMsg::Init { feat_seed: seed, unknown_even: r.chance(1, 8), net: r.below(3) as u8 },
			6 => AdvMsg::Frame { ty: known, len: small_len(r), seed },
			7 => AdvMsg::Std { spec: gen_spec(r, 0, true) },
			9 => AdvMsg::Std { spec: MsgSpec::Htlcs { kind: 0, n: 0, sigs: r.below(4) as u16, seed } },
			8 => AdvMsg::Frame { ty: unknown_odd, len: small_len(r), seed },
			_ => AdvMsg::Short { len: r.below(2) as u8 },
		});
	}
	if burst_big {
		return Some(AdvMsg::Burst { ty: known, len: r.below(20) as u32, count: 600 + r.below(1700) as u32, seed });
	}
	Some(match r.below(40) {
		0..=9 => AdvMsg::Frame { ty: known, len: if r.chance(1, 6) { big_len(r) } else { small_len(r) }, seed },
		10..=19 => AdvMsg::Std { spec: gen_spec(r, wd.cfg.msg_mix.min(1), true) },
		20..=24 => AdvMsg::Frame { ty: unknown_odd, len: small_len(r), seed },
		25 | 26 => AdvMsg::Frame { ty: unknown_even, len: small_len(r), seed },
		27 => AdvMsg::Init { feat_seed: seed, unknown_even: false, net: 0 },
		28 => AdvMsg::Short { len: r.below(2) as u8 },
		29 => AdvMsg::Garbage { len: *r.pick(&[1u32, 17, 18, 19, 34, 100, 70000]), seed },
		30 | 31 => AdvMsg::Frame { ty: known, len: 65533, seed },
		32..=34 => AdvMsg::Burst { ty: if r.chance(1, 5) { unknown_odd } else { known }, len: small_len(r), count: 2 + r.below(40) as u32, seed },
		35 | 36 => {
			let ty = *r.pick(&[1u16, 2, 7, 17, 18, 19, 32, 33, 36, 38, 128, 130, 132, 133, 136, 256, 257, 258, 261, 263, 264, 265, 513, 127]);
			AdvMsg::BadStd { ty, len: small_len(r), seed }
		},
		_ => AdvMsg::Std { spec: MsgSpec::Ping { ponglen: *r.pick(&[0u16, 5, 1000, 65531, 65532]), byteslen: *r.pick(&[0u16, 7, 300]) } },
	})
}

/// Picks a delivery size with cut points biased to the sender's unit boundaries (end of the
/// 18-byte length header, end of the 16-byte MAC) ± 1.
fn deliver_len(r: &mut Rng, wd: &World, sock: u32) -> u32 {
	let k = wd.sock(sock ^ 1);
	let st = &k.out;
	let avail = st.inflight_len();
	if r.below(100) < wd.cfg.deliver_all_pct as u64 {
		return avail.min(65536) as u32;
	}
	let d = st.delivered;
	// upcoming unit ends (sender coordinates), a few of them
	let ends: Vec<usize> = st.units.iter().filter(|e| **e > d).take(6).cloned().collect();
	let pick = match r.below(10) {
		0 => 1,
		1..=4 if !ends.is_empty() => {
			let e = ends[0] - d;
			match r.below(4) {
				0 => e.saturating_sub(1).max(1),
				1 => e + 1,
				_ => e,
			}
		},
		5 | 6 if !ends.is_empty() => {
			let e = *r.pick(&ends) - d;
			match r.below(4) {
				0 => e.saturating_sub(1).max(1),
				1 => e + 1,
				2 => e.saturating_sub(16).max(1), // just before the MAC
				_ => e,
			}
		},
		7 => HDR_LEN + 1 - r.below(3) as usize,
		8 => 1 + r.below(avail as u64) as usize,
		_ => avail,
	};
	pick.max(1).min(avail).min(65536) as u32
}

fn credit_len(r: &mut Rng, wd: &World, sock: u32) -> u64 {
	let rem = wd.sock(sock).out.cur_remaining as u64;
	match r.below(10) {
		0 => 1,
		1 => 16,
		2 => 18,
		3 if rem > 1 => rem - 1,
		4 if rem > 0 => rem,
		5 if rem > 0 => rem + 1,
		6 => 50 + r.below(100),
		7 => 1 + r.below(4096),
		_ => BIG_WINDOW as u64,
	}
}

pub fn next_action(wd: &World, r: &mut Rng) -> Option<Action> {
	let cfg = &wd.cfg;
	let n = wd.nodes.len();
	let ns = wd.n_socks();
	let mut open_node_socks = Vec::new();
	let mut connected_socks = Vec::new();
	let mut deliverable = Vec::new();
	let mut paused_deliverable = Vec::new();
	let mut notifiable = Vec::new();
	let mut short = Vec::new();
	let mut faultable = Vec::new();
	let mut adv_conns = Vec::new();
	{
		let net = wd.net.borrow();
		for s in 0..ns {
			let k = &net.socks[s as usize];
			if !k.open {
				continue;
			}
			let is_node = matches!(k.owner, Owner::Node(_));
			if is_node {
				open_node_socks.push(s);
				if k.connected {
					connected_socks.push(s);
				}
				if k.wbsa_owed {
					short.push(s);
				}
			} else {
				adv_conns.push((s / 2) as usize);
			}
			let peer = &net.socks[(s ^ 1) as usize];
			if peer.out.inflight_len() > 0 {
				if k.continue_read || !is_node {
					deliverable.push(s);
				} else {
					paused_deliverable.push(s);
				}
				if is_node && matches!(peer.owner, Owner::Node(_)) {
					faultable.push(s);
				}
			}
			if !peer.open {
				notifiable.push(s);
			}
		}
	}
	let mut connectable = Vec::new();
	for a in 0..n {
		for b in 0..n {
			if a != b && !wd.pair_live(a, b) && !connectable.contains(&(b, a)) {
				connectable.push((a, b));
			}
		}
	}
	let live_adv = adv_conns.len();
	let faults_left = wd.faults_applied < cfg.fault_budget;
	let w = &cfg.w;
	let weights = [
		if connectable.is_empty() { 0 } else { w.connect },
		if cfg.adversary && live_adv < 2 { w.connect_adv } else { 0 },
		if open_node_socks.is_empty() { 0 } else if connected_socks.is_empty() { 1 + w.queue / 8 } else { w.queue },
		w.process,
		if open_node_socks.is_empty() { 0 } else { w.tick },
		if open_node_socks.is_empty() { 0 } else { w.credit },
		if open_node_socks.is_empty() { 0 } else { w.wavail + if short.is_empty() { 0 } else { w.wavail * 2 } },
		if deliverable.is_empty() && paused_deliverable.is_empty() { 0 } else { w.deliver },
		if faultable.is_empty() || !faults_left { 0 } else { w.fault },
		if open_node_socks.is_empty() && adv_conns.is_empty() { 0 } else { w.cut },
		if notifiable.is_empty() { 0 } else { w.notify },
		if adv_conns.is_empty() { 0 } else { w.adv_send },
		if open_node_socks.is_empty() { 0 } else { w.app_disc },
	];
	if weights.iter().all(|x| *x == 0) {
		return None;
	}
	Some(match r.weighted(&weights) {
		0 => {
			let (a, b) = *r.pick(&connectable);
			if r.coin() {
				Action::Connect { a, b }
			} else {
				Action::Connect { a: b, b: a }
			}
		},
		1 => Action::ConnectAdv { node: r.below(n as u64) as usize, adv_init: r.chance(2, 3) },
		2 => {
			let sock = if !connected_socks.is_empty() && r.chance(19, 20) { *r.pick(&connected_socks) } else { *r.pick(&open_node_socks) };
			let mut spec = gen_spec(r, cfg.msg_mix, false);
			if !spec.sendable_by_node() {
				spec = MsgSpec::Custom { ty: 32768, len: 3, seed: 1 };
			}
			Action::Queue { sock, spec }
		},
		3 => Action::Process { node: r.below(n as u64) as usize },
		4 => Action::Tick { node: r.below(n as u64) as usize },
		5 => {
			let sock = if !short.is_empty() && r.chance(3, 4) { *r.pick(&short) } else { *r.pick(&open_node_socks) };
			Action::Credit { sock, n: credit_len(r, wd, sock) }
		},
		6 => {
			let sock = if !short.is_empty() && r.chance(3, 4) { *r.pick(&short) } else { *r.pick(&open_node_socks) };
			Action::WriteAvail { sock }
		},
		7 => {
			let ignore = !paused_deliverable.is_empty() && r.below(100) < cfg.ignore_pause_pct as u64;
			let sock = if deliverable.is_empty() || ignore {
				if paused_deliverable.is_empty() {
					*r.pick(&deliverable)
				} else if ignore || r.chance(1, 10) {
					*r.pick(&paused_deliverable)
				} else {
					// honour the pause: do something that lets the paused node drain instead
					let p = *r.pick(&paused_deliverable);
					return Some(if r.coin() { Action::Credit { sock: p, n: BIG_WINDOW as u64 } } else { Action::WriteAvail { sock: p } });
				}
			} else {
				*r.pick(&deliverable)
			};
			Action::Deliver { sock, n: deliver_len(r, wd, sock) }
		},
		8 => {
			let sock = *r.pick(&faultable);
			let (avail, frames_done, d, ends) = {
				let k = wd.sock(sock ^ 1);
				let st = &k.out;
				let frames_done = st.frames.iter().filter(|(_, e)| *e <= st.orig.len()).count();
				let ends: Vec<usize> = st.units.iter().filter(|e| **e >= st.delivered && **e <= st.delivered + st.inflight_len()).map(|e| *e - st.delivered).collect();
				(st.inflight_len(), frames_done, st.delivered, ends)
			};
			let _ = d;
			// offsets biased to unit boundaries (length header / MAC) and their neighbours
			let off = if !ends.is_empty() && r.chance(1, 2) {
				let e = *r.pick(&ends);
				match r.below(5) {
					0 => e.saturating_sub(1),
					1 => e,
					2 => e.saturating_sub(16),
					3 => e.saturating_sub(17),
					_ => e + 1,
				}
				.min(avail.saturating_sub(1))
			} else {
				r.below(avail as u64) as usize
			} as u32;
			let kinds: Vec<u32> = (0..5).filter(|k| cfg.fault_mask & (1 << k) != 0).collect();
			let kind = if kinds.is_empty() { 0 } else { *r.pick(&kinds) };
			match kind {
				0 => Action::Flip { sock, off, xor: 1 << r.below(8) },
				1 => Action::Insert { sock, off: if r.chance(1, 5) { avail as u32 } else { off }, byte: r.next_u64() as u8 },
				2 => Action::Delete { sock, off },
				3 => Action::Dup { sock, off },
				_ => {
					if frames_done == 0 {
						Action::Flip { sock, off, xor: 0x80 }
					} else {
						let at = if !ends.is_empty() && r.chance(3, 4) { *r.pick(&ends) } else { avail };
						Action::Replay { sock, frame: r.below(frames_done as u64) as u32, off: at.min(avail) as u32 }
					}
				},
			}
		},
		9 => {
			let mut all: Vec<u32> = open_node_socks.clone();
			for c in adv_conns.iter() {
				let s = (*c as u32) * 2 + if wd.conns[*c].owners[0] == Owner::Raw { 0 } else { 1 };
				all.push(s);
			}
			Action::Cut { sock: *r.pick(&all) }
		},
		10 => Action::NotifyClose { sock: *r.pick(&notifiable) },
		11 => {
			let ci = *r.pick(&adv_conns);
			match gen_adv(r, wd, ci) {
				Some(what) => Action::AdvSend { conn: ci, what },
				None => {
					// nothing sensible to send now: move bytes instead
					if !deliverable.is_empty() {
						let sock = *r.pick(&deliverable);
						Action::Deliver { sock, n: deliver_len(r, wd, sock) }
					} else {
						Action::Process { node: r.below(n as u64) as usize }
					}
				},
			}
		},
		_ => Action::AppDisconnect { sock: *r.pick(&open_node_socks) },
	})
}
