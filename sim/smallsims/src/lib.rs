//! Small single-purpose simulations (codec, transport, gossip, persister, block sync).
