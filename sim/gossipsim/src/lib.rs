//! gossipsim: deterministic simulation deciding property C17 — "the network graph holds only
//! authentic, current gossip, whatever the order" — against the real
//! `lightning::routing::gossip::{NetworkGraph, P2PGossipSync}` and `routing::utxo` code.
//! See /verif/DESIGN.md §5 C17.

pub mod model;
pub mod sched;
pub mod universe;
pub mod world;

use serde_json::Value;
use simcore::{Rng, RunOutcome, Sim, Tier};
use world::{Action, Config, World};

pub struct GossipSim;

pub const PROFILES: &[&str] = &["mixed", "chaos", "order"];

fn run_world(mut wd: World, rng: Option<Rng>, trace: Option<Vec<Action>>, seed: u64) -> RunOutcome {
	wd.out.seed = seed;
	match trace {
		Some(actions) => {
			for a in actions.iter() {
				if wd.dead {
					break;
				}
				wd.apply(a);
			}
		},
		None => {
			let rng = rng.expect("rng");
			let mut plan_rng = rng.fork("plan");
			let mut sched_rng = rng.fork("schedule");
			let mut sched = sched::Sched::new(&wd, &mut plan_rng);
			let mut idle = 0;
			// hard cap far above anything the generators produce
			let cap = wd.cfg.max_steps * 4 + 2000;
			while !wd.dead && !wd.finished && idle < 200 && wd.step < cap {
				match sched.next(&wd, &mut sched_rng) {
					Some(a) => {
						if wd.apply(&a) {
							idle = 0;
						} else {
							idle += 1;
						}
					},
					None => break,
				}
			}
		},
	}
	wd.finish()
}

fn bad(msg: String) -> RunOutcome {
	let mut o = RunOutcome::default();
	o.harness_errors.push(msg);
	o
}

impl Sim for GossipSim {
	fn name(&self) -> &'static str {
		"gossipsim"
	}

	fn run(&self, profile: &str, seed: u64, tier: Tier) -> RunOutcome {
		if !PROFILES.contains(&profile) {
			return bad(format!("gossipsim: unknown profile {:?}", profile));
		}
		let mut rng = Rng::new(seed);
		let cfg = sched::gen_config(profile, &mut rng, tier);
		let wd = World::new(cfg);
		run_world(wd, Some(rng), None, seed)
	}

	fn replay(&self, replay: &Value) -> RunOutcome {
		let cfg: Config = match serde_json::from_value(replay["config"].clone()) {
			Ok(c) => c,
			Err(e) => return bad(format!("bad replay config: {}", e)),
		};
		let trace: Vec<Action> = match serde_json::from_value(replay["trace"].clone()) {
			Ok(t) => t,
			Err(e) => return bad(format!("bad replay trace: {}", e)),
		};
		if cfg.n_nodes < 2 || cfg.n_nodes > 64 || cfg.chans.iter().any(|c| c.a >= cfg.n_nodes || c.b >= cfg.n_nodes || c.a == c.b) {
			return bad("bad replay config: inconsistent universe".into());
		}
		let wd = World::new(cfg);
		run_world(wd, None, Some(trace), 0)
	}

	fn components(&self) -> (Vec<String>, Vec<String>) {
		(
			vec![
				"routing::gossip::NetworkGraph (update_*, handle_network_update, channel_failed_permanent, node_failed_permanent, remove_stale_channels_and_tracking[_with_time], read_only, Writeable/ReadableArgs, PartialEq)".into(),
				"routing::gossip::P2PGossipSync (RoutingMessageHandler::handle_{channel_announcement,channel_update,node_announcement}, get_and_clear_pending_msg_events)".into(),
				"routing::utxo::{PendingChecks, UtxoFuture} (asynchronous lookup bookkeeping, held messages)".into(),
				"ln::msgs gossip message (de)serialisation (every handler delivery is encoded and decoded)".into(),
				"libsecp256k1 signature verification".into(),
				"util::verif simulated wall clock (hook H2), deterministic hashing (hook H1)".into(),
			],
			vec![
				"UtxoLookup (SimLookup: answers sync/async with the real output, a wrong script, or an error, as the action says)".into(),
				"the gossip network: node keys, funding keys, channels, every message (built and signed by the simulator)".into(),
				"wall clock".into(),
				"Logger (sink)".into(),
			],
		)
	}
}
