#!/usr/bin/env bash
# usage: verify.sh <id>  — confirms a seeded change in its scratch worktree
id=$1; cd /tmp/wt/$id || exit 9
export CARGO_NET_OFFLINE=true CARGO_TARGET_DIR=/tmp/wt/$id/target
crate=$(grep -m1 '^+++ b/' OUT/patch.diff | sed 's#+++ b/##; s#/.*##')
t=$(grep -E '^\+\s*(pub )?(async )?fn [a-z0-9_]+' OUT/demo.diff | head -1 | sed -E 's/.*fn ([a-z0-9_]+).*/\1/')
echo "crate=$crate demo=$t"
git checkout -q -- . ; git apply OUT/patch.diff && git apply OUT/demo.diff || { echo APPLY-FAIL; exit 3; }
cargo test --offline -j 4 -p $crate --lib -- $t 2>&1 | grep -E "^test result|panicked|error(\[|:)" | head -5 | sed 's/^/WITH: /'
git apply -R OUT/patch.diff
cargo test --offline -j 4 -p $crate --lib -- $t 2>&1 | grep -E "^test result|panicked|error(\[|:)" | head -5 | sed 's/^/WITHOUT: /'
git apply OUT/patch.diff; git apply -R OUT/demo.diff
cargo test --offline -j 4 -p $crate --lib -- --test-threads 4 2>&1 | grep -E "^test result|^test .* FAILED|warning: unused|error(\[|:)" | head -8 | sed 's/^/SUITE: /'
git apply OUT/demo.diff
echo VERIFY-DONE $id
