//! C14: onions over lines of real nodes. Profile `onionline` builds a line of 3-7 nodes, sends
//! payments over 1..n-1 hops, lets exactly one chosen hop refuse (under-paid fee or CLTV delta) or
//! the recipient fail the payment, and corrupts onion packets in flight (a Byzantine link).
//!
//! Oracles
//! * C14-1 every hop forwards exactly what the sender's route prescribes for it: amount and
//!   outgoing expiry (the amount part is C02-3's "forwarded amount differs from the onion's
//!   instruction", the expiry part is checked here), and the last hop shows the payment claimable;
//! * C14-2 an update_add_htlc whose onion packet, ephemeral key or payment hash was altered in
//!   flight is refused by the node that receives it: it is never forwarded on and never shown as
//!   claimable, and the sender's failure names the altered link;
//! * C14-3 a failure produced at hop k is attributed by the sender to hop k: PaymentPathFailed
//!   names the channel the failing node objected to, permanent only for the recipient's refusal.

use crate::world::*;
use std::collections::BTreeMap;

#[derive(Clone, Debug, Default)]
pub struct OnionState {
	/// payment hash -> (path index, hop index of the receiving node, channel idx) of the link whose update_add_htlc was corrupted
	pub corrupted: BTreeMap<[u8; 32], (usize, usize, usize)>,
	pub corruptions: u32,
	/// payments whose payment hash was altered on a link: the two peers then disagree about the
	/// commitment transaction and the receiving node fails the channel; with no chain in this
	/// profile the payment stays unresolved
	pub hash_altered: std::collections::BTreeSet<[u8; 32]>,
}

impl World {
	/// Alters the update_add_htlc at the head of the queue from->to and delivers it.
	pub fn do_corrupt(&mut self, from: usize, to: usize, kind: u8, bit: u32) -> bool {
		if !self.is_conn(to, from) || self.nodes[to].live.is_none() {
			return false;
		}
		let alt_key = self.nodes[(to + 1) % self.nodes.len()].node_id;
		// everything is checked before the message is touched: an action that does not happen must
		// leave no trace (it is not recorded, so a replay would not repeat it)
		let (hash, chan_id, same_key) = match self.queues.get(&(from, to)).and_then(|q| q.front()) {
			Some(WireMsg::Add(a)) => (a.payment_hash.0, a.channel_id, a.onion_routing_packet.public_key == Ok(alt_key)),
			_ => return false,
		};
		if kind % 4 == 2 && same_key {
			return false;
		}
		let ci = match self.chans.iter().position(|c| c.channel_id == chan_id) {
			Some(c) => c,
			None => return false,
		};
		// which hop of which path is this?
		let mut pos = None;
		for p in self.pays.iter() {
			if p.hash.0 != hash {
				continue;
			}
			for (pi, path) in p.paths.iter().enumerate() {
				for (k, c) in path.chans.iter().enumerate() {
					if *c == ci && path.nodes[k] == to {
						pos = Some((pi, k, ci));
					}
				}
			}
		}
		let pos = match pos {
			Some(p) => p,
			None => return false,
		};
		if self.onion.corrupted.contains_key(&hash) {
			return false;
		}
		if let Some(WireMsg::Add(add)) = self.queues.get_mut(&(from, to)).and_then(|q| q.front_mut()) {
			match kind % 4 {
				0 => {
					let i = (bit as usize) % (add.onion_routing_packet.hop_data.len() * 8);
					add.onion_routing_packet.hop_data[i / 8] ^= 1 << (i % 8);
				},
				1 => {
					let i = (bit as usize) % 256;
					add.onion_routing_packet.hmac[i / 8] ^= 1 << (i % 8);
				},
				2 => {
					add.onion_routing_packet.public_key = Ok(alt_key);
				},
				_ => {
					let i = (bit as usize) % 256;
					add.payment_hash.0[i / 8] ^= 1 << (i % 8);
				},
			}
		}
		self.onion.corrupted.insert(hash, pos);
		self.onion.corruptions += 1;
		if kind % 4 == 3 {
			self.onion.hash_altered.insert(hash);
			self.chans[ci].tainted = true;
			self.chans[ci].close_requested = true;
		}
		self.out.bump(&format!("fault:onion_corrupted_kind_{}", kind % 4));
		self.note(&format!("update_add_htlc {}->{} corrupted in flight (kind {})", from, to, kind % 4));
		self.corrupt_in_progress = true;
		let r = self.do_deliver(from, to);
		self.corrupt_in_progress = false;
		r
	}

	/// C14-1 (expiry part) and C14-2 at the wire: called for every update_add_htlc a node emits.
	pub fn onion_oracle_on_add(&mut self, from: usize, to: usize, hash: [u8; 32], amount: u64, cltv: u32, first: bool) {
		if self.cfg.profile != "onionline" || !first {
			return;
		}
		let pay = match self.pays.iter().find(|p| p.hash.0 == hash) {
			Some(p) => p.clone(),
			None => return,
		};
		// locate the hop: the sender of this add is pay.from (k = 0) or path.nodes[k-1]
		for path in pay.paths.iter() {
			for k in 0..path.chans.len() {
				let sender = if k == 0 { pay.from } else { path.nodes[k - 1] };
				if sender != from || path.nodes[k] != to || path.hop_amts[k] != amount {
					continue;
				}
				self.out.bump("oracle:C14-1 each hop forwards the prescribed expiry");
				// `hop_cltv_deltas[j]` is the delta of the node receiving on hop j (the final delta for
				// the last hop): the HTLC on hop k expires at send height + 1 + the deltas of hops k..
				let want_k = pay.send_height + 1 + path.hop_cltv_deltas[k..].iter().sum::<u32>();
				if cltv != want_k {
					self.violate(
						"C14",
						"C14-1 hop forwarded a different expiry than the onion prescribes",
						format!(
							"pay {} hop {}: node {} offers cltv_expiry {}, the route prescribes {}",
							pay.idx, k, from, cltv, want_k
						),
					);
				}
				if k >= 4 {
					self.out.bump("probe:onion_peeled_by_fifth_hop_or_later");
				}
				// C14-2: nothing travels beyond a corrupted link
				if let Some((_, ck, _)) = self.onion.corrupted.get(&hash) {
					if k > *ck {
						self.violate(
							"C14",
							"C14-2 HTLC with an altered onion was forwarded",
							format!(
								"pay {}: the update_add_htlc of hop {} was altered in flight, yet node {} forwards it on hop {}",
								pay.idx, ck, from, k
							),
						);
					}
				}
				return;
			}
		}
	}

	pub fn onion_oracle_on_claimable(&mut self, n: usize, pay: usize) {
		if self.cfg.profile != "onionline" {
			return;
		}
		let h = self.pays[pay].hash.0;
		if self.onion.corrupted.contains_key(&h) {
			self.violate(
				"C14",
				"C14-2 payment with an altered onion shown as claimable",
				format!("node {} was shown pay {} although one of its update_add_htlc was altered in flight", n, pay),
			);
		}
	}

	/// C14-3: failure attribution, judged when the sender reports PaymentPathFailed.
	/// C14-4: every hop of a path that was fulfilled off chain reports its hold time (all nodes of
	/// the simulation produce attribution data).
	pub fn onion_oracle_on_path_successful(&mut self, n: usize, pay: usize, hops: usize, hold_times: usize) {
		if self.cfg.profile != "onionline" {
			return;
		}
		// a hop that learned the preimage from the chain has no attribution data to pass on
		let all_open = self.pays[pay].paths.iter().all(|x| {
			x.chans.iter().all(|c| {
				let ch = &self.chans[*c];
				ch.force_closed_by.is_none()
					&& !ch.tainted
					&& !ch.close_requested
					&& self.chain.utxos.contains_key(&ch.funding)
					&& !self.chain.mempool.iter().any(|t| t.input.iter().any(|i| i.previous_output == ch.funding))
			})
		});
		if !all_open {
			return;
		}
		self.out.bump("oracle:C14-4 fulfil attribution reports every hop's hold time");
		if hops >= 20 {
			self.out.bump("probe:payment_over_20_hops_fulfilled");
		}
		if hold_times != hops {
			self.violate(
				"C14",
				"C14-4 hold times do not cover the path",
				format!("node {} pay {}: path of {} hops fulfilled off chain, {} hold times reported", n, pay, hops, hold_times),
			);
		}
	}

	pub fn onion_oracle_on_path_failed(
		&mut self, n: usize, pay: usize, scid: Option<u64>, blamed_chan: Option<u64>,
		blamed_node: Option<bitcoin::secp256k1::PublicKey>, permanent: bool,
	) {
		if self.cfg.profile != "onionline" {
			return;
		}
		let p = self.pays[pay].clone();
		if p.paths.len() != 1 {
			return;
		}
		let path = &p.paths[0];
		self.out.bump("oracle:C14-3 failure attributed to the failing hop");
		let scid_of = |c: usize| self.chans[c].scid;
		if self.onion.hash_altered.contains(&p.hash.0) || path.chans.iter().any(|c| self.chans[*c].tainted) {
			// collateral damage of a channel that a Byzantine alteration has closed
			return;
		}
		// (a) a corrupted link: the node after the link refused the packet
		if let Some((_, k, ci)) = self.onion.corrupted.get(&p.hash.0).cloned() {
			self.out.bump("probe:failure_after_corruption_attributed");
			// the failure must point at the altered link (or, when the node that refused is the
			// recipient itself, at that node)
			let last = k + 1 == path.chans.len();
			let want = scid_of(ci);
			let names_link = scid == Some(want) || blamed_chan == Some(want);
			let names_recipient = last && (blamed_node == Some(self.nodes[p.to].node_id) || (scid.is_none() && blamed_chan.is_none()));
			if !names_link && !names_recipient {
				self.violate(
					"C14",
					"C14-3 failure attributed to the wrong hop",
					format!(
						"pay {} ({} hops): the packet was altered on hop {} (channel {}, scid {}); node {} reports scid {:?}, blames channel {:?} / node {:?}",
						p.idx,
						path.chans.len(),
						k,
						ci,
						want,
						n,
						scid,
						blamed_chan,
						blamed_node
					),
				);
			}
			return;
		}
		// (b) exactly one forwarding hop was under-paid
		if let Some(k) = p.underpaid_hop {
			// an earlier hop may have refused for a reason of its own (capacity, in-flight limits)
			if !self.oracle.adds_delivered.contains_key(&(p.hash.0, path.nodes[k])) {
				return;
			}
			self.out.bump("probe:failure_at_chosen_forwarding_hop");
			// node path.nodes[k] refuses to forward over chans[k + 1]
			let want = scid_of(path.chans[k + 1]);
			if (scid != Some(want) && blamed_chan != Some(want)) || permanent {
				self.violate(
					"C14",
					"C14-3 failure attributed to the wrong hop",
					format!(
						"pay {} ({} hops): forwarding hop {} (node {}) was under-paid and must refuse to forward over channel {} (scid {}); node {} reports scid {:?}, blames channel {:?} / node {:?}, permanent = {}",
						p.idx,
						path.chans.len(),
						k,
						path.nodes[k],
						path.chans[k + 1],
						want,
						n,
						scid,
						blamed_chan,
						blamed_node,
						permanent
					),
				);
			}
			return;
		}
		// (c) the recipient refused (fail_htlc_backwards): permanent, from the final node
		if p.fail_called.is_some() && p.claim_called.is_none() {
			self.out.bump("probe:failure_by_recipient_attributed");
			if !permanent {
				self.violate(
					"C14",
					"C14-3 failure attributed to the wrong hop",
					format!(
						"pay {} ({} hops): the recipient failed the payment back, node {} reports a retryable failure on scid {:?}",
						p.idx,
						path.chans.len(),
						n,
						scid
					),
				);
			}
		}
	}
}
