//! Recording message handlers (the application side of each `PeerManager`) and the deterministic
//! message builder. One `Stub` type plays all five handler roles of a node; the five instances
//! share one `Shared` state. The handlers never decide anything: what they hand to the
//! `PeerManager` was queued by explicit scheduler actions, what they receive is logged for the
//! oracles (type id + exact bytes).

use bitcoin::constants::ChainHash;
use bitcoin::secp256k1::ecdsa::Signature;
use bitcoin::secp256k1::PublicKey;
use bitcoin::{Network, ScriptBuf};
use lightning::ln::msgs::{self, *};
use lightning::ln::peer_handler::CustomMessageHandler;
use lightning::ln::types::ChannelId;
use lightning::ln::wire::{CustomMessageReader, Type};
use lightning::onion_message::packet::Packet;
use lightning::routing::gossip::NodeId;
use lightning::types::features::{InitFeatures, NodeFeatures};
use lightning::types::payment::{PaymentHash, PaymentPreimage};
use lightning::util::ser::{LengthLimitedRead, Writeable, Writer};
use serde::{Deserialize, Serialize};
use simcore::Rng;
use std::cell::RefCell;
use std::collections::{BTreeMap, VecDeque};
use std::rc::Rc;

pub type PeerKey = [u8; 33];

pub const ROLE_ROUTE: u8 = 0;
pub const ROLE_CHAN: u8 = 1;
pub const ROLE_ONION: u8 = 2;
pub const ROLE_CUSTOM: u8 = 3;
pub const ROLE_SENDONLY: u8 = 4;
pub const ALL_ROLES: u8 = 0b11111;

/// Is this custom-range type known to every node's `CustomMessageReader`?
pub fn custom_known(ty: u16) -> bool {
	ty >= 32768 && ty % 16 < 12
}

/// A custom message: arbitrary type, arbitrary bytes.
#[derive(Clone, Debug, PartialEq, Eq)]
pub struct RawMsg {
	pub ty: u16,
	pub data: Vec<u8>,
}
impl Type for RawMsg {
	fn type_id(&self) -> u16 {
		self.ty
	}
}
impl Writeable for RawMsg {
	fn write<W: Writer>(&self, w: &mut W) -> Result<(), lightning::io::Error> {
		w.write_all(&self.data)
	}
}

/// One wire message as the oracles see it.
#[derive(Clone, Debug, PartialEq, Eq)]
pub struct WireMsg {
	pub ty: u16,
	pub bytes: Vec<u8>,
	/// does the receiving node hand this message to one of its handlers?
	pub visible: bool,
}

pub enum Out {
	Chan(MessageSendEvent),
	Route(MessageSendEvent),
	Custom(PublicKey, RawMsg),
	Onion(OnionMessage),
}

pub struct Queued {
	pub peer: PeerKey,
	pub out: Out,
	pub wire: Vec<WireMsg>,
}

#[derive(Clone, Debug)]
pub enum HEvent {
	Connected { node: usize, peer: PeerKey, role: u8, inbound: bool, features: Vec<u8> },
	Disconnected { node: usize, peer: PeerKey, role: u8 },
	Recv { node: usize, peer: PeerKey, ty: u16, bytes: Vec<u8>, role: u8, connected: bool },
	Handed { node: usize, peer: PeerKey, wire: Vec<WireMsg>, connected: bool },
}

pub struct Shared {
	pub node: usize,
	/// bit mask of handler roles that currently consider the peer connected
	pub connected: BTreeMap<PeerKey, u8>,
	pub chan_out: Vec<Queued>,
	pub route_out: Vec<Queued>,
	pub custom_out: Vec<Queued>,
	pub onion_out: BTreeMap<PeerKey, VecDeque<Queued>>,
	pub events: Vec<HEvent>,
	pub features: Vec<u8>,
	pub chain: Option<ChainHash>,
}

impl Shared {
	pub fn new(node: usize, features: Vec<u8>, chain: bool) -> Shared {
		Shared {
			node,
			connected: BTreeMap::new(),
			chan_out: Vec::new(),
			route_out: Vec::new(),
			custom_out: Vec::new(),
			onion_out: BTreeMap::new(),
			events: Vec::new(),
			features,
			chain: if chain { Some(ChainHash::using_genesis_block(Network::Testnet)) } else { None },
		}
	}
	pub fn is_connected(&self, peer: &PeerKey) -> bool {
		self.connected.get(peer).copied().unwrap_or(0) == ALL_ROLES
	}
	pub fn pending_out(&self) -> usize {
		self.chan_out.len()
			+ self.route_out.len()
			+ self.custom_out.len()
			+ self.onion_out.values().map(|q| q.len()).sum::<usize>()
	}
	pub fn queue(&mut self, q: Queued) {
		match q.out {
			Out::Chan(_) => self.chan_out.push(q),
			Out::Route(_) => self.route_out.push(q),
			Out::Custom(..) => self.custom_out.push(q),
			Out::Onion(_) => self.onion_out.entry(q.peer).or_default().push_back(q),
		}
	}
}

pub struct Stub {
	pub role: u8,
	pub sh: Rc<RefCell<Shared>>,
}

impl Stub {
	fn rec(&self, peer: PublicKey, ty: u16, bytes: Vec<u8>) {
		let mut sh = self.sh.borrow_mut();
		let pk = peer.serialize();
		let connected = sh.is_connected(&pk);
		let node = sh.node;
		sh.events.push(HEvent::Recv { node, peer: pk, ty, bytes, role: self.role, connected });
	}
	fn rec_msg<M: Type + Writeable>(&self, peer: PublicKey, m: &M) {
		self.rec(peer, m.type_id(), m.encode());
	}
	fn do_connected(&self, peer: PublicKey, init: &Init, inbound: bool) -> Result<(), ()> {
		let mut sh = self.sh.borrow_mut();
		let pk = peer.serialize();
		*sh.connected.entry(pk).or_insert(0) |= 1 << self.role;
		let node = sh.node;
		sh.events.push(HEvent::Connected {
			node,
			peer: pk,
			role: self.role,
			inbound,
			features: init.features.le_flags().to_vec(),
		});
		Ok(())
	}
	fn do_disconnected(&self, peer: PublicKey) {
		let mut sh = self.sh.borrow_mut();
		let pk = peer.serialize();
		let mask = sh.connected.get(&pk).copied().unwrap_or(0) & !(1 << self.role);
		if mask == 0 {
			sh.connected.remove(&pk);
		} else {
			sh.connected.insert(pk, mask);
		}
		if self.role == ROLE_ONION {
			// messages queued for a peer that went away are never asked for again
			sh.onion_out.remove(&pk);
		}
		let node = sh.node;
		sh.events.push(HEvent::Disconnected { node, peer: pk, role: self.role });
	}
	fn take_events(&self, which: u8) -> Vec<MessageSendEvent> {
		let mut sh = self.sh.borrow_mut();
		let qs = match which {
			ROLE_CHAN => std::mem::take(&mut sh.chan_out),
			ROLE_ROUTE => std::mem::take(&mut sh.route_out),
			_ => Vec::new(),
		};
		let mut res = Vec::with_capacity(qs.len());
		for q in qs {
			let connected = sh.is_connected(&q.peer);
			let node = sh.node;
			sh.events.push(HEvent::Handed { node, peer: q.peer, wire: q.wire, connected });
			match q.out {
				Out::Chan(e) | Out::Route(e) => res.push(e),
				_ => {},
			}
		}
		res
	}
	fn init_features(&self) -> InitFeatures {
		if self.role == ROLE_CHAN {
			InitFeatures::from_le_bytes(self.sh.borrow().features.clone())
		} else {
			InitFeatures::empty()
		}
	}
}

impl BaseMessageHandler for Stub {
	fn get_and_clear_pending_msg_events(&self) -> Vec<MessageSendEvent> {
		self.take_events(self.role)
	}
	fn peer_disconnected(&self, their_node_id: PublicKey) {
		self.do_disconnected(their_node_id)
	}
	fn provided_node_features(&self) -> NodeFeatures {
		NodeFeatures::empty()
	}
	fn provided_init_features(&self, _their_node_id: PublicKey) -> InitFeatures {
		self.init_features()
	}
	fn peer_connected(&self, their_node_id: PublicKey, msg: &Init, inbound: bool) -> Result<(), ()> {
		self.do_connected(their_node_id, msg, inbound)
	}
}

impl SendOnlyMessageHandler for Stub {}

impl ChannelMessageHandler for Stub {
	fn handle_open_channel(&self, p: PublicKey, m: &OpenChannel) {
		self.rec_msg(p, m)
	}
	fn handle_open_channel_v2(&self, p: PublicKey, m: &OpenChannelV2) {
		self.rec_msg(p, m)
	}
	fn handle_accept_channel(&self, p: PublicKey, m: &AcceptChannel) {
		self.rec_msg(p, m)
	}
	fn handle_accept_channel_v2(&self, p: PublicKey, m: &AcceptChannelV2) {
		self.rec_msg(p, m)
	}
	fn handle_funding_created(&self, p: PublicKey, m: &FundingCreated) {
		self.rec_msg(p, m)
	}
	fn handle_funding_signed(&self, p: PublicKey, m: &FundingSigned) {
		self.rec_msg(p, m)
	}
	fn handle_channel_ready(&self, p: PublicKey, m: &ChannelReady) {
		self.rec_msg(p, m)
	}
	fn handle_peer_storage(&self, p: PublicKey, m: PeerStorage) {
		self.rec_msg(p, &m)
	}
	fn handle_peer_storage_retrieval(&self, p: PublicKey, m: PeerStorageRetrieval) {
		self.rec_msg(p, &m)
	}
	fn handle_shutdown(&self, p: PublicKey, m: &Shutdown) {
		self.rec_msg(p, m)
	}
	fn handle_closing_signed(&self, p: PublicKey, m: &ClosingSigned) {
		self.rec_msg(p, m)
	}
	fn handle_stfu(&self, p: PublicKey, m: &Stfu) {
		self.rec_msg(p, m)
	}
	fn handle_splice_init(&self, p: PublicKey, m: &SpliceInit) {
		self.rec_msg(p, m)
	}
	fn handle_splice_ack(&self, p: PublicKey, m: &SpliceAck) {
		self.rec_msg(p, m)
	}
	fn handle_splice_locked(&self, p: PublicKey, m: &SpliceLocked) {
		self.rec_msg(p, m)
	}
	fn handle_tx_add_input(&self, p: PublicKey, m: &TxAddInput) {
		self.rec_msg(p, m)
	}
	fn handle_tx_add_output(&self, p: PublicKey, m: &TxAddOutput) {
		self.rec_msg(p, m)
	}
	fn handle_tx_remove_input(&self, p: PublicKey, m: &TxRemoveInput) {
		self.rec_msg(p, m)
	}
	fn handle_tx_remove_output(&self, p: PublicKey, m: &TxRemoveOutput) {
		self.rec_msg(p, m)
	}
	fn handle_tx_complete(&self, p: PublicKey, m: &TxComplete) {
		self.rec_msg(p, m)
	}
	fn handle_tx_signatures(&self, p: PublicKey, m: &TxSignatures) {
		self.rec_msg(p, m)
	}
	fn handle_tx_init_rbf(&self, p: PublicKey, m: &TxInitRbf) {
		self.rec_msg(p, m)
	}
	fn handle_tx_ack_rbf(&self, p: PublicKey, m: &TxAckRbf) {
		self.rec_msg(p, m)
	}
	fn handle_tx_abort(&self, p: PublicKey, m: &TxAbort) {
		self.rec_msg(p, m)
	}
	fn handle_update_add_htlc(&self, p: PublicKey, m: &UpdateAddHTLC) {
		self.rec_msg(p, m)
	}
	fn handle_update_fulfill_htlc(&self, p: PublicKey, m: UpdateFulfillHTLC) {
		self.rec_msg(p, &m)
	}
	fn handle_update_fail_htlc(&self, p: PublicKey, m: &UpdateFailHTLC) {
		self.rec_msg(p, m)
	}
	fn handle_update_fail_malformed_htlc(&self, p: PublicKey, m: &UpdateFailMalformedHTLC) {
		self.rec_msg(p, m)
	}
	fn handle_commitment_signed(&self, p: PublicKey, m: &CommitmentSigned) {
		self.rec_msg(p, m)
	}
	fn handle_commitment_signed_batch(&self, p: PublicKey, _c: ChannelId, batch: Vec<CommitmentSigned>) {
		for m in batch.iter() {
			self.rec_msg(p, m)
		}
	}
	fn handle_revoke_and_ack(&self, p: PublicKey, m: &RevokeAndACK) {
		self.rec_msg(p, m)
	}
	fn handle_update_fee(&self, p: PublicKey, m: &UpdateFee) {
		self.rec_msg(p, m)
	}
	fn handle_announcement_signatures(&self, p: PublicKey, m: &AnnouncementSignatures) {
		self.rec_msg(p, m)
	}
	fn handle_channel_reestablish(&self, p: PublicKey, m: &ChannelReestablish) {
		self.rec_msg(p, m)
	}
	fn handle_channel_update(&self, _p: PublicKey, _m: &ChannelUpdate) {}
	fn handle_error(&self, p: PublicKey, m: &ErrorMessage) {
		self.rec_msg(p, m)
	}
	fn get_chain_hashes(&self) -> Option<Vec<ChainHash>> {
		self.sh.borrow().chain.map(|c| vec![c])
	}
	fn message_received(&self) {}
}

impl RoutingMessageHandler for Stub {
	fn handle_node_announcement(
		&self, p: Option<PublicKey>, m: &NodeAnnouncement,
	) -> Result<bool, LightningError> {
		if let Some(p) = p {
			self.rec_msg(p, m)
		}
		Ok(false)
	}
	fn handle_channel_announcement(
		&self, p: Option<PublicKey>, m: &ChannelAnnouncement,
	) -> Result<bool, LightningError> {
		if let Some(p) = p {
			self.rec_msg(p, m)
		}
		Ok(false)
	}
	fn handle_channel_update(
		&self, p: Option<PublicKey>, m: &ChannelUpdate,
	) -> Result<Option<(NodeId, NodeId)>, LightningError> {
		if let Some(p) = p {
			self.rec_msg(p, m)
		}
		Ok(None)
	}
	fn get_next_channel_announcement(
		&self, _starting_point: u64,
	) -> Option<(ChannelAnnouncement, Option<ChannelUpdate>, Option<ChannelUpdate>)> {
		None
	}
	fn get_next_node_announcement(&self, _starting_point: Option<&NodeId>) -> Option<NodeAnnouncement> {
		None
	}
	fn handle_reply_channel_range(&self, p: PublicKey, m: ReplyChannelRange) -> Result<(), LightningError> {
		self.rec_msg(p, &m);
		Ok(())
	}
	fn handle_reply_short_channel_ids_end(
		&self, p: PublicKey, m: ReplyShortChannelIdsEnd,
	) -> Result<(), LightningError> {
		self.rec_msg(p, &m);
		Ok(())
	}
	fn handle_query_channel_range(&self, p: PublicKey, m: QueryChannelRange) -> Result<(), LightningError> {
		self.rec_msg(p, &m);
		Ok(())
	}
	fn handle_query_short_channel_ids(
		&self, p: PublicKey, m: QueryShortChannelIds,
	) -> Result<(), LightningError> {
		self.rec_msg(p, &m);
		Ok(())
	}
	fn processing_queue_high(&self) -> bool {
		false
	}
}

impl OnionMessageHandler for Stub {
	fn handle_onion_message(&self, p: PublicKey, m: &OnionMessage) {
		self.rec_msg(p, m)
	}
	fn next_onion_message_for_peer(&self, peer_node_id: PublicKey) -> Option<OnionMessage> {
		let mut sh = self.sh.borrow_mut();
		let pk = peer_node_id.serialize();
		let q = sh.onion_out.get_mut(&pk).and_then(|q| q.pop_front())?;
		let connected = sh.is_connected(&pk);
		let node = sh.node;
		sh.events.push(HEvent::Handed { node, peer: pk, wire: q.wire, connected });
		match q.out {
			Out::Onion(m) => Some(m),
			_ => None,
		}
	}
	fn timer_tick_occurred(&self) {}
}

impl CustomMessageReader for Stub {
	type CustomMessage = RawMsg;
	fn read<R: LengthLimitedRead>(
		&self, message_type: u16, buffer: &mut R,
	) -> Result<Option<RawMsg>, DecodeError> {
		if !custom_known(message_type) {
			return Ok(None);
		}
		let mut data = vec![0u8; buffer.remaining_bytes() as usize];
		buffer.read_exact(&mut data).map_err(|_| DecodeError::ShortRead)?;
		Ok(Some(RawMsg { ty: message_type, data }))
	}
}

impl CustomMessageHandler for Stub {
	fn handle_custom_message(&self, msg: RawMsg, sender: PublicKey) -> Result<(), LightningError> {
		self.rec(sender, msg.ty, msg.data);
		Ok(())
	}
	fn get_and_clear_pending_msg(&self) -> Vec<(PublicKey, RawMsg)> {
		let mut sh = self.sh.borrow_mut();
		let qs = std::mem::take(&mut sh.custom_out);
		let mut res = Vec::with_capacity(qs.len());
		for q in qs {
			let connected = sh.is_connected(&q.peer);
			let node = sh.node;
			sh.events.push(HEvent::Handed { node, peer: q.peer, wire: q.wire, connected });
			if let Out::Custom(pk, m) = q.out {
				res.push((pk, m));
			}
		}
		res
	}
	fn peer_disconnected(&self, their_node_id: PublicKey) {
		self.do_disconnected(their_node_id)
	}
	fn peer_connected(&self, their_node_id: PublicKey, msg: &Init, inbound: bool) -> Result<(), ()> {
		self.do_connected(their_node_id, msg, inbound)
	}
	fn provided_node_features(&self) -> NodeFeatures {
		NodeFeatures::empty()
	}
	fn provided_init_features(&self, _their_node_id: PublicKey) -> InitFeatures {
		self.init_features()
	}
}

// -------------------------------------------------------------------------------------------------
// Message specifications (what the scheduler asks a node's application to send)

#[derive(Clone, Debug, PartialEq, Eq, Serialize, Deserialize)]
pub enum MsgSpec {
	/// one custom message of type `ty` with `len` pseudo-random payload bytes
	Custom { ty: u16, len: u32, seed: u64 },
	/// `count` custom messages; message i has `len + (i % 5)` payload bytes (capped at 65533)
	Burst { ty: u16, len: u32, count: u32, seed: u64 },
	ChannelReady { seed: u64 },
	Stfu { seed: u64 },
	Shutdown { len: u8, seed: u64 },
	/// kind 0: `n` update_add_htlc; 1: `n` update_fulfill_htlc; 2: update_fee. Always followed by one
	/// commitment_signed carrying `sigs` HTLC signatures.
	Htlcs { kind: u8, n: u8, sigs: u16, seed: u64 },
	Revoke { seed: u64 },
	Reestablish { seed: u64 },
	PeerStorage { len: u32, seed: u64 },
	TxAbort { len: u32, seed: u64 },
	/// error with a non-zero channel id (zero = true: all-zero channel id, receiver hangs up)
	Error { len: u16, zero: bool, seed: u64 },
	Warning { len: u16, seed: u64 },
	QueryRange { seed: u64 },
	QueryScids { n: u16, seed: u64 },
	ReplyRange { n: u16, seed: u64 },
	TsFilter { seed: u64 },
	Onion { len: u32, seed: u64 },
	Ping { ponglen: u16, byteslen: u16 },
}

impl MsgSpec {
	pub fn kind(&self) -> &'static str {
		match self {
			MsgSpec::Custom { .. } => "Custom",
			MsgSpec::Burst { .. } => "Burst",
			MsgSpec::ChannelReady { .. } => "ChannelReady",
			MsgSpec::Stfu { .. } => "Stfu",
			MsgSpec::Shutdown { .. } => "Shutdown",
			MsgSpec::Htlcs { .. } => "Htlcs",
			MsgSpec::Revoke { .. } => "Revoke",
			MsgSpec::Reestablish { .. } => "Reestablish",
			MsgSpec::PeerStorage { .. } => "PeerStorage",
			MsgSpec::TxAbort { .. } => "TxAbort",
			MsgSpec::Error { .. } => "Error",
			MsgSpec::Warning { .. } => "Warning",
			MsgSpec::QueryRange { .. } => "QueryRange",
			MsgSpec::QueryScids { .. } => "QueryScids",
			MsgSpec::ReplyRange { .. } => "ReplyRange",
			MsgSpec::TsFilter { .. } => "TsFilter",
			MsgSpec::Onion { .. } => "Onion",
			MsgSpec::Ping { .. } => "Ping",
		}
	}
	/// can a node's application send this through the handler interfaces?
	pub fn sendable_by_node(&self) -> bool {
		!matches!(self, MsgSpec::Ping { .. } | MsgSpec::Error { zero: true, .. })
	}
}

fn bytes(r: &mut Rng, n: usize) -> Vec<u8> {
	let mut v = vec![0u8; n];
	r.fill(&mut v);
	v
}
fn chan_id(r: &mut Rng) -> ChannelId {
	let mut b = r.bytes32();
	b[0] |= 1; // never all-zero
	ChannelId(b)
}
fn sig(r: &mut Rng) -> Signature {
	let mut b = [0u8; 64];
	r.fill(&mut b);
	b[0] &= 0x7f;
	b[32] &= 0x7f;
	b[31] |= 1;
	b[63] |= 1;
	Signature::from_compact(&b).expect("r,s below the group order")
}
fn ascii(r: &mut Rng, n: usize) -> String {
	(0..n).map(|_| (b'a' + r.below(26) as u8) as char).collect()
}
fn wire<M: Type + Writeable>(m: &M, visible: bool) -> WireMsg {
	WireMsg { ty: m.type_id(), bytes: m.encode(), visible }
}

/// Builds the handler-level objects and the expected wire messages for `spec`, addressed to `to`.
/// `pks` is a pool of valid public keys to use in message fields.
pub fn build(spec: &MsgSpec, to: PublicKey, pks: &[PublicKey]) -> Vec<Queued> {
	let peer = to.serialize();
	let chain = ChainHash::using_genesis_block(Network::Testnet);
	let q = |out: Out, wire: Vec<WireMsg>| Queued { peer, out, wire };
	match spec {
		MsgSpec::Custom { ty, len, seed } => {
			let mut r = Rng::new(*seed);
			let data = bytes(&mut r, (*len as usize).min(65533));
			let m = RawMsg { ty: *ty, data };
			let vis = custom_known(*ty);
			vec![q(Out::Custom(to, m.clone()), vec![WireMsg { ty: m.ty, bytes: m.data, visible: vis }])]
		},
		MsgSpec::Burst { ty, len, count, seed } => {
			let mut r = Rng::new(*seed);
			let vis = custom_known(*ty);
			(0..*count)
				.map(|i| {
					let l = ((*len + (i % 5)) as usize).min(65533);
					let m = RawMsg { ty: *ty, data: bytes(&mut r, l) };
					q(Out::Custom(to, m.clone()), vec![WireMsg { ty: m.ty, bytes: m.data, visible: vis }])
				})
				.collect()
		},
		MsgSpec::ChannelReady { seed } => {
			let mut r = Rng::new(*seed);
			let m = ChannelReady {
				channel_id: chan_id(&mut r),
				next_per_commitment_point: *r.pick(pks),
				short_channel_id_alias: if r.coin() { Some(r.next_u64()) } else { None },
			};
			let w = vec![wire(&m, true)];
			vec![q(Out::Chan(MessageSendEvent::SendChannelReady { node_id: to, msg: m }), w)]
		},
		MsgSpec::Stfu { seed } => {
			let mut r = Rng::new(*seed);
			let m = Stfu { channel_id: chan_id(&mut r), initiator: r.coin() };
			let w = vec![wire(&m, true)];
			vec![q(Out::Chan(MessageSendEvent::SendStfu { node_id: to, msg: m }), w)]
		},
		MsgSpec::Shutdown { len, seed } => {
			let mut r = Rng::new(*seed);
			let m = Shutdown {
				channel_id: chan_id(&mut r),
				scriptpubkey: ScriptBuf::from(bytes(&mut r, *len as usize)),
			};
			let w = vec![wire(&m, true)];
			vec![q(Out::Chan(MessageSendEvent::SendShutdown { node_id: to, msg: m }), w)]
		},
		MsgSpec::Htlcs { kind, n, sigs, seed } => {
			let mut r = Rng::new(*seed);
			let channel_id = chan_id(&mut r);
			let mut w = Vec::new();
			let mut adds = Vec::new();
			let mut fulfills = Vec::new();
			let mut fee = None;
			match kind % 3 {
				0 => {
					for i in 0..*n {
						let mut hop_data = [0u8; 1300];
						r.fill(&mut hop_data);
						let m = UpdateAddHTLC {
							channel_id,
							htlc_id: i as u64 + r.below(1000),
							amount_msat: r.below(1 << 40),
							payment_hash: PaymentHash(r.bytes32()),
							cltv_expiry: r.below(1 << 30) as u32,
							skimmed_fee_msat: None,
							onion_routing_packet: OnionPacket {
								version: 0,
								public_key: Ok(*r.pick(pks)),
								hop_data,
								hmac: r.bytes32(),
							},
							blinding_point: None,
							hold_htlc: None,
							accountable: None,
						};
						w.push(wire(&m, true));
						adds.push(m);
					}
				},
				1 => {
					for i in 0..*n {
						let m = UpdateFulfillHTLC {
							channel_id,
							htlc_id: i as u64 + r.below(1000),
							payment_preimage: PaymentPreimage(r.bytes32()),
							attribution_data: None,
						};
						w.push(wire(&m, true));
						fulfills.push(m);
					}
				},
				_ => {
					let m = UpdateFee { channel_id, feerate_per_kw: r.below(1 << 20) as u32 + 253 };
					w.push(wire(&m, true));
					fee = Some(m);
				},
			}
			let cs = CommitmentSigned {
				channel_id,
				signature: sig(&mut r),
				htlc_signatures: (0..(*sigs).min(483)).map(|_| sig(&mut r)).collect(),
				funding_txid: None,
			};
			w.push(wire(&cs, true));
			let updates = CommitmentUpdate {
				update_add_htlcs: adds,
				update_fulfill_htlcs: fulfills,
				update_fail_htlcs: Vec::new(),
				update_fail_malformed_htlcs: Vec::new(),
				update_fee: fee,
				commitment_signed: vec![cs],
			};
			vec![q(Out::Chan(MessageSendEvent::UpdateHTLCs { node_id: to, channel_id, updates }), w)]
		},
		MsgSpec::Revoke { seed } => {
			let mut r = Rng::new(*seed);
			let m = RevokeAndACK {
				channel_id: chan_id(&mut r),
				per_commitment_secret: r.bytes32(),
				next_per_commitment_point: *r.pick(pks),
				release_htlc_message_paths: Vec::new(),
			};
			let w = vec![wire(&m, true)];
			vec![q(Out::Chan(MessageSendEvent::SendRevokeAndACK { node_id: to, msg: m }), w)]
		},
		MsgSpec::Reestablish { seed } => {
			let mut r = Rng::new(*seed);
			let m = ChannelReestablish {
				channel_id: chan_id(&mut r),
				next_local_commitment_number: r.below(1 << 48),
				next_remote_commitment_number: r.below(1 << 48),
				your_last_per_commitment_secret: r.bytes32(),
				my_current_per_commitment_point: *r.pick(pks),
				next_funding: None,
				my_current_funding_locked: None,
			};
			let w = vec![wire(&m, true)];
			vec![q(Out::Chan(MessageSendEvent::SendChannelReestablish { node_id: to, msg: m }), w)]
		},
		MsgSpec::PeerStorage { len, seed } => {
			let mut r = Rng::new(*seed);
			let m = PeerStorage { data: bytes(&mut r, (*len as usize).min(65531)) };
			let w = vec![wire(&m, true)];
			vec![q(Out::Chan(MessageSendEvent::SendPeerStorage { node_id: to, msg: m }), w)]
		},
		MsgSpec::TxAbort { len, seed } => {
			let mut r = Rng::new(*seed);
			let m = TxAbort { channel_id: chan_id(&mut r), data: bytes(&mut r, (*len as usize).min(65000)) };
			let w = vec![wire(&m, true)];
			vec![q(Out::Chan(MessageSendEvent::SendTxAbort { node_id: to, msg: m }), w)]
		},
		MsgSpec::Error { len, zero, seed } => {
			let mut r = Rng::new(*seed);
			let channel_id = if *zero { ChannelId([0; 32]) } else { chan_id(&mut r) };
			let m = ErrorMessage { channel_id, data: ascii(&mut r, *len as usize) };
			let w = vec![wire(&m, true)];
			let action = ErrorAction::SendErrorMessage { msg: m };
			vec![q(Out::Chan(MessageSendEvent::HandleError { node_id: to, action }), w)]
		},
		MsgSpec::Warning { len, seed } => {
			let mut r = Rng::new(*seed);
			let m = WarningMessage { channel_id: chan_id(&mut r), data: ascii(&mut r, *len as usize) };
			let w = vec![wire(&m, false)];
			let action = ErrorAction::SendWarningMessage { msg: m, log_level: lightning::util::logger::Level::Trace };
			vec![q(Out::Chan(MessageSendEvent::HandleError { node_id: to, action }), w)]
		},
		MsgSpec::QueryRange { seed } => {
			let mut r = Rng::new(*seed);
			let m = QueryChannelRange {
				chain_hash: chain,
				first_blocknum: r.below(1 << 20) as u32,
				number_of_blocks: r.below(1 << 20) as u32,
			};
			let w = vec![wire(&m, true)];
			vec![q(Out::Route(MessageSendEvent::SendChannelRangeQuery { node_id: to, msg: m }), w)]
		},
		MsgSpec::QueryScids { n, seed } => {
			let mut r = Rng::new(*seed);
			let m = QueryShortChannelIds {
				chain_hash: chain,
				short_channel_ids: (0..(*n).min(8000)).map(|_| r.next_u64()).collect(),
			};
			let w = vec![wire(&m, true)];
			vec![q(Out::Route(MessageSendEvent::SendShortIdsQuery { node_id: to, msg: m }), w)]
		},
		MsgSpec::ReplyRange { n, seed } => {
			let mut r = Rng::new(*seed);
			let m = ReplyChannelRange {
				chain_hash: chain,
				first_blocknum: r.below(1 << 20) as u32,
				number_of_blocks: r.below(1 << 20) as u32,
				sync_complete: r.coin(),
				short_channel_ids: (0..(*n).min(8000)).map(|_| r.next_u64()).collect(),
			};
			let w = vec![wire(&m, true)];
			vec![q(Out::Route(MessageSendEvent::SendReplyChannelRange { node_id: to, msg: m }), w)]
		},
		MsgSpec::TsFilter { seed } => {
			let mut r = Rng::new(*seed);
			// far in the past relative to any wall clock: the library's one unhooked
			// `SystemTime::now()` comparison (6 h threshold) then has a fixed outcome
			let m = GossipTimestampFilter {
				chain_hash: chain,
				first_timestamp: r.below(1_000_000_000) as u32,
				timestamp_range: r.below(1 << 31) as u32,
			};
			let w = vec![wire(&m, false)];
			vec![q(Out::Route(MessageSendEvent::SendGossipTimestampFilter { node_id: to, msg: m }), w)]
		},
		MsgSpec::Onion { len, seed } => {
			let mut r = Rng::new(*seed);
			let m = OnionMessage {
				blinding_point: *r.pick(pks),
				onion_routing_packet: Packet {
					version: 0,
					public_key: *r.pick(pks),
					hop_data: bytes(&mut r, (*len as usize).min(65000)),
					hmac: r.bytes32(),
				},
			};
			let w = vec![wire(&m, true)];
			vec![q(Out::Onion(m), w)]
		},
		MsgSpec::Ping { ponglen, byteslen } => {
			// only the raw adversary sends this one (a node's pings come from its timer)
			let m = msgs::Ping { ponglen: *ponglen, byteslen: *byteslen };
			let w = vec![wire(&m, false)];
			vec![Queued { peer, out: Out::Custom(to, RawMsg { ty: 18, data: Vec::new() }), wire: w }]
		},
	}
}
