//! Oracles over one recorded execution. The reference model is a `BTreeMap` from key to value;
//! because every operation touches one key (a `list` is, per key, a weak membership read), the
//! history is linearizable iff each key's sub-history is (locality), so the Wing–Gong search runs
//! per key against a one-entry slice of the map.

use crate::exec::{ExecResult, OpRec, Outcome, MAIN};
use crate::model::{value_of, Config};
use std::collections::{BTreeMap, HashSet};

pub struct Finding {
	pub oracle: &'static str,
	pub step: u64,
	pub message: String,
}

#[derive(Default)]
pub struct CheckOut {
	pub findings: Vec<Finding>,
	pub harness_errors: Vec<String>,
	pub counters: BTreeMap<String, u64>,
	pub nontrivial: bool,
}

impl CheckOut {
	fn bump(&mut self, k: &str) {
		*self.counters.entry(k.to_string()).or_insert(0) += 1;
	}
	fn fail(&mut self, oracle: &'static str, step: u64, message: String) {
		self.findings.push(Finding { oracle, step, message });
	}
}

#[derive(Clone, Copy, Debug, PartialEq, Eq)]
enum K {
	/// write of value number n (numbers are canonical per distinct byte string)
	W(u32),
	/// remove
	D { lazy: bool },
	/// read that observed value number n / absence
	R(Option<u32>),
	/// membership observation by a `list`
	C(bool),
}

#[derive(Clone, Debug)]
struct KOp {
	id: u32,
	kind: K,
	inv: u64,
	res: u64,
	/// end of the issuing call: for two-phase operations the return of `prepare`, else `res`
	issue_end: u64,
	/// returned an (injected) error: may have taken effect or not
	failed: bool,
	prepared: bool,
}

impl KOp {
	fn mutating(&self) -> bool {
		matches!(self.kind, K::W(_) | K::D { .. })
	}
}

#[derive(Clone, Copy, PartialEq, Eq)]
enum Mode {
	/// everything the contract promises; failed operations are exempt from issue order
	Full,
	/// no issue-order edges (diagnosis)
	NoIssueOrder,
}

/// Wing–Gong search with memoisation over (linearized set, model state).
/// Model state of one key: the current value number (or absent), and whether the key is a
/// "ghost": lazily removed, which the `KVStore` contract allows `list` to still report.
fn linearizable(ops: &[KOp], mode: Mode) -> bool {
	let n = ops.len();
	assert!(n <= 64);
	let mut before = vec![0u64; n];
	for i in 0..n {
		for j in 0..n {
			if i == j {
				continue;
			}
			let rt = ops[j].res < ops[i].inv;
			let exempt = mode == Mode::Full && (ops[i].failed || ops[j].failed);
			let io = mode != Mode::NoIssueOrder
				&& ops[i].mutating()
				&& ops[j].mutating()
				&& ops[j].issue_end < ops[i].inv
				&& !exempt;
			if rt || io {
				before[i] |= 1 << j;
			}
		}
	}
	let full: u64 = if n == 64 { u64::MAX } else { (1u64 << n) - 1 };
	let mut dead: HashSet<(u64, Option<u32>, bool)> = HashSet::new();
	fn go(
		ops: &[KOp], before: &[u64], full: u64, mut mask: u64, cur: Option<u32>, ghost: bool,
		dead: &mut HashSet<(u64, Option<u32>, bool)>,
	) -> bool {
		// Observations that hold right now can be linearized right now: they change nothing.
		loop {
			let mut progressed = false;
			for i in 0..ops.len() {
				if mask & (1 << i) != 0 || before[i] & !mask != 0 {
					continue;
				}
				let ok = match ops[i].kind {
					K::R(obs) => obs == cur,
					K::C(true) => cur.is_some() || ghost,
					K::C(false) => cur.is_none(),
					_ => false,
				};
				if ok {
					mask |= 1 << i;
					progressed = true;
				}
			}
			if !progressed {
				break;
			}
		}
		if mask == full {
			return true;
		}
		if dead.contains(&(mask, cur, ghost)) {
			return false;
		}
		for i in 0..ops.len() {
			if mask & (1 << i) != 0 || before[i] & !mask != 0 {
				continue;
			}
			let m2 = mask | (1 << i);
			match ops[i].kind {
				K::W(v) => {
					if go(ops, before, full, m2, Some(v), false, dead) {
						return true;
					}
					if ops[i].failed && go(ops, before, full, m2, cur, ghost, dead) {
						return true;
					}
				},
				K::D { lazy } => {
					let g2 = lazy && (cur.is_some() || ghost);
					if go(ops, before, full, m2, None, g2, dead) {
						return true;
					}
					if ops[i].failed && go(ops, before, full, m2, cur, ghost, dead) {
						return true;
					}
				},
				// an observation that does not hold now: not linearizable here
				K::R(_) | K::C(_) => {},
			}
		}
		dead.insert((mask, cur, ghost));
		false
	}
	go(ops, &before, full, 0, None, false, &mut dead)
}

/// The reading of "a failed operation took effect entirely or not at all" that also holds the
/// failed operation to issue order when it did take effect: for some subset of the failed
/// operations, the history with that subset counted as successful and the rest deleted is
/// linearizable with all issue-order edges.
fn linearizable_failed_in_order(ops: &[KOp]) -> bool {
	let failed: Vec<usize> = (0..ops.len()).filter(|i| ops[*i].failed).collect();
	if failed.len() > 8 {
		return true; // not decided; probe only
	}
	for pick in 0..(1u32 << failed.len()) {
		let mut h: Vec<KOp> = Vec::new();
		for (i, o) in ops.iter().enumerate() {
			match failed.iter().position(|f| *f == i) {
				None => h.push(o.clone()),
				Some(b) if pick & (1 << b) != 0 => {
					let mut o = o.clone();
					o.failed = false;
					h.push(o);
				},
				Some(_) => {},
			}
		}
		if linearizable(&h, Mode::Full) {
			return true;
		}
	}
	false
}

fn render(ops: &[KOp]) -> String {
	let mut v: Vec<&KOp> = ops.iter().collect();
	v.sort_by_key(|o| o.inv);
	v.iter()
		.map(|o| {
			let k = match o.kind {
				K::W(n) => format!("W(v{})", n),
				K::D { lazy } => format!("D({})", if lazy { "lazy" } else { "strict" }),
				K::R(Some(n)) => format!("R=v{}", n),
				K::R(None) => "R=absent".to_string(),
				K::C(b) => format!("L{}", if b { "+" } else { "-" }),
			};
			format!(
				"#{}{}{} {}[{}{}..{}]",
				o.id,
				if o.prepared { "p" } else { "" },
				if o.failed { "!" } else { "" },
				k,
				o.inv,
				if o.prepared { format!("/{}", o.issue_end) } else { String::new() },
				o.res
			)
		})
		.collect::<Vec<_>>()
		.join(" ")
}

fn describe_bytes(b: &[u8]) -> String {
	let head = String::from_utf8_lossy(&b[..b.len().min(24)]).to_string();
	let tail = String::from_utf8_lossy(&b[b.len().saturating_sub(24)..]).to_string();
	format!("len {} head {:?} tail {:?}", b.len(), head, tail)
}

pub fn check(cfg: &Config, r: &ExecResult) -> CheckOut {
	let mut out = CheckOut::default();
	let last_stamp = r.order.last().map(|e| e.0).unwrap_or(0);

	if let Some((msg, loc)) = r.runner_panic.as_ref() {
		if msg.contains("deadlock") {
			out.fail("C19-8 deadlock", last_stamp, format!("store operations deadlocked: {}", msg));
		} else if msg.contains("max_steps") {
			out.fail("C19-8 deadlock", last_stamp, format!("store operations do not terminate: {}", msg));
		} else {
			out.harness_errors.push(format!("shuttle runner panicked at {}: {}", loc, msg));
		}
	}
	for (id, msg, loc) in r.panics.iter() {
		let step = r.ops.iter().find(|o| o.a.id == *id).map(|o| o.inv).unwrap_or(0);
		out.fail("C19-0 panic", step, format!("panic in store code during op #{} at {}: {}", id, loc, msg));
	}
	if !r.completed || !r.panics.is_empty() {
		return out;
	}

	// --- per-operation rules -------------------------------------------------------------
	for o in r.ops.iter() {
		let res = o.res.unwrap_or(last_stamp);
		match (&o.outcome, o.a.op.as_str()) {
			(Outcome::Pending, _) | (Outcome::Panicked, _) => {
				out.harness_errors.push(format!("op #{} has no response in a completed run", o.a.id));
				return out;
			},
			(Outcome::Error(e), _) => {
				out.fail(
					"C19-5 spurious error",
					res,
					format!("op #{} {} (ns {}, key {}) failed without an injected fault: {}", o.a.id, o.a.op, o.a.ns, o.a.key, e),
				);
			},
			(Outcome::Keys(names), _) => {
				out.bump("oracle:C19-6 artifacts");
				let mut seen = HashSet::new();
				for n in names {
					if !cfg.keys.contains(n) {
						out.fail(
							"C19-6 store artifact visible",
							res,
							format!("list #{} of namespace {} returned {:?}, which is not a key", o.a.id, o.a.ns, n),
						);
					}
					if !seen.insert(n.clone()) {
						out.fail(
							"C19-6 store artifact visible",
							res,
							format!("list #{} of namespace {} returned {:?} twice", o.a.id, o.a.ns, n),
						);
					}
				}
			},
			_ => {},
		}
		out.bump("oracle:C19-5 no spurious error");
	}

	// --- per-key histories ---------------------------------------------------------------
	let mut any_overlap = false;
	for ns in 0..cfg.namespaces.len() {
		for key in 0..cfg.keys.len() {
			// canonical numbering of distinct written byte strings of this key
			let mut vals: Vec<Vec<u8>> = Vec::new();
			let num = |b: &[u8], vals: &mut Vec<Vec<u8>>| -> u32 {
				match vals.iter().position(|v| v.as_slice() == b) {
					Some(i) => i as u32,
					None => {
						vals.push(b.to_vec());
						(vals.len() - 1) as u32
					},
				}
			};
			let mine: Vec<&OpRec> =
				r.ops.iter().filter(|o| o.a.ns == ns && (o.a.op == "list" || o.a.key == key)).collect();
			let mut kops: Vec<KOp> = Vec::new();
			for o in mine.iter().filter(|o| o.a.is_write()) {
				let v = value_of(o.a.id, o.a.len);
				let n = num(&v, &mut vals);
				let res = o.res.unwrap();
				kops.push(KOp {
					id: o.a.id,
					kind: K::W(n),
					inv: o.inv,
					res,
					issue_end: o.issued.unwrap_or(res),
					failed: matches!(o.outcome, Outcome::Injected(_)),
					prepared: o.a.is_prepared(),
				});
			}
			let mut torn = false;
			for o in mine.iter() {
				let res = o.res.unwrap();
				match o.a.op.as_str() {
					"remove" | "prep_remove" => kops.push(KOp {
						id: o.a.id,
						kind: K::D { lazy: o.a.lazy },
						inv: o.inv,
						res,
						issue_end: o.issued.unwrap_or(res),
						failed: matches!(o.outcome, Outcome::Injected(_)),
						prepared: o.a.is_prepared(),
					}),
					"read" => {
						let kind = match &o.outcome {
							Outcome::NotFound => Some(K::R(None)),
							Outcome::Value(b) => {
								out.bump("oracle:C19-2 value is a written value");
								match vals.iter().position(|v| v == b) {
									Some(i) => Some(K::R(Some(i as u32))),
									None => {
										torn = true;
										out.fail(
											"C19-2 torn value",
											res,
											format!(
												"read #{} of ns {} key {:?} returned a value no write of that key wrote: {}",
												o.a.id,
												ns,
												cfg.keys[key],
												describe_bytes(b)
											),
										);
										None
									},
								}
							},
							_ => None, // injected error: no observation
						};
						if let Some(kind) = kind {
							kops.push(KOp { id: o.a.id, kind, inv: o.inv, res, issue_end: res, failed: false, prepared: false });
						}
					},
					"list" => {
						if let Outcome::Keys(names) = &o.outcome {
							let present = names.contains(&cfg.keys[key]);
							kops.push(KOp {
								id: o.a.id,
								kind: K::C(present),
								inv: o.inv,
								res,
								issue_end: res,
								failed: false,
								prepared: false,
							});
						}
					},
					_ => {},
				}
			}
			if kops.len() > 64 {
				out.harness_errors.push(format!("per-key history of {} ops exceeds the search bound", kops.len()));
				continue;
			}

			// coverage: real overlap on this key
			for a in kops.iter() {
				for b in kops.iter() {
					if a.id < b.id && a.inv < b.res && b.inv < a.res && (a.mutating() || b.mutating()) {
						any_overlap = true;
						match (a.kind, b.kind) {
							(K::W(_), K::W(_)) => out.bump("probe:overlapping_writes_same_key"),
							(K::W(_), K::D { .. }) | (K::D { .. }, K::W(_)) => out.bump("probe:overlapping_write_remove_same_key"),
							(K::R(_), _) | (_, K::R(_)) => out.bump("probe:read_overlaps_mutation"),
							(K::C(_), _) | (_, K::C(_)) => out.bump("probe:list_overlaps_mutation"),
							_ => {},
						}
					}
					// a two-phase operation that finishes after a later-issued one finished
					if a.prepared && b.mutating() && a.mutating() && a.issue_end < b.inv && b.res < a.res && a.id != b.id {
						out.bump("probe:execute_after_newer_completed");
					}
				}
			}
			if kops.iter().any(|o| o.failed) {
				out.bump("probe:failed_mutation_in_history");
			}

			if torn {
				continue;
			}
			out.bump("oracle:C19-1 linearizability (per key)");
			let step = kops.iter().map(|o| o.res).max().unwrap_or(0);
			let where_ = format!("ns {:?} key {:?}", cfg.namespaces[ns], short(&cfg.keys[key]));
			if linearizable(&kops, Mode::Full) {
				if kops.iter().any(|o| o.failed) && !linearizable_failed_in_order(&kops) {
					out.bump("probe:failed_two_phase_op_out_of_issue_order");
					if cfg.strict_failed_order {
						out.fail(
							"C19-9 failed op issue order",
							step,
							format!("{}: an operation that returned an error took effect, and an earlier-issued one took effect after it: {}", where_, render(&kops)),
						);
					}
				}
			} else if linearizable(&kops, Mode::NoIssueOrder) {
				out.fail(
					"C19-4 issue order",
					step,
					format!("{}: linearizable only if a later-issued write/remove takes effect before an earlier-issued one: {}", where_, render(&kops)),
				);
			} else {
				let no_list: Vec<KOp> = kops.iter().filter(|o| !matches!(o.kind, K::C(_))).cloned().collect();
				if no_list.len() < kops.len() && linearizable(&no_list, Mode::Full) {
					out.fail(
						"C19-3 list bounds",
						step,
						format!("{}: a list reported the key although it was absent throughout the call, or omitted it although it was present throughout: {}", where_, render(&kops)),
					);
				} else {
					out.fail(
						"C19-1 linearizability",
						step,
						format!("{}: no linearization of the history against the map model: {}", where_, render(&kops)),
					);
				}
			}

			// --- last issued wins (direct form) ------------------------------------------
			let muts: Vec<&&OpRec> = mine.iter().filter(|o| o.a.is_mutation()).collect();
			let all_issuer = muts.iter().all(|o| o.a.t == 0);
			let any_prep = muts.iter().any(|o| o.a.is_prepared());
			let none_failed = muts.iter().all(|o| matches!(o.outcome, Outcome::Done));
			let fin = mine.iter().find(|o| o.a.t == MAIN && o.a.op == "read");
			if all_issuer && any_prep && none_failed {
				if let Some(fin) = fin {
					out.bump("oracle:C19-4 last issued wins");
					let last = muts.iter().max_by_key(|o| o.inv).unwrap();
					let want: Option<Vec<u8>> = if last.a.is_write() { Some(value_of(last.a.id, last.a.len)) } else { None };
					let got: Option<Vec<u8>> = match &fin.outcome {
						Outcome::Value(b) => Some(b.clone()),
						_ => None,
					};
					if want != got {
						out.fail(
							"C19-4 issue order",
							fin.res.unwrap_or(step),
							format!(
								"{}: after all two-phase operations completed the key holds {} but the last issued operation was #{} {}: {}",
								where_,
								got.as_ref().map(|b| describe_bytes(b)).unwrap_or_else(|| "nothing".into()),
								last.a.id,
								last.a.op,
								render(&kops)
							),
						);
					}
				}
			}
		}
	}

	// --- quiescence ------------------------------------------------------------------------
	if let Some(n) = r.lock_map_size {
		out.bump("oracle:C19-7 lock map empty at quiescence");
		if n > 0 {
			out.bump("probe:lock_map_nonempty_at_quiescence");
			if r.fired.is_empty() {
				out.bump("probe:lock_map_nonempty_without_faults");
			}
			if cfg.strict_lock_map {
				out.fail(
					"C19-7 lock map",
					last_stamp,
					format!("{} entries left in the per-path lock map after all operations completed (faults fired: {})", n, r.fired.len()),
				);
			}
		}
	}
	if r.leftover_tmp > 0 {
		out.bump("probe:tmp_file_left_at_quiescence");
	}
	out.nontrivial = any_overlap;
	out
}

fn short(s: &str) -> String {
	if s.len() > 16 {
		format!("{}..({} chars)", &s[..8], s.len())
	} else {
		s.to_string()
	}
}

#[cfg(test)]
mod tests {
	use super::*;

	fn op(id: u32, kind: K, inv: u64, res: u64) -> KOp {
		KOp { id, kind, inv, res, issue_end: res, failed: false, prepared: false }
	}

	#[test]
	fn sequential_ok() {
		let h = vec![op(1, K::W(0), 1, 2), op(2, K::R(Some(0)), 3, 4), op(3, K::D { lazy: false }, 5, 6), op(4, K::R(None), 7, 8)];
		assert!(linearizable(&h, Mode::Full));
	}

	#[test]
	fn stale_read_rejected() {
		let h = vec![op(1, K::W(0), 1, 2), op(2, K::W(1), 3, 4), op(3, K::R(Some(0)), 5, 6)];
		assert!(!linearizable(&h, Mode::Full));
	}

	#[test]
	fn concurrent_either_order() {
		let h = vec![op(1, K::W(0), 1, 5), op(2, K::W(1), 2, 6), op(3, K::R(Some(0)), 7, 8)];
		assert!(linearizable(&h, Mode::Full));
		let h = vec![op(1, K::W(0), 1, 5), op(2, K::W(1), 2, 6), op(3, K::R(Some(1)), 7, 8)];
		assert!(linearizable(&h, Mode::Full));
	}

	#[test]
	fn issue_order_binds_two_phase_ops() {
		// W0 issued (1..2), W1 issued (3..4); both execute later, W0 finishing last; the final
		// read sees W0's value: plain interval linearizability accepts, issue order does not.
		let mut a = op(1, K::W(0), 1, 10);
		a.issue_end = 2;
		a.prepared = true;
		let mut b = op(2, K::W(1), 3, 8);
		b.issue_end = 4;
		b.prepared = true;
		let h = vec![a, b, op(3, K::R(Some(0)), 11, 12)];
		assert!(!linearizable(&h, Mode::Full));
		assert!(linearizable(&h, Mode::NoIssueOrder));
	}

	#[test]
	fn failed_write_all_or_nothing() {
		let mut w = op(2, K::W(1), 3, 4);
		w.failed = true;
		let h = vec![op(1, K::W(0), 1, 2), w.clone(), op(3, K::R(Some(0)), 5, 6)];
		assert!(linearizable(&h, Mode::Full));
		let h = vec![op(1, K::W(0), 1, 2), w, op(3, K::R(Some(1)), 5, 6)];
		assert!(linearizable(&h, Mode::Full));
	}

	#[test]
	fn list_bounds() {
		// key present throughout the list call but reported absent
		let h = vec![op(1, K::W(0), 1, 2), op(2, K::C(false), 3, 4)];
		assert!(!linearizable(&h, Mode::Full));
		// key written during the call: both answers fine
		let h = vec![op(1, K::W(0), 2, 5), op(2, K::C(false), 1, 6)];
		assert!(linearizable(&h, Mode::Full));
		let h = vec![op(1, K::W(0), 2, 5), op(2, K::C(true), 1, 6)];
		assert!(linearizable(&h, Mode::Full));
		// lazily removed key may still be listed, but not read
		let h = vec![op(1, K::W(0), 1, 2), op(2, K::D { lazy: true }, 3, 4), op(3, K::C(true), 5, 6), op(4, K::R(None), 7, 8)];
		assert!(linearizable(&h, Mode::Full));
		let h = vec![op(1, K::W(0), 1, 2), op(2, K::D { lazy: false }, 3, 4), op(3, K::C(true), 5, 6)];
		assert!(!linearizable(&h, Mode::Full));
	}
}
