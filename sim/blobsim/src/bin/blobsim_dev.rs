//! Development driver:
//!   blobsim_dev run <profile> <tier> <first-index> <count> [batch-seed]
//!   blobsim_dev det <profile> <count>
//!   blobsim_dev shrink <profile> <tier> <run-seed>
//!   blobsim_dev one <profile> <tier> <run-seed>

use blobsim::BlobSim;
use simcore::runner::{install_panic_hook, run_isolated};
use simcore::{mix, RunOutcome, Sim, Tier};
use std::collections::BTreeMap;
use std::sync::atomic::{AtomicU64, Ordering};
use std::sync::Mutex;
use std::time::{Duration, Instant};

fn batch(profile: &str, tier: Tier, first: u64, count: u64, bseed: u64) -> Vec<RunOutcome> {
	let next = AtomicU64::new(first);
	let outs = Mutex::new(Vec::new());
	let nthreads = std::thread::available_parallelism().map(|n| n.get()).unwrap_or(4);
	std::thread::scope(|s| {
		for _ in 0..nthreads {
			s.spawn(|| loop {
				let i = next.fetch_add(1, Ordering::Relaxed);
				if i >= first + count {
					break;
				}
				let seed = mix(bseed, i);
				let mut o = run_isolated(|| BlobSim.run(profile, seed, tier));
				o.seed = seed;
				outs.lock().unwrap().push(o);
			});
		}
	});
	let mut v = outs.into_inner().unwrap();
	v.sort_by_key(|o| o.seed);
	v
}

fn main() {
	install_panic_hook();
	let args: Vec<String> = std::env::args().collect();
	let cmd = args.get(1).map(|s| s.as_str()).unwrap_or("");
	match cmd {
		"run" => {
			let profile = &args[2];
			let tier = Tier::parse(&args[3]).expect("tier");
			let first: u64 = args[4].parse().unwrap();
			let count: u64 = args[5].parse().unwrap();
			let bseed: u64 = args.get(6).and_then(|s| s.parse().ok()).unwrap_or(1);
			let t0 = Instant::now();
			let outs = batch(profile, tier, first, count, bseed);
			let dt = t0.elapsed().as_secs_f64();
			let mut counters: BTreeMap<String, u64> = BTreeMap::new();
			let (mut viol, mut herr, mut nontrivial, mut steps) = (0, 0, 0, 0);
			let mut inter = std::collections::BTreeSet::new();
			let mut states = std::collections::BTreeSet::new();
			let mut first_fail: BTreeMap<String, (u64, u64, String)> = BTreeMap::new();
			for (i, o) in outs.iter().enumerate() {
				let _ = i;
				for (k, v) in o.counters.iter() {
					*counters.entry(k.clone()).or_insert(0) += v;
				}
				if o.nontrivial {
					nontrivial += 1;
					inter.insert(o.interleaving_fp);
				}
				for s in o.state_fps.iter() {
					states.insert(*s);
				}
				steps += o.steps;
				for v in o.violations.iter() {
					viol += 1;
					first_fail.entry(v.oracle.clone()).or_insert((o.seed, v.step, v.message.clone()));
				}
				for e in o.harness_errors.iter() {
					herr += 1;
					println!("HARNESS seed {}: {}", o.seed, e);
				}
			}
			for (k, v) in counters.iter() {
				println!("  {:60} {}", k, v);
			}
			for (k, (seed, step, msg)) in first_fail.iter() {
				println!("VIOLATION {} seed={} step={} : {}", k, seed, step, msg);
			}
			println!(
				"runs={} nontrivial={} distinct_interleavings={} states={} steps={} violations={} harness_errors={} wall={:.1}s runs/s={:.0}",
				outs.len(), nontrivial, inter.len(), states.len(), steps, viol, herr, dt, outs.len() as f64 / dt
			);
			// index of first failing run, for the sensitivity table
			let mut firsts: BTreeMap<String, u64> = BTreeMap::new();
			for i in first..first + count {
				let seed = mix(bseed, i);
				if let Some(o) = outs.iter().find(|o| o.seed == seed) {
					for v in o.violations.iter() {
						firsts.entry(v.oracle.clone()).or_insert(i - first + 1);
					}
				}
			}
			for (k, i) in firsts.iter() {
				println!("first failure of {:?} at run #{}", k, i);
			}
			let failing = outs.iter().filter(|o| !o.violations.is_empty()).count();
			println!("failing_runs={}", failing);
		},
		"det" => {
			let profile = &args[2];
			let count: u64 = args[3].parse().unwrap();
			let a = batch(profile, Tier::Quick, 0, count, 7);
			let b = batch(profile, Tier::Quick, 0, count, 7);
			let mut diff = 0;
			for (x, y) in a.iter().zip(b.iter()) {
				if x.seed != y.seed || x.history_fp != y.history_fp || x.interleaving_fp != y.interleaving_fp || x.steps != y.steps || x.counters != y.counters {
					diff += 1;
					println!("DIFF seed {} {:016x} vs {:016x}", x.seed, x.history_fp, y.history_fp);
				}
			}
			println!("determinism: {} seeds x 2, {} differences", a.len(), diff);
		},
		"one" => {
			let profile = &args[2];
			let tier = Tier::parse(&args[3]).expect("tier");
			let seed: u64 = args[4].parse().unwrap();
			let o = run_isolated(|| BlobSim.run(profile, seed, tier));
			println!("steps {} nontrivial {} fp {:016x}", o.steps, o.nontrivial, o.history_fp);
			for (k, v) in o.counters.iter() {
				println!("  {:60} {}", k, v);
			}
			for v in o.violations.iter() {
				println!("VIOLATION {} step {}: {}", v.oracle, v.step, v.message);
			}
			for e in o.harness_errors.iter() {
				println!("HARNESS {}", e);
			}
			if std::env::var("SAMPLE").is_ok() {
				println!("{}", serde_json::to_string_pretty(&o.sample).unwrap());
			}
		},
		"shrink" => {
			let profile = &args[2];
			let tier = Tier::parse(&args[3]).expect("tier");
			let seed: u64 = args[4].parse().unwrap();
			let o = run_isolated(|| BlobSim.run(profile, seed, tier));
			let v = match o.violations.first() {
				Some(v) => v.clone(),
				None => {
					println!("seed {} does not fail", seed);
					return;
				},
			};
			let rep = o.replay.clone().expect("replay");
			let n0 = rep["trace"].as_array().unwrap().len();
			let r = run_isolated(|| BlobSim.replay(&rep));
			let same = r.violations.iter().any(|x| x.oracle == v.oracle && x.step == v.step && x.message == v.message);
			println!("original: {} at step {} ({} actions): {}", v.oracle, v.step, n0, v.message);
			println!("literal replay reproduces the same violation: {} (history_fp equal: {})", same, r.history_fp == o.history_fp);
			let (min, spent) = simcore::shrink::shrink(&BlobSim, &rep, &v.property, &v.oracle, Duration::from_secs(60));
			let n1 = min["trace"].as_array().unwrap().len();
			let r2 = run_isolated(|| BlobSim.replay(&min));
			println!("shrunk {} -> {} actions in {} replays", n0, n1, spent);
			for x in r2.violations.iter() {
				println!("minimised: {} step {}: {}", x.oracle, x.step, x.message);
			}
			println!("{}", serde_json::to_string(&min["trace"]).unwrap());
			if let Some(p) = args.get(5) {
				std::fs::write(p, serde_json::to_string_pretty(&serde_json::json!({"property": v.property, "oracle": v.oracle, "seed": seed, "replay": min})).unwrap()).unwrap();
			}
		},
		_ => eprintln!("usage: blobsim_dev run|det|one|shrink ..."),
	}
}
