//! The world: block tree + source + the real `SpvClient` / `synchronize_listeners` + recording
//! listeners, the action alphabet, and the oracles C20-1..5.

use crate::exec::block_on;
use crate::listener::{txids_fp, Ev, FanOut, RecListener};
use crate::source::{BlockMode, FaultKind, FaultSpec, OpState, ReqKind, SimSource, SrcState};
use crate::tree::BlockTree;
use bitcoin::{BlockHash, Network};
use lightning::chain::BlockLocator;
use lightning_block_sync::init::synchronize_listeners;
use lightning_block_sync::poll::{ChainPoller, ChainTip, Validate, ValidatedBlockHeader};
use lightning_block_sync::{
	BlockHeaderData, BlockSourceErrorKind, HeaderCache, SpvClient, HEADER_CACHE_LIMIT,
};
use serde::{Deserialize, Serialize};
use serde_json::json;
use simcore::runner::catch;
use simcore::{fnv_extend, RunOutcome};
use std::collections::BTreeSet;
use std::sync::Arc;

pub const MAX_EXEC_POLLS: u64 = 50_000_000;

#[derive(Clone, Debug, Default, Serialize, Deserialize)]
pub struct GenParams {
	pub max_steps: u32,
	pub n_listeners: u8,
	pub fault_pct: u32,
	pub two_fault_pct: u32,
	pub pend_pct: u32,
	pub kinds: Vec<String>,
	pub deep: bool,
	pub short_len_max: u32,
	pub medium_pct: u32,
	pub weights: Vec<u32>,
	pub enumerate: bool,
	#[serde(default)]
	pub bad_blocks: bool,
	#[serde(default)]
	pub forget_pct: u32,
	#[serde(default)]
	pub cancel_pct: u32,
}

#[derive(Clone, Debug, Serialize, Deserialize)]
pub struct Config {
	pub profile: String,
	pub tier: String,
	pub block_mode: BlockMode,
	pub best_height_known: bool,
	pub allow_tip_lies: bool,
	/// generator parameters; recorded for the sample, never read by `replay`
	#[serde(default)]
	pub gen: GenParams,
}

#[derive(Clone, Debug, PartialEq, Eq, Serialize, Deserialize)]
pub struct Start {
	pub branch: u32,
	pub height: u32,
	/// how many `previous_blocks` entries of the listener's `BlockLocator` are filled in
	pub prev_known: u8,
}

#[derive(Clone, Debug, PartialEq, Eq, Serialize, Deserialize)]
pub enum Action {
	/// mine `n` blocks on the tip of `branch`
	Extend { branch: u32, n: u32 },
	/// mine a new branch of `n` blocks on top of the block at `at_height` of `from`
	/// (`bad` = (offset within the new branch, 1 = header misses its target | 2 = header the source
	/// never serves): an invalid block with valid descendants)
	Fork {
		new_branch: u32,
		from: u32,
		at_height: u32,
		n: u32,
		#[serde(default)]
		bad: Option<(u32, u8)>,
	},
	/// the source's best tip becomes the block at `height` (None = tip) of `branch`
	SetBest { branch: u32, height: Option<u32> },
	/// fresh start: `SpvClient::new` at the given block with an empty header cache
	NewClient { branch: u32, height: u32, listeners: u8 },
	/// `SpvClient::poll_best_tip`; with `forget_stale` the source serves only blocks of its best chain
	Poll {
		faults: Vec<FaultSpec>,
		pend: Vec<u8>,
		#[serde(default)]
		forget_stale: bool,
		/// (profile `cancel` only) the caller drops the future after it returned `Pending` this many
		/// times, as a timeout or `select!` would
		#[serde(default)]
		cancel_after: Option<u32>,
	},
	/// `init::synchronize_listeners` for fresh listeners last synced to `starts`, then an
	/// `SpvClient` built from the returned cache and tip replaces the current client
	InitSync { starts: Vec<Start>, forget_stale: bool, faults: Vec<FaultSpec>, pend: Vec<u8> },
}

impl Action {
	pub fn kind(&self) -> &'static str {
		match self {
			Action::Extend { .. } => "Extend",
			Action::Fork { .. } => "Fork",
			Action::SetBest { .. } => "SetBest",
			Action::NewClient { .. } => "NewClient",
			Action::Poll { .. } => "Poll",
			Action::InitSync { .. } => "InitSync",
		}
	}
	fn code(&self) -> u8 {
		match self {
			Action::Extend { .. } => 1,
			Action::Fork { .. } => 2,
			Action::SetBest { .. } => 3,
			Action::NewClient { .. } => 4,
			Action::Poll { .. } => 5,
			Action::InitSync { .. } => 6,
		}
	}
}

type Spv = SpvClient<ChainPoller<Arc<SimSource>, SimSource>, Arc<FanOut>>;

pub struct Client {
	spv: Spv,
	pub listeners: Vec<Arc<RecListener>>,
	/// the reference model: per listener the path genesis..=top as tree indices
	pub stacks: Vec<Vec<usize>>,
	consumed: Vec<usize>,
}

#[derive(Clone, Copy, Debug, PartialEq, Eq)]
enum ExpEv {
	Disc(usize),
	Conn(usize),
}

pub struct World {
	pub cfg: Config,
	pub out: RunOutcome,
	pub src: Arc<SimSource>,
	pub client: Option<Client>,
	pub trace: Vec<Action>,
	pub dead: bool,
	/// suppress counters (used while re-executing a prefix in enumeration mode)
	pub quiet: bool,
	pub hist: u64,
	pub inter: u64,
	/// number of source requests made by the most recent Poll / InitSync
	pub last_op_requests: u32,
	pub reorgs: u64,
	pub faults_fired: u64,
	pub ops: u64,
	last_outcome: u8,
	/// a height/chainwork lie was injected (only possible where `allow_tip_lies` or verifiable)
	pub metadata_lies: u64,
}

fn hdr_hash(h: &ValidatedBlockHeader) -> BlockHash {
	h.header.block_hash()
}

/// Applies recorded notifications to a model stack; rules C20-1 and C20-4.
fn apply_events(
	st: &SrcState, stack: &mut Vec<usize>, evs: &[Ev], noop_disc: &mut u64,
	deliveries: &mut (u64, u64),
) -> Result<(), (&'static str, String)> {
	let tree = &st.tree;
	for ev in evs {
		match ev {
			Ev::Connected { header, height, full, ntx, tx_fp } => {
				let hash = header.block_hash();
				let idx = match tree.by_hash.get(&hash) {
					Some(i) => *i,
					None => {
						return Err((
							"C20-4 refused header reached a listener",
							format!(
								"block_connected({}, height {}) is not a block of the tree (invented by the source: {}, valid PoW: {})",
								hash,
								height,
								st.phantoms.contains_key(&hash),
								header.validate_pow(header.target()).is_ok()
							),
						));
					},
				};
				if header.validate_pow(header.target()).is_err() {
					return Err((
						"C20-4 refused header reached a listener",
						format!("connected header {} fails its proof of work", hash),
					));
				}
				if !tree.blocks[idx].chain_ok {
					return Err((
						"C20-4 refused header reached a listener",
						format!("connected block {} h{} is, or builds on, a header that must be refused", hash, height),
					));
				}
				let top = *stack.last().expect("stack never empty");
				if header.prev_blockhash != tree.blocks[top].hash {
					return Err((
						"C20-1 notifications describe one chain",
						format!(
							"block_connected({} h{}) does not build on the listener's tip {} h{} (prev_blockhash {})",
							hash, height, tree.blocks[top].hash, tree.blocks[top].height, header.prev_blockhash
						),
					));
				}
				if *height != tree.blocks[top].height + 1 {
					return Err((
						"C20-1 notifications describe one chain",
						format!(
							"block_connected({}) announced at height {} but the listener's tip is at height {}",
							hash, height, tree.blocks[top].height
						),
					));
				}
				let want_header_only = st.header_only(idx);
				if *full {
					let blk = tree.full_block(idx);
					let (n, fp) = txids_fp(blk.txdata.iter());
					if want_header_only || n != *ntx || fp != *tx_fp {
						return Err((
							"C20-1 notifications describe one chain",
							format!("block_connected({}) carried transaction data that is not the block's ({} txs)", hash, ntx),
						));
					}
					deliveries.0 += 1;
				} else {
					if !want_header_only || *ntx != 0 {
						return Err((
							"C20-1 notifications describe one chain",
							format!("filtered_block_connected({}) with {} txs for a block the source serves in full", hash, ntx),
						));
					}
					deliveries.1 += 1;
				}
				stack.push(idx);
			},
			Ev::Disconnected { hash, height } => {
				let idx = match tree.by_hash.get(hash) {
					Some(i) => *i,
					None => {
						return Err((
							"C20-1 notifications describe one chain",
							format!("blocks_disconnected fork point {} is not a block of the tree", hash),
						));
					},
				};
				if tree.blocks[idx].height != *height || stack.get(*height as usize) != Some(&idx) {
					let top = *stack.last().unwrap();
					return Err((
						"C20-1 notifications describe one chain",
						format!(
							"blocks_disconnected fork point {} h{} (true height {}) is not on the listener's chain (tip {} h{})",
							hash, height, tree.blocks[idx].height, tree.blocks[top].hash, tree.blocks[top].height
						),
					));
				}
				if stack.len() == *height as usize + 1 {
					*noop_disc += 1;
				}
				stack.truncate(*height as usize + 1);
			},
		}
	}
	Ok(())
}

fn to_exp(tree: &BlockTree, evs: &[Ev]) -> Vec<Option<ExpEv>> {
	evs.iter()
		.map(|e| match e {
			Ev::Connected { header, .. } => tree.by_hash.get(&header.block_hash()).map(|i| ExpEv::Conn(*i)),
			Ev::Disconnected { hash, .. } => tree.by_hash.get(hash).map(|i| ExpEv::Disc(*i)),
		})
		.collect()
}

/// The notifications that move a listener whose tip is `from` (walk starting at `found`, an
/// ancestor-or-equal of `from` or `from` itself) to `to`.
fn expected_events(tree: &BlockTree, from: usize, found: usize, to: usize) -> Vec<ExpEv> {
	let lca = tree.lca(found, to);
	let mut v = Vec::new();
	if lca != from {
		v.push(ExpEv::Disc(lca));
	}
	for b in tree.path_between(lca, to) {
		v.push(ExpEv::Conn(b));
	}
	v
}

fn shape_ok(evs: &[Ev]) -> bool {
	// at most one disconnection, and only before the first connection
	evs.iter().enumerate().all(|(i, e)| match e {
		Ev::Disconnected { .. } => i == 0,
		_ => true,
	})
}

impl World {
	pub fn new(cfg: Config) -> World {
		let st = SrcState::new(cfg.block_mode, cfg.best_height_known, cfg.allow_tip_lies);
		let mut out = RunOutcome::new(&cfg.profile, 0);
		out.history_fp = 0;
		World {
			cfg,
			out,
			src: Arc::new(SimSource::new(st)),
			client: None,
			trace: Vec::new(),
			dead: false,
			quiet: false,
			hist: 0xcbf29ce484222325,
			inter: 0xcbf29ce484222325,
			last_op_requests: 0,
			reorgs: 0,
			faults_fired: 0,
			ops: 0,
			last_outcome: 0,
			metadata_lies: 0,
		}
	}

	fn bump(&mut self, k: &str) {
		if !self.quiet {
			self.out.bump(k);
		}
	}
	fn add(&mut self, k: &str, n: u64) {
		if !self.quiet && n > 0 {
			self.out.add(k, n);
		}
	}
	fn h(&mut self, bytes: &[u8]) {
		self.hist = fnv_extend(self.hist, bytes);
	}

	fn violate(&mut self, oracle: &str, msg: String) {
		let step = self.trace.len() as u64;
		let msg = if self.cfg.allow_tip_lies && self.metadata_lies > 0 {
			format!("[after a source height/chainwork lie on a header whose parent was cached] {}", msg)
		} else {
			msg
		};
		self.out.violate("C20", oracle, step, msg);
		self.dead = true;
	}

	pub fn replay_value(&self) -> serde_json::Value {
		json!({
			"sim": "blocksyncsim",
			"profile": self.cfg.profile,
			"config": serde_json::to_value(&self.cfg).unwrap(),
			"trace": serde_json::to_value(&self.trace).unwrap(),
		})
	}

	/// Executes one action. Returns false if it was not enabled (and therefore skipped).
	pub fn apply(&mut self, a: &Action) -> bool {
		if self.dead {
			return false;
		}
		let done = match a {
			Action::Extend { branch, n } => {
				let mut st = self.src.lock();
				*n >= 1 && *n <= 2000 && st.tree.extend(*branch, *n)
			},
			Action::Fork { new_branch, from, at_height, n, bad } => {
				let mut st = self.src.lock();
				*n >= 1 && *n <= 2000 && st.tree.fork(*new_branch, *from, *at_height, *n, *bad)
			},
			Action::SetBest { branch, height } => {
				let mut st = self.src.lock();
				let idx = match height {
					Some(h) => st.tree.resolve(*branch, *h),
					None => st.tree.branch_tip(*branch),
				};
				match idx {
					Some(i) if i != st.best => {
						st.best = i;
						true
					},
					_ => false,
				}
			},
			Action::NewClient { branch, height, listeners } => self.do_new_client(*branch, *height, *listeners),
			Action::Poll { faults, pend, forget_stale, cancel_after } => {
				self.do_poll(faults, pend, *forget_stale, *cancel_after)
			},
			Action::InitSync { starts, forget_stale, faults, pend } => {
				self.do_init(starts, *forget_stale, faults, pend)
			},
		};
		if !done {
			return false;
		}
		self.trace.push(a.clone());
		self.bump(&format!("action:{}", a.kind()));
		let s = serde_json::to_string(a).unwrap_or_default();
		self.h(s.as_bytes());
		self.inter = fnv_extend(self.inter, &[a.code(), self.last_outcome]);
		if !matches!(a, Action::Poll { .. } | Action::InitSync { .. }) {
			self.last_outcome = 0;
		}
		self.record_state();
		true
	}

	fn record_state(&mut self) {
		if self.quiet || self.out.state_fps.len() >= 4096 {
			return;
		}
		let st = self.src.lock();
		let tree = &st.tree;
		let clip = |x: u32| -> u8 {
			match x {
				0..=3 => x as u8,
				4..=7 => 4,
				8..=35 => 5,
				36..=1007 => 6,
				_ => 7,
			}
		};
		let mut fp = 0xcbf29ce484222325u64;
		match &self.client {
			None => fp = fnv_extend(fp, &[0]),
			Some(c) => {
				let top = *c.stacks[0].last().unwrap();
				let lca = tree.lca(top, st.best);
				let down = tree.blocks[top].height - tree.blocks[lca].height;
				let up = tree.blocks[st.best].height - tree.blocks[lca].height;
				let cmp = tree.blocks[st.best].chainwork.cmp(&tree.blocks[top].chainwork) as i8;
				fp = fnv_extend(fp, &[1, clip(down), clip(up), cmp as u8, c.listeners.len() as u8]);
			},
		}
		fp = fnv_extend(fp, &[tree.branches.len().min(6) as u8, self.last_outcome]);
		drop(st);
		self.out.state_fps.push(fp);
	}

	fn do_new_client(&mut self, branch: u32, height: u32, listeners: u8) -> bool {
		if listeners == 0 || listeners > 8 {
			return false;
		}
		let (vh, path) = {
			let st = self.src.lock();
			let idx = match st.tree.resolve(branch, height) {
				Some(i) => i,
				None => return false,
			};
			let b = &st.tree.blocks[idx];
			if !b.chain_ok {
				return false;
			}
			let data = BlockHeaderData { header: b.header, height: b.height, chainwork: b.chainwork };
			match data.validate(b.hash) {
				Ok(v) => (v, st.tree.path_to(idx)),
				Err(e) => {
					drop(st);
					self.out.harness_errors.push(format!("honest header failed validation: {:?}", e));
					self.dead = true;
					return false;
				},
			}
		};
		let ls: Vec<Arc<RecListener>> = (0..listeners).map(|_| Arc::new(RecListener::new())).collect();
		let fan = Arc::new(FanOut { listeners: ls.clone() });
		let poller = ChainPoller::new(self.src.clone(), Network::Regtest);
		let spv = SpvClient::new(vh, poller, HeaderCache::new(), fan);
		let n = ls.len();
		self.client = Some(Client { spv, listeners: ls, stacks: vec![path; n], consumed: vec![0; n] });
		true
	}

	fn account_op(&mut self, op: &OpState) {
		self.last_op_requests = op.req;
		self.add("requests", op.req as u64);
		self.add("probe:pending_returned", op.pendings);
		for f in op.fired.iter() {
			self.bump(&format!("fault:{}", f.kind.name()));
			let rk = match f.req {
				ReqKind::BestBlock => "get_best_block",
				ReqKind::Header => "get_header",
				ReqKind::Block => "get_block",
			};
			self.bump(&format!("fault_at:{}", rk));
			self.bump(&format!("fault_at_request:{}", if f.at < 8 { f.at.to_string() } else { "8+".to_string() }));
			if let FaultKind::TipChange { .. } = f.kind {
				self.bump("probe:mid_operation_tip_change");
			}
			if matches!(f.kind, FaultKind::WrongHeight | FaultKind::WrongChainwork) && f.req == ReqKind::Header {
				self.metadata_lies += 1;
			}
			self.faults_fired += 1;
			let fb = [f.at as u8, f.kind.code()];
			self.h(&fb);
			self.inter = fnv_extend(self.inter, &[f.kind.code(), f.req as u8]);
		}
		let fp = op.req_fp.to_le_bytes();
		self.h(&fp);
	}

	fn do_poll(
		&mut self, faults: &[FaultSpec], pend: &[u8], forget_stale: bool, cancel_after: Option<u32>,
	) -> bool {
		if self.client.is_none() {
			return false;
		}
		self.ops += 1;
		let src = self.src.clone();
		let t0 = *self.client.as_ref().unwrap().stacks[0].last().unwrap();
		{
			let mut st = src.lock();
			let served: Option<BTreeSet<usize>> =
				if forget_stale { Some(st.tree.path_to(st.best).into_iter().collect()) } else { None };
			st.begin_op(faults.to_vec(), pend.to_vec(), served, BTreeSet::new());
		}
		let res = {
			let spv = &mut self.client.as_mut().unwrap().spv;
			let max = cancel_after.map(|c| c as u64).unwrap_or(MAX_EXEC_POLLS);
			catch(|| block_on(spv.poll_best_tip(), max))
		};
		let op = src.lock().end_op();
		self.account_op(&op);
		let res = match res {
			Err((msg, loc)) => {
				self.violate("C20-0 panic", format!("poll_best_tip panicked at {}: {}", loc, msg));
				return true;
			},
			Ok((None, _)) if cancel_after.is_some() => {
				// the future was dropped mid-way: only the stack rules apply to what was notified so far
				let st = src.lock();
				let mut noop = 0u64;
				let mut deliveries = (0u64, 0u64);
				let mut viol: Option<(&'static str, String)> = None;
				let mut n_ev = 0;
				{
					let c = self.client.as_mut().unwrap();
					for i in 0..c.listeners.len() {
						let evs = c.listeners[i].take_from(c.consumed[i]);
						c.consumed[i] += evs.len();
						n_ev += evs.len();
						if let Err(v) = apply_events(&st, &mut c.stacks[i], &evs, &mut noop, &mut deliveries) {
							if viol.is_none() {
								viol = Some((v.0, format!("listener {}: {}", i, v.1)));
							}
						}
					}
				}
				drop(st);
				self.last_outcome = 30;
				self.h(&[30, n_ev as u8]);
				self.bump("fault:Cancelled");
				self.faults_fired += 1;
				if n_ev > 0 {
					self.bump("probe:poll_cancelled_after_notifications");
				}
				if let Some((o, m)) = viol {
					self.violate(o, m);
				}
				return true;
			},
			Ok((None, _)) => {
				self.out.harness_errors.push("poll_best_tip future did not complete".into());
				self.dead = true;
				return true;
			},
			Ok((Some(r), _)) => r,
		};

		// collect what the listeners were told and run it through the stack model
		let st = src.lock();
		let tree = &st.tree;
		let mut noop = 0u64;
		let mut deliveries = (0u64, 0u64);
		let mut per_listener: Vec<Vec<Ev>> = Vec::new();
		let mut viol: Option<(&'static str, String)> = None;
		{
			let c = self.client.as_mut().unwrap();
			for i in 0..c.listeners.len() {
				let evs = c.listeners[i].take_from(c.consumed[i]);
				c.consumed[i] += evs.len();
				if let Err(v) = apply_events(&st, &mut c.stacks[i], &evs, &mut noop, &mut deliveries) {
					if viol.is_none() {
						viol = Some((v.0, format!("listener {}: {}", i, v.1)));
					}
				}
				per_listener.push(evs);
			}
		}
		let evs = per_listener[0].clone();
		let same = per_listener.iter().all(|e| *e == evs);
		// `harmful`: a fault fired that may legitimately make the operation fail; also when the source
		// refused a stale block it has "forgotten" only safety is demanded, not progress
		let harmful = op.fired.iter().any(|f| !f.benign) || op.not_found > 0;
		let n_ev = evs.len();
		let actual = to_exp(tree, &evs);
		let cw = |i: usize| tree.blocks[i].chainwork;
		let outcome: u8;
		let mut probes: Vec<&'static str> = Vec::new();
		let mut check: Option<(&'static str, String)> = None;
		let mut fail = |o: &'static str, m: String| {
			if check.is_none() {
				check = Some((o, m));
			}
		};
		let top_after = *self.client.as_ref().unwrap().stacks[0].last().unwrap();
		match &res {
			Err(e) => {
				outcome = if e.kind() == BlockSourceErrorKind::Transient { 10 } else { 11 };
				probes.push("probe:poll_err");
				if n_ev != 0 {
					fail("C20-3 error leaves listeners consistent", format!("poll_best_tip returned Err({:?}) but notified listeners ({} notifications)", e.kind(), n_ev));
				}
				if !harmful {
					// legitimate only if the advertised best block itself has to be refused
					let legit = op
						.last_best_returned
						.and_then(|r| tree.by_hash.get(&r).copied())
						.map(|b| tree.blocks[b].bad != 0)
						.unwrap_or(false);
					if legit {
						probes.push("probe:invalid_best_block_refused");
					} else {
						fail("C20-3 fault-free poll reaches the best tip", format!("poll_best_tip failed without any fault: {:?}", e));
					}
				}
			},
			Ok((tip, moved)) => {
				let returned = op.last_best_returned;
				match tip {
					ChainTip::Common => {
						outcome = 1;
						probes.push("probe:common_tip");
						if *moved || n_ev != 0 {
							fail("C20-2 poll result matches the notifications", format!("Common tip but moved={} with {} notifications", moved, n_ev));
						}
						if returned != Some(tree.blocks[t0].hash) {
							fail("C20-2 poll result matches the notifications", format!("Common reported but the source's best block {:?} is not the listeners' tip {}", returned, tree.blocks[t0].hash));
						}
					},
					ChainTip::Worse(h) => {
						outcome = 2;
						probes.push("probe:worse_tip");
						if *moved || n_ev != 0 {
							fail("C20-2 poll result matches the notifications", format!("Worse tip but moved={} with {} notifications", moved, n_ev));
						}
						if let Some(i) = tree.by_hash.get(&hdr_hash(h)) {
							if !harmful && (cw(*i) > cw(t0) || *i == t0) {
								fail("C20-2 poll result matches the notifications", format!("tip {} reported Worse but it has more work than / equals the listeners' tip", tree.blocks[*i].hash));
							}
							if cw(*i) == cw(t0) {
								probes.push("probe:equal_work_tie");
							}
						}
					},
					ChainTip::Better(h) => {
						let hh = hdr_hash(h);
						if !harmful && returned != Some(hh) {
							fail("C20-2 poll result matches the notifications", format!("Better({}) is not the source's best block {:?}", hh, returned));
						}
						match tree.by_hash.get(&hh) {
							None => {
								outcome = 5;
								probes.push("probe:invented_tip_offered");
								if *moved || n_ev != 0 {
									fail("C20-4 refused header reached a listener", format!("tip {} is not a block of the tree, yet listeners were notified ({} notifications)", hh, n_ev));
								}
							},
							Some(t) => {
								let t = *t;
								outcome = if *moved { 3 } else { 4 };
								if *moved != (n_ev != 0) {
									fail("C20-2 poll result matches the notifications", format!("Better tip: blocks_connected flag {} but {} notifications", moved, n_ev));
								}
								if n_ev != 0 && !(cw(t) > cw(t0)) {
									fail("C20-2 listeners only move to more work", format!("listeners were moved from {} (h{}) towards {} (h{}) which does not have more chainwork", tree.blocks[t0].hash, tree.blocks[t0].height, hh, tree.blocks[t].height));
								}
								let t_ok = tree.blocks[t].chain_ok;
								if !t_ok {
									probes.push("probe:tip_on_invalid_chain_offered");
								}
								// all headers of the transition are validated before the first notification
								let exp = if t_ok { expected_events(tree, t0, t0, t) } else { Vec::new() };
								let is_prefix = actual.len() <= exp.len()
									&& actual.iter().zip(exp.iter()).all(|(a, e)| *a == Some(*e));
								if !is_prefix && !t_ok {
									fail("C20-4 refused header reached a listener", format!("the path to the offered tip {} h{} contains a header that must be refused, yet listeners were notified: {:?}", hh, tree.blocks[t].height, short(&actual)));
								} else if !is_prefix {
									fail("C20-3 error leaves listeners consistent", format!("notifications {:?} are not a prefix of the path from {} to {} (expected {:?})", short(&actual), tree.blocks[t0].hash, hh, short_e(&exp)));
								} else if actual.len() < exp.len() {
									if !harmful {
										fail("C20-3 fault-free poll reaches the best tip", format!("no fault fired but listeners stopped at h{} on the way to {} h{} ({} of {} notifications)", tree.blocks[top_after].height, hh, tree.blocks[t].height, actual.len(), exp.len()));
									}
									if n_ev != 0 {
										probes.push("probe:partial_advance");
										if cw(top_after) < cw(t0) {
											probes.push("probe:left_below_old_work_after_error");
										}
									} else {
										probes.push("probe:better_tip_not_connected");
									}
								}
								if let Some(ExpEv::Disc(fp)) = exp.first() {
									if n_ev != 0 {
										self.reorgs += 1;
										probes.push("probe:reorg");
										let depth = tree.blocks[t0].height - tree.blocks[*fp].height;
										if depth >= 6 {
											probes.push("probe:reorg_depth_ge_6");
										}
										if depth > HEADER_CACHE_LIMIT {
											probes.push("probe:fork_deeper_than_header_cache");
										}
									}
								}
							},
						}
					},
				}
				// classification against the model when nothing went wrong
				if !harmful {
					if let Some(b) = returned.and_then(|r| tree.by_hash.get(&r).copied()) {
						let want = if tree.blocks[b].bad != 0 {
							fail("C20-4 refused header reached a listener", format!("the source's best block {} must be refused but poll_best_tip returned Ok", tree.blocks[b].hash));
							outcome
						} else if b == t0 {
							1
						} else if cw(b) > cw(t0) {
							if tree.blocks[b].chain_ok {
								3
							} else {
								4
							}
						} else {
							2
						};
						if want != outcome {
							fail("C20-3 fault-free poll reaches the best tip", format!("source best {} h{} vs listeners' tip {} h{}: expected outcome class {} got {}", tree.blocks[b].hash, tree.blocks[b].height, tree.blocks[t0].hash, tree.blocks[t0].height, want, outcome));
						}
						if want == 3 && outcome == 3 && top_after != b {
							fail("C20-3 fault-free poll reaches the best tip", format!("after a fault-free poll listeners are at {} h{}, not at the source's best {} h{}", tree.blocks[top_after].hash, tree.blocks[top_after].height, tree.blocks[b].hash, tree.blocks[b].height));
						}
					}
				}
			},
		}
		if forget_stale {
			probes.push("probe:poll_source_forgot_stale_blocks");
			if op.not_found > 0 {
				probes.push("probe:poll_stale_header_refused_by_source");
			} else if outcome == 3 && matches!(actual.first(), Some(Some(ExpEv::Disc(_)))) {
				probes.push("probe:reorg_served_from_header_cache");
			}
		}
		let hist_bytes: Vec<u8> = {
			let mut v = vec![outcome];
			for e in actual.iter() {
				match e {
					Some(ExpEv::Conn(i)) => {
						v.push(1);
						v.extend_from_slice(&(*i as u32).to_le_bytes());
					},
					Some(ExpEv::Disc(i)) => {
						v.push(2);
						v.extend_from_slice(&(*i as u32).to_le_bytes());
					},
					None => v.push(3),
				}
			}
			v
		};
		drop(fail);
		drop(st);
		self.h(&hist_bytes);
		self.last_outcome = outcome;
		for p in probes {
			self.bump(p);
		}
		self.add("probe:noop_disconnect", noop);
		self.add("probe:full_block_delivery", deliveries.0);
		self.add("probe:header_only_delivery", deliveries.1);
		self.bump("oracle:C20-1 notifications describe one chain");
		self.bump("oracle:C20-2 poll result matches the notifications");
		self.bump("oracle:C20-3 error leaves listeners consistent");
		self.bump("oracle:C20-4 refused header reached a listener");
		if !harmful {
			self.bump("oracle:C20-3 fault-free poll reaches the best tip");
		}
		if !same {
			self.out.harness_errors.push("fan-out listeners saw different notifications".into());
			self.dead = true;
		}
		if let Some((o, m)) = viol {
			self.violate(o, m);
		} else if let Some((o, m)) = check {
			self.violate(o, m);
		}
		true
	}

	fn do_init(&mut self, starts: &[Start], forget_stale: bool, faults: &[FaultSpec], pend: &[u8]) -> bool {
		if starts.is_empty() || starts.len() > 8 {
			return false;
		}
		let src = self.src.clone();
		// resolve the starting points
		let mut start_idx = Vec::new();
		let mut locators = Vec::new();
		let mut stacks = Vec::new();
		let mut locator_hashes = BTreeSet::new();
		let served: Option<BTreeSet<usize>>;
		let best_at_start;
		{
			let st = src.lock();
			let tree = &st.tree;
			for s in starts {
				let idx = match tree.resolve(s.branch, s.height) {
					Some(i) => i,
					None => return false,
				};
				let b = &tree.blocks[idx];
				if !b.chain_ok {
					return false;
				}
				let mut loc = BlockLocator::new(b.hash, b.height);
				locator_hashes.insert(b.hash);
				let mut cur = b.parent;
				for k in 0..(s.prev_known as usize).min(loc.previous_blocks.len()) {
					match cur {
						Some(p) => {
							loc.previous_blocks[k] = Some(tree.blocks[p].hash);
							locator_hashes.insert(tree.blocks[p].hash);
							cur = tree.blocks[p].parent;
						},
						None => break,
					}
				}
				start_idx.push(idx);
				locators.push(loc);
				stacks.push(tree.path_to(idx));
			}
			best_at_start = st.best;
			served = if forget_stale { Some(tree.path_to(st.best).into_iter().collect()) } else { None };
		}
		self.ops += 1;
		let listeners: Vec<Arc<RecListener>> = starts.iter().map(|_| Arc::new(RecListener::new())).collect();
		src.lock().begin_op(faults.to_vec(), pend.to_vec(), served.clone(), locator_hashes);
		let res = {
			let pairs: Vec<(BlockLocator, &RecListener)> =
				locators.iter().cloned().zip(listeners.iter().map(|l| &**l)).collect();
			let s2 = src.clone();
			catch(|| block_on(synchronize_listeners(s2, Network::Regtest, pairs), MAX_EXEC_POLLS))
		};
		let op = src.lock().end_op();
		self.account_op(&op);
		let res = match res {
			Err((msg, loc)) => {
				self.violate("C20-0 panic", format!("synchronize_listeners panicked at {}: {}", loc, msg));
				return true;
			},
			Ok((None, _)) => {
				self.out.harness_errors.push("synchronize_listeners future did not complete".into());
				self.dead = true;
				return true;
			},
			Ok((Some(r), _)) => r,
		};

		let st = src.lock();
		let tree = &st.tree;
		let harmful = op.fired.iter().any(|f| !f.benign);
		let is_served = |i: usize| served.as_ref().map(|s| s.contains(&i)).unwrap_or(true);
		// model: where does each listener's walk start?
		let mut found: Vec<Option<usize>> = Vec::new();
		for (k, s) in starts.iter().enumerate() {
			let mut cur = Some(start_idx[k]);
			let mut f = None;
			for _ in 0..=(s.prev_known as usize).min(12) {
				match cur {
					Some(c) => {
						if is_served(c) {
							f = Some(c);
							break;
						}
						cur = tree.blocks[c].parent;
					},
					None => break,
				}
			}
			found.push(f);
		}
		let all_resolvable = found.iter().all(|f| f.is_some());
		let mut probes: Vec<&'static str> = Vec::new();
		let mut noop = 0u64;
		let mut deliveries = (0u64, 0u64);
		let mut viol: Option<(&'static str, String)> = None;
		let mut fail = |o: &'static str, m: String| {
			if viol.is_none() {
				viol = Some((o, m));
			}
		};
		let mut all_evs: Vec<Vec<Ev>> = Vec::new();
		let mut any_moved = false;
		for i in 0..listeners.len() {
			let evs = listeners[i].take_from(0);
			if let Err(v) = apply_events(&st, &mut stacks[i], &evs, &mut noop, &mut deliveries) {
				fail(v.0, format!("listener {}: {}", i, v.1));
			}
			if !shape_ok(&evs) {
				fail("C20-5 start-up sync brings listeners to a common tip", format!("listener {}: a disconnection after the first notification: {:?}", i, short(&to_exp(tree, &evs))));
			}
			any_moved |= !evs.is_empty();
			all_evs.push(evs);
		}
		for (k, s) in start_idx.iter().enumerate() {
			if !tree.is_ancestor_or_equal(*s, best_at_start) {
				probes.push("probe:init_stale_listener");
			} else if *s == best_at_start {
				probes.push("probe:init_listener_at_tip");
			}
			if tree.blocks[*s].height > tree.blocks[best_at_start].height {
				probes.push("probe:init_listener_ahead_of_source");
			}
			if found[k].is_some() && found[k] != Some(*s) {
				probes.push("probe:init_locator_fallback");
			}
		}
		let mut hist_bytes: Vec<u8> = Vec::new();
		let outcome: u8;
		let mut new_client: Option<(HeaderCache, ValidatedBlockHeader)> = None;
		match res {
			Ok((cache, tip)) => {
				outcome = 20;
				let th = hdr_hash(&tip);
				if op.last_best_returned != Some(th) {
					fail("C20-5 start-up sync brings listeners to a common tip", format!("returned tip {} is not the best block the source reported ({:?})", th, op.last_best_returned));
				}
				match tree.by_hash.get(&th) {
					None => fail("C20-4 refused header reached a listener", format!("synchronize_listeners succeeded with a tip {} that is not a block of the tree", th)),
					Some(t) => {
						let t = *t;
						if tip.height != tree.blocks[t].height || tip.chainwork != tree.blocks[t].chainwork {
							if !st.allow_tip_lies {
								fail("C20-5 start-up sync brings listeners to a common tip", format!("returned tip {} carries height {} / chainwork that differ from the tree's (h{})", th, tip.height, tree.blocks[t].height));
							} else {
								probes.push("probe:tip_lie_accepted");
							}
						}
						for i in 0..listeners.len() {
							let top = *stacks[i].last().unwrap();
							if top != t {
								fail("C20-5 start-up sync brings listeners to a common tip", format!("listener {} ended at {} h{} but the returned tip is {} h{}", i, tree.blocks[top].hash, tree.blocks[top].height, th, tree.blocks[t].height));
							}
							if !harmful {
								if let Some(f) = found[i] {
									let exp = expected_events(tree, start_idx[i], f, t);
									let act = to_exp(tree, &all_evs[i]);
									if act.len() != exp.len() || !act.iter().zip(exp.iter()).all(|(a, e)| *a == Some(*e)) {
										fail("C20-5 start-up sync brings listeners to a common tip", format!("listener {} (start h{}): notifications {:?} differ from the path to the tip {:?}", i, tree.blocks[start_idx[i]].height, short(&act), short_e(&exp)));
									}
									if exp.len() > 37 {
										probes.push("probe:init_more_than_one_fetch_batch");
									}
								}
							}
						}
						if !harmful && !all_resolvable {
							fail("C20-5 start-up sync brings listeners to a common tip", "sync succeeded although a listener's locator names no block the source serves".to_string());
						}
						if !tree.blocks[t].chain_ok {
							fail("C20-4 refused header reached a listener", format!("sync succeeded towards {} whose chain contains a header that must be refused", th));
						}
						// every header the cache returns must be the tree's
						let mut missing = 0u64;
						for b in tree.blocks.iter() {
							match cache.look_up(&b.hash) {
								Some(h) => {
									if h.height != b.height || h.chainwork != b.chainwork || h.header != b.header {
										if !st.allow_tip_lies {
											fail("C20-5 start-up sync brings listeners to a common tip", format!("header cache entry for {} has height {} (tree: {}) or wrong chainwork", b.hash, h.height, b.height));
										}
									}
								},
								None => {},
							}
						}
						// (probe) connected blocks within the cache window should be cached
						let mut connected: BTreeSet<usize> = BTreeSet::new();
						for evs in all_evs.iter() {
							for e in to_exp(tree, evs) {
								if let Some(ExpEv::Conn(i)) = e {
									connected.insert(i);
								}
							}
						}
						for i in connected.iter() {
							if tree.blocks[*i].height + HEADER_CACHE_LIMIT >= tree.blocks[t].height
								&& cache.look_up(&tree.blocks[*i].hash).is_none()
							{
								missing += 1;
							}
						}
						if missing > 0 {
							probes.push("probe:cache_missing_connected_header");
						}
						for p in st.phantoms.keys() {
							if cache.look_up(p).is_some() {
								fail("C20-4 refused header reached a listener", format!("header cache contains invented header {}", p));
							}
						}
						new_client = Some((cache, tip));
					},
				}
			},
			Err(e) => {
				outcome = if e.kind() == BlockSourceErrorKind::Transient { 21 } else { 22 };
				probes.push("probe:init_err");
				if any_moved {
					probes.push("probe:init_err_after_partial_sync");
				}
				if !harmful {
					// the best block the source actually reported (a benign tip change may precede it)
					let reported = op
						.last_best_returned
						.and_then(|r| tree.by_hash.get(&r).copied())
						.unwrap_or(best_at_start);
					let best_ok = tree.blocks[reported].chain_ok;
					if !best_ok {
						probes.push("probe:init_invalid_chain_refused");
						if any_moved {
							fail("C20-4 refused header reached a listener", "the source's best chain contains a header that must be refused, yet listeners were notified".to_string());
						}
					} else if all_resolvable {
						fail("C20-5 start-up sync brings listeners to a common tip", format!("synchronize_listeners failed without any fault: {:?}", e));
					} else {
						probes.push("probe:init_unresolvable_locator");
					}
				}
			},
		}
		hist_bytes.push(outcome);
		for evs in all_evs.iter() {
			hist_bytes.push(0xfe);
			for e in to_exp(tree, evs) {
				match e {
					Some(ExpEv::Conn(i)) => {
						hist_bytes.push(1);
						hist_bytes.extend_from_slice(&(i as u32).to_le_bytes());
					},
					Some(ExpEv::Disc(i)) => {
						hist_bytes.push(2);
						hist_bytes.extend_from_slice(&(i as u32).to_le_bytes());
					},
					None => hist_bytes.push(3),
				}
			}
		}
		drop(fail);
		drop(st);
		self.h(&hist_bytes);
		self.last_outcome = outcome;
		for p in probes {
			self.bump(p);
		}
		self.add("probe:noop_disconnect", noop);
		self.add("probe:full_block_delivery", deliveries.0);
		self.add("probe:header_only_delivery", deliveries.1);
		self.bump("oracle:C20-1 notifications describe one chain");
		self.bump("oracle:C20-4 refused header reached a listener");
		self.bump("oracle:C20-5 start-up sync brings listeners to a common tip");
		if let Some((o, m)) = viol {
			self.violate(o, m);
			return true;
		}
		if let Some((cache, tip)) = new_client {
			let fan = Arc::new(FanOut { listeners: listeners.clone() });
			let poller = ChainPoller::new(self.src.clone(), Network::Regtest);
			let spv = SpvClient::new(tip, poller, cache, fan);
			let consumed = listeners.iter().map(|l| l.len()).collect();
			self.client = Some(Client { spv, listeners, stacks, consumed });
		}
		true
	}

	pub fn finish(mut self) -> RunOutcome {
		let st = self.src.lock();
		let blocks = st.tree.blocks.len() as u64;
		let hashes = st.tree.hashes_ground;
		let max_h = st.tree.blocks.iter().map(|b| b.height).max().unwrap_or(0) as u64;
		drop(st);
		self.out.steps = self.trace.len() as u64;
		self.out.sim_blocks = blocks.saturating_sub(1);
		self.out.sim_seconds = max_h * 600;
		self.out.add("pow_hashes", hashes);
		self.out.history_fp = self.hist;
		self.out.interleaving_fp = self.inter;
		self.out.nontrivial = self.ops > 0 && (self.reorgs > 0 || self.faults_fired > 0);
		let first: Vec<serde_json::Value> =
			self.trace.iter().take(30).map(|a| serde_json::to_value(a).unwrap()).collect();
		self.out.sample = Some(json!({
			"config": serde_json::to_value(&self.cfg).unwrap(),
			"actions": self.trace.len(),
			"first_actions": first,
		}));
		if !self.out.violations.is_empty() {
			self.out.replay = Some(self.replay_value());
		}
		self.out
	}
}

fn short(v: &[Option<ExpEv>]) -> String {
	let mut s: Vec<String> = v
		.iter()
		.take(12)
		.map(|e| match e {
			Some(ExpEv::Conn(i)) => format!("C#{}", i),
			Some(ExpEv::Disc(i)) => format!("D#{}", i),
			None => "?".to_string(),
		})
		.collect();
	if v.len() > 12 {
		s.push(format!("..({})", v.len()));
	}
	s.join(",")
}

fn short_e(v: &[ExpEv]) -> String {
	short(&v.iter().map(|e| Some(*e)).collect::<Vec<_>>())
}
