//! storesim — property C19 part (a): `FilesystemStore` / `FilesystemStoreV2` behave as an atomic,
//! linearizable map under concurrent callers and injected file-system errors.
//!
//! The real store code runs on a real (tmpfs) directory; its `Mutex`/`RwLock`/atomics are
//! shuttle's and every `fs::` call is preceded by a scheduling point (hook H5), so one shuttle
//! schedule = one exactly repeatable interleaving. One `Sim::run` = one workload drawn from the
//! run seed, executed under one schedule (`RandomScheduler`) or under shuttle's PCT (depth 3;
//! its mandatory sequential calibration execution plus one PCT schedule).
//!
//! Profiles: `v1` (FilesystemStore), `v2` (FilesystemStoreV2); `v1-lockmap` / `v2-lockmap`
//! additionally treat a non-empty lock map at quiescence as a violation, `v1-strictfail` /
//! `v2-strictfail` hold two-phase operations that returned an error to issue order as well. The
//! last four demonstrate observations that are outside the property statement; they are not part
//! of the C19 verdict.

pub mod check;
pub mod exec;
pub mod model;

use exec::{execute, ExecResult, Outcome, SchedChoice};
use model::{generate, Action, Config};
use serde_json::{json, Value};
use simcore::{fnv, fnv_extend, mix, RunOutcome, Sim, Tier};

pub struct StoreSim;

pub const PROFILES: &[&str] = &["v1", "v2", "v1-lockmap", "v2-lockmap", "v1-strictfail", "v2-strictfail"];

fn trace_fp(actions: &[Action]) -> u64 {
	fnv(serde_json::to_string(actions).unwrap_or_default().as_bytes())
}

fn outcome_code(o: &Outcome) -> (u8, u64) {
	match o {
		Outcome::Pending => (0, 0),
		Outcome::Done => (1, 0),
		Outcome::Value(b) => (2, fnv_extend(fnv(&(b.len() as u64).to_le_bytes()), b)),
		Outcome::NotFound => (3, 0),
		Outcome::Keys(k) => (4, fnv(k.join("/").as_bytes())),
		Outcome::Injected(k) => (5, fnv(k.as_bytes())),
		// the text of a real error may contain the scratch path: only its presence is hashed
		Outcome::Error(_) => (6, 0),
		Outcome::Panicked => (7, 0),
	}
}

/// Folds one execution into the outcome: fingerprints, counters, oracle verdicts.
fn absorb(out: &mut RunOutcome, cfg: &Config, r: &ExecResult, exec_index: usize) -> Vec<check::Finding> {
	let mut h = out.history_fp;
	h = fnv_extend(h, &(exec_index as u64).to_le_bytes());
	for o in r.ops.iter() {
		let (c, v) = outcome_code(&o.outcome);
		for w in [o.a.id as u64, o.a.t as u64, o.inv, o.issued.unwrap_or(0), o.res.unwrap_or(0), c as u64, v, o.version.unwrap_or(0)] {
			h = fnv_extend(h, &w.to_le_bytes());
		}
	}
	for (site, nth, kind) in r.fired.iter() {
		h = fnv_extend(h, site.as_bytes());
		h = fnv_extend(h, &nth.to_le_bytes());
		h = fnv_extend(h, kind.as_bytes());
	}
	h = fnv_extend(h, &(r.lock_map_size.map(|n| n as u64 + 1).unwrap_or(0)).to_le_bytes());
	h = fnv_extend(h, &(r.leftover_tmp as u64).to_le_bytes());
	h = fnv_extend(h, &r.fs_points.to_le_bytes());
	h = fnv_extend(h, r.schedule.as_bytes());
	out.history_fp = h;

	// interleaving: the (event, operation kind, thread) sequence in stamp order
	let mut il = out.interleaving_fp;
	let kind_of = |id: u32| r.ops.iter().find(|o| o.a.id == id).map(|o| o.a.op.clone()).unwrap_or_default();
	// abstract state after each event: which operation kinds are in flight on which (ns,key), and
	// the kind of the last completed mutation per (ns,key)
	let mut inflight: Vec<(u32, String, usize, usize)> = Vec::new();
	let mut last_mut: std::collections::BTreeMap<(usize, usize), String> = Default::default();
	for (_stamp, what, id, t) in r.order.iter() {
		let k = kind_of(*id);
		il = fnv_extend(il, &[*what]);
		il = fnv_extend(il, k.as_bytes());
		il = fnv_extend(il, &(*t as u64).to_le_bytes());
		if let Some(o) = r.ops.iter().find(|o| o.a.id == *id) {
			match what {
				0 => inflight.push((*id, k.clone(), o.a.ns, o.a.key)),
				2 => {
					inflight.retain(|x| x.0 != *id);
					if o.a.is_mutation() {
						let (c, _) = outcome_code(&o.outcome);
						last_mut.insert((o.a.ns, o.a.key), format!("{}{}", k, c));
					}
				},
				_ => {},
			}
		}
		if out.state_fps.len() < 4096 {
			let mut v: Vec<String> = inflight.iter().map(|x| format!("{}:{}:{}", x.1, x.2, x.3)).collect();
			v.sort();
			let mut s = fnv(v.join(",").as_bytes());
			for (k, m) in last_mut.iter() {
				s = fnv_extend(s, format!("{}.{}={}", k.0, k.1, m).as_bytes());
			}
			out.state_fps.push(s);
		}
	}
	out.interleaving_fp = il;

	out.steps += r.schedule_len as u64;
	out.add("schedules", 1);
	out.add("fs_points_passed", r.fs_points);
	for o in r.ops.iter() {
		if o.a.t != exec::MAIN {
			out.bump(&format!("action:{}", o.a.op));
		} else {
			out.bump(&format!("action:final_{}", o.a.op));
		}
		if let Outcome::Injected(_) = o.outcome {
			out.bump(&format!("probe:op_failed_by_injection:{}", o.a.op));
		}
	}
	for (site, _nth, kind) in r.fired.iter() {
		out.bump(&format!("fault:{}", site));
		out.bump(&format!("fault:kind:{}", kind));
		if matches!(site.as_str(), "write.open_dir" | "write.sync_dir" | "remove.open_dir" | "remove.sync_dir") {
			out.bump("probe:fault_after_effect_visible");
		}
	}
	let c = check::check(cfg, r);
	for (k, v) in c.counters.iter() {
		out.add(k, *v);
	}
	for e in c.harness_errors.iter() {
		out.harness_errors.push(e.clone());
	}
	if c.nontrivial {
		out.nontrivial = true;
	}
	c.findings
}

fn static_probes(out: &mut RunOutcome, cfg: &Config, actions: &[Action]) {
	out.bump(&format!("sched:{}", cfg.sched.kind));
	out.bump(&format!("store:{}", cfg.store));
	if cfg.namespaces.iter().any(|n| n.0.is_empty()) {
		out.bump("probe:empty_primary_namespace");
	}
	if cfg.namespaces.iter().any(|n| !n.0.is_empty() && n.1.is_empty()) {
		out.bump("probe:empty_secondary_namespace");
	}
	if cfg.keys.iter().any(|k| k.len() == 120) {
		out.bump("probe:key_120_chars");
	}
	if cfg.namespaces.iter().any(|n| n.0.len() == 120) {
		out.bump("probe:namespace_120_chars");
	}
	if cfg.keys.iter().any(|a| cfg.keys.iter().any(|b| a != b && b.starts_with(a.as_str()))) {
		out.bump("probe:prefix_keys");
	}
	if cfg.namespaces.len() == 2 && cfg.namespaces[0].0 == cfg.namespaces[1].0 {
		out.bump("probe:nested_namespaces_share_directory");
	}
	if actions.iter().any(|a| a.is_write() && a.len == 0) {
		out.bump("probe:empty_value");
	}
	if actions.iter().any(|a| a.is_write() && a.len >= 60_000) {
		out.bump("probe:value_60k_plus");
	}
	if !cfg.faults.is_empty() {
		out.bump("probe:faults_configured");
	}
}

fn sample_of(cfg: &Config, actions: &[Action]) -> Value {
	json!({
		"config": {
			"store": cfg.store, "scheduler": cfg.sched.kind, "threads": cfg.threads,
			"namespaces": cfg.namespaces.iter().map(|n| format!("{}/{}", short(&n.0), short(&n.1))).collect::<Vec<_>>(),
			"keys": cfg.keys.iter().map(|k| short(k)).collect::<Vec<_>>(),
			"faults": cfg.faults,
		},
		"first_actions": actions.iter().take(30).map(|a| format!("t{} #{} {} ns{} k{}{}{}", a.t, a.id, a.op, a.ns, a.key,
			if a.is_write() { format!(" len {}", a.len) } else { String::new() }, if a.lazy { " lazy" } else { "" })).collect::<Vec<_>>(),
	})
}

fn short(s: &str) -> String {
	if s.len() > 12 {
		format!("{}..{}", &s[..6], s.len())
	} else {
		s.to_string()
	}
}

fn replay_json(profile: &str, cfg: &Config, actions: &[Action], r: &ExecResult, exec_index: usize) -> Value {
	json!({
		"sim": "storesim",
		"profile": profile,
		"config": cfg,
		"trace": actions,
		// exact reproduction: the shuttle schedule of the failing execution (what
		// FailurePersistence would have printed), valid for exactly this trace
		"schedule": r.schedule,
		"schedule_exec_index": exec_index,
		"trace_fp": format!("{:016x}", trace_fp(actions)),
	})
}

/// Runs the executions of one scheduler choice and folds them into `out`. Returns true if some
/// oracle failed.
fn run_and_judge(out: &mut RunOutcome, profile: &str, cfg: &Config, actions: &[Action], sched: SchedChoice, tag: u64) -> bool {
	let results = execute(cfg, actions, sched, tag);
	let mut failed = false;
	for (i, r) in results.iter().enumerate() {
		let findings = absorb(out, cfg, r, i);
		if !findings.is_empty() {
			failed = true;
			for f in findings {
				out.violate("C19", f.oracle, f.step, f.message);
			}
			if out.replay.is_none() {
				out.replay = Some(replay_json(profile, cfg, actions, r, i));
			}
		}
	}
	failed
}

impl Sim for StoreSim {
	fn name(&self) -> &'static str {
		"storesim"
	}

	fn run(&self, profile: &str, seed: u64, _tier: Tier) -> RunOutcome {
		let mut out = RunOutcome::new(profile, seed);
		let (cfg, actions) = generate(profile, seed);
		static_probes(&mut out, &cfg, &actions);
		out.sample = Some(sample_of(&cfg, &actions));
		let sched = if cfg.sched.kind == "pct" { SchedChoice::Pct(cfg.sched.seed) } else { SchedChoice::Random(cfg.sched.seed) };
		run_and_judge(&mut out, profile, &cfg, &actions, sched, seed);
		out
	}

	fn replay(&self, replay: &Value) -> RunOutcome {
		let profile = replay.get("profile").and_then(|p| p.as_str()).unwrap_or("v1").to_string();
		let mut out = RunOutcome::new(&profile, 0);
		let cfg: Config = match serde_json::from_value(replay["config"].clone()) {
			Ok(c) => c,
			Err(e) => {
				out.harness_errors.push(format!("bad replay config: {}", e));
				return out;
			},
		};
		let actions: Vec<Action> = match serde_json::from_value(replay["trace"].clone()) {
			Ok(a) => a,
			Err(e) => {
				out.harness_errors.push(format!("bad replay trace: {}", e));
				return out;
			},
		};
		out.sample = Some(sample_of(&cfg, &actions));
		let recorded_fp = replay.get("trace_fp").and_then(|s| s.as_str()).unwrap_or("");
		let schedule = replay.get("schedule").and_then(|s| s.as_str()).unwrap_or("");
		if !schedule.is_empty() && recorded_fp == format!("{:016x}", trace_fp(&actions)) {
			// The literal run: the recorded schedule decides every context switch.
			run_and_judge(&mut out, &profile, &cfg, &actions, SchedChoice::Replay(schedule.to_string()), 0);
			return out;
		}
		// A shrunk (or hand-edited) trace: the recorded schedule does not fit it any more. The
		// schedule is then a fixed function of the replay object: the recorded scheduler seed
		// and, if that does not fail, a fixed list of seeds derived from it. First failure wins.
		const TRIES: u64 = 48;
		for i in 0..TRIES {
			let s = if i == 0 { cfg.sched.seed } else { mix(cfg.sched.seed, i) };
			let mut attempt = RunOutcome::new(&profile, 0);
			attempt.sample = out.sample.clone();
			let sched = if cfg.sched.kind == "pct" { SchedChoice::Pct(s) } else { SchedChoice::Random(s) };
			let failed = run_and_judge(&mut attempt, &profile, &cfg, &actions, sched, i);
			if failed || !attempt.harness_errors.is_empty() || i + 1 == TRIES {
				attempt.add("replay_schedule_tries", i + 1);
				return attempt;
			}
		}
		out
	}

	fn components(&self) -> (Vec<String>, Vec<String>) {
		(
			vec![
				"lightning-persister fs_store::common (FilesystemStoreState/FilesystemStoreInner: versioned write/remove, read, list, lock map) built through the shadow manifest with hook H5".to_string(),
				"lightning-persister FilesystemStore (v1) and FilesystemStoreV2 KVStoreSync impls".to_string(),
				"H5c two-phase prepare/execute = the bodies of write_async/remove_async without tokio".to_string(),
				"the operating system's file system (tmpfs directory per execution)".to_string(),
			],
			vec![
				"threads, Mutex, RwLock, atomics: shuttle (one thread runs at a time; context switches only at sync operations and fs fault points)".to_string(),
				"tokio runtime / spawn_blocking: replaced by one shuttle thread per prepared operation".to_string(),
				"file-system errors: injected at H5 fault points, not produced by the OS".to_string(),
			],
		)
	}
}
