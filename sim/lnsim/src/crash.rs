//! Crash and restart (DESIGN §3.4): drop the live node, keep only durable state, rebuild.

use crate::infra::*;
use crate::world::*;
use bitcoin::Transaction;
use lightning::chain::chainmonitor::ChainMonitor;
use lightning::chain::channelmonitor::ChannelMonitor;
use lightning::chain::{BlockLocator, ChannelMonitorUpdateStatus, Confirm, Watch};
use lightning::ln::channelmanager::ChannelManagerReadArgs;
use lightning::ln::msgs::BaseMessageHandler;
use lightning::ln::types::ChannelId;
use lightning::sign::NodeSigner;
use lightning::util::ser::ReadableArgs;
use simcore::runner::catch;
use std::sync::atomic::AtomicBool;
use std::sync::{Arc, Mutex};

impl World {
	pub fn frozen(&self, n: usize) -> bool {
		self.nodes[n].disk.lock().unwrap().frozen
	}

	pub fn do_arm_crash(&mut self, n: usize, at: u64, after: bool) -> bool {
		if self.nodes[n].live.is_none() || at == 0 {
			return false;
		}
		let mut d = self.nodes[n].disk.lock().unwrap();
		if d.crash_at.is_some() || d.frozen {
			return false;
		}
		d.crash_at = Some((at, after));
		drop(d);
		self.note(&format!("node {} armed: crash inside persist call #{} (write reaches disk: {})", n, at, after));
		true
	}

	/// Called after every action: a node whose disk froze inside the action is now dead.
	pub fn check_frozen_crash(&mut self) {
		for n in 0..self.nodes.len() {
			if self.frozen(n) && self.nodes[n].live.is_some() {
				self.out.bump("fault:crash_inside_api_call");
				let pick: Vec<u8> = Vec::new();
				self.crash_node(n, &pick, true);
			}
		}
	}

	pub fn do_crash(&mut self, n: usize, pick: &[u8]) -> bool {
		if self.nodes[n].live.is_none() {
			return false;
		}
		self.out.bump("fault:crash_between_actions");
		// transactions handed to the broadcaster but not yet relayed may die with the process
		// (broadcasting is best effort; the library re-broadcasts what still matters)
		let lose = pick.iter().map(|x| *x as u32).sum::<u32>() % 3 == 0 && !pick.iter().all(|x| *x == 0);
		if lose && self.nodes[n].broadcaster.len() > 0 && self.cfg.profile == "deadlines" {
			self.nodes[n].broadcaster.truncate(0);
			self.out.bump("fault:unrelayed_broadcasts_lost_in_crash");
		}
		self.crash_node(n, pick, false);
		true
	}

	fn crash_node(&mut self, n: usize, pick: &[u8], from_freeze: bool) {
		let live = self.nodes[n].live.take();
		drop(live);
		{
			let mut survivor: Option<([u8; 32], u64)> = None;
			let mut lost_keys: Vec<[u8; 32]> = Vec::new();
			let mut d = self.nodes[n].disk.lock().unwrap();
			if from_freeze {
				if let Some(info) = d.frozen_info.take() {
					survivor = info.survivor;
					// nothing the process did after the crash instant happened
					self.nodes[n].keys.restore_enforcement(&info.enforcement);
					self.nodes[n].broadcaster.truncate(info.outbox_len);
					let mut log = self.nodes[n].keys.log.lock().unwrap();
					let keep = info.signer_log_len.max(self.nodes[n].signer_cursor.min(log.len()));
					log.truncate(keep);
				}
			}
			d.frozen = false;
			d.crash_at = None;
			if let Some((key, id)) = survivor {
				if let Some(cd) = d.chans.get_mut(&key) {
					if let Some(c) = cd.candidates.iter().find(|(cid, _)| *cid == id).cloned() {
						if cd.durable.as_ref().map_or(true, |(did, _)| *did <= c.0) {
							cd.durable = Some(c);
						}
					}
				}
			}
			let mut i = 0;
			let mut lost = 0u64;
			let mut survived_inflight = 0u64;
			for (_k, cd) in d.chans.iter_mut() {
				let k = pick.get(i).cloned().unwrap_or(0) as usize;
				i += 1;
				let top = cd.candidates.iter().map(|(id, _)| *id).max();
				if k > 0 && !cd.candidates.is_empty() {
					let idx = (k - 1).min(cd.candidates.len() - 1);
					let c = cd.candidates[idx].clone();
					if cd.durable.as_ref().map_or(true, |(id, _)| *id <= c.0) {
						cd.durable = Some(c);
						survived_inflight += 1;
					}
				} else if !cd.candidates.is_empty() {
					lost += 1;
				}
				cd.candidates.clear();
				cd.completions.clear();
				if let Some(top) = top {
					if cd.durable.as_ref().map_or(true, |(id, _)| *id < top) {
						lost_keys.push(*_k);
					}
				}
			}
			// after a restart persistence starts out synchronous again unless configured async
			let dflt = d.async_default;
			for (_k, v) in d.async_chans.iter_mut() {
				*v = dflt;
			}
			drop(d);
			if lost > 0 {
				self.out.add("fault:inflight_monitor_write_lost", lost);
			}
			// monitor writes still `InProgress` died with the process: remember the channels whose
			// holder commitment this incarnation had nevertheless already handed to the broadcaster
			for k in lost_keys {
				let ci = match self.chans.iter().position(|c| c.channel_id.0 == k) {
					Some(ci) => ci,
					None => continue,
				};
				let funding = self.chans[ci].funding;
				let seen = self.nodes[n].broadcaster.first_seen.lock().unwrap();
				let handed = self.oracle.rev.iter().any(|((node, _), a)| {
					*node == n && a.funding == Some(funding) && a.validated.values().any(|t| seen.contains_key(t))
				});
				drop(seen);
				if handed {
					self.out.bump("probe:crash_lost_monitor_writes_after_own_commitment_broadcast");
					self.broadcast_on_lost_state.insert((n, ci));
				}
			}
			if survived_inflight > 0 {
				self.out.add("fault:inflight_monitor_write_survived", survived_inflight);
			}
		}
		self.nodes[n].claimables.clear();
		self.nodes[n].unprocessed_completions.clear();
		// peers notice
		for p in 0..self.nodes.len() {
			if p == n {
				continue;
			}
			if self.conn.contains_key(&(p, n)) {
				if self.is_conn(p, n) {
					let idn = self.nodes[n].node_id;
					if let Some(m) = self.mgr(p) {
						if let Err((msg, loc)) = catch(|| m.peer_disconnected(idn)) {
							self.library_panic("Disconnect", msg, loc);
						}
					}
					self.ledger_disconnect(p, n);
				}
				self.conn.insert((p, n), false);
				self.conn.insert((n, p), false);
				self.queues.entry((p, n)).or_default().clear();
				self.queues.entry((n, p)).or_default().clear();
				self.after_node_action(p);
			}
		}
		// the wire ledger cannot follow a node that may roll back
		for l in self.ledgers.iter_mut() {
			if l.a == n || l.b == n {
				l.disabled = true;
			}
		}
		self.note(&format!("node {} crashed (inside call: {})", n, from_freeze));
	}

	pub fn do_restart(&mut self, n: usize, style: u8) -> bool {
		if self.nodes[n].live.is_some() || self.nodes[n].gone {
			return false;
		}
		// a restarted node may have lost the record of its last bump (C07-5 compares per incarnation)
		self.oracle.last_fee.retain(|k, _| k.0 != n);
		self.oracle.last_bump_rate.retain(|k, _| k.0 != n);
		let node = &self.nodes[n];
		let mut inherited: Vec<([u8; 32], bool)> = Vec::new();
		let (mgr_bytes, mon_bytes): (Option<Vec<u8>>, Vec<([u8; 32], Vec<u8>)>) = {
			let mut d = node.disk.lock().unwrap();
			d.loaded_generation = d.manager_generation;
			inherited = d.manager_pending_terminal.clone();
			(
				d.manager.clone(),
				d.chans
					.iter()
					.filter(|(_, c)| !c.archived)
					.filter_map(|(k, c)| c.durable.as_ref().map(|(_, b)| (*k, b.clone())))
					.collect(),
			)
		};
		let keys = Arc::clone(&node.keys);
		let mut monitors: Vec<(ChannelId, ChannelMonitor<SimSigner>)> = Vec::new();
		for (k, bytes) in mon_bytes.iter() {
			let r = catch(|| {
				<(BlockLocator, ChannelMonitor<SimSigner>)>::read(&mut &bytes[..], (&*keys, &*keys))
			});
			match r {
				Ok(Ok((_, m))) => monitors.push((ChannelId(*k), m)),
				Ok(Err(e)) => {
					self.violate(
						"C10",
						"C10-1 durable monitor does not deserialize",
						format!("node {} channel {}: {:?}", n, simcore::hex(&k[..4]), e),
					);
					self.dead = true;
					return true;
				},
				Err((m, l)) => {
					self.library_panic("Restart monitor read", m, l);
					return true;
				},
			}
		}
		let node = &self.nodes[n];
		let persister = Arc::new(SimPersister {
			disk: Arc::clone(&node.disk),
			keys: Arc::clone(&node.keys),
			broadcaster: Arc::clone(&node.broadcaster),
		});
		let monitor: Arc<SimChainMonitor> = Arc::new(ChainMonitor::new(
			Some(Arc::clone(&node.filter)),
			Arc::clone(&node.broadcaster),
			Arc::clone(&node.logger),
			Arc::clone(&node.fee),
			Arc::clone(&persister),
			Arc::clone(&node.keys),
			node.keys.get_peer_storage_key(),
			node.cfg.deferred,
		));
		let watch = Arc::new(WatchTap::new(Arc::clone(&monitor)));
		*watch.tools.lock().unwrap() =
			Some((Arc::clone(&node.keys), Arc::clone(&node.fee), Arc::clone(&node.logger)));
		watch.check_update_commutes.store(node.check_roundtrip, std::sync::atomic::Ordering::Relaxed);
		let mgr_bytes = match mgr_bytes {
			Some(b) => b,
			None => {
				self.harness_error(format!("node {} has no persisted manager", n));
				return true;
			},
		};
		let mon_refs: Vec<&ChannelMonitor<SimSigner>> = monitors.iter().map(|(_, m)| m).collect();
		let args = ChannelManagerReadArgs::new(
			Arc::clone(&node.keys),
			Arc::clone(&node.keys),
			Arc::clone(&node.keys),
			Arc::clone(&node.fee),
			Arc::clone(&watch),
			Arc::clone(&node.broadcaster),
			Arc::clone(&node.router),
			Arc::clone(&node.router),
			Arc::clone(&node.logger),
			node.user_cfg.clone(),
			mon_refs,
		);
		let r = catch(|| <(BlockLocator, SimManager)>::read(&mut &mgr_bytes[..], args));
		let manager = match r {
			Ok(Ok((_, m))) => Arc::new(m),
			Ok(Err(e)) => {
				self.violate(
					"C10",
					"C10-1 manager does not deserialize against its durable monitors",
					format!("node {}: {:?}", n, e),
				);
				self.dead = true;
				return true;
			},
			Err((m, l)) => {
				self.library_panic("Restart manager read", m, l);
				return true;
			},
		};
		// watch_channel for every loaded monitor
		for (cid, m) in monitors.into_iter() {
			let r = catch(|| monitor.watch_channel(cid, m));
			match r {
				Ok(Ok(_)) => {},
				Ok(Err(())) => {
					self.harness_error(format!("watch_channel failed on restart of node {}", n));
					return true;
				},
				Err((msg, l)) => {
					self.library_panic("Restart watch_channel", msg, l);
					return true;
				},
			}
		}
		self.nodes[n].live = Some(Live { manager, monitor, watch, persister });
		self.nodes[n].incarnation += 1;
		self.nodes[n].inherited_terminal = inherited;
		self.nodes[n].live_since_step = self.step;
		self.nodes[n].watch_cursor = 0;
		self.nodes[n].outdated_chans.clear();
		let lg = self.nodes[n].disk.lock().unwrap().loaded_generation;
		self.nodes[n].loaded_gens.push(lg);
		for p in self.pays.iter_mut() {
			if p.from == n && !p.ev.sent.is_empty() && p.ev.sent_gen.iter().all(|g| *g + 1 > lg) {
				p.sent_handling_lost = true;
			}
			if p.from == n && !p.ev.failed.is_empty() && p.ev.failed_gen.iter().all(|g| *g + 1 > lg) {
				p.failed_handling_lost = true;
			}
		}
		let closed = std::mem::take(&mut self.nodes[n].closed_this_incarnation);
		self.nodes[n].closed_in_earlier_incarnation.extend(closed);
		self.out.bump("probe:node_restarted");
		self.note(&format!("node {} restarted (incarnation {})", n, self.nodes[n].incarnation));
		// In deferred mode the watch_channel registrations above are only queued: checkpoint the
		// manager and flush them first, otherwise the monitors are not there to be synced.
		if self.nodes[n].cfg.deferred {
			self.do_persist_mgr(n);
			self.complete_all_monitor_writes(n);
		}
		// bring everything to the tip from its own best block
		self.sync_after_restart(n, style);
		// initial writes of the re-registered monitors complete, then checkpoint
		self.complete_all_monitor_writes(n);
		self.do_persist_mgr(n);
		self.after_node_action(n);
		self.oracle_after_restart(n);
		true
	}

	fn sync_after_restart(&mut self, n: usize, _style: u8) {
		let (mgr, mon) = match self.nodes[n].live.as_ref() {
			Some(l) => (Arc::clone(&l.manager), Arc::clone(&l.monitor)),
			None => return,
		};
		let tip = self.chain.tip_height();
		let bcast = Arc::clone(&self.nodes[n].broadcaster);
		let fee = Arc::clone(&self.nodes[n].fee);
		let logger = Arc::clone(&self.nodes[n].logger);
		// monitors individually
		for cid in mon.list_monitors() {
			let m = match mon.get_monitor(cid) {
				Ok(m) => m,
				Err(_) => continue,
			};
			let mut start = m.current_best_block().height;
			// The monitor may be on a block the chain no longer has (a reorganisation while the node
			// was down, or a monitor blob older than the reorganisation): as `chain::Confirm`
			// prescribes, un-confirm what sat in blocks that are gone, announce a best block below
			// the fork point (reorganisations are shallower than 6 blocks, T4), then connect forward.
			let best = m.current_best_block();
			let stale = best.height > tip || self.chain.block_at(best.height).header.block_hash() != best.block_hash;
			if stale {
				self.out.bump("probe:restart_sync_from_a_block_no_longer_in_the_chain");
				let on_chain: std::collections::HashSet<bitcoin::BlockHash> =
					(0..=tip).map(|h| self.chain.block_at(h).header.block_hash()).collect();
				// the exact fork point (the model remembers the headers of vanished blocks)
				let fork_h = self
					.chain
					.fork_height_of(&best.block_hash)
					.unwrap_or_else(|| best.height.min(tip).saturating_sub(5));
				let fork_header = self.chain.block_at(fork_h).header;
				let r = catch(|| {
					for (txid, _h, bh) in m.get_relevant_txids() {
						if let Some(bh) = bh {
							if !on_chain.contains(&bh) {
								m.transaction_unconfirmed(&txid, &bcast, &fee, &logger);
							}
						}
					}
					m.best_block_updated(&fork_header, fork_h, &bcast, &fee, &logger);
				});
				if let Err((msg, l)) = r {
					self.library_panic("Restart monitor sync", msg, l);
					return;
				}
				start = fork_h;
			}
			// A `chain::Confirm` client that announces the best block before the block's transactions
			// may have been persisted between the two calls: as such a client does after a restart
			// (it re-checks everything it watches, whatever the height), the transactions of the
			// last blocks up to the monitor's best block are offered again; the library skips what it
			// has seen.
			let first = start.saturating_sub(5).max(1);
			for h in first..=tip {
				let b = self.chain.block_at(h).clone();
				let txdata: Vec<(usize, &Transaction)> =
					b.txs.iter().enumerate().map(|(i, t)| (i + 1, t)).collect();
				let replayed = h <= start;
				let r = catch(|| {
					let mut outs = Vec::new();
					if !txdata.is_empty() {
						outs.extend(m.transactions_confirmed(&b.header, &txdata, h, &bcast, &fee, &logger));
					}
					if !replayed {
						outs.extend(m.best_block_updated(&b.header, h, &bcast, &fee, &logger));
					}
					outs
				});
				match r {
					Ok(outs) => {
						// what a ChainMonitor would do with newly watched outputs: tell the Filter
						use lightning::chain::Filter;
						for (txid, list) in outs {
							for (idx, script) in list {
								self.nodes[n].filter.register_output(lightning::chain::WatchedOutput {
									block_hash: None,
									outpoint: lightning::chain::transaction::OutPoint { txid, index: idx as u16 },
									script_pubkey: script.script_pubkey,
								});
							}
						}
					},
					Err((msg, l)) => {
						self.library_panic("Restart monitor sync", msg, l);
						return;
					},
				}
			}
		}
		let mut start = mgr.current_best_block().height;
		let best = mgr.current_best_block();
		if best.height > tip || self.chain.block_at(best.height).header.block_hash() != best.block_hash {
			use lightning::chain::Confirm;
			let on_chain: std::collections::HashSet<bitcoin::BlockHash> =
				(0..=tip).map(|h| self.chain.block_at(h).header.block_hash()).collect();
			let fork_h = self
				.chain
				.fork_height_of(&best.block_hash)
				.unwrap_or_else(|| best.height.min(tip).saturating_sub(5));
			let fork_header = self.chain.block_at(fork_h).header;
			let r = catch(|| {
				for (txid, _h, bh) in mgr.get_relevant_txids() {
					if let Some(bh) = bh {
						if !on_chain.contains(&bh) {
							mgr.transaction_unconfirmed(&txid);
						}
					}
				}
				mgr.best_block_updated(&fork_header, fork_h);
			});
			if let Err((msg, l)) = r {
				self.library_panic("Restart manager sync", msg, l);
				return;
			}
			start = fork_h;
		}
		let first = start.saturating_sub(5).max(1);
		for h in first..=tip {
			let b = self.chain.block_at(h).clone();
			let txdata: Vec<(usize, &Transaction)> =
				b.txs.iter().enumerate().map(|(i, t)| (i + 1, t)).collect();
			let replayed = h <= start;
			let r = catch(|| {
				if !txdata.is_empty() {
					mgr.transactions_confirmed(&b.header, &txdata, h);
				}
				if !replayed {
					mgr.best_block_updated(&b.header, h);
				}
			});
			if let Err((msg, l)) = r {
				self.library_panic("Restart manager sync", msg, l);
				return;
			}
		}
		self.nodes[n].synced_height = tip;
		self.nodes[n].live_since_height = tip;
		self.nodes[n].view = (0..=tip).map(|h| self.chain.block_at(h).header.block_hash()).collect();
		if self.nodes[n].check_styles {
			// a different delivery style after each restart
			self.nodes[n].style = (self.nodes[n].style + 1 + (self.nodes[n].incarnation as u8 % 3)) % crate::chainstyle::N_STYLES;
			self.make_shadows(n);
		}
	}
}

#[allow(dead_code)]
fn _status(_: ChannelMonitorUpdateStatus) {}
