#!/usr/bin/env python3
"""Regenerates /verif/MANIFEST.json from the table below (run from anywhere)."""
import json, os

V = os.path.dirname(os.path.dirname(os.path.abspath(__file__)))
TECH = "deterministic simulation with fault injection"

# property -> (engine, level category, level text, design ref, level note, technique detail)
CHECKS = {
    "C01": ("lnsim", "exploration",
        "Seeded simulation of 2-3 real LDK nodes (real ChannelManager/Channel/ChainMonitor/signer code); every commitment that reaches the signer seam is compared with an independent BOLT-2/3 wire-ledger model fed only by the messages on the wire (refinement), plus no-error/no-close, retransmission, cooperative-close and exact-send-limit oracles. Schedules are sampled, not enumerated.",
        "DESIGN.md §5 C01", "Trusted base: the wire-ledger model (written from the BOLT text), scheduler assumptions T1-T6, feature _test_utils.",
        "seeded schedule search, refinement against a reference wire ledger"),
    "C02": ("lnsim", "exploration",
        "Seeded simulation of a 3-node network with forwarding, async/deferred monitor persistence, crashes with stale manager snapshots and on-chain liquidation on a script-verifying chain model; forwarding-policy oracles at the message seam (also after the forwarding node changed its policy while senders mix the old and the new one), a dust-exposure oracle against the BOLT-3 reference ledger at every commitment_signed, and a conservation (wealth) oracle over the final UTXO set.",
        "DESIGN.md §5 C02", "Trusted base: chain/mempool model, wallet/sweep code of the harness, T1-T6; known findings listed in known_findings.json are reported, not failed.",
        "seeded schedule and crash search, conservation oracle over the recorded history"),
    "C03": ("lnsim", "exploration",
        "Same simulated world as C02; a per-payment reference record (what the recipient released, what left the sender) decides truthfulness, uniqueness and eventual delivery of PaymentSent/PaymentFailed across restarts.",
        "DESIGN.md §5 C03", "Trusted base: per-payment model, T1-T6; liveness is checked after faults stop (settle + liquidation), never while they flow.",
        "seeded schedule and crash search, exactly-once / truthfulness oracles over the event history"),
    "C04": ("lnsim", "exploration",
        "Recipient-side oracles over the simulated worlds, with sender-side flaws (wrong, reused or expired payment secret, under-payment, incomplete multi-part payment) and final-CLTV / claim-height boundaries: PaymentClaimable only for complete, authentic, registered payments with a claim window; preimage leaves the node only after claim_funds; PaymentClaimed truthful and all-or-nothing; claimed value owned on chain after liquidation.",
        "DESIGN.md §5 C04", "Trusted base: payment registry of the harness, T1-T6.",
        "seeded schedule search, recipient event/wire oracles"),
    "C05": ("lnsim", "exploration",
        "Every signer call and broadcast of every run is checked by a per-channel revocation automaton written from BOLT 2 (secret release only after a newer validated commitment, no use of revoked state, at most one unrevoked counterparty commitment, exact secrets in revoke_and_ack), across reconnects, force-closes and restarts.",
        "DESIGN.md §5 C05", "Trusted base: the automaton, the signer wrapper (delegates to LDK's TestChannelSigner), T1-T6.",
        "seeded schedule and crash search, safety automaton at the signer seam"),
    "C06": ("lnsim", "exploration",
        "A cheating node gets one of its archived revoked commitments mined (any age in the history, with seeded subsets of its second-stage HTLC transactions, after quiescence or in the middle of the traffic); the victim's real ChannelMonitor must broadcast consensus-valid justice transactions, re-issue them under confirmation delays, fee moves and shallow reorganisations until buried, and end owning every non-anchor output of the revoked commitment, also across monitor reloads. A second job enumerates the revoked-state index: one seeded history is replayed once per revoked commitment of either side of every channel.",
        "DESIGN.md §5 C06", "Trusted base: chain model (libbitcoinconsensus script verification), T1-T5; the cheater is harness code using LDK's test-only accessor for old commitment transactions.",
        "seeded history/fault search with a Byzantine peer, conservation oracle"),
    "C07": ("lnsim", "exploration",
        "Every transaction the real nodes hand to the broadcaster is verified by libbitcoinconsensus against the simulated UTXO set, with locktime/BIP68 finality, mempool/RBF rules and fee monotonicity checks; SpendableOutputs are swept with the node's own keys and balances must drain. A second simulator (blobsim/sweeper) runs the real OutputSweeper over a fault-injecting KV store, a reorganising chain and crashes at every store operation: tracked outputs are never lost or pruned early and are all swept once faults stop.",
        "DESIGN.md §5 C07", "Trusted base: chain/mempool model, T1-T5; LDK debug assertions in the claim machinery are treated as oracle failures.",
        "seeded schedule search over force-close points, block timing and fee changes; consensus-validity oracle"),
    "C08": ("lnsim", "exploration",
        "Discrete block-time simulation of HTLCs approaching expiry under withheld messages and stalled peers: the node must fail back or go on chain within its documented deadlines so that a forwarded HTLC is never lost, and never acts early.",
        "DESIGN.md §5 C08", "Trusted base: deadline model from the documented constants (CLTV_CLAIM_BUFFER, LATENCY_GRACE_PERIOD_BLOCKS, MIN_CLTV_EXPIRY_DELTA), T1-T3.",
        "seeded search over block timing and message withholding, deadline oracle"),
    "C09": ("lnsim", "exploration",
        "Simulated Persist returns InProgress/Completed per seeded pattern with completions in any order and delay (immediate and deferred ChainMonitor); the message seam is compared with the durable disk state at the instant each message is released.",
        "DESIGN.md §5 C09", "Trusted base: mapping from message kinds to the monitor update they depend on, T1-T6.",
        "seeded search over completion orders, ordering/durability oracle at the message seam"),
    "C10": ("lnsim", "fault_enumeration",
        "For recorded base scenarios every crash point (each Persist call of each node, write lost or surviving, and each action boundary) is replayed followed by restart and full resolution; plus seeded multi-crash runs with stale manager snapshots. All safety and conservation oracles stay armed after restart.",
        "DESIGN.md §5 C10", "Enumeration is over the crash points of sampled scenarios, not over all scenarios. Trusted base: disk model (durable = completed writes), T1-T6.",
        "crash-point enumeration over seeded scenarios plus seeded multi-crash search"),
    "C11": ("lnsim", "exploration",
        "Shadow ChannelMonitors cloned through serialisation receive the same chain in every other delivery style (Listen/Confirm variants, batching, reorg notification kinds) and must agree with the live monitor on best block, balances and watched transactions; reorgs up to depth 5; no SpendableOutputs before 6 confirmations.",
        "DESIGN.md §5 C11", "Trusted base: delivery-style drivers follow the documented Confirm/Listen ordering rules; T4 (reorg < ANTI_REORG_DELAY).",
        "seeded search over delivery styles and reorgs, cross-style agreement oracle"),
    "C12": ("lnsim", "exploration",
        "At seeded points of realistic runs every monitor, monitor update and the manager are written and read back and compared (LDK's own field-wise equality under hook H3), then read again through a fault-injecting reader (truncation, io errors, bit flips) which must fail cleanly; the reloaded manager keeps pending events with their completion actions, balances and limits. The network graph (gossipsim), ProbabilisticScorer / CombinedScorer under simulated time and the OutputSweeper under storage faults and crashes (blobsim) are written, read back, compared by observable state and driven on in lock-step.",
        "DESIGN.md §5 C12", "Trusted base: equality hook H3 (derived PartialEq of the monitor), harness comparison of manager-visible state.",
        "seeded state sampling with storage fault injection, round-trip oracle"),
    "C13": ("codecsim", "exploration",
        "Every peer message codec is driven through LDK's FixedLengthReader over a simulator-owned faulty byte stream (chunking, EOF/io::Error at any offset, mutations, TLV edits, inflated lengths) and compared with a structural model of the BOLT layouts; allocation bounded by a global allocator guard.",
        "DESIGN.md §5 C13", "Trusted base: structural layout model (msgs.rs/tlvmodel.rs of codecsim).",
        "seeded stream-fault search at the reader seam"),
    "C14": ("lnsim", "exploration",
        "Payments over lines of real nodes with failures injected at each hop and onion packets tampered in flight; the sender's decoded failure must name the node that failed and never a later one, and intermediate nodes learn nothing but their own hop data.",
        "DESIGN.md §5 C14", "Trusted base: the harness's view of which hop failed; T1-T3.",
        "seeded search over failing hop, failure kind and in-flight corruption"),
    "C15": ("transportsim", "exploration",
        "Real PeerManagers and PeerChannelEncryptor over simulator-owned byte pipes with fragmentation, back-pressure, cuts, bit flips, insert/delete/duplicate/replay and a raw adversary peer; delivered message sequences must be exact prefixes, tampering must end in disconnection, key rotation crossed repeatedly.",
        "DESIGN.md §5 C15", "Trusted base: pipe model and the adversary's own Noise implementation on top of LDK's encryptor (hook H4).",
        "seeded network-fault search at the socket seam"),
    "C17": ("gossipsim", "exploration",
        "Real NetworkGraph/P2PGossipSync receive authentic, stale, forged and duplicated gossip in seeded orders with asynchronous UTXO lookups, clock jumps (hook H2), pruning, RGS snapshots and persistence round trips; the graph must equal a small reference model and converge regardless of order.",
        "DESIGN.md §5 C17", "Trusted base: reference graph model, simulated clock.",
        "seeded delivery-order and clock search, refinement against a reference graph"),
    "C19": ("storesim+persistsim", "exploration",
        "(a) the real FilesystemStore/V2 under shuttle's controlled scheduler with fs faults and crashes, checked for per-key linearizability; (b,c) the real MonitorUpdatingPersister over a simulated atomic KV store with every crash state after every store operation recovered and compared with the in-memory monitor.",
        "DESIGN.md §5 C19", "Trusted base: tmpfs as the atomic rename/fsync model (no torn-write model below the fs API), KV model, equality hook H3.",
        "controlled thread scheduling (shuttle) plus crash-state enumeration per store operation"),
    "C20": ("blocksyncsim", "exploration",
        "Real SpvClient/ChainPoller/synchronize_listeners over a simulated, lying and failing BlockSource with simulator-owned future completion; listeners' connect/disconnect history must stay a valid walk of the real block tree and reach the best tip once faults stop; request index x fault kind enumerated for small scenarios.",
        "DESIGN.md §5 C20", "Trusted base: block-tree model and PoW-valid block generator.",
        "seeded source-fault search with partial fault-index enumeration"),
}

NOT_APPLICABLE = {
    "C16": "pure function of (graph, parameters): no schedule, clock, storage, peer or fault enters find_route's result; deterministic simulation has nothing to decide (DESIGN.md §6)",
    "C18": "pure parse/serialise/verify of complete in-memory strings and byte vectors: no stream, time, storage or second party (DESIGN.md §6)",
}

# properties whose check is not (yet) registered: reason
NOT_BUILT = {}


def main():
    import subprocess
    plans = subprocess.run(["grep", "-o", '"C[0-9][0-9]" => Plan', os.path.join(V, "sim/verif-bin/src/plans.rs")],
                           capture_output=True, text=True).stdout
    have = sorted(set(x[1:4] for x in plans.split("\n") if x))
    checks = []
    na = []
    for i in range(1, 21):
        pid = "C%02d" % i
        if pid in NOT_APPLICABLE:
            na.append({"property_id": pid, "reason": NOT_APPLICABLE[pid]})
            continue
        if pid not in have or pid in NOT_BUILT:
            na.append({"property_id": pid, "reason": NOT_BUILT.get(pid, "no check registered: the simulation profile for this property was not completed in this round (DESIGN.md §9)")})
            continue
        eng, cat, text, ref, note, tech = CHECKS[pid]
        checks.append({
            "property_id": pid,
            "quick_cmd": "./check %s quick" % pid,
            "thorough_cmd": "./check %s thorough" % pid,
            "evidence_file": "/verif/evidence/%s.json" % pid,
            "replay_cmd_template": "./check replay {path}",
            "engine": eng,
            "level_claimed": {"category": cat, "text": text, "design_ref": ref},
            "level_note": note + " Seeded sampling: a clean batch is evidence, not proof.",
            "technique": "%s (%s)" % (TECH, tech),
        })
    served = lambda e: [c["property_id"] for c in checks if e in c["engine"]]
    m = {
        "version": 1,
        "setup_cmd": "cd /verif && ./check --build-only",
        "hooks": {
            "guard": "ldk_verif",
            "enable": "RUSTFLAGS=\"--cfg ldk_verif\" (set in /verif/sim/.cargo/config.toml and /verif/sim-store/.cargo/config.toml; cfg declared in /repo/Cargo.toml check-cfg list)",
            "baseline_off_cmd": "cd /repo && cargo nextest run --workspace --no-fail-fast --offline --test-threads 8",
            "source_commits": ["d85b81c", "9310919", "a7eb0e1", "a6088b8", "862268d"],
            "add_only": False,
        },
        "engines": [
            {"name": "lnsim", "path": "/verif/sim/lnsim", "serves_properties": served("lnsim"),
             "kind_free_text": "deterministic multi-node simulation of real ChannelManager/ChainMonitor/ChannelMonitor code with simulator-owned transport, persistence, chain, clock, signer seam and crashes"},
            {"name": "transportsim", "path": "/verif/sim/transportsim", "serves_properties": served("transportsim"),
             "kind_free_text": "real PeerManager/PeerChannelEncryptor over simulated byte pipes"},
            {"name": "codecsim", "path": "/verif/sim/codecsim", "serves_properties": served("codecsim"),
             "kind_free_text": "wire codecs over a fault-injecting reader"},
            {"name": "gossipsim", "path": "/verif/sim/gossipsim", "serves_properties": served("gossipsim"),
             "kind_free_text": "real NetworkGraph/P2PGossipSync under seeded gossip delivery, clock and UTXO-lookup completion"},
            {"name": "blocksyncsim", "path": "/verif/sim/blocksyncsim", "serves_properties": served("blocksyncsim"),
             "kind_free_text": "real lightning-block-sync over a simulated lying/failing block source"},
            {"name": "persistsim", "path": "/verif/sim/persistsim", "serves_properties": served("persistsim"),
             "kind_free_text": "real MonitorUpdatingPersister over a simulated KV store with crash-state enumeration"},
            {"name": "storesim", "path": "/verif/sim-store/storesim", "serves_properties": served("storesim"),
             "kind_free_text": "real FilesystemStore/FilesystemStoreV2 under shuttle's controlled scheduler with fs fault injection (hook H5)"},
            {"name": "simcore", "path": "/verif/sim/simcore", "serves_properties": [c["property_id"] for c in checks],
             "kind_free_text": "seeded PRNG, multi-process runner, ddmin trace shrinker, replay confirmation, evidence writer, known-findings matcher"},
        ],
        "checks": checks,
        "notes": "See DESIGN.md. Every check rebuilds the simulators against /repo's working tree with --cfg ldk_verif. Hooks are not add-only: four cfg attribute lines were edited (two in util/hash_tables.rs by d85b81c, two in ln/mod.rs by 9310919; with the guard off they evaluate exactly as before); everything else is added code. Genuine defects found are in known_findings.json (six repaired by 'fix:' commits 556a3e8, 6653b1e, 88559a8, 47414f7, 22b471b, a275ace; the others are listed there and printed as KNOWN-FINDING).",
        "not_applicable": na,
    }
    json.dump(m, open(os.path.join(V, "MANIFEST.json"), "w"), indent=1, ensure_ascii=False)
    print("checks:", [c["property_id"] for c in checks])
    print("not_applicable:", [n["property_id"] for n in na])


if __name__ == "__main__":
    main()
