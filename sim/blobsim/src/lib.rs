//! blobsim: scorer and output-sweeper state under simulated time, storage faults and crashes
//! (properties C12 and C07, see SPEC.md). Two profiles: `scorer` and `sweeper`.

pub mod scorer;
pub mod sweeper;

use serde_json::Value;
use simcore::{Rng, RunOutcome, Sim, Tier};

pub struct BlobSim;

pub const PROFILES: &[&str] = &["scorer", "sweeper"];

fn bad(msg: String) -> RunOutcome {
	let mut o = RunOutcome::default();
	o.harness_errors.push(msg);
	o
}

impl Sim for BlobSim {
	fn name(&self) -> &'static str {
		"blobsim"
	}

	fn run(&self, profile: &str, seed: u64, tier: Tier) -> RunOutcome {
		let mut rng = Rng::new(seed);
		let mut out = match profile {
			"scorer" => {
				let cfg = scorer::gen_config(&mut rng, tier);
				let mut sched = rng.fork("schedule");
				let mut w = scorer::World::new(cfg);
				let mut idle = 0;
				while !w.dead && w.step < w.cfg.max_steps && idle < 100 {
					let a = scorer::next_action(&w, &mut sched);
					if w.apply(&a) {
						idle = 0;
					} else {
						idle += 1;
					}
				}
				w.finish()
			},
			"sweeper" => {
				let cfg = sweeper::gen_config(&mut rng, tier);
				let mut sched = rng.fork("schedule");
				let mut w = sweeper::World::new(cfg);
				let mut idle = 0;
				while !w.dead && w.step < w.cfg.max_steps && idle < 100 {
					let a = sweeper::next_action(&w, &mut sched);
					if w.apply(&a) {
						idle = 0;
					} else {
						idle += 1;
					}
				}
				w.finish(true)
			},
			_ => return bad(format!("blobsim: unknown profile {:?}", profile)),
		};
		out.seed = seed;
		out.profile = profile.to_string();
		out
	}

	fn replay(&self, replay: &Value) -> RunOutcome {
		let profile = replay["profile"].as_str().unwrap_or("");
		let mut out = match profile {
			"scorer" => {
				let cfg: scorer::Config = match serde_json::from_value(replay["config"].clone()) {
					Ok(c) => c,
					Err(e) => return bad(format!("bad replay config: {}", e)),
				};
				let trace: Vec<scorer::Action> = match serde_json::from_value(replay["trace"].clone()) {
					Ok(t) => t,
					Err(e) => return bad(format!("bad replay trace: {}", e)),
				};
				if cfg.n_nodes < 2
					|| cfg.n_nodes > 64 || cfg.chans.len() > 256
					|| cfg.chans.iter().any(|c| c.a >= cfg.n_nodes || c.b >= cfg.n_nodes || c.a == c.b)
				{
					return bad("bad replay config: inconsistent graph".into());
				}
				let mut w = scorer::World::new(cfg);
				for a in trace.iter() {
					if w.dead {
						break;
					}
					w.apply(a);
				}
				w.finish()
			},
			"sweeper" => {
				let cfg: sweeper::Config = match serde_json::from_value(replay["config"].clone()) {
					Ok(c) => c,
					Err(e) => return bad(format!("bad replay config: {}", e)),
				};
				let trace: Vec<sweeper::Action> = match serde_json::from_value(replay["trace"].clone()) {
					Ok(t) => t,
					Err(e) => return bad(format!("bad replay trace: {}", e)),
				};
				let mut w = sweeper::World::new(cfg);
				for a in trace.iter() {
					if w.dead {
						break;
					}
					w.apply(a);
				}
				// the liveness epilogue is part of the recorded trace (Settle actions), not re-generated
				w.finish(false)
			},
			_ => return bad(format!("blobsim: unknown replay profile {:?}", profile)),
		};
		out.profile = profile.to_string();
		out
	}

	fn components(&self) -> (Vec<String>, Vec<String>) {
		(
			vec![
				"routing::scoring::{ProbabilisticScorer, ChannelLiquidities, CombinedScorer} (ScoreUpdate, ScoreLookUp, the liquidity/probability queries, Writeable/ReadableArgs/Readable, merge)".into(),
				"routing::gossip::NetworkGraph (update_channel_from_unsigned_announcement, update_channel_unsigned, channel_failed_permanent, DirectedChannelInfo/EffectiveCapacity)".into(),
				"util::sweep::OutputSweeperSync / OutputSweeper (track_spendable_outputs, regenerate_and_broadcast_spend_if_necessary, Listen, ReadableArgs, persistence through KVStoreSyncWrapper)".into(),
				"sign::KeysManager as OutputSpender (spend_spendable_outputs: PSBT construction, fee/weight, StaticOutput signing) and its destination script".into(),
				"chain::BlockLocator".into(),
				"util::verif simulated wall clock (hook H2), deterministic hashing (hook H1)".into(),
			],
			vec![
				"KVStoreSync (SimKv: one map, per-write injected errors that take effect or not, crash = drop the sweeper and rebuild from the map)".into(),
				"the chain (SimChain: headers with real hash linkage, blocks carrying sweep transactions, reorganisations)".into(),
				"BroadcasterInterface (records every sweep), FeeEstimator (a knob), ChangeDestinationSourceSync (fresh p2wpkh-shaped scripts), Filter (none)".into(),
				"the gossip network (node keys, channels, unsigned announcements/updates built by the simulator), UtxoLookup (answers with the configured capacity)".into(),
				"payment/probe results, wall clock, Logger (sink)".into(),
			],
		)
	}
}

#[cfg(test)]
mod tests {
	use super::*;
	use simcore::runner::run_isolated;

	#[test]
	fn seeds_are_clean_and_repeatable() {
		for profile in PROFILES {
			for seed in 0..30u64 {
				let a = run_isolated(|| BlobSim.run(profile, simcore::mix(5, seed), Tier::Quick));
				let b = run_isolated(|| BlobSim.run(profile, simcore::mix(5, seed), Tier::Quick));
				assert!(a.violations.is_empty(), "{} {}: {:?}", profile, seed, a.violations);
				assert!(a.harness_errors.is_empty(), "{} {}: {:?}", profile, seed, a.harness_errors);
				assert_eq!(a.history_fp, b.history_fp);
			}
		}
	}
}
