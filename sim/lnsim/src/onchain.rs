//! On-chain side of the world: wallets for anchor bumps, sweeping of SpendableOutputs, the
//! liquidation procedure (close everything, mine until every monitor has drained) and the wealth
//! oracle ("everyone ends up with at least what the library told them").

use crate::chain::Admit;
use crate::world::*;
use bitcoin::secp256k1::Secp256k1;
use bitcoin::{Amount, ScriptBuf, Transaction, TxOut};
use lightning::chain::channelmonitor::Balance;
use lightning::events::Event;
use lightning::sign::{OutputSpender, SignerProvider, SpendableOutputDescriptor};
use lightning::util::wallet_utils::WalletSourceSync;
use simcore::runner::catch;
use std::collections::BTreeSet;

pub const WALLET_UTXOS: u32 = 12;
pub const WALLET_UTXO_SAT: u64 = 60_000;

#[derive(Clone)]
pub struct PendingSweep {
	pub desc: SpendableOutputDescriptor,
	pub outpoint: bitcoin::OutPoint,
	pub value_sat: u64,
	pub first_seen_height: u32,
}

impl World {
	pub fn seed_wallets(&mut self) {
		for n in 0..self.nodes.len() {
			let script = self.nodes[n].wallet.get_change_script().unwrap();
			let tx = Transaction {
				version: bitcoin::transaction::Version(1000 + n as i32),
				lock_time: bitcoin::absolute::LockTime::ZERO,
				input: Vec::new(),
				output: (0..WALLET_UTXOS)
					.map(|_| TxOut { value: Amount::from_sat(WALLET_UTXO_SAT), script_pubkey: script.clone() })
					.collect(),
			};
			self.chain.mine_setup_tx(tx);
		}
		self.resync_wallets();
	}

	/// The wallet sees exactly the confirmed unspent outputs paying its script.
	pub fn resync_wallets(&mut self) {
		for n in 0..self.nodes.len() {
			let script = self.nodes[n].wallet.get_change_script().unwrap();
			self.nodes[n].wallet.clear_utxos();
			let mut mine: Vec<(bitcoin::OutPoint, u32)> = self
				.chain
				.utxos
				.iter()
				.filter(|(_, u)| u.out.script_pubkey == script)
				.map(|(o, u)| (*o, u.height))
				.collect();
			mine.sort();
			for (op, _) in mine {
				// outputs still spent by a mempool transaction of ours are not offered again
				if self.chain.mempool.iter().any(|m| m.input.iter().any(|i| i.previous_output == op)) {
					continue;
				}
				if let Some(prev) = self.chain.all_txs.get(&op.txid) {
					self.nodes[n].wallet.add_utxo(prev.clone(), op.vout);
				}
			}
		}
	}

	pub fn node_scripts(&self, n: usize) -> Vec<ScriptBuf> {
		let k = &self.nodes[n].keys;
		let mut v = vec![self.nodes[n].wallet.get_change_script().unwrap()];
		if let Ok(s) = k.get_destination_script([0; 32]) {
			v.push(s);
		}
		if let Ok(s) = k.get_shutdown_scriptpubkey() {
			v.push(s.into_inner());
		}
		v
	}

	pub fn on_chain_event(&mut self, n: usize, e: Event) {
		match e {
			Event::BumpTransaction(b) => {
				self.out.bump("probe:bump_transaction_event");
				// C07-5: the feerate requested for one claim never goes down
				let (cid, rate) = match &b {
					lightning::events::bump_transaction::BumpTransactionEvent::ChannelClose {
						claim_id,
						package_target_feerate_sat_per_1000_weight,
						..
					} => (claim_id.0, *package_target_feerate_sat_per_1000_weight),
					lightning::events::bump_transaction::BumpTransactionEvent::HTLCResolution {
						claim_id,
						target_feerate_sat_per_1000_weight,
						..
					} => (claim_id.0, *target_feerate_sat_per_1000_weight),
				};
				self.out.bump("oracle:C07-5 bump events never ask for a lower feerate");
				if let Some(old) = self.oracle.last_bump_rate.get(&(n, cid)).cloned() {
					if rate > old {
						self.out.bump("probe:bump_event_feerate_raised");
					}
					if rate < old {
						self.violate(
							"C07",
							"C07-5 bump event asks for a lower feerate than before",
							format!(
								"node {} claim {}: BumpTransaction event targets {} sat/kw after {} sat/kw",
								n,
								simcore::hex(&cid[..6]),
								rate,
								old
							),
						);
					}
				}
				self.oracle.last_bump_rate.insert((n, cid), rate);
				let r = catch(|| self.nodes[n].bump.handle_event(&b));
				if let Err((m, l)) = r {
					self.library_panic("BumpTransaction", m, l);
				}
			},
			Event::SpendableOutputs { outputs, .. } => {
				let h = self.chain.tip_height();
				for d in outputs {
					let (op, v) = match &d {
						SpendableOutputDescriptor::StaticOutput { outpoint, output, .. } => {
							(outpoint.into_bitcoin_outpoint(), output.value.to_sat())
						},
						SpendableOutputDescriptor::DelayedPaymentOutput(x) => {
							(x.outpoint.into_bitcoin_outpoint(), x.output.value.to_sat())
						},
						SpendableOutputDescriptor::StaticPaymentOutput(x) => {
							(x.outpoint.into_bitcoin_outpoint(), x.output.value.to_sat())
						},
					};
					self.out.bump("probe:spendable_output_announced");
					if self.nodes[n].sweeps.iter().any(|s| s.outpoint == op) {
						continue;
					}
					self.oracle_on_spendable(n, op, v);
					self.nodes[n].sweeps.push(PendingSweep { desc: d, outpoint: op, value_sat: v, first_seen_height: h });
				}
			},
			_ => {},
		}
	}

	/// C11-2: spendable outputs are announced only once buried by the anti-reorg depth.
	fn oracle_on_spendable(&mut self, n: usize, op: bitcoin::OutPoint, value: u64) {
		self.out.bump("oracle:C11-2 SpendableOutputs only when buried");
		let conf = self.chain.confirmations(&op.txid);
		if conf < 6 && !self.nodes_restarted_recently(n) {
			self.violate(
				"C11",
				"C11-2 SpendableOutputs before the anti-reorg depth",
				format!("node {} told output {} ({} sat) is spendable with only {} confirmations", n, op, value, conf),
			);
		}
		match self.chain.utxos.get(&op) {
			Some(u) => {
				if u.out.value.to_sat() != value {
					self.violate(
						"C07",
						"C07-4 SpendableOutputs value differs from the chain",
						format!("node {} output {}: descriptor says {} sat, chain says {}", n, op, value, u.out.value.to_sat()),
					);
				}
			},
			None => {
				// already spent by someone else would be a lost race; never confirmed is wrong
				if !self.chain.confirmed.contains_key(&op.txid) {
					self.violate(
						"C07",
						"C07-4 SpendableOutputs for an output that is not on chain",
						format!("node {} output {}", n, op),
					);
				}
			},
		}
	}

	fn nodes_restarted_recently(&self, _n: usize) -> bool {
		false
	}

	/// Tries to sweep every announced spendable output into the node's wallet (one transaction
	/// per descriptor so that a CSV-locked one does not hold the others back).
	pub fn do_sweep(&mut self, n: usize) -> bool {
		let pend = self.nodes[n].sweeps.clone();
		if pend.is_empty() {
			return false;
		}
		let dest = self.nodes[n].wallet.get_change_script().unwrap();
		let secp = Secp256k1::new();
		let mut any = false;
		// C07-4: what can be spent one by one can also be spent in one transaction (an application
		// or OutputSweeper batches every pending descriptor); the batch is only built and checked,
		// the simulated user still sweeps one output per transaction
		let unspent: Vec<PendingSweep> =
			pend.iter().filter(|s| self.chain.utxos.contains_key(&s.outpoint)).cloned().collect();
		if unspent.len() >= 2 && !self.batch_sweep_checked.contains(&(n, unspent.len(), unspent[0].outpoint)) {
			self.batch_sweep_checked.insert((n, unspent.len(), unspent[0].outpoint));
			let keys = self.nodes[n].keys.clone();
			let descs: Vec<&SpendableOutputDescriptor> = unspent.iter().map(|s| &s.desc).collect();
			self.out.bump("oracle:C07-4 pending outputs can be swept in one transaction");
			let batch = catch(|| keys.km.spend_spendable_outputs(&descs, Vec::new(), dest.clone(), 253, None, &secp));
			let total: u64 = unspent.iter().map(|s| s.value_sat).sum();
			match batch {
				Ok(Ok(tx)) => {
					// scripts must verify against the real previous outputs
					let prev = |op: &bitcoin::OutPoint| self.chain.utxos.get(op).map(|u| u.out.clone());
					if let Err(e) = tx.verify(prev) {
						self.violate(
							"C07",
							"C07-4 SpendableOutputs descriptor cannot be spent by the node's keys",
							format!("node {} batch sweep of {} outputs fails script verification: {:?}", n, unspent.len(), e),
						);
					}
				},
				Ok(Err(())) => {
					let each_ok = unspent.iter().all(|s| {
						catch(|| keys.km.spend_spendable_outputs(&[&s.desc], Vec::new(), dest.clone(), 253, None, &secp))
							.map(|r| r.is_ok())
							.unwrap_or(false)
					});
					if each_ok && total > 2000 {
						self.violate(
							"C07",
							"C07-4 SpendableOutputs descriptor cannot be spent by the node's keys",
							format!(
								"node {}: spend_spendable_outputs fails for its {} pending outputs together ({} sat) although each can be spent on its own",
								n,
								unspent.len(),
								total
							),
						);
					}
				},
				Err((m, l)) => {
					self.library_panic("Sweep", m, l);
					return true;
				},
			}
		}
		for s in pend {
			// done already?
			if !self.chain.utxos.contains_key(&s.outpoint) {
				if self.chain.confirmed.contains_key(&s.outpoint.txid) {
					self.nodes[n].sweeps.retain(|x| x.outpoint != s.outpoint);
				}
				continue;
			}
			if self.chain.mempool.iter().any(|m| m.input.iter().any(|i| i.previous_output == s.outpoint)) {
				continue;
			}
			let keys = self.nodes[n].keys.clone();
			let r = catch(|| {
				keys.km.spend_spendable_outputs(&[&s.desc], Vec::new(), dest.clone(), 253, None, &secp)
			});
			match r {
				Ok(Ok(tx)) => {
					let adm = self.chain.admit(&tx, false);
					self.out.bump(&format!("sweep:{}", admit_name(&adm)));
					match adm {
						Admit::Accepted | Admit::Replaced(_) | Admit::AlreadyKnown => {
							any = true;
						},
						Admit::NonFinal(_) => {
							// the delayed output has not matured yet: the user simply waits
						},
						Admit::ScriptFail(e) => self.violate(
							"C07",
							"C07-4 SpendableOutputs descriptor cannot be spent by the node's keys",
							format!("node {} output {}: {}", n, s.outpoint, e),
						),
						Admit::NegativeFee(e) | Admit::Policy(e) | Admit::MissingOrSpent(e) => {
							self.note(&format!("node {} sweep of {} not admitted: {}", n, s.outpoint, e));
							if s.value_sat < 1000 {
								// too small to pay for its own sweep: forfeited to fees
								self.nodes[n].sweeps.retain(|x| x.outpoint != s.outpoint);
								self.nodes[n].unsweepable_sat += s.value_sat;
							}
						},
					}
				},
				Ok(Err(())) => {
					if s.value_sat < 1000 {
						self.nodes[n].sweeps.retain(|x| x.outpoint != s.outpoint);
						self.nodes[n].unsweepable_sat += s.value_sat;
					} else {
						self.violate(
							"C07",
							"C07-4 SpendableOutputs descriptor cannot be spent by the node's keys",
							format!("node {} output {} ({} sat): spend_spendable_outputs failed", n, s.outpoint, s.value_sat),
						);
						self.nodes[n].sweeps.retain(|x| x.outpoint != s.outpoint);
					}
				},
				Err((m, l)) => {
					self.library_panic("Sweep", m, l);
					return true;
				},
			}
		}
		any
	}

	pub fn claimable_balances(&self, n: usize) -> Vec<Balance> {
		if self.dead {
			// the run ended with a library panic: locks may be poisoned
			return Vec::new();
		}
		match self.nodes[n].live.as_ref() {
			Some(l) => catch(|| l.monitor.get_claimable_balances(&[])).unwrap_or_default(),
			None => Vec::new(),
		}
	}

	/// After the settle phase: close whatever is still open and run the chain until every
	/// monitor has drained and every spendable output is swept.
	pub fn liquidate(&mut self) {
		if self.dead {
			return;
		}
		self.in_settle = true;
		let n_nodes = self.nodes.len();
		for n in 0..n_nodes {
			self.nodes[n].disk.lock().unwrap().crash_at = None;
			if self.nodes[n].live.is_none() {
				self.do_restart(n, 0);
			}
		}
		// T6: the application only force-closes once the channel's monitor is durable (chain/mod.rs:
		// force_close_broadcasting_latest_txn on a monitor that only exists in memory "may result
		// in loss of funds")
		for n in 0..n_nodes {
			// (the ChannelManager must also have been told: a completion it has not processed yet
			// leaves the channel "update in progress" as far as force_shutdown is concerned)
			self.complete_all_monitor_writes(n);
			self.do_pump(n);
			self.complete_all_monitor_writes(n);
			self.do_persist_mgr(n);
			self.complete_all_monitor_writes(n);
		}
		// close every channel still open, alternating the closing side
		for ci in 0..self.chans.len() {
			let mut closer = if ci % 2 == 0 { self.chans[ci].a } else { self.chans[ci].b };
			if self.nodes[closer].live.is_none() {
				closer = if closer == self.chans[ci].a { self.chans[ci].b } else { self.chans[ci].a };
			}
			let cid = self.chans[ci].channel_id;
			let open = self
				.mgr(closer)
				.map(|m| m.list_channels().iter().any(|d| d.channel_id == cid))
				.unwrap_or(false);
			if open {
				self.do_force_close(closer, ci);
			}
		}
		let mut idle_blocks = 0u32;
		let start_height = self.chain.tip_height();
		let mut last_activity_height = start_height;
		for _round in 0..2500 {
			if self.dead {
				break;
			}
			let mut activity = false;
			let hold = self.liq_round_faults(_round as u32);
			activity |= self.cheater_push();
			for n in 0..n_nodes {
				activity |= self.complete_all_monitor_writes(n);
				self.do_persist_mgr(n);
				activity |= self.complete_all_monitor_writes(n);
				activity |= self.do_pump(n);
			}
			let keys: Vec<(usize, usize)> = self.queues.keys().cloned().collect();
			for (f, t) in keys {
				while self.do_deliver(f, t) {
					activity = true;
				}
			}
			for n in 0..n_nodes {
				activity |= self.do_drain(n);
				self.do_forward(n);
				activity |= self.do_relay(n);
				activity |= self.do_sweep(n);
			}
			let pending_mempool = !self.chain.mempool.is_empty();
			// how far to jump: one block while something is in flight, else skip ahead
			let balances_left: usize = (0..n_nodes).map(|n| self.claimable_balances(n).len()).sum();
			let sweeps_left: usize = self.nodes.iter().map(|x| x.sweeps.len()).sum();
			if !activity && !pending_mempool && balances_left == 0 && sweeps_left == 0 {
				idle_blocks += 1;
				if idle_blocks >= 3 {
					break;
				}
			} else {
				idle_blocks = 0;
			}
			if activity || pending_mempool {
				last_activity_height = self.chain.tip_height();
			}
			let jump = if activity || pending_mempool {
				1
			} else if self.chain.tip_height() - last_activity_height > 12 {
				6
			} else {
				1
			};
			if hold {
				self.chain.mine_empty(1);
				self.clock += 600;
				self.out.sim_blocks += 1;
			} else {
				self.do_mine(jump);
			}
			for n in 0..n_nodes {
				self.do_sync(n, 255);
			}
			if self.chain.tip_height() - start_height > 3000 {
				break;
			}
			if _round % 20 == 19 {
				for n in 0..n_nodes {
					if let Some(l) = self.nodes[n].live.as_ref() {
						let mon = l.monitor.clone();
						let _ = catch(|| mon.rebroadcast_pending_claims());
					}
					self.do_tick(n);
				}
			}
		}
		self.in_settle = false;
		self.note(&format!("liquidated at height {}", self.chain.tip_height()));
		self.out.bump("probe:liquidation_completed");
	}

	/// Wealth oracle (C02-6 / C03 / C04-5 / C07-2 / C10-3). Every node must own on chain at least
	/// its opening funds plus everything the library *told* it (PaymentClaimed, PaymentForwarded
	/// fees) minus everything it was told it paid (PaymentSent), up to on-chain fees and dust.
	pub fn wealth_oracle(&mut self, props: &[&str]) {
		if self.dead {
			return;
		}
		let n_nodes = self.nodes.len();
		// drained?
		for n in 0..n_nodes {
			let bals = self.claimable_balances(n);
			self.out.bump("oracle:C07-4 claimable balances drain to nothing");
			if !bals.is_empty() {
				// outputs too small to pay for their own claim at the minimum relay fee stay listed
				let total: u64 = bals.iter().map(|b| b.claimable_amount_satoshis()).filter(|v| *v >= 1000).sum();
				if total > 0 {
					self.violate(
						"C07",
						"C07-4 claimable balances do not drain",
						format!("node {} still reports {:?} after liquidation", n, bals),
					);
				}
			}
		}
		let script_values = self.chain.total_utxo_value_by_script();
		// on-chain fees of every confirmed non-setup transaction, and which channels they touch
		let mut chan_fees = vec![0u64; self.chans.len()];
		let mut other_fees = 0u64;
		let mut origin: std::collections::HashMap<bitcoin::Txid, BTreeSet<usize>> = Default::default();
		for h in 0..=self.chain.tip_height() {
			let b = self.chain.block_at(h).clone();
			for tx in b.txs.iter() {
				let txid = tx.compute_txid();
				if self.chain.setup_txids.contains(&txid) {
					for (ci, c) in self.chans.iter().enumerate() {
						if c.funding.txid == txid {
							origin.entry(txid).or_default().insert(ci);
						}
					}
					continue;
				}
				let mut set = BTreeSet::new();
				for i in tx.input.iter() {
					if let Some(s) = origin.get(&i.previous_output.txid) {
						set.extend(s.iter().cloned());
					}
				}
				let fee = self.chain.fee_of(tx).unwrap_or(0).max(0) as u64;
				if set.is_empty() {
					other_fees += fee;
				}
				for ci in set.iter() {
					chan_fees[*ci] += fee;
				}
				origin.insert(txid, set);
			}
		}
		let _ = other_fees;
		for n in 0..n_nodes {
			if self.cheat.as_ref().map(|c| c.cheater == n).unwrap_or(false) || self.nodes[n].gone {
				// the cheater forfeits its channel balance
				continue;
			}
			self.out.bump("oracle:wealth each node owns what it was told");
			let scripts = self.node_scripts(n);
			let mut owned: u64 = 0;
			for s in scripts.iter() {
				owned += script_values.get(&s.to_bytes()).cloned().unwrap_or(0);
			}
			owned += self.nodes[n].sweeps.iter().map(|s| s.value_sat).sum::<u64>();
			// opening funds
			let mut expect_msat: i128 = (WALLET_UTXOS as u64 * WALLET_UTXO_SAT * 1000) as i128;
			for c in self.chans.iter() {
				if c.a == n {
					expect_msat += (c.value_sat * 1000 - c.push_msat) as i128;
				}
				if c.b == n {
					expect_msat += c.push_msat as i128;
				}
			}
			let mut dust_allow_msat: u64 = 0;
			for p in self.pays.iter() {
				let small = p.paths.iter().any(|x| x.hop_amts.iter().any(|a| *a < 2_000_000));
				let involved = p.from == n || p.to == n || p.paths.iter().any(|x| x.nodes.contains(&n));
				if small && involved {
					dust_allow_msat += p.paths.iter().map(|x| x.hop_amts[0]).sum::<u64>();
					continue;
				}
				if p.from == n {
					if let Some(s) = p.ev.sent.first() {
						if p.rehydrated {
							// the event's numbers are known to be unreliable here (reported under
							// C03-4); use what really left on the first hops
							expect_msat -= p.paths.iter().map(|x| x.hop_amts[0]).sum::<u64>() as i128;
						} else {
							expect_msat -= (s.3 + s.2.unwrap_or(0)) as i128;
						}
					}
				}
				if p.to == n {
					if let Some(c) = p.ev.claimed.first() {
						expect_msat += c.1 as i128;
					}
				}
			}
			expect_msat += self.nodes[n].forward_fees_told_msat as i128;
			let mut fee_allow: u64 = 0;
			for (ci, c) in self.chans.iter().enumerate() {
				if c.a == n || c.b == n {
					fee_allow += chan_fees[ci] + 10 + 660;
				}
			}
			fee_allow += self.nodes[n].unsweepable_sat;
			let floor_sat = (expect_msat / 1000) - fee_allow as i128 - (dust_allow_msat / 1000) as i128 - 5;
			self.note(&format!(
				"wealth node {}: owns {} sat, told {} sat, fee allowance {}, dust allowance {} msat",
				n,
				owned,
				expect_msat / 1000,
				fee_allow,
				dust_allow_msat
			));
			if (owned as i128) < floor_sat {
				let mut prop = self.loss_property(n, props);
				let mut oracle = format!("{}-W node ends with less than the library told it", prop);
				// the recipient failed a payment back, restarted from a ChannelManager snapshot older
				// than that decision, was offered the payment again and claimed it
				let refailed: Vec<usize> = self
					.pays
					.iter()
					.filter(|p| p.to == n && !p.ev.claimed.is_empty())
					.filter(|p| matches!((p.fail_called, p.claim_called), (Some(f), Some(c)) if f < c))
					.map(|p| p.idx)
					.collect();
				let mut ctx = String::new();
				if !refailed.is_empty() {
					prop = "C04";
					oracle = "C04-W PaymentClaimed for a payment that had already been failed back".to_string();
					ctx = format!(
						" [pay {:?}: fail_htlc_backwards was called, the node restarted from a ChannelManager snapshot older than that call, PaymentClaimable was shown again, claim_funds produced PaymentClaimed although the HTLC had been removed]",
						refailed
					);
				}
				if self.revoked_after_broadcast.contains(&n) && refailed.is_empty() {
					ctx = " [consequence of C05-2: this node revoked a commitment it had already broadcast (the ChannelForceClosed update was lost in a crash and the restarted node resumed the channel); the commitment confirmed and the peer took the funds with justice transactions]".to_string();
				}
				if ctx.is_empty() {
					let stranded: Vec<usize> = self
						.broadcast_on_lost_state
						.iter()
						.filter(|(node, _)| *node == n)
						.map(|(_, ci)| *ci)
						.filter(|ci| {
							let seen = self.nodes[n].broadcaster.first_seen.lock().unwrap();
							self.chain
								.confirmed_spender(&self.chans[*ci].funding)
								.map_or(false, |(_, tx)| seen.contains_key(&tx.compute_txid()))
						})
						.collect();
					if !stranded.is_empty() {
						ctx = format!(
							" [channel {:?}: this node's own commitment confirmed, but it had been broadcast from ChannelMonitor state whose writes were still InProgress when the node crashed; the restarted monitor predates that commitment and does not recover its outputs]",
							stranded
						);
					}
				}
				self.violate(
					prop,
					&oracle,
					format!(
						"node {} owns {} sat on chain after everything is closed and swept, but its opening funds plus what PaymentClaimed/PaymentForwarded/PaymentSent events reported amount to {} sat (allowed on-chain fees {} sat, dust {} msat): {} sat are missing",
						n,
						owned,
						expect_msat / 1000,
						fee_allow,
						dust_allow_msat,
						floor_sat - owned as i128
					) + &ctx,
				);
			}
		}
	}

	pub fn loss_property(&self, n: usize, props: &[&str]) -> &'static str {
		let forwarder = self.pays.iter().any(|p| {
			p.paths.iter().any(|x| x.nodes.len() > 1 && x.nodes[..x.nodes.len() - 1].contains(&n))
		});
		let p = self.cfg.profile.as_str();
		let pick = match p {
			"forward" => "C02",
			"payments" => "C03",
			"receive" => "C04",
			"crash" => "C10",
			"onchain" => "C07",
			"justice" => "C06",
			"tamper" => "C05",
			"deadlines" => "C08",
			"asyncpersist" => "C09",
			"chainstyle" => "C07",
			_ => {
				if forwarder {
					"C02"
				} else {
					"C07"
				}
			},
		};
		let _ = props;
		match pick {
			"C02" => "C02",
			"C03" => "C03",
			"C04" => "C04",
			"C10" => "C10",
			"C06" => "C06",
			"C05" => "C05",
			"C08" => "C08",
			"C09" => "C09",
			_ => "C07",
		}
	}
}
