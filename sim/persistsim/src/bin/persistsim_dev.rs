//! Development driver: `persistsim_dev <profile> <first> <count> [thorough] [--fp] [--shrink]`
//! runs seeds mix(1, first..first+count) on all cores and prints violations and counters.

use persistsim::PersistSim;
use simcore::runner::{install_panic_hook, run_isolated};
use simcore::{mix, RunOutcome, Sim, Tier};
use std::collections::BTreeMap;
use std::sync::atomic::{AtomicU64, Ordering};
use std::sync::{Arc, Mutex};
use std::time::Instant;

fn main() {
	let args: Vec<String> = std::env::args().collect();
	let profile = args.get(1).cloned().unwrap_or_else(|| "sync".into());
	let first: u64 = args.get(2).and_then(|s| s.parse().ok()).unwrap_or(0);
	let count: u64 = args.get(3).and_then(|s| s.parse().ok()).unwrap_or(100);
	let tier = if args.iter().any(|a| a == "thorough") { Tier::Thorough } else { Tier::Quick };
	let print_fp = args.iter().any(|a| a == "--fp");
	let do_shrink = args.iter().any(|a| a == "--shrink");
	let raw = args.iter().any(|a| a == "--raw-seed");
	let jobs: u64 = std::env::var("VERIF_JOBS").ok().and_then(|s| s.parse().ok()).unwrap_or_else(|| {
		std::thread::available_parallelism().map(|n| n.get() as u64).unwrap_or(4)
	});
	install_panic_hook();
	let next = Arc::new(AtomicU64::new(0));
	let results: Arc<Mutex<Vec<(u64, RunOutcome)>>> = Arc::new(Mutex::new(Vec::new()));
	let t0 = Instant::now();
	let mut hs = Vec::new();
	for _ in 0..jobs.min(count.max(1)) {
		let next = Arc::clone(&next);
		let results = Arc::clone(&results);
		let profile = profile.clone();
		hs.push(std::thread::spawn(move || loop {
			let i = next.fetch_add(1, Ordering::Relaxed);
			if i >= count {
				break;
			}
			let seed = if raw { first + i } else { mix(1, first + i) };
			let mut o = run_isolated(|| PersistSim.run(&profile, seed, tier));
			o.seed = seed;
			results.lock().unwrap().push((first + i, o));
		}));
	}
	for h in hs {
		let _ = h.join();
	}
	let wall = t0.elapsed().as_secs_f64();
	let mut results = std::mem::take(&mut *results.lock().unwrap());
	results.sort_by_key(|(i, _)| *i);
	let mut counters: BTreeMap<String, u64> = BTreeMap::new();
	let mut nontrivial = 0;
	let mut viol = 0;
	let mut herr = 0;
	let mut steps = 0;
	for (i, o) in results.iter() {
		if print_fp {
			println!("FP {} {:016x} {:016x}", i, o.history_fp, o.interleaving_fp);
		}
		for (k, v) in o.counters.iter() {
			*counters.entry(k.clone()).or_insert(0) += v;
		}
		if o.nontrivial {
			nontrivial += 1;
		}
		steps += o.steps;
		for v in o.violations.iter() {
			viol += 1;
			println!("VIOLATION idx={} seed={} {} [{}] step {}: {}", i, o.seed, v.property, v.oracle, v.step, v.message);
		}
		for e in o.harness_errors.iter() {
			herr += 1;
			println!("HARNESS-ERROR idx={} seed={}: {}", i, o.seed, e);
		}
	}
	if args.iter().any(|a| a == "--replay-check") {
		// every run carries its replay object (PERSISTSIM_FORCE_REPLAY=1): replaying it literally must
		// reproduce the same history
		let mut same = 0;
		let mut differ = 0;
		let mut missing = 0;
		for (i, o) in results.iter() {
			match o.replay.as_ref() {
				Some(rep) => {
					let again = run_isolated(|| PersistSim.replay(rep));
					if again.history_fp == o.history_fp && again.violations == o.violations {
						same += 1;
					} else {
						differ += 1;
						println!("REPLAY-DIFF idx={} {:016x} vs {:016x}", i, o.history_fp, again.history_fp);
					}
				},
				None => missing += 1,
			}
		}
		println!("replay-check: same={} differ={} without-replay={}", same, differ, missing);
	}
	if do_shrink {
		if let Some((i, o)) = results.iter().find(|(_, o)| !o.violations.is_empty() && o.replay.is_some()) {
			let v = &o.violations[0];
			let rep = o.replay.as_ref().unwrap();
			let n0 = rep["trace"].as_array().map(|a| a.len()).unwrap_or(0);
			let again = run_isolated(|| PersistSim.replay(rep));
			let same = again.violations.iter().any(|x| x.oracle == v.oracle);
			println!("REPLAY idx={} reproduces same oracle: {} (history_fp equal: {})", i, same, again.history_fp == o.history_fp);
			let (min, spent) = simcore::shrink::shrink(&PersistSim, rep, &v.property, &v.oracle, std::time::Duration::from_secs(60));
			let n1 = min["trace"].as_array().map(|a| a.len()).unwrap_or(0);
			println!("SHRINK idx={} oracle=[{}] {} -> {} actions in {} replays", i, v.oracle, n0, n1, spent);
			let out = run_isolated(|| PersistSim.replay(&min));
			for v in out.violations.iter() {
				println!("  minimised: [{}] {}", v.oracle, v.message);
			}
			println!("  trace: {}", serde_json::to_string(&min["trace"]).unwrap());
			if let Ok(p) = std::env::var("PERSISTSIM_SAVE") {
				let _ = std::fs::write(&p, serde_json::to_string_pretty(&min).unwrap());
			}
		}
	}
	if !args.iter().any(|a| a == "--quiet") {
		for (k, v) in counters.iter() {
			println!("{:>12}  {}", v, k);
		}
	}
	println!(
		"runs={} nontrivial={} violations={} harness_errors={} steps={} wall={:.1}s runs/s={:.1}",
		results.len(), nontrivial, viol, herr, steps, wall, results.len() as f64 / wall
	);
}
