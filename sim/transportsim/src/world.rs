//! The world: real `PeerManager`s, sockets, the raw adversary, every action the scheduler can take,
//! and the oracles C15-1..6 evaluated after each library call.

use crate::handlers::*;
use crate::net::*;
use crate::raw::*;
use bitcoin::secp256k1::{PublicKey, Secp256k1, SecretKey};
use lightning::ln::msgs::{Init, SocketAddress};
use lightning::ln::peer_handler::{MessageHandler, PeerManager};
use lightning::sign::{KeysManager, NodeSigner, Recipient};
use lightning::types::features::InitFeatures;
use lightning::util::logger::{Logger, Record};
use lightning::util::ser::Writeable;
use serde::{Deserialize, Serialize};
use serde_json::json;
use simcore::runner::catch;
use simcore::{fnv_extend, Rng, RunOutcome};
use std::cell::RefCell;
use std::collections::{BTreeMap, BTreeSet};
use std::rc::Rc;

pub const PROP: &str = "C15";
/// `OUTBOUND_BUFFER_LIMIT_READ_PAUSE` as documented in peer_handler.rs
pub const READ_PAUSE_MSGS: i64 = 12;

pub struct SimLogger;
impl Logger for SimLogger {
	fn log(&self, record: Record) {
		if std::env::var("VERIF_LOG_STDERR").is_ok() {
			eprintln!("{:<5} [{}:{}] {}", record.level, record.module_path, record.line, record.args);
		}
	}
}

pub type Pm =
	PeerManager<SimSocket, Rc<Stub>, Rc<Stub>, Rc<Stub>, Rc<SimLogger>, Rc<Stub>, Rc<KeysManager>, Rc<Stub>>;

#[derive(Clone, Debug, Default, Serialize, Deserialize)]
pub struct Weights {
	pub connect: u32,
	pub connect_adv: u32,
	pub queue: u32,
	pub process: u32,
	pub tick: u32,
	pub credit: u32,
	pub wavail: u32,
	pub deliver: u32,
	pub fault: u32,
	pub cut: u32,
	pub notify: u32,
	pub adv_send: u32,
	pub app_disc: u32,
}

#[derive(Clone, Debug, Serialize, Deserialize)]
pub struct Config {
	pub profile: String,
	pub seed: u64,
	pub n_nodes: usize,
	/// per node: init feature flags (little endian), only optional bits
	pub features: Vec<Vec<u8>>,
	/// per node: does the channel handler announce a chain hash
	pub chain: Vec<bool>,
	/// write credit of a fresh socket
	pub init_window: u64,
	pub max_steps: u64,
	pub current_time: u32,
	pub w: Weights,
	/// how many tamper faults the scheduler may inject
	pub fault_budget: u32,
	/// enabled tamper kinds: bit 0 flip, 1 insert, 2 delete, 3 dup, 4 replay
	pub fault_mask: u32,
	pub adversary: bool,
	/// percent of deliveries allowed although the receiver asked to pause reads
	pub ignore_pause_pct: u32,
	/// 0 small messages, 1 includes large ones, 2 bursts (key rotation)
	pub msg_mix: u8,
	/// percent of deliveries that take everything in flight
	pub deliver_all_pct: u32,
}

#[derive(Clone, Debug, PartialEq, Eq, Serialize, Deserialize)]
pub enum Action {
	Connect { a: usize, b: usize },
	ConnectAdv { node: usize, adv_init: bool },
	/// the application of the node owning `sock` queues a message for that socket's remote peer
	Queue { sock: u32, spec: MsgSpec },
	Process { node: usize },
	Tick { node: usize },
	Credit { sock: u32, n: u64 },
	WriteAvail { sock: u32 },
	/// deliver `n` in-flight bytes to `sock`
	Deliver { sock: u32, n: u32 },
	/// tamper with the in-flight bytes travelling towards `sock`; `off` counts from the first
	/// undelivered byte
	Flip { sock: u32, off: u32, xor: u8 },
	Insert { sock: u32, off: u32, byte: u8 },
	Delete { sock: u32, off: u32 },
	Dup { sock: u32, off: u32 },
	Replay { sock: u32, frame: u32, off: u32 },
	Cut { sock: u32 },
	NotifyClose { sock: u32 },
	AppDisconnect { sock: u32 },
	AdvSend { conn: usize, what: AdvMsg },
	Settle,
}

impl Action {
	pub fn kind(&self) -> &'static str {
		match self {
			Action::Connect { .. } => "Connect",
			Action::ConnectAdv { .. } => "ConnectAdv",
			Action::Queue { .. } => "Queue",
			Action::Process { .. } => "Process",
			Action::Tick { .. } => "Tick",
			Action::Credit { .. } => "Credit",
			Action::WriteAvail { .. } => "WriteAvail",
			Action::Deliver { .. } => "Deliver",
			Action::Flip { .. } => "Flip",
			Action::Insert { .. } => "Insert",
			Action::Delete { .. } => "Delete",
			Action::Dup { .. } => "Dup",
			Action::Replay { .. } => "Replay",
			Action::Cut { .. } => "Cut",
			Action::NotifyClose { .. } => "NotifyClose",
			Action::AppDisconnect { .. } => "AppDisconnect",
			Action::AdvSend { .. } => "AdvSend",
			Action::Settle => "Settle",
		}
	}
	fn actor(&self) -> u32 {
		match self {
			Action::Connect { a, .. } => *a as u32,
			Action::ConnectAdv { node, .. } => *node as u32,
			Action::Process { node } | Action::Tick { node } => *node as u32,
			Action::Queue { sock, .. }
			| Action::Credit { sock, .. }
			| Action::WriteAvail { sock }
			| Action::Deliver { sock, .. }
			| Action::Flip { sock, .. }
			| Action::Insert { sock, .. }
			| Action::Delete { sock, .. }
			| Action::Dup { sock, .. }
			| Action::Replay { sock, .. }
			| Action::Cut { sock }
			| Action::NotifyClose { sock }
			| Action::AppDisconnect { sock } => *sock,
			Action::AdvSend { conn, .. } => *conn as u32,
			Action::Settle => 0,
		}
	}
}

pub struct Node {
	pub pm: Rc<Pm>,
	pub sh: Rc<RefCell<Shared>>,
	pub id: PublicKey,
	pub key: PeerKey,
	pub ticks: u64,
}

pub struct Conn {
	pub id: usize,
	/// owner of socket 2*id (the initiator) and 2*id+1 (the responder)
	pub owners: [Owner; 2],
	pub raw: Option<RawPeer>,
	/// messages the node's handlers received from the adversary on this connection
	pub adv_recv: Vec<(u16, Vec<u8>)>,
	pub rx_checked: usize,
	pub kill_counted: bool,
}

#[derive(Clone, Copy, Debug)]
#[allow(dead_code)]
enum Ctx {
	Read(u32),
	Process,
	Tick,
	WriteAvail(u32),
	Connect,
	App(u32),
	SockDisc,
}

pub struct World {
	pub cfg: Config,
	pub net: Rc<RefCell<Net>>,
	pub nodes: Vec<Node>,
	pub conns: Vec<Conn>,
	pub pks: Vec<PublicKey>,
	/// (sender node, receiver key) -> visible messages handed over while connected
	pub handed: BTreeMap<(usize, PeerKey), Vec<Option<WireMsg>>>,
	/// (receiver node, sender key) -> number of messages the handlers received
	pub recv_count: BTreeMap<(usize, PeerKey), usize>,
	pub trace: Vec<Action>,
	pub out: RunOutcome,
	pub step: u64,
	pub hist: u64,
	pub inter: u64,
	pub state_fps: BTreeSet<u64>,
	pub sample: Vec<serde_json::Value>,
	pub dead: bool,
	pub sim_secs: u64,
	pub faults_applied: u32,
	pub msgs_delivered: u64,
	pub established: u64,
	pub settled: bool,
}

fn trim(f: &[u8]) -> &[u8] {
	let mut n = f.len();
	while n > 0 && f[n - 1] == 0 {
		n -= 1;
	}
	&f[..n]
}

impl World {
	pub fn new(cfg: Config) -> World {
		let net = Rc::new(RefCell::new(Net::new()));
		let mut nodes = Vec::new();
		let mut pks = Vec::new();
		let base = Rng::new(cfg.seed).fork("keys");
		for i in 0..cfg.n_nodes {
			let mut r = base.fork(&format!("node{}", i));
			let seed = r.bytes32();
			let eph = r.bytes32();
			let km = Rc::new(KeysManager::new(&seed, 1_600_000_000 + i as u64, i as u32, true));
			let id = km.get_node_id(Recipient::Node).expect("node id");
			let sh = Rc::new(RefCell::new(Shared::new(i, cfg.features[i].clone(), cfg.chain[i])));
			let stub = |role: u8| Rc::new(Stub { role, sh: sh.clone() });
			let handler = MessageHandler {
				chan_handler: stub(ROLE_CHAN),
				route_handler: stub(ROLE_ROUTE),
				onion_message_handler: stub(ROLE_ONION),
				custom_message_handler: stub(ROLE_CUSTOM),
				send_only_message_handler: stub(ROLE_SENDONLY),
			};
			let pm: Pm =
				PeerManager::new(handler, cfg.current_time.wrapping_add(i as u32), &eph, Rc::new(SimLogger), km);
			pks.push(id);
			nodes.push(Node { pm: Rc::new(pm), sh, id, key: id.serialize(), ticks: 0 });
		}
		// a few more valid points for message fields
		let secp = Secp256k1::signing_only();
		let mut r = base.fork("points");
		for _ in 0..3 {
			if let Ok(sk) = SecretKey::from_slice(&r.bytes32()) {
				pks.push(PublicKey::from_secret_key(&secp, &sk));
			}
		}
		let mut out = RunOutcome::new(&cfg.profile, cfg.seed);
		out.seed = cfg.seed;
		World {
			cfg,
			net,
			nodes,
			conns: Vec::new(),
			pks,
			handed: BTreeMap::new(),
			recv_count: BTreeMap::new(),
			trace: Vec::new(),
			out,
			step: 0,
			hist: 0xcbf29ce484222325,
			inter: 0xcbf29ce484222325,
			state_fps: BTreeSet::new(),
			sample: Vec::new(),
			dead: false,
			sim_secs: 0,
			faults_applied: 0,
			msgs_delivered: 0,
			established: 0,
			settled: false,
		}
	}

	// ---------------------------------------------------------------------------------------------
	// queries (also used by the scheduler)

	pub fn n_socks(&self) -> u32 {
		self.conns.len() as u32 * 2
	}
	pub fn owner(&self, s: u32) -> Owner {
		self.conns[(s / 2) as usize].owners[(s % 2) as usize]
	}
	pub fn is_open(&self, s: u32) -> bool {
		self.net.borrow().socks[s as usize].open
	}
	pub fn remote_key(&self, s: u32) -> PeerKey {
		let c = &self.conns[(s / 2) as usize];
		match c.owners[((s ^ 1) % 2) as usize] {
			Owner::Node(i) => self.nodes[i].key,
			Owner::Raw => c.raw.as_ref().map(|r| r.node_id.serialize()).unwrap_or([0; 33]),
		}
	}
	pub fn remote_id(&self, s: u32) -> PublicKey {
		let c = &self.conns[(s / 2) as usize];
		match c.owners[((s ^ 1) % 2) as usize] {
			Owner::Node(i) => self.nodes[i].id,
			Owner::Raw => c.raw.as_ref().expect("raw").node_id,
		}
	}
	/// the open socket of `node` whose remote peer is `peer`
	pub fn sock_of(&self, node: usize, peer: &PeerKey) -> Option<u32> {
		let net = self.net.borrow();
		for s in 0..self.n_socks() {
			if self.owner(s) == Owner::Node(node) && net.socks[s as usize].open && &self.remote_key(s) == peer {
				return Some(s);
			}
		}
		None
	}
	/// is there a connection between nodes a and b with any side still open
	pub fn pair_live(&self, a: usize, b: usize) -> bool {
		let net = self.net.borrow();
		self.conns.iter().any(|c| {
			let o = c.owners;
			((o[0] == Owner::Node(a) && o[1] == Owner::Node(b)) || (o[0] == Owner::Node(b) && o[1] == Owner::Node(a)))
				&& (net.socks[c.id * 2].open || net.socks[c.id * 2 + 1].open)
		})
	}
	pub fn sock(&self, s: u32) -> std::cell::Ref<'_, Sock> {
		std::cell::Ref::map(self.net.borrow(), |n| &n.socks[s as usize])
	}
	fn descriptor(&self, s: u32) -> SimSocket {
		SimSocket { id: s, net: self.net.clone() }
	}

	// ---------------------------------------------------------------------------------------------
	// plumbing

	fn violate(&mut self, oracle: &str, msg: String) {
		self.out.violate(PROP, oracle, self.step, msg);
	}

	fn h(&mut self, tag: u8, data: &[u8]) {
		self.hist = fnv_extend(self.hist, &[tag]);
		self.hist = fnv_extend(self.hist, data);
	}

	/// Runs library code; a panic is a C15-6 violation and ends the run.
	fn lib<T>(&mut self, what: &str, f: impl FnOnce() -> T) -> Option<T> {
		match catch(f) {
			Ok(v) => Some(v),
			Err((msg, loc)) => {
				self.out.bump("oracle:C15-0 panic");
				self.violate("C15-0 panic", format!("panic in {} at {}: {}", what, loc, msg));
				self.dead = true;
				None
			},
		}
	}

	fn close(&mut self, s: u32, reason: CloseReason) {
		let mut net = self.net.borrow_mut();
		let sk = &mut net.socks[s as usize];
		if !sk.open {
			return;
		}
		sk.open = false;
		sk.reason = Some(reason);
		sk.connected = false;
		drop(net);
		self.h(0xc1, &[s as u8, reason as u8]);
		self.out.bump(&format!("probe:close_{:?}", reason));
	}

	/// Why did `r` hang up inside `read_event`?
	fn read_close_reason(&mut self, r: u32) -> CloseReason {
		let (diverged, delivered) = {
			let net = self.net.borrow();
			let st = &net.socks[(r ^ 1) as usize].out;
			(st.diverged_at.is_some(), st.delivered)
		};
		if diverged {
			return CloseReason::Tamper;
		}
		let c = &self.conns[(r / 2) as usize];
		if let Some(raw) = c.raw.as_ref() {
			if let Some((from, _, _)) = raw.model.kill {
				if delivered >= from {
					return CloseReason::AdvKill;
				}
			}
			if let Some(u) = raw.model.unsure_from {
				if delivered > u {
					return CloseReason::AdvUnsure;
				}
			}
		}
		CloseReason::Spurious
	}

	fn report_spurious(&mut self, s: u32, how: &str) {
		let was = self.sock(s).was_connected;
		let oracle = if was { "C15-2 spurious disconnect" } else { "C15-1 handshake" };
		self.violate(
			oracle,
			format!(
				"socket {} (conn {}, {:?}) was dropped {} although every byte it received was what its peer sent",
				s,
				s / 2,
				self.owner(s),
				how
			),
		);
	}

	/// Everything that has to happen after a call into a `PeerManager`.
	fn after_call(&mut self, ctx: Ctx, err_on: Option<u32>) {
		// 1. contract breaches seen inside send_data
		let problems = std::mem::take(&mut self.net.borrow_mut().problems);
		for p in problems {
			self.out.bump("oracle:C15-5 write continuity");
			self.violate("C15-5 write continuity", p);
		}
		// 2. handler events
		let mut evs = Vec::new();
		for n in self.nodes.iter() {
			evs.append(&mut n.sh.borrow_mut().events);
		}
		for e in evs {
			self.handler_event(e);
		}
		// 3. disconnect_socket calls
		let nevs = std::mem::take(&mut self.net.borrow_mut().events);
		for ev in nevs {
			let NetEvent::DisconnectCalled(s) = ev;
			if !self.is_open(s) {
				continue;
			}
			let reason = match ctx {
				Ctx::Tick => CloseReason::Timeout,
				Ctx::App(a) if a == s => CloseReason::App,
				Ctx::Read(r) if r == s => self.read_close_reason(r),
				_ => CloseReason::Spurious,
			};
			if reason == CloseReason::Spurious {
				self.report_spurious(s, &format!("by disconnect_socket during {:?}", ctx));
			}
			self.close(s, reason);
		}
		// 4. Err returned
		if let Some(s) = err_on {
			if self.is_open(s) {
				let reason = match ctx {
					Ctx::Read(r) if r == s => self.read_close_reason(r),
					_ => CloseReason::Spurious,
				};
				if reason == CloseReason::Spurious {
					self.report_spurious(s, &format!("with an Err from {:?}", ctx));
				}
				self.close(s, reason);
			}
		}
	}

	fn handler_event(&mut self, e: HEvent) {
		match e {
			HEvent::Connected { node, peer, role, inbound, features } => {
				self.h(0xe1, &[node as u8, role, inbound as u8]);
				self.h(0xe2, &peer);
				if role != ROLE_SENDONLY {
					return;
				}
				self.out.bump("probe:peer_connected");
				self.out.bump("oracle:C15-1 handshake");
				let s = match self.sock_of(node, &peer) {
					Some(s) => s,
					None => {
						self.violate("C15-4 init ordering", format!("node {} reported peer_connected for a peer it has no open connection to", node));
						return;
					},
				};
				let already = self.sock(s).connected;
				if already {
					self.violate("C15-4 init ordering", format!("peer_connected twice on socket {}", s));
				}
				if inbound != (s % 2 == 1) {
					self.violate("C15-1 handshake", format!("socket {}: inbound flag {} is wrong", s, inbound));
				}
				let want: Vec<u8> = match self.owner(s ^ 1) {
					Owner::Node(m) => self.cfg.features[m].clone(),
					Owner::Raw => self.conns[(s / 2) as usize].raw.as_ref().map(|r| r.model.features.clone()).unwrap_or_default(),
				};
				if trim(&want) != trim(&features) {
					self.violate(
						"C15-1 handshake",
						format!("socket {}: init features arrived as {:?}, sent {:?}", s, features, want),
					);
				}
				let mut net = self.net.borrow_mut();
				net.socks[s as usize].connected = true;
				net.socks[s as usize].was_connected = true;
				let both = net.socks[(s ^ 1) as usize].was_connected;
				drop(net);
				if both {
					self.established += 1;
					self.out.bump("probe:session_established_both_sides");
				}
			},
			HEvent::Disconnected { node, peer, role } => {
				self.h(0xe3, &[node as u8, role]);
				self.h(0xe2, &peer);
				if role != ROLE_SENDONLY {
					return;
				}
				if let Some(s) = self.sock_of(node, &peer) {
					self.net.borrow_mut().socks[s as usize].connected = false;
				}
			},
			HEvent::Recv { node, peer, ty, bytes, role, connected } => {
				self.hist = fnv_extend(self.hist, &[0xe4, node as u8, role]);
				self.hist = fnv_extend(self.hist, &ty.to_be_bytes());
				self.hist = fnv_extend(self.hist, &(bytes.len() as u32).to_le_bytes());
				self.hist = fnv_extend(self.hist, &bytes);
				self.out.bump("oracle:C15-4 nothing before init");
				self.msgs_delivered += 1;
				self.out.bump("probe:msg_delivered");
				if bytes.len() > 60000 {
					self.out.bump("probe:msg_delivered_over_60000_bytes");
				}
				if bytes.is_empty() {
					self.out.bump("probe:msg_delivered_empty_payload");
				}
				if !connected {
					self.violate(
						"C15-4 nothing before init",
						format!("node {} handler got message type {} before peer_connected (or after peer_disconnected)", node, ty),
					);
				}
				let s = match self.sock_of(node, &peer) {
					Some(s) => s,
					None => {
						self.violate("C15-4 nothing before init", format!("node {} handler got message type {} from a peer without open connection", node, ty));
						return;
					},
				};
				let cnt = self.recv_count.entry((node, peer)).or_insert(0);
				let idx = *cnt;
				*cnt += 1;
				let (rel, limit, diverged, hbase) = {
					let net = self.net.borrow();
					let me = &net.socks[s as usize];
					let them = &net.socks[(s ^ 1) as usize];
					(idx - me.recv_base, them.out.recv_limit, them.out.diverged_at, them.handed_base)
				};
				if let Some(d) = diverged {
					self.out.bump("oracle:C15-3 tamper");
					if (rel as u64) + 1 > limit {
						self.violate(
							"C15-3 tamper",
							format!("socket {}: message #{} (type {}) reached a handler although the stream diverged at offset {} before its frame ended", s, rel, ty, d),
						);
					}
				}
				match self.owner(s ^ 1) {
					Owner::Node(m) => {
						self.out.bump("oracle:C15-2 prefix");
						let key = (m, self.nodes[node].key);
						let exp = self.handed.get_mut(&key).and_then(|v| v.get_mut(hbase + rel)).and_then(|o| o.take());
						match exp {
							None => self.violate(
								"C15-2 prefix",
								format!("socket {}: node {} received message #{} (type {}, {} bytes) that node {} never sent on this connection", s, node, rel, ty, bytes.len(), m),
							),
							Some(w) => {
								if w.ty != ty || w.bytes != bytes {
									let at = w.bytes.iter().zip(bytes.iter()).position(|(a, b)| a != b);
									self.violate(
										"C15-2 prefix",
										format!(
											"socket {}: message #{} differs: sent type {} len {}, received type {} len {}, first differing byte {:?}",
											s, rel, w.ty, w.bytes.len(), ty, bytes.len(), at
										),
									);
								}
							},
						}
					},
					Owner::Raw => {
						self.conns[(s / 2) as usize].adv_recv.push((ty, bytes));
					},
				}
			},
			HEvent::Handed { node, peer, wire, connected } => {
				self.hist = fnv_extend(self.hist, &[0xe5, node as u8, connected as u8]);
				self.hist = fnv_extend(self.hist, &(wire.len() as u32).to_le_bytes());
				if !connected {
					self.out.add("probe:handed_while_not_connected", wire.len() as u64);
					return;
				}
				match self.sock_of(node, &peer) {
					Some(s) => {
						self.net.borrow_mut().socks[s as usize].handed_count += wire.len() as u64;
						self.out.add("probe:msg_handed", wire.len() as u64);
						let v = self.handed.entry((node, peer)).or_default();
						for w in wire {
							if w.visible {
								v.push(Some(w));
							}
						}
					},
					None => {
						self.violate("C15-4 init ordering", format!("node {} believes it is connected to a peer it has no open socket to", node));
					},
				}
			},
		}
	}

	/// Back-pressure oracle, evaluated after calls that make the node look at its write queues.
	fn check_backpressure(&mut self, socks: &[u32], lower_bound: bool) {
		for &s in socks {
			let (open, cr, short, handed, completed) = {
				let k = self.sock(s);
				(k.open, k.continue_read, k.short_write || k.wbsa_owed, k.handed_count as i64, k.out.bufs_completed as i64)
			};
			if !open {
				continue;
			}
			self.out.bump("oracle:C15-5 back-pressure");
			if !short && !cr {
				self.violate(
					"C15-5 back-pressure",
					format!("socket {}: everything offered was written, yet reads stay paused (continue_read=false)", s),
				);
			}
			if !cr {
				self.out.bump("probe:read_paused");
			}
			if lower_bound && handed - completed >= READ_PAUSE_MSGS {
				self.out.bump("probe:backlog_at_least_12");
				if cr {
					self.violate(
						"C15-5 back-pressure",
						format!(
							"socket {}: at least {} messages are queued unwritten but the node did not pause reading (continue_read=true)",
							s,
							handed - completed
						),
					);
				}
			}
		}
	}

	fn node_socks(&self, node: usize) -> Vec<u32> {
		(0..self.n_socks()).filter(|s| self.owner(*s) == Owner::Node(node) && self.is_open(*s)).collect()
	}

	// ---------------------------------------------------------------------------------------------
	// actions

	pub fn apply(&mut self, a: &Action) -> bool {
		if self.dead {
			return false;
		}
		self.step += 1;
		let did = match a {
			Action::Connect { a, b } => self.do_connect(*a, *b),
			Action::ConnectAdv { node, adv_init } => self.do_connect_adv(*node, *adv_init),
			Action::Queue { sock, spec } => self.do_queue(*sock, spec),
			Action::Process { node } => self.do_process(*node),
			Action::Tick { node } => self.do_tick(*node),
			Action::Credit { sock, n } => self.do_credit(*sock, *n),
			Action::WriteAvail { sock } => self.do_wavail(*sock),
			Action::Deliver { sock, n } => self.do_deliver(*sock, *n as usize),
			Action::Flip { .. } | Action::Insert { .. } | Action::Delete { .. } | Action::Dup { .. } | Action::Replay { .. } => {
				self.do_fault(a)
			},
			Action::Cut { sock } => self.do_cut(*sock),
			Action::NotifyClose { sock } => self.do_notify(*sock),
			Action::AppDisconnect { sock } => self.do_app_disconnect(*sock),
			Action::AdvSend { conn, what } => self.do_adv_send(*conn, what),
			Action::Settle => {
				self.settle();
				true
			},
		};
		if did {
			self.out.bump(&format!("action:{}", a.kind()));
			self.inter = fnv_extend(self.inter, a.kind().as_bytes());
			self.inter = fnv_extend(self.inter, &a.actor().to_le_bytes());
			self.hist = fnv_extend(self.hist, a.kind().as_bytes());
			self.hist = fnv_extend(self.hist, &a.actor().to_le_bytes());
			if self.sample.len() < 30 {
				self.sample.push(serde_json::to_value(a).unwrap_or(json!(null)));
			}
			self.trace.push(a.clone());
			self.record_state();
		} else {
			self.step -= 1;
		}
		did
	}

	fn record_state(&mut self) {
		if self.state_fps.len() >= 4096 {
			return;
		}
		let net = self.net.borrow();
		let mut h = 0xcbf29ce484222325u64;
		for s in net.socks.iter() {
			let infl = match s.out.inflight_len() {
				0 => 0u8,
				1..=17 => 1,
				18..=66 => 2,
				67..=4096 => 3,
				_ => 4,
			};
			let win = match s.window {
				0 => 0u8,
				1..=17 => 1,
				18..=4096 => 2,
				_ => 3,
			};
			h = fnv_extend(
				h,
				&[
					s.open as u8,
					s.connected as u8,
					s.continue_read as u8,
					s.wbsa_owed as u8,
					infl,
					win,
					s.out.diverged_at.is_some() as u8,
					s.out.tampered as u8,
					s.out.bufs_started.min(4) as u8,
					(s.out.cur_remaining > 0) as u8,
					(s.out.bufs_started >= 502) as u8,
					matches!(s.owner, Owner::Raw) as u8,
				],
			);
		}
		drop(net);
		self.state_fps.insert(h);
	}

	fn new_conn(&mut self, owners: [Owner; 2], raw: Option<RawPeer>) -> usize {
		let id = self.conns.len();
		let w = self.cfg.init_window.min(BIG_WINDOW as u64) as usize;
		{
			let mut net = self.net.borrow_mut();
			net.add_sock(owners[0], true, w);
			net.add_sock(owners[1], false, w);
		}
		self.conns.push(Conn { id, owners, raw, adv_recv: Vec::new(), rx_checked: 0, kill_counted: false });
		for side in 0..2u32 {
			let s = id as u32 * 2 + side;
			if let Owner::Node(n) = owners[side as usize] {
				let rk = self.remote_key(s);
				let rb = self.recv_count.get(&(n, rk)).copied().unwrap_or(0);
				let hb = self.handed.get(&(n, rk)).map(|v| v.len()).unwrap_or(0);
				let mut net = self.net.borrow_mut();
				net.socks[s as usize].recv_base = rb;
				net.socks[s as usize].handed_base = hb;
			}
		}
		id
	}

	/// Puts bytes into a stream without going through `send_data` (act one returned by
	/// `new_outbound_connection`, and everything the adversary writes).
	fn raw_write(&mut self, s: u32, bytes: &[u8], framed: bool) {
		let mut net = self.net.borrow_mut();
		let st = &mut net.socks[s as usize].out;
		if framed {
			st.begin_buffer(bytes.len());
			st.push(bytes);
		} else {
			// unframed garbage: the receiver's next authenticated unit can never verify
			if st.semantic_div.is_none() {
				let at = st.sent_total();
				let end = st.unit_end_after(at);
				st.semantic_div = Some((at, end));
			}
			st.push_unframed(bytes);
		}
	}

	fn addr(id: usize) -> Option<SocketAddress> {
		if id % 2 == 1 {
			Some(SocketAddress::TcpIpV4 { addr: [34, 12, id as u8, 7], port: 9735 })
		} else {
			None
		}
	}

	fn do_connect(&mut self, a: usize, b: usize) -> bool {
		if a == b || a >= self.nodes.len() || b >= self.nodes.len() || self.pair_live(a, b) {
			return false;
		}
		let c = self.new_conn([Owner::Node(a), Owner::Node(b)], None);
		let (sa, sb) = (c as u32 * 2, c as u32 * 2 + 1);
		let (da, db) = (self.descriptor(sa), self.descriptor(sb));
		let bid = self.nodes[b].id;
		let pm = self.nodes[a].pm.clone();
		let r = match self.lib("new_outbound_connection", || pm.new_outbound_connection(bid, da, Self::addr(c))) {
			Some(r) => r,
			None => return true,
		};
		match r {
			Ok(act) => self.raw_write(sa, &act, true),
			Err(_) => {
				self.violate("C15-1 handshake", format!("new_outbound_connection refused a fresh descriptor (conn {})", c));
				self.close(sa, CloseReason::Spurious);
			},
		}
		self.after_call(Ctx::Connect, None);
		let pm = self.nodes[b].pm.clone();
		if let Some(Err(_)) = self.lib("new_inbound_connection", || pm.new_inbound_connection(db, Self::addr(c + 1))) {
			self.violate("C15-1 handshake", format!("new_inbound_connection refused a fresh descriptor (conn {})", c));
			self.close(sb, CloseReason::Spurious);
		}
		self.after_call(Ctx::Connect, None);
		true
	}

	fn do_connect_adv(&mut self, node: usize, adv_init: bool) -> bool {
		if node >= self.nodes.len() {
			return false;
		}
		let c = self.conns.len();
		let mut r = Rng::new(self.cfg.seed).fork(&format!("adv{}", c));
		let sk = match SecretKey::from_slice(&r.bytes32()) {
			Ok(k) => k,
			Err(_) => return false,
		};
		let eph = match SecretKey::from_slice(&r.bytes32()) {
			Ok(k) => k,
			Err(_) => return false,
		};
		let nid = self.nodes[node].id;
		let chain = self.cfg.chain[node];
		let raw = match catch(|| RawPeer::new(sk, eph, adv_init, nid, chain)) {
			Ok(r) => r,
			Err((m, l)) => {
				self.violate("C15-0 panic", format!("panic constructing encryptor at {}: {}", l, m));
				self.dead = true;
				return true;
			},
		};
		let adv_id = raw.node_id;
		let owners = if adv_init { [Owner::Raw, Owner::Node(node)] } else { [Owner::Node(node), Owner::Raw] };
		let c = self.new_conn(owners, Some(raw));
		let s_node = c as u32 * 2 + if adv_init { 1 } else { 0 };
		let d = self.descriptor(s_node);
		let pm = self.nodes[node].pm.clone();
		if adv_init {
			if let Some(Err(_)) = self.lib("new_inbound_connection", || pm.new_inbound_connection(d, None)) {
				self.violate("C15-1 handshake", format!("new_inbound_connection refused a fresh descriptor (conn {})", c));
				self.close(s_node, CloseReason::Spurious);
			}
		} else {
			match self.lib("new_outbound_connection", || pm.new_outbound_connection(adv_id, d, None)) {
				Some(Ok(act)) => self.raw_write(s_node, &act, true),
				Some(Err(_)) => {
					self.violate("C15-1 handshake", format!("new_outbound_connection refused a fresh descriptor (conn {})", c));
					self.close(s_node, CloseReason::Spurious);
				},
				None => return true,
			}
		}
		self.after_call(Ctx::Connect, None);
		self.out.bump("probe:adversary_connection");
		true
	}

	fn do_queue(&mut self, sock: u32, spec: &MsgSpec) -> bool {
		if sock >= self.n_socks() || !spec.sendable_by_node() {
			return false;
		}
		let node = match self.owner(sock) {
			Owner::Node(n) => n,
			Owner::Raw => return false,
		};
		match spec {
			MsgSpec::Custom { ty, .. } | MsgSpec::Burst { ty, .. } => {
				// an unknown even type makes the receiver hang up (BOLT-1); honest applications
				// here only use types the peer knows or odd ones
				if *ty < 32768 || (!custom_known(*ty) && ty % 2 == 0) {
					return false;
				}
			},
			_ => {},
		}
		let to = self.remote_id(sock);
		let qs = build(spec, to, &self.pks);
		self.out.bump(&format!("probe:queued_{}", spec.kind()));
		let mut sh = self.nodes[node].sh.borrow_mut();
		for q in qs {
			if matches!(q.out, Out::Onion(_)) && !sh.is_connected(&q.peer) {
				// an onion messenger only holds messages for connected peers
				continue;
			}
			sh.queue(q);
		}
		true
	}

	fn do_process(&mut self, node: usize) -> bool {
		if node >= self.nodes.len() {
			return false;
		}
		let pm = self.nodes[node].pm.clone();
		if self.lib("process_events", || pm.process_events()).is_none() {
			return true;
		}
		self.after_call(Ctx::Process, None);
		let socks = self.node_socks(node);
		self.check_backpressure(&socks, true);
		true
	}

	fn do_tick(&mut self, node: usize) -> bool {
		if node >= self.nodes.len() {
			return false;
		}
		self.sim_secs += 10;
		self.nodes[node].ticks += 1;
		let pm = self.nodes[node].pm.clone();
		if self.lib("timer_tick_occurred", || pm.timer_tick_occurred()).is_none() {
			return true;
		}
		self.after_call(Ctx::Tick, None);
		let socks = self.node_socks(node);
		self.check_backpressure(&socks, false);
		true
	}

	fn do_credit(&mut self, sock: u32, n: u64) -> bool {
		if sock >= self.n_socks() || n == 0 || !self.is_open(sock) || self.owner(sock) == Owner::Raw {
			return false;
		}
		let mut net = self.net.borrow_mut();
		let k = &mut net.socks[sock as usize];
		k.window = (k.window as u64).saturating_add(n).min(BIG_WINDOW as u64) as usize;
		true
	}

	fn do_wavail(&mut self, sock: u32) -> bool {
		if sock >= self.n_socks() || !self.is_open(sock) {
			return false;
		}
		let node = match self.owner(sock) {
			Owner::Node(n) => n,
			Owner::Raw => return false,
		};
		self.net.borrow_mut().socks[sock as usize].wbsa_owed = false;
		let mut d = self.descriptor(sock);
		let pm = self.nodes[node].pm.clone();
		let r = match self.lib("write_buffer_space_avail", || pm.write_buffer_space_avail(&mut d)) {
			Some(r) => r,
			None => return true,
		};
		self.after_call(Ctx::WriteAvail(sock), if r.is_err() { Some(sock) } else { None });
		self.check_backpressure(&[sock], false);
		true
	}

	fn do_deliver(&mut self, r: u32, n: usize) -> bool {
		if r >= self.n_socks() || n == 0 || !self.is_open(r) {
			return false;
		}
		let src = r ^ 1;
		let (bytes, before) = {
			let mut net = self.net.borrow_mut();
			let recv_so_far = {
				let me = &net.socks[r as usize];
				match me.owner {
					Owner::Node(nd) => {
						let rk = self.remote_key(r);
						(self.recv_count.get(&(nd, rk)).copied().unwrap_or(0) - me.recv_base) as u64
					},
					Owner::Raw => 0,
				}
			};
			let st = &mut net.socks[src as usize].out;
			if st.inflight_len() == 0 {
				return false;
			}
			let before = st.delivered;
			let bytes = st.take(n.min(65536));
			if st.diverged_at.is_none() {
				let mut found = None;
				if let Some((g, e)) = st.semantic_div {
					if g < before + bytes.len() {
						found = Some((g.max(before), e));
					}
				}
				if st.tampered {
					for (i, b) in bytes.iter().enumerate() {
						let pos = before + i;
						if found.map(|(g, _)| pos >= g).unwrap_or(false) {
							break;
						}
						if pos >= st.orig.len() || st.orig[pos] != *b {
							found = Some((pos, st.unit_end_after(pos)));
							if pos >= st.orig.len() {
								st.frozen = true;
							}
							break;
						}
					}
				}
				if let Some((d, e)) = found {
					st.diverged_at = Some(d);
					st.must_close_by = e;
					st.recv_limit = recv_so_far + st.frames_ending_in(before, d);
				}
			}
			st.delivered += bytes.len();
			(bytes, before)
		};
		self.hist = fnv_extend(self.hist, &[0xd0, r as u8]);
		self.hist = fnv_extend(self.hist, &(bytes.len() as u32).to_le_bytes());
		let newly_diverged = {
			let net = self.net.borrow();
			let st = &net.socks[src as usize].out;
			match st.diverged_at {
				Some(d) if d >= before => Some((d, st.fault_kinds.first().copied())),
				_ => None,
			}
		};
		if let Some((d, kind)) = newly_diverged {
			let k = kind.unwrap_or("adv_garbage");
			self.out.bump(&format!("fault:{}", k));
			let cls = self.classify_offset(src, d);
			self.out.bump(&format!("probe:diverge_in_{}", cls));
		}
		if !self.sock(r).continue_read {
			self.out.bump("probe:read_event_while_paused");
		}
		match self.owner(r) {
			Owner::Node(node) => {
				let mut d = self.descriptor(r);
				let pm = self.nodes[node].pm.clone();
				let res = match self.lib("read_event", || pm.read_event(&mut d, &bytes)) {
					Some(x) => x,
					None => return true,
				};
				self.hist = fnv_extend(self.hist, &[res.is_err() as u8]);
				self.after_call(Ctx::Read(r), if res.is_err() { Some(r) } else { None });
				self.check_after_read(r);
			},
			Owner::Raw => self.feed_adversary(r, &bytes),
		}
		true
	}

	/// which part of the sender's framing does stream offset `d` fall into
	fn classify_offset(&self, src: u32, d: usize) -> &'static str {
		let net = self.net.borrow();
		let st = &net.socks[src as usize].out;
		let mut prev = 0usize;
		let mut idx = 0usize;
		for e in st.units.iter() {
			if *e > d {
				let acts = st.n_acts() as usize;
				if idx < acts {
					return if st.initiator { if idx == 0 { "act_one" } else { "act_three" } } else { "act_two" };
				}
				let is_hdr = (idx - acts) % 2 == 0;
				if is_hdr {
					return if d - prev < 2 { "length" } else { "length_mac" };
				}
				return if *e - d <= 16 { "body_mac" } else { "body" };
			}
			prev = *e;
			idx += 1;
		}
		"beyond_end"
	}

	fn check_after_read(&mut self, r: u32) {
		let src = r ^ 1;
		let (diverged, by, delivered, open) = {
			let net = self.net.borrow();
			let st = &net.socks[src as usize].out;
			(st.diverged_at, st.must_close_by, st.delivered, net.socks[r as usize].open)
		};
		if let Some(d) = diverged {
			self.out.bump("oracle:C15-3 tamper");
			if delivered >= by && open {
				self.violate(
					"C15-3 tamper",
					format!(
						"socket {}: the stream diverged at offset {} ({}), the authenticated unit ended at {}, {} bytes were delivered and the connection is still up",
						r, d, self.classify_offset(src, d), by, delivered
					),
				);
			}
			if !open {
				self.out.bump("probe:tamper_detected");
			}
		}
		if self.owner(src) == Owner::Raw {
			self.check_adv_model(r);
		}
	}

	/// Compares what the node did with the adversary's stream against the reference model.
	fn check_adv_model(&mut self, r: u32) {
		let src = r ^ 1;
		let ci = (r / 2) as usize;
		let (diverged, delivered, open, connected) = {
			let net = self.net.borrow();
			let st = &net.socks[src as usize].out;
			(st.diverged_at, st.delivered, net.socks[r as usize].open, net.socks[r as usize].connected)
		};
		let reason = self.sock(r).reason;
		let cutoff = delivered.min(diverged.unwrap_or(usize::MAX));
		let raw = match self.conns[ci].raw.as_ref() {
			Some(r) => r,
			None => return,
		};
		if let Some(u) = raw.model.unsure_from {
			if cutoff > u {
				self.out.bump("probe:adv_model_unsure");
				return;
			}
		}
		self.out.bump("oracle:C15-2 adversary model");
		let expected: Vec<&(usize, WireMsg)> = raw.model.expect.iter().filter(|(e, _)| *e <= cutoff).collect();
		let got = &self.conns[ci].adv_recv;
		let mut problem = None;
		if expected.len() != got.len() {
			problem = Some(format!(
				"conn {}: after {} bytes of the adversary's stream the handlers must have received {} messages, they received {}",
				ci, delivered, expected.len(), got.len()
			));
		} else {
			for (i, ((_, w), (ty, b))) in expected.iter().zip(got.iter()).enumerate() {
				if w.ty != *ty || &w.bytes != b {
					problem = Some(format!("conn {}: message #{} from the adversary arrived as type {} len {}, sent type {} len {}", ci, i, ty, b.len(), w.ty, w.bytes.len()));
					break;
				}
			}
		}
		let kill = raw.model.kill;
		let connect_at = raw.model.connect_at;
		if let Some(p) = problem {
			self.violate("C15-2 adversary model", p);
		}
		let legit_other = matches!(reason, Some(CloseReason::Timeout) | Some(CloseReason::Cut) | Some(CloseReason::App) | Some(CloseReason::PeerClosed));
		if let Some((_, by, why)) = kill {
			if by <= cutoff {
				if !self.conns[ci].kill_counted {
					self.conns[ci].kill_counted = true;
					self.out.bump(&format!("fault:adv_{}", why.replace(' ', "_")));
				}
				if open {
					let oracle = if why.contains("init") { "C15-4 init ordering" } else { "C15-2 adversary model" };
					self.violate(oracle, format!("conn {}: the adversary sent {} (frame complete at offset {}) and the node is still connected", ci, why, by));
				}
			}
		}
		if open && !legit_other {
			let want = connect_at.map(|c| c <= cutoff).unwrap_or(false) && kill.map(|(_, by, _)| by > cutoff).unwrap_or(true);
			if want != connected {
				self.violate(
					"C15-1 handshake",
					format!("conn {}: after {} bytes from the adversary peer_connected state is {} but should be {}", ci, delivered, connected, want),
				);
			}
		}
	}

	fn feed_adversary(&mut self, r: u32, bytes: &[u8]) {
		let ci = (r / 2) as usize;
		let tampered = self.sock(r ^ 1).out.tampered;
		let replies = {
			let raw = match self.conns[ci].raw.as_mut() {
				Some(r) => r,
				None => return,
			};
			raw.feed(bytes)
		};
		let replies = match replies {
			Ok(r) => r,
			Err((m, l)) => {
				self.violate("C15-0 panic", format!("panic in PeerChannelEncryptor (adversary side) at {}: {}", l, m));
				self.dead = true;
				return;
			},
		};
		for rep in replies {
			self.adv_put_framed(r, ci, &rep, None);
		}
		// what the node sent us must decrypt, start with init, and answer our pings correctly
		let (broken, rx_new): (Option<String>, Vec<(u16, usize)>) = {
			let c = &self.conns[ci];
			let raw = c.raw.as_ref().unwrap();
			let v = raw.rx[c.rx_checked..].to_vec();
			(raw.rx_broken.clone(), v)
		};
		self.out.bump("oracle:C15-2 bytes intact (to adversary)");
		if let Some(b) = broken {
			if !tampered {
				self.violate("C15-2 bytes intact (to adversary)", format!("conn {}: {}", ci, b));
			}
		}
		for (i, (ty, len)) in rx_new.iter().enumerate() {
			let idx = self.conns[ci].rx_checked + i;
			if idx == 0 {
				self.out.bump("oracle:C15-1 handshake");
				self.out.bump("probe:adversary_decrypted_init");
				if *ty != 16 {
					self.violate("C15-1 handshake", format!("conn {}: the node's first message has type {} instead of init", ci, ty));
				}
			}
			if *ty == 19 {
				let owed = self.conns[ci].raw.as_mut().unwrap().pongs_owed.pop_front();
				if let Some(p) = owed {
					self.out.bump("probe:adversary_ping_answered");
					if *len != 2 + p as usize {
						self.violate("C15-2 adversary model", format!("conn {}: pong of {} bytes for ponglen {}", ci, len, p));
					}
				}
			}
		}
		self.conns[ci].rx_checked += rx_new.len();
	}

	/// Writes one act or frame of the adversary (already encrypted) to its stream.
	fn adv_put_framed(&mut self, raw_sock: u32, ci: usize, bytes: &[u8], model: Option<(u16, FrameEffect)>) {
		let after_garbage = self.sock(raw_sock).out.semantic_div.is_some();
		let start = self.sock(raw_sock).out.sent_total();
		if after_garbage {
			// framing is already lost for the receiver; keep the bytes flowing as more garbage
			self.raw_write(raw_sock, bytes, false);
			return;
		}
		self.raw_write(raw_sock, bytes, true);
		if let Some((ty, eff)) = model {
			if let Some(raw) = self.conns[ci].raw.as_mut() {
				raw.model_frame(start, start + bytes.len(), ty, eff);
			}
		}
	}

	fn do_adv_send(&mut self, ci: usize, what: &AdvMsg) -> bool {
		if ci >= self.conns.len() || self.conns[ci].raw.is_none() {
			return false;
		}
		let side = if self.conns[ci].owners[0] == Owner::Raw { 0 } else { 1 };
		let s = ci as u32 * 2 + side;
		if !self.is_open(s) {
			return false;
		}
		let node_sock = s ^ 1;
		let node = match self.owner(node_sock) {
			Owner::Node(n) => n,
			Owner::Raw => return false,
		};
		macro_rules! enc {
			($plain: expr) => {{
				let r = self.conns[ci].raw.as_mut().unwrap().encrypt($plain);
				match r {
					Ok(b) => b,
					Err((m, l)) => {
						self.violate("C15-0 panic", format!("panic encrypting (adversary side) at {}: {}", l, m));
						self.dead = true;
						return true;
					},
				}
			}};
		}
		let ready = self.conns[ci].raw.as_ref().unwrap().ready();
		match what {
			AdvMsg::ActOne => {
				let raw = self.conns[ci].raw.as_mut().unwrap();
				if !raw.initiator || raw.act_one_sent {
					return false;
				}
				raw.act_one_sent = true;
				let act = match catch(|| raw.enc.get_act_one(&raw.secp)) {
					Ok(a) => a,
					Err((m, l)) => {
						self.violate("C15-0 panic", format!("panic in get_act_one at {}: {}", l, m));
						self.dead = true;
						return true;
					},
				};
				self.adv_put_framed(s, ci, &act, None);
			},
			AdvMsg::Garbage { len, seed } => {
				if *len == 0 {
					return false;
				}
				let mut v = vec![0u8; (*len as usize).min(200_000)];
				Rng::new(*seed).fill(&mut v);
				let first = self.sock(s).out.semantic_div.is_none();
				let at = self.sock(s).out.sent_total();
				self.raw_write(s, &v, false);
				if first {
					if let Some(raw) = self.conns[ci].raw.as_mut() {
						raw.model.garbage_at = Some(at);
					}
				}
			},
			AdvMsg::Init { feat_seed, unknown_even, net } => {
				if !ready {
					return false;
				}
				let mut r = Rng::new(*feat_seed);
				let mut f = vec![0u8; 1 + r.below(8) as usize];
				for b in f.iter_mut() {
					*b = (r.next_u64() as u8) & 0b1010_1010; // odd (optional) bits only
				}
				if *unknown_even {
					f.resize(30, 0);
					f[29] |= 0b0001_0000; // bit 236, required, unknown to everybody
				}
				let other = bitcoin::constants::ChainHash::using_genesis_block(bitcoin::Network::Regtest);
				let ours = bitcoin::constants::ChainHash::using_genesis_block(bitcoin::Network::Testnet);
				let init = Init {
					features: InitFeatures::from_le_bytes(f.clone()),
					networks: match net % 3 {
						0 => None,
						1 => Some(vec![ours]),
						_ => Some(vec![other]),
					},
					remote_network_address: None,
				};
				let compatible = !*unknown_even && !(net % 3 == 2 && self.cfg.chain[node]);
				let frame = enc!(&plaintext(16, &init.encode()));
				self.adv_put_framed(s, ci, &frame, Some((16, FrameEffect::Init { compatible, features: f })));
			},
			AdvMsg::Frame { ty, len, seed } => {
				if !ready {
					return false;
				}
				let mut p = vec![0u8; (*len as usize).min(65533)];
				Rng::new(*seed).fill(&mut p);
				let frame = enc!(&plaintext(*ty, &p));
				self.adv_put_framed(s, ci, &frame, Some((*ty, classify_raw(*ty, &p))));
			},
			AdvMsg::Burst { ty, len, count, seed } => {
				if !ready || is_standard_type(*ty) {
					return false;
				}
				let mut r = Rng::new(*seed);
				for i in 0..*count {
					let mut p = vec![0u8; ((*len + i % 5) as usize).min(65533)];
					r.fill(&mut p);
					let frame = enc!(&plaintext(*ty, &p));
					self.adv_put_framed(s, ci, &frame, Some((*ty, classify_raw(*ty, &p))));
				}
			},
			AdvMsg::Std { spec } => {
				if !ready {
					return false;
				}
				let to = self.nodes[node].id;
				let qs = build(spec, to, &self.pks);
				for q in qs {
					for w in q.wire {
						let frame = enc!(&plaintext(w.ty, &w.bytes));
						let eff = if is_standard_type(w.ty) {
							let zero_err = w.ty == 17 && w.bytes.len() >= 32 && w.bytes[..32].iter().all(|b| *b == 0);
							FrameEffect::Msg { wire: Some(w.clone()), then_kill: zero_err }
						} else {
							classify_raw(w.ty, &w.bytes)
						};
						self.adv_put_framed(s, ci, &frame, Some((w.ty, eff)));
					}
				}
				if let MsgSpec::Ping { ponglen, .. } = spec {
					let raw = self.conns[ci].raw.as_mut().unwrap();
					let alive = raw.model.state == ModelState::PostInit && raw.model.unsure_from.is_none() && raw.model.garbage_at.is_none();
					if *ponglen < 65532 && alive {
						raw.pongs_owed.push_back(*ponglen);
					}
				}
			},
			AdvMsg::BadStd { ty, len, seed } => {
				if !ready || !is_standard_type(*ty) {
					return false;
				}
				let mut p = vec![0u8; (*len as usize).min(65533)];
				Rng::new(*seed).fill(&mut p);
				let frame = enc!(&plaintext(*ty, &p));
				self.adv_put_framed(s, ci, &frame, Some((*ty, FrameEffect::Unsure)));
			},
			AdvMsg::Short { len } => {
				if !ready {
					return false;
				}
				let r = self.conns[ci].raw.as_mut().unwrap().encrypt_short((*len as usize).min(1));
				let frame = match r {
					Ok(b) => b,
					Err((m, l)) => {
						self.violate("C15-0 panic", format!("panic encrypting at {}: {}", l, m));
						self.dead = true;
						return true;
					},
				};
				self.adv_put_framed(s, ci, &frame, Some((0, FrameEffect::Short)));
			},
		}
		self.out.bump(&format!("probe:adv_sent_{}", what.kind()));
		true
	}

	fn do_fault(&mut self, a: &Action) -> bool {
		let sock = a.actor();
		// both ends must be PeerManagers: the adversary corrupts its own stream by other means, and
		// nothing is claimed about what the adversary makes of corrupted bytes
		if sock >= self.n_socks() || !self.is_open(sock) || self.owner(sock) == Owner::Raw || self.owner(sock ^ 1) == Owner::Raw {
			return false;
		}
		let src = sock ^ 1;
		let mut net = self.net.borrow_mut();
		let st = &mut net.socks[src as usize].out;
		let len = st.inflight_len();
		let head = st.head;
		let kind: &'static str;
		match a {
			Action::Flip { off, xor, .. } => {
				let off = *off as usize;
				if off >= len || *xor == 0 {
					return false;
				}
				st.inflight[head + off] ^= *xor;
				kind = "flip";
			},
			Action::Insert { off, byte, .. } => {
				let off = *off as usize;
				if off > len {
					return false;
				}
				st.inflight.insert(head + off, *byte);
				kind = "insert";
			},
			Action::Delete { off, .. } => {
				let off = *off as usize;
				if off >= len {
					return false;
				}
				st.inflight.remove(head + off);
				kind = "delete";
			},
			Action::Dup { off, .. } => {
				let off = *off as usize;
				if off >= len {
					return false;
				}
				let b = st.inflight[head + off];
				st.inflight.insert(head + off, b);
				kind = "dup";
			},
			Action::Replay { frame, off, .. } => {
				let off = *off as usize;
				let (fs, fe) = match st.frames.get(*frame as usize) {
					Some(f) => *f,
					None => return false,
				};
				if off > len || fe > st.orig.len() {
					return false;
				}
				let copy = st.orig[fs..fe].to_vec();
				let at = head + off;
				let tail = st.inflight.split_off(at);
				st.inflight.extend_from_slice(&copy);
				st.inflight.extend_from_slice(&tail);
				kind = "replay";
			},
			_ => return false,
		}
		st.tampered = true;
		st.fault_kinds.push(kind);
		drop(net);
		self.faults_applied += 1;
		self.out.bump(&format!("probe:tamper_applied_{}", kind));
		true
	}

	fn do_cut(&mut self, sock: u32) -> bool {
		if sock >= self.n_socks() || !self.is_open(sock) {
			return false;
		}
		let mid_frame = {
			let net = self.net.borrow();
			let k = &net.socks[sock as usize];
			let to_me = &net.socks[(sock ^ 1) as usize].out;
			k.out.cur_remaining > 0
				|| (to_me.delivered > 0 && to_me.units.iter().any(|e| *e > to_me.delivered) && !to_me.units.contains(&to_me.delivered))
		};
		if let Owner::Node(n) = self.owner(sock) {
			let d = self.descriptor(sock);
			let pm = self.nodes[n].pm.clone();
			if self.lib("socket_disconnected", || pm.socket_disconnected(&d)).is_none() {
				return true;
			}
			self.after_call(Ctx::SockDisc, None);
		}
		self.close(sock, CloseReason::Cut);
		self.out.bump("fault:cut");
		if mid_frame {
			self.out.bump("probe:cut_mid_frame");
		}
		true
	}

	fn do_notify(&mut self, sock: u32) -> bool {
		if sock >= self.n_socks() || !self.is_open(sock) || self.is_open(sock ^ 1) {
			return false;
		}
		if let Owner::Node(n) = self.owner(sock) {
			let d = self.descriptor(sock);
			let pm = self.nodes[n].pm.clone();
			if self.lib("socket_disconnected", || pm.socket_disconnected(&d)).is_none() {
				return true;
			}
			self.after_call(Ctx::SockDisc, None);
		}
		self.close(sock, CloseReason::PeerClosed);
		true
	}

	fn do_app_disconnect(&mut self, sock: u32) -> bool {
		if sock >= self.n_socks() || !self.is_open(sock) || !self.sock(sock).connected {
			return false;
		}
		let n = match self.owner(sock) {
			Owner::Node(n) => n,
			Owner::Raw => return false,
		};
		let id = self.remote_id(sock);
		let pm = self.nodes[n].pm.clone();
		if self.lib("disconnect_by_node_id", || pm.disconnect_by_node_id(id)).is_none() {
			return true;
		}
		self.after_call(Ctx::App(sock), None);
		if self.is_open(sock) {
			self.violate("C15-2 spurious disconnect", format!("disconnect_by_node_id did not disconnect socket {}", sock));
		}
		true
	}

	// ---------------------------------------------------------------------------------------------
	// settle: no more faults; pump until quiet; then the liveness half of C15-1/2

	fn total_written(&self) -> usize {
		self.net.borrow().socks.iter().map(|s| s.out.sent_total()).sum()
	}

	fn settle(&mut self) {
		let queued: usize = self.nodes.iter().map(|n| n.sh.borrow().pending_out()).sum();
		let inflight: usize = self.net.borrow().socks.iter().map(|s| s.out.frames.len()).sum();
		let max_rounds = 64 + queued / 8 + inflight / 64;
		let mut quiet = false;
		for _round in 0..max_rounds {
			if self.dead {
				return;
			}
			let mut moved = false;
			let w0 = self.total_written();
			for s in 0..self.n_socks() {
				if !self.is_open(s) || self.owner(s) == Owner::Raw {
					continue;
				}
				let short = {
					let mut net = self.net.borrow_mut();
					net.socks[s as usize].window = BIG_WINDOW;
					net.socks[s as usize].wbsa_owed
				};
				if short {
					self.do_wavail(s);
					self.out.bump("action:WriteAvail");
					moved = true;
				}
			}
			for n in 0..self.nodes.len() {
				self.do_process(n);
				self.out.bump("action:Process");
			}
			for r in 0..self.n_socks() {
				loop {
					if self.dead || !self.is_open(r) {
						break;
					}
					let (avail, cr) = {
						let net = self.net.borrow();
						(net.socks[(r ^ 1) as usize].out.inflight_len(), net.socks[r as usize].continue_read)
					};
					if avail == 0 || (!cr && self.owner(r) != Owner::Raw) {
						break;
					}
					self.do_deliver(r, 65536);
					self.out.bump("action:Deliver");
					moved = true;
				}
			}
			for s in 0..self.n_socks() {
				if self.is_open(s) && !self.is_open(s ^ 1) {
					self.do_notify(s);
					self.out.bump("action:NotifyClose");
					moved = true;
				}
			}
			if self.total_written() != w0 {
				moved = true;
			}
			if !moved {
				quiet = true;
				break;
			}
		}
		if self.dead {
			return;
		}
		self.settled = true;
		self.out.bump("oracle:C15-2 eventual delivery");
		if !quiet {
			self.violate("C15-2 eventual delivery", format!("the network did not become quiet within {} pumping rounds", max_rounds));
			return;
		}
		for ci in 0..self.conns.len() {
			let o = self.conns[ci].owners;
			let (a, b) = match (o[0], o[1]) {
				(Owner::Node(a), Owner::Node(b)) => (a, b),
				_ => continue,
			};
			let (sa, sb) = (ci as u32 * 2, ci as u32 * 2 + 1);
			let net = self.net.borrow();
			let (ka, kb) = (&net.socks[sa as usize], &net.socks[sb as usize]);
			if !ka.open || !kb.open || ka.out.tampered || kb.out.tampered {
				continue;
			}
			let (ca, cb) = (ka.connected, kb.connected);
			let stuck = ka.out.inflight_len() + kb.out.inflight_len() + ka.out.cur_remaining + kb.out.cur_remaining;
			let (ha, hb, ra, rb) = (ka.handed_base, kb.handed_base, ka.recv_base, kb.recv_base);
			drop(net);
			let unasked = self.nodes[a].sh.borrow().onion_out.get(&self.nodes[b].key).map(|q| q.len()).unwrap_or(0)
				+ self.nodes[b].sh.borrow().onion_out.get(&self.nodes[a].key).map(|q| q.len()).unwrap_or(0);
			self.out.bump("oracle:C15-1 handshake");
			if !ca || !cb {
				self.violate(
					"C15-1 handshake",
					format!("conn {} between nodes {} and {}: no fault, everything delivered, but peer_connected is {}/{}", ci, a, b, ca, cb),
				);
				continue;
			}
			if stuck != 0 {
				self.violate("C15-2 eventual delivery", format!("conn {}: {} bytes are stuck although both sides are up", ci, stuck));
			}
			if unasked != 0 {
				self.violate("C15-2 eventual delivery", format!("conn {}: {} onion messages were never asked for although both sides are up and idle", ci, unasked));
			}
			for (from, to, hbase, rbase) in [(a, b, ha, rb), (b, a, hb, ra)] {
				let sent = self.handed.get(&(from, self.nodes[to].key)).map(|v| v.len()).unwrap_or(0) - hbase;
				let got = self.recv_count.get(&(to, self.nodes[from].key)).copied().unwrap_or(0) - rbase;
				self.out.bump("oracle:C15-2 eventual delivery");
				if sent != got {
					self.violate(
						"C15-2 eventual delivery",
						format!("conn {}: node {} sent {} messages to node {}, {} arrived, and nothing is in flight any more", ci, from, sent, to, got),
					);
				} else if sent > 0 {
					self.out.bump("probe:direction_fully_delivered");
					if sent >= 1000 {
						self.out.bump("probe:two_key_rotations_crossed");
					} else if sent >= 500 {
						self.out.bump("probe:key_rotation_crossed");
					}
				}
			}
		}
		// adversary bursts crossing rotations
		for c in self.conns.iter() {
			if c.raw.is_some() && c.adv_recv.len() >= 1000 {
				self.out.bump("probe:two_key_rotations_crossed_adversary");
			}
		}
	}

	pub fn finish(mut self) -> RunOutcome {
		self.out.steps = self.step;
		self.out.sim_seconds = self.sim_secs;
		let nh = self.net.borrow().hist;
		self.out.history_fp = fnv_extend(self.hist, &nh.to_le_bytes());
		self.out.interleaving_fp = self.inter;
		self.out.state_fps = self.state_fps.iter().cloned().collect();
		let adv = self.conns.iter().filter(|c| c.raw.is_some()).count();
		self.out.nontrivial = self.msgs_delivered > 0
			|| self.out.counters.iter().any(|(k, v)| k.starts_with("fault:") && *v > 0);
		self.out.sample = Some(json!({
			"profile": self.cfg.profile,
			"nodes": self.cfg.n_nodes,
			"connections": self.conns.len(),
			"adversary_connections": adv,
			"init_window": self.cfg.init_window,
			"msg_mix": self.cfg.msg_mix,
			"messages_delivered": self.msgs_delivered,
			"first_actions": self.sample,
		}));
		let keep = std::env::var("TRANSPORTSIM_KEEP_REPLAY").is_ok();
		if keep || !self.out.violations.is_empty() || !self.out.harness_errors.is_empty() {
			self.out.replay = Some(json!({
				"sim": "transportsim",
				"profile": self.cfg.profile,
				"seed": self.cfg.seed,
				"config": serde_json::to_value(&self.cfg).unwrap(),
				"trace": serde_json::to_value(&self.trace).unwrap(),
			}));
		}
		self.out
	}
}
