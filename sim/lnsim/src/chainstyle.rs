//! C11: chain delivery styles (all inside the Listen / Confirm contracts), reorganisations, and
//! shadow monitors that are fed the same updates but the chain in another style and lazily (so
//! that short-lived forks never reach them); conclusions are compared at equal tips.

use crate::infra::*;
use crate::world::*;
use bitcoin::block::Header;
use bitcoin::{BlockHash, Transaction, Txid};
use lightning::chain::channelmonitor::{ChannelMonitor, ChannelMonitorUpdate};
use lightning::chain::{BlockLocator, Confirm, Listen};
use lightning::util::ser::{Readable, Writeable};
use simcore::runner::catch;
use std::collections::BTreeMap;
use std::sync::Arc;

pub const N_STYLES: u8 = 7;

pub fn style_name(s: u8) -> &'static str {
	match s {
		0 => "confirm_txs_then_best_block",
		1 => "confirm_best_block_then_txs",
		2 => "listen_full_blocks",
		3 => "listen_filtered_blocks",
		4 => "confirm_skipping_intermediate_best_blocks",
		5 => "confirm_duplicated_transactions_confirmed",
		_ => "confirm_dependent_txs_in_separate_calls",
	}
}

pub struct Shadow {
	pub mon: ChannelMonitor<SimSigner>,
	/// hash the shadow was told for each height (index = height); zero = never told
	pub view: Vec<BlockHash>,
	pub height: u32,
	pub style: u8,
	pub sink: Arc<SimBroadcaster>,
	/// whether the shadow's owner polls get_and_clear_pending_monitor_events after each sync (a
	/// ChainMonitor-hosted monitor is polled by the ChannelManager; a stand-alone one need not be)
	pub release_events: bool,
}

/// What a chain consumer must implement for the style driver.
pub trait ChainTarget {
	fn txs_confirmed(&self, header: &Header, txdata: &[(usize, &Transaction)], height: u32);
	fn best_block(&self, header: &Header, height: u32);
	fn filtered_block(&self, header: &Header, txdata: &[(usize, &Transaction)], height: u32);
	fn disconnected(&self, fork_hash: BlockHash, fork_height: u32);
	fn unconfirmed(&self, txid: &Txid);
	fn relevant(&self) -> Vec<(Txid, u32, Option<BlockHash>)>;
	fn wants(&self, tx: &Transaction) -> bool;
}

pub struct LiveTarget {
	pub mgr: Arc<SimManager>,
	pub mon: Arc<SimChainMonitor>,
	pub filter: Arc<SimFilter>,
}

impl ChainTarget for LiveTarget {
	fn txs_confirmed(&self, header: &Header, txdata: &[(usize, &Transaction)], height: u32) {
		self.mon.transactions_confirmed(header, txdata, height);
		self.mgr.transactions_confirmed(header, txdata, height);
	}
	fn best_block(&self, header: &Header, height: u32) {
		self.mon.best_block_updated(header, height);
		self.mgr.best_block_updated(header, height);
	}
	fn filtered_block(&self, header: &Header, txdata: &[(usize, &Transaction)], height: u32) {
		self.mon.filtered_block_connected(header, txdata, height);
		self.mgr.filtered_block_connected(header, txdata, height);
	}
	fn disconnected(&self, fork_hash: BlockHash, fork_height: u32) {
		self.mon.blocks_disconnected(BlockLocator::new(fork_hash, fork_height));
		self.mgr.blocks_disconnected(BlockLocator::new(fork_hash, fork_height));
	}
	fn unconfirmed(&self, txid: &Txid) {
		self.mon.transaction_unconfirmed(txid);
		self.mgr.transaction_unconfirmed(txid);
	}
	fn relevant(&self) -> Vec<(Txid, u32, Option<BlockHash>)> {
		let mut v = Confirm::get_relevant_txids(&*self.mon);
		v.extend(Confirm::get_relevant_txids(&*self.mgr));
		v
	}
	fn wants(&self, tx: &Transaction) -> bool {
		self.filter.matches(tx)
	}
}

pub struct ShadowTarget<'a> {
	pub sh: &'a Shadow,
	pub fee: Arc<SimFee>,
	pub logger: Arc<SimLogger>,
}

impl<'a> ChainTarget for ShadowTarget<'a> {
	fn txs_confirmed(&self, header: &Header, txdata: &[(usize, &Transaction)], height: u32) {
		self.sh.mon.transactions_confirmed(header, txdata, height, &self.sh.sink, &self.fee, &self.logger);
	}
	fn best_block(&self, header: &Header, height: u32) {
		self.sh.mon.best_block_updated(header, height, &self.sh.sink, &self.fee, &self.logger);
	}
	fn filtered_block(&self, header: &Header, txdata: &[(usize, &Transaction)], height: u32) {
		self.sh.mon.block_connected(header, txdata, height, &self.sh.sink, &self.fee, &self.logger);
	}
	fn disconnected(&self, fork_hash: BlockHash, fork_height: u32) {
		self.sh.mon.blocks_disconnected(
			BlockLocator::new(fork_hash, fork_height),
			&self.sh.sink,
			&self.fee,
			&self.logger,
		);
	}
	fn unconfirmed(&self, txid: &Txid) {
		self.sh.mon.transaction_unconfirmed(txid, &self.sh.sink, &self.fee, &self.logger);
	}
	fn relevant(&self) -> Vec<(Txid, u32, Option<BlockHash>)> {
		self.sh.mon.get_relevant_txids()
	}
	fn wants(&self, _tx: &Transaction) -> bool {
		true
	}
}

/// Brings a consumer whose view of the chain is `view` (hash per height, up to `height`) to the
/// tip of `chain`, in `style`. Returns the new (view, height).
pub fn drive(
	chain: &crate::chain::ChainModel, t: &dyn ChainTarget, view: &mut Vec<BlockHash>, height: &mut u32,
	style: u8, counters: &mut Vec<String>,
) {
	let tip = chain.tip_height();
	// 1. fork point: highest height at which the consumer's view agrees with the chain
	let mut fork = (*height).min(tip);
	while fork > 0 {
		let h = chain.block_at(fork).header.block_hash();
		if (fork as usize) < view.len() && view[fork as usize] == h {
			break;
		}
		fork -= 1;
	}
	let listen = style == 2 || style == 3;
	if fork < *height {
		counters.push(format!("fault:reorg_delivered_via_{}", if listen { "blocks_disconnected" } else { "transaction_unconfirmed" }));
		let fh = chain.block_at(fork).header.block_hash();
		if listen {
			t.disconnected(fh, fork);
		} else {
			// every relevant transaction whose block is gone is unconfirmed en bloc, before any
			// (re)confirmation
			let mut seen = std::collections::BTreeSet::new();
			for (txid, h, bh) in t.relevant() {
				let gone = match bh {
					Some(b) => {
						h > tip || chain.block_at(h).header.block_hash() != b
					},
					None => h > fork,
				};
				if gone && seen.insert(txid) {
					t.unconfirmed(&txid);
				}
			}
			// the consumer must learn about the lower tip if the new chain is not longer
			let fb = chain.block_at(fork);
			t.best_block(&fb.header, fork);
		}
		view.truncate(fork as usize + 1);
		*height = fork;
	}
	// 2. forward
	if *height >= tip {
		return;
	}
	let start = *height + 1;
	for h in start..=tip {
		let b = chain.block_at(h);
		let all: Vec<(usize, &Transaction)> = b.txs.iter().enumerate().map(|(i, x)| (i + 1, x)).collect();
		match style {
			0 => {
				if !all.is_empty() {
					t.txs_confirmed(&b.header, &all, h);
				}
				t.best_block(&b.header, h);
			},
			1 => {
				t.best_block(&b.header, h);
				if !all.is_empty() {
					t.txs_confirmed(&b.header, &all, h);
				}
			},
			2 => t.filtered_block(&b.header, &all, h),
			3 => {
				// only what the consumer registered for; transactions that only become relevant
				// through an earlier transaction of the same block are given in a second call
				// only what the consumer registered for, plus (in block order) whatever spends an
				// output of a transaction already selected: those become relevant the moment their
				// parent is processed
				let mut sel: Vec<(usize, &Transaction)> = Vec::new();
				let mut sel_ids: Vec<Txid> = Vec::new();
				for (i, x) in all.iter() {
					let dependent = x.input.iter().any(|inp| sel_ids.contains(&inp.previous_output.txid));
					if t.wants(x) || dependent {
						if dependent && !t.wants(x) {
							counters.push("probe:filtered_style_dependent_tx_in_same_block".to_string());
						}
						sel.push((*i, *x));
						sel_ids.push(x.compute_txid());
					}
				}
				t.filtered_block(&b.header, &sel, h);
			},
			4 => {
				if !all.is_empty() {
					t.txs_confirmed(&b.header, &all, h);
				}
				if h == tip {
					t.best_block(&b.header, h);
				}
			},
			5 => {
				if !all.is_empty() {
					t.txs_confirmed(&b.header, &all, h);
					t.txs_confirmed(&b.header, &all, h);
				}
				t.best_block(&b.header, h);
			},
			_ => {
				for one in all.iter() {
					t.txs_confirmed(&b.header, &[*one], h);
				}
				t.best_block(&b.header, h);
			},
		}
		while view.len() <= h as usize {
			view.push(BlockHash::from_raw_hash(bitcoin::hashes::Hash::all_zeros()));
		}
		view[h as usize] = b.header.block_hash();
	}
	*height = tip;
	// intermediate hashes skipped by style 4 are still recorded (the consumer is on that chain)
	counters.push(format!("style:{}", style_name(style)));
}

impl World {
	pub fn make_shadows(&mut self, n: usize) {
		let mon = match self.nodes[n].live.as_ref() {
			Some(l) => l.monitor.clone(),
			None => return,
		};
		let mut shadows = BTreeMap::new();
		for cid in mon.list_monitors() {
			let bytes = match mon.get_monitor(cid) {
				Ok(m) => m.encode(),
				Err(_) => continue,
			};
			if let Ok(Ok(m2)) = self.read_monitor(n, &bytes) {
				let h = m2.current_best_block().height;
				let mut view: Vec<BlockHash> = Vec::new();
				for i in 0..=h.min(self.chain.tip_height()) {
					view.push(self.chain.block_at(i).header.block_hash());
				}
				// the monitor's own idea of its best block decides whether the view is right
				if (h as usize) < view.len() {
					view[h as usize] = m2.current_best_block().block_hash;
				}
				let mut style = ((self.nodes[n].style as usize + 1 + (cid.0[0] as usize % 5)) % N_STYLES as usize) as u8;
				if let Ok(v) = std::env::var("VERIF_SHADOW_STYLE") {
					// debugging aid: "same" or a style number
					style = if v == "same" { self.nodes[n].style } else { v.parse().unwrap_or(style) };
				}
				shadows.insert(
					cid.0,
					Shadow {
						mon: m2,
						view,
						height: h,
						style,
						sink: Arc::new(SimBroadcaster::new()),
						release_events: match std::env::var("VERIF_SHADOW_RELEASE").ok().as_deref() {
							Some("0") => false,
							Some("1") => true,
							_ => (cid.0[1] ^ self.cfg.node_seed as u8) % 4 != 0,
						},
					},
				);
			}
		}
		self.nodes[n].shadows = shadows;
	}

	/// Applies an update the live ChainMonitor was handed to the shadow as well.
	pub fn shadow_update(&mut self, n: usize, chan: [u8; 32], update_bytes: &[u8]) {
		let fee = self.nodes[n].fee.clone();
		let logger = self.nodes[n].logger.clone();
		if let Some(sh) = self.nodes[n].shadows.get(&chan) {
			if let Ok(u) = ChannelMonitorUpdate::read(&mut &update_bytes[..]) {
				if u.update_id <= sh.mon.get_latest_update_id() && u.update_id != u64::MAX {
					return;
				}
				let r = catch(|| sh.mon.update_monitor(&u, &sh.sink, &fee, &logger));
				if std::env::var("VERIF_TRACE").is_ok() {
					eprintln!("[shadow] node {} chan {} update {} {:?} -> {:?}", n, simcore::hex(&chan[..4]), u.update_id, u.verif_steps(), r.map(|x| x.is_ok()));
				}
			}
		}
	}

	/// Brings the shadows of node n to the tip (their own style, lazily) and compares conclusions.
	pub fn shadow_compare(&mut self, n: usize) {
		let mon = match self.nodes[n].live.as_ref() {
			Some(l) => l.monitor.clone(),
			None => return,
		};
		if self.nodes[n].synced_height != self.chain.tip_height() {
			return;
		}
		let fee = self.nodes[n].fee.clone();
		let logger = self.nodes[n].logger.clone();
		let keys: Vec<[u8; 32]> = self.nodes[n].shadows.keys().cloned().collect();
		for k in keys {
			let mut counters = Vec::new();
			{
				let sh = self.nodes[n].shadows.get(&k).unwrap();
				let mut view = sh.view.clone();
				let mut height = sh.height;
				let style = sh.style;
				let tgt = ShadowTarget { sh, fee: fee.clone(), logger: logger.clone() };
				let r = catch(|| drive(&self.chain, &tgt, &mut view, &mut height, style, &mut counters));
				if let Err((m, l)) = r {
					self.violate(
						"C11",
						"C11-0 panic while delivering the chain in another style",
						format!("node {} shadow of {} style {}: {} at {}", n, simcore::hex(&k[..4]), style_name(style), m, l),
					);
					self.nodes[n].shadows.remove(&k);
					continue;
				}
				let sh = self.nodes[n].shadows.get_mut(&k).unwrap();
				sh.view = view;
				sh.height = height;
				if sh.release_events {
					let _ = sh.mon.get_and_clear_pending_monitor_events();
				}
			}
			for c in counters {
				self.out.bump(&c);
			}
			let live = match mon.get_monitor(lightning::ln::types::ChannelId(k)) {
				Ok(m) => m,
				Err(_) => continue,
			};
			let sh = self.nodes[n].shadows.get(&k).unwrap();
			if live.get_latest_update_id() != sh.mon.get_latest_update_id() {
				// deferred mode: the live monitor has not applied queued updates yet
				continue;
			}
			self.out.bump("oracle:C11-1 same conclusions whatever the delivery style");
			let fmt_bal = |m: &ChannelMonitor<SimSigner>| -> Vec<String> {
				let mut v: Vec<String> = m.get_claimable_balances().iter().map(|b| format!("{:?}", b)).collect();
				v.sort();
				v
			};
			let fmt_rel = |m: &ChannelMonitor<SimSigner>| -> Vec<String> {
				let mut v: Vec<String> =
					m.get_relevant_txids().iter().map(|(t, h, b)| format!("{} {} {:?}", t, h, b)).collect();
				v.sort();
				v.dedup();
				v
			};
			let (ba, bb) = (fmt_bal(&live), fmt_bal(&sh.mon));
			let (ra, rb) = (fmt_rel(&live), fmt_rel(&sh.mon));
			let (ta, tb) = (live.current_best_block(), sh.mon.current_best_block());
			let style = sh.style;
			// one side polled its pending monitor events before a reorganisation and the other did not
			// (the shadow by its own rule, the live monitor because its manager had not been pumped)
			let reorged = self.out.counters.get("probe:reorg_removed_transactions").copied().unwrap_or(0) > 0;
			let live_unpolled = self.nodes[n].last_poll_step < self.last_reorg_step;
			// (the latched variant only explains differences in HTLC balances)
			let only_htlc_diff = ba.iter().filter(|x| !bb.contains(x)).chain(bb.iter().filter(|x| !ba.contains(x))).all(|x| {
				x.starts_with("MaybeTimeoutClaimableHTLC") || x.starts_with("MaybePreimageClaimableHTLC") || x.starts_with("ContentiousClaimable")
			});
			let unreleased = reorged
				&& (!sh.release_events || live_unpolled || (self.nodes[n].unpolled_at_reorg && only_htlc_diff));
			let tag = if unreleased {
				" [pending monitor events were polled on one side only (live or shadow) and a reorganisation removed transactions: a still-pending HTLCEvent suppresses re-recording the HTLC's resolution when it is re-confirmed]"
			} else {
				""
			};
			if std::env::var("VERIF_TRACE").is_ok() {
				eprintln!("[cmp] node {} chan {} h{} live bal {:?} rel {:?} | shadow bal {:?} rel {:?}", n, simcore::hex(&k[..4]), ta.height, ba, ra, bb, rb);
			}
			if !ba.is_empty() {
				self.out.bump("probe:compared_monitors_with_balances");
			}
			if ta.block_hash != tb.block_hash || ta.height != tb.height {
				self.violate(
					"C11",
					"C11-1 best block differs between delivery styles",
					format!("node {} channel {}: live ({}) {} @{} / shadow ({}) {} @{}", n, simcore::hex(&k[..4]), style_name(self.nodes[n].style), ta.block_hash, ta.height, style_name(style), tb.block_hash, tb.height),
				);
			} else if ba != bb {
				self.violate(
					"C11",
					"C11-1 claimable balances differ between delivery styles",
					format!("node {} channel {} at height {}: live ({}) {:?} / shadow ({}) {:?}{}", n, simcore::hex(&k[..4]), ta.height, style_name(self.nodes[n].style), ba, style_name(style), bb, tag),
				);
			} else if ra != rb {
				self.violate(
					"C11",
					"C11-1 transactions watched for reorganisation differ between delivery styles",
					format!("node {} channel {} at height {}: live ({}) {:?} / shadow ({}) {:?}{}", n, simcore::hex(&k[..4]), ta.height, style_name(self.nodes[n].style), ra, style_name(style), rb, tag),
				);
			}
		}
	}

	pub fn do_reorg(&mut self, depth: u32, readmit: bool, new_len: u32) -> bool {
		let depth = depth.min(self.chain.tip_height().saturating_sub(12));
		if depth == 0 {
			return false;
		}
		let removed = self.chain.reorg(depth, readmit);
		if !removed.is_empty() {
			self.last_reorg_step = self.step;
			for x in self.nodes.iter_mut() {
				if x.last_poll_step <= x.last_sync_step {
					x.unpolled_at_reorg = true;
				}
			}
		}
		if !readmit && self.readmit_foreign {
			// only what live nodes handed to their broadcasters is lost (they are responsible for
			// broadcasting it again); transactions of parties that are gone, of the miner and of
			// the harness's own wallets stay in the mempool as they would in reality
			for tx in removed.iter() {
				let txid = tx.compute_txid();
				// (what an earlier incarnation of a node broadcast counts as foreign too: the fault
				// loses what the running process itself handed over and therefore tracks)
				let own = self.nodes.iter().any(|x| {
					x.live.is_some()
						&& !x.gone && x.broadcaster.first_seen.lock().unwrap().get(&txid).map_or(false, |s| *s >= x.live_since_step)
				});
				if !own && !self.chain.setup_txids.contains(&txid) {
					let _ = self.chain.admit_ext(tx, true, true);
				}
			}
		}
		self.oracle.last_fee.clear();
		self.oracle.last_bump_rate.clear();
		self.out.bump(&format!("fault:reorg_depth_{}", depth.min(7)));
		if !removed.is_empty() {
			self.out.bump("probe:reorg_removed_transactions");
		}
		self.note(&format!("reorg depth {} removing {} txs (readmit {})", depth, removed.len(), readmit));
		// the new branch must have at least as many blocks (more work)
		for _ in 0..new_len.max(depth + 1) {
			if self.chain.mempool.is_empty() {
				self.chain.mine_empty(1);
			} else {
				self.chain.mine_all();
			}
		}
		self.resync_wallets();
		true
	}
}
