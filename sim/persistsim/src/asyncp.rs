//! Part (c) of DESIGN §C19: `MonitorUpdatingPersisterAsync` behind `ChainMonitor::new_async_beta`.
//!
//! The write path of the async persister is only reachable through a `ChainMonitor` built with
//! `new_async_beta`, so the mirror here is a second, real `ChainMonitor` per mirrored node. It is
//! registered with the node's monitors after channel setup and from then on receives
//! * every `ChannelMonitorUpdate` the node's `ChannelManager` produced (bytes from the `Watch` tap),
//!   through the real `chain::Watch::update_channel`, and
//! * every block the node was given, through `chain::Confirm`.
//! Its persister writes to `AsyncKv`: every store operation is *issued* synchronously (that is the
//! `KVStore` contract) and parked; the scheduler decides when each parked operation takes effect —
//! in any order across keys, in issue order per key (profile `async`), or in global issue order
//! (profile `async-fifo`, a store stronger than the contract demands). Spawned futures are parked
//! in a list and polled by the simulator. A crash drops the `ChainMonitor`, the futures and the
//! parked operations; the store keeps what has taken effect. After every operation that takes
//! effect the crash state is recovered with a fresh persister and checked as in part (b);
//! acknowledgement = `MonitorEvent::Completed` released by the `ChainMonitor` (C09-2 for this
//! persister: completion only after the write resolved).

use crate::kv::{join, OpKind, SimKv, Snapshot, Val};
use crate::mirror::{drain_events, read_monitor, MirrorKeys, Mon};
use bitcoin::Transaction;
use lightning::chain::chainmonitor::{AsyncPersister, ChainMonitor};
use lightning::chain::channelmonitor::{ChannelMonitorUpdate, MonitorEvent};
use lightning::chain::{ChannelMonitorUpdateStatus, Confirm, Watch};
use lightning::io;
use lightning::ln::types::ChannelId;
use lightning::sign::NodeSigner;
use lightning::util::native_async::FutureSpawner;
use lightning::util::persist::{
	KVStore, KVStoreSync, MonitorUpdatingPersisterAsync, CHANNEL_MONITOR_PERSISTENCE_PRIMARY_NAMESPACE,
	CHANNEL_MONITOR_UPDATE_PERSISTENCE_PRIMARY_NAMESPACE,
};
use lightning::util::ser::{Readable, Writeable};
use lnsim::infra::{SimBroadcaster, SimFee, SimFilter, SimKeys, SimLogger, SimSigner};
use lnsim::world::{Action as WAction, World};
use serde::{Deserialize, Serialize};
use serde_json::{json, Value};
use simcore::runner::catch;
use simcore::{fnv, fnv_extend, Rng, RunOutcome, Tier};
use std::collections::{BTreeMap, BTreeSet};
use std::future::Future;
use std::pin::Pin;
use std::sync::{Arc, Mutex};
use std::task::{Context, Poll, Waker};

/// Oracle name of the one failure class that is specific to a store which lets writes to
/// different keys take effect out of issue order (allowed by the `KVStore` contract).
pub const ORACLE_REORDER: &str = "C19-1a recovery fails after writes to different keys took effect out of issue order";

// ---------------------------------------------------------------------------------------------
// parked store operations

pub struct OpFuture<T>(Arc<Mutex<Option<T>>>);

impl<T> Future for OpFuture<T> {
	type Output = T;
	fn poll(self: Pin<&mut Self>, _cx: &mut Context<'_>) -> Poll<T> {
		match self.0.lock().unwrap().take() {
			Some(v) => Poll::Ready(v),
			None => Poll::Pending,
		}
	}
}

enum Slot {
	Bytes(Arc<Mutex<Option<Result<Vec<u8>, io::Error>>>>),
	Unit(Arc<Mutex<Option<Result<(), io::Error>>>>),
	List(Arc<Mutex<Option<Result<Vec<String>, io::Error>>>>),
}

pub struct Parked {
	pub seq: u64,
	pub kind: OpKind,
	pub p: String,
	pub s: String,
	pub k: String,
	pub value: Option<Vec<u8>>,
	/// harness call during which the operation was issued
	pub call: usize,
	slot: Slot,
}

pub struct AsyncKv {
	pub store: SimKv,
	pub parked: Mutex<Vec<Parked>>,
	/// recovery mode: every operation takes effect at once
	pub immediate: std::sync::atomic::AtomicBool,
	pub seq: Mutex<u64>,
	pub cur_call: Mutex<usize>,
	/// applied op index -> harness call that issued it
	pub op_call: Mutex<BTreeMap<usize, usize>>,
}

impl AsyncKv {
	pub fn new(lazy_mode: u8, list_salt: u64) -> AsyncKv {
		AsyncKv {
			store: SimKv::new(lazy_mode, list_salt, true),
			parked: Mutex::new(Vec::new()),
			immediate: std::sync::atomic::AtomicBool::new(false),
			seq: Mutex::new(0),
			cur_call: Mutex::new(0),
			op_call: Mutex::new(BTreeMap::new()),
		}
	}
	pub fn recovering(state: &BTreeMap<String, (Val, usize)>, list_salt: u64) -> AsyncKv {
		AsyncKv {
			store: SimKv::from_state(state, list_salt),
			parked: Mutex::new(Vec::new()),
			immediate: std::sync::atomic::AtomicBool::new(true),
			seq: Mutex::new(0),
			cur_call: Mutex::new(0),
			op_call: Mutex::new(BTreeMap::new()),
		}
	}
	fn park(&self, kind: OpKind, p: &str, s: &str, k: &str, value: Option<Vec<u8>>, slot: Slot) {
		let seq = {
			let mut q = self.seq.lock().unwrap();
			*q += 1;
			*q
		};
		let call = *self.cur_call.lock().unwrap();
		self.parked.lock().unwrap().push(Parked {
			seq,
			kind,
			p: p.into(),
			s: s.into(),
			k: k.into(),
			value,
			call,
			slot,
		});
	}
	/// Indices (into `parked`) of the operations that may take effect next.
	pub fn eligible(&self, global_fifo: bool) -> Vec<usize> {
		let parked = self.parked.lock().unwrap();
		let mut out = Vec::new();
		let mut seen_keys: BTreeSet<String> = BTreeSet::new();
		let mut seen_mutating = false;
		for (i, op) in parked.iter().enumerate() {
			match op.kind {
				OpKind::Read | OpKind::List => out.push(i),
				OpKind::Write | OpKind::Remove { .. } => {
					let jk = join(&op.p, &op.s, &op.k);
					let first_on_key = seen_keys.insert(jk);
					if first_on_key && !(global_fifo && seen_mutating) {
						out.push(i);
					}
					seen_mutating = true;
				},
			}
		}
		out
	}
	/// Lets the `idx`-th parked operation take effect. Returns its kind.
	pub fn resolve(&self, idx: usize) -> Option<OpKind> {
		let op = {
			let mut parked = self.parked.lock().unwrap();
			if idx >= parked.len() {
				return None;
			}
			parked.remove(idx)
		};
		self.store.set_call(op.call);
		let before = self.store.op_count();
		match (op.kind, op.slot) {
			(OpKind::Read, Slot::Bytes(s)) => {
				*s.lock().unwrap() = Some(KVStoreSync::read(&self.store, &op.p, &op.s, &op.k));
			},
			(OpKind::Write, Slot::Unit(s)) => {
				*s.lock().unwrap() =
					Some(KVStoreSync::write(&self.store, &op.p, &op.s, &op.k, op.value.unwrap_or_default()));
			},
			(OpKind::Remove { lazy }, Slot::Unit(s)) => {
				*s.lock().unwrap() = Some(KVStoreSync::remove(&self.store, &op.p, &op.s, &op.k, lazy));
			},
			(OpKind::List, Slot::List(s)) => {
				*s.lock().unwrap() = Some(KVStoreSync::list(&self.store, &op.p, &op.s));
			},
			_ => {},
		}
		self.op_call.lock().unwrap().insert(before, op.call);
		Some(op.kind)
	}
}

impl KVStore for AsyncKv {
	fn read(
		&self, p: &str, s: &str, k: &str,
	) -> impl Future<Output = Result<Vec<u8>, io::Error>> + 'static + Send {
		let slot = Arc::new(Mutex::new(None));
		if self.immediate.load(std::sync::atomic::Ordering::Relaxed) {
			*slot.lock().unwrap() = Some(KVStoreSync::read(&self.store, p, s, k));
		} else {
			self.park(OpKind::Read, p, s, k, None, Slot::Bytes(Arc::clone(&slot)));
		}
		OpFuture(slot)
	}
	fn write(
		&self, p: &str, s: &str, k: &str, buf: Vec<u8>,
	) -> impl Future<Output = Result<(), io::Error>> + 'static + Send {
		let slot = Arc::new(Mutex::new(None));
		if self.immediate.load(std::sync::atomic::Ordering::Relaxed) {
			*slot.lock().unwrap() = Some(KVStoreSync::write(&self.store, p, s, k, buf));
		} else {
			self.park(OpKind::Write, p, s, k, Some(buf), Slot::Unit(Arc::clone(&slot)));
		}
		OpFuture(slot)
	}
	fn remove(
		&self, p: &str, s: &str, k: &str, lazy: bool,
	) -> impl Future<Output = Result<(), io::Error>> + 'static + Send {
		let slot = Arc::new(Mutex::new(None));
		if self.immediate.load(std::sync::atomic::Ordering::Relaxed) {
			*slot.lock().unwrap() = Some(KVStoreSync::remove(&self.store, p, s, k, lazy));
		} else {
			self.park(OpKind::Remove { lazy }, p, s, k, None, Slot::Unit(Arc::clone(&slot)));
		}
		OpFuture(slot)
	}
	fn list(&self, p: &str, s: &str) -> impl Future<Output = Result<Vec<String>, io::Error>> + 'static + Send {
		let slot = Arc::new(Mutex::new(None));
		if self.immediate.load(std::sync::atomic::Ordering::Relaxed) {
			*slot.lock().unwrap() = Some(KVStoreSync::list(&self.store, p, s));
		} else {
			self.park(OpKind::List, p, s, "", None, Slot::List(Arc::clone(&slot)));
		}
		OpFuture(slot)
	}
}

// ---------------------------------------------------------------------------------------------
// the spawner: parks futures; the simulator polls them

type Task = Pin<Box<dyn Future<Output = ()> + Send>>;

#[derive(Clone)]
pub struct ParkSpawner {
	pub tasks: Arc<Mutex<Vec<Task>>>,
}

pub struct SpawnHandle<O>(Arc<Mutex<Option<O>>>);

impl<O> Future for SpawnHandle<O> {
	type Output = Result<O, ()>;
	fn poll(self: Pin<&mut Self>, _cx: &mut Context<'_>) -> Poll<Result<O, ()>> {
		match self.0.lock().unwrap().take() {
			Some(v) => Poll::Ready(Ok(v)),
			None => Poll::Pending,
		}
	}
}

impl FutureSpawner for ParkSpawner {
	type E = ();
	type SpawnedFutureResult<O> = SpawnHandle<O>;
	fn spawn<O: Send + 'static, T: Future<Output = O> + Send + 'static>(&self, future: T) -> SpawnHandle<O> {
		let slot = Arc::new(Mutex::new(None));
		let s2 = Arc::clone(&slot);
		self.tasks.lock().unwrap().push(Box::pin(async move {
			let o = future.await;
			*s2.lock().unwrap() = Some(o);
		}));
		SpawnHandle(slot)
	}
}

impl ParkSpawner {
	pub fn new() -> Self {
		ParkSpawner { tasks: Arc::new(Mutex::new(Vec::new())) }
	}
	/// Polls every parked future once; returns how many finished.
	pub fn poll_all(&self) -> usize {
		let mut tasks: Vec<Task> = std::mem::take(&mut *self.tasks.lock().unwrap());
		let mut cx = Context::from_waker(Waker::noop());
		let mut done = 0;
		let mut keep: Vec<Task> = Vec::new();
		for mut t in tasks.drain(..) {
			match t.as_mut().poll(&mut cx) {
				Poll::Ready(()) => done += 1,
				Poll::Pending => keep.push(t),
			}
		}
		let mut g = self.tasks.lock().unwrap();
		// futures spawned while polling come after the older ones
		let newer: Vec<Task> = std::mem::take(&mut *g);
		*g = keep;
		g.extend(newer);
		done
	}
	pub fn len(&self) -> usize {
		self.tasks.lock().unwrap().len()
	}
}

fn block_on_ready<F: Future>(f: F) -> Option<F::Output> {
	let mut cx = Context::from_waker(Waker::noop());
	let mut f = std::pin::pin!(f);
	match f.as_mut().poll(&mut cx) {
		Poll::Ready(v) => Some(v),
		Poll::Pending => None,
	}
}

// ---------------------------------------------------------------------------------------------

type APersister = MonitorUpdatingPersisterAsync<
	Arc<AsyncKv>,
	ParkSpawner,
	Arc<SimLogger>,
	Arc<MirrorKeys>,
	Arc<MirrorKeys>,
	Arc<SimBroadcaster>,
	Arc<SimFee>,
>;

type AChainMonitor = ChainMonitor<
	SimSigner,
	Arc<SimFilter>,
	Arc<SimBroadcaster>,
	Arc<SimFee>,
	Arc<SimLogger>,
	AsyncPersister<
		Arc<AsyncKv>,
		ParkSpawner,
		Arc<SimLogger>,
		Arc<MirrorKeys>,
		Arc<MirrorKeys>,
		Arc<SimBroadcaster>,
		Arc<SimFee>,
	>,
	Arc<MirrorKeys>,
>;

struct AHanded {
	id: u64,
	blob: Val,
	update: Option<Val>,
	mon: Arc<Mon>,
	epoch: u64,
}

#[derive(Default)]
struct AChan {
	key: String,
	chan_id: [u8; 32],
	acked: Option<u64>,
	handed: Vec<AHanded>,
	update_by_id: BTreeMap<u64, usize>,
	/// harness call -> handed index (the monitor as it was when that call issued its writes)
	by_call: BTreeMap<usize, usize>,
	verified: BTreeMap<u64, u64>,
}

pub struct AsyncMirror {
	pub node: usize,
	pub kv: Arc<AsyncKv>,
	pub spawner: ParkSpawner,
	pub keys: Arc<MirrorKeys>,
	pub logger: Arc<SimLogger>,
	pub broadcaster: Arc<SimBroadcaster>,
	pub fee: Arc<SimFee>,
	cm: Option<Arc<AChainMonitor>>,
	/// a second persister over the same store, for `cleanup_stale_updates`
	aux: APersister,
	pub max_pending: u64,
	pub dead: bool,
	chans: BTreeMap<String, AChan>,
	chan_keys: BTreeMap<[u8; 32], String>,
	calls: usize,
	ops_seen: usize,
	pub global_fifo: bool,
	pub coin_seed: u64,
	pub list_salt: u64,
	pub epoch: u64,
	pub height: u32,
	pub crash_states: u64,
}

struct ACtx<'a> {
	out: &'a mut RunOutcome,
	step: u64,
	hist: &'a mut u64,
}

impl<'a> ACtx<'a> {
	fn note(&mut self, s: &str) {
		*self.hist = fnv_extend(*self.hist, s.as_bytes());
		if std::env::var("VERIF_TRACE").is_ok() {
			eprintln!("[{}] apersist: {}", self.step, s);
		}
	}
	fn violate(&mut self, oracle: &str, msg: String) {
		if std::env::var("VERIF_TRACE").is_ok() {
			eprintln!("[{}] VIOLATION C19 {}: {}", self.step, oracle, msg);
		}
		let step = self.step;
		self.out.violate("C19", oracle, step, msg);
	}
}

fn new_apersister(
	kv: &Arc<AsyncKv>, spawner: &ParkSpawner, logger: &Arc<SimLogger>, keys: &Arc<MirrorKeys>,
	bc: &Arc<SimBroadcaster>, fee: &Arc<SimFee>, max_pending: u64,
) -> APersister {
	MonitorUpdatingPersisterAsync::new(
		Arc::clone(kv),
		spawner.clone(),
		Arc::clone(logger),
		max_pending,
		Arc::clone(keys),
		Arc::clone(keys),
		Arc::clone(bc),
		Arc::clone(fee),
	)
}

impl AsyncMirror {
	#[allow(clippy::too_many_arguments)]
	fn new(
		node: usize, node_keys: Arc<SimKeys>, fee: Arc<SimFee>, max_pending: u64, lazy_mode: u8,
		coin_seed: u64, list_salt: u64, global_fifo: bool,
	) -> AsyncMirror {
		let kv = Arc::new(AsyncKv::new(lazy_mode, list_salt));
		let spawner = ParkSpawner::new();
		let peer_key = node_keys.get_peer_storage_key();
		let keys = Arc::new(MirrorKeys::new(node_keys));
		let logger = Arc::new(SimLogger::new(200 + node));
		let broadcaster = Arc::new(SimBroadcaster::new());
		let persister = new_apersister(&kv, &spawner, &logger, &keys, &broadcaster, &fee, max_pending);
		let aux = new_apersister(&kv, &spawner, &logger, &keys, &broadcaster, &fee, max_pending);
		let cm: AChainMonitor = ChainMonitor::new_async_beta(
			Some(Arc::new(SimFilter::new())),
			Arc::clone(&broadcaster),
			Arc::clone(&logger),
			Arc::clone(&fee),
			persister,
			Arc::clone(&keys),
			peer_key,
			false,
		);
		AsyncMirror {
			node,
			kv,
			spawner,
			keys,
			logger,
			broadcaster,
			fee,
			cm: Some(Arc::new(cm)),
			aux,
			max_pending,
			dead: false,
			chans: BTreeMap::new(),
			chan_keys: BTreeMap::new(),
			calls: 0,
			ops_seen: 0,
			global_fifo,
			coin_seed,
			list_salt,
			epoch: 0,
			height: 0,
			crash_states: 0,
		}
	}

	fn begin_call(&mut self) -> usize {
		self.calls += 1;
		*self.kv.cur_call.lock().unwrap() = self.calls;
		self.calls
	}

	/// After a harness call that may have made the `ChainMonitor` hand monitors to the persister:
	/// remember, for every channel for which a write was issued, the in-memory monitor of that
	/// moment.
	fn record_handed(&mut self, ctx: &mut ACtx, call: usize, update: Option<(&str, u64, Val)>) {
		let issued: Vec<(String, String, String)> = {
			let parked = self.kv.parked.lock().unwrap();
			parked
				.iter()
				.filter(|o| o.call == call && o.kind == OpKind::Write)
				.map(|o| (o.p.clone(), o.s.clone(), o.k.clone()))
				.collect()
		};
		let mut touched: BTreeSet<String> = BTreeSet::new();
		for (p, s, k) in issued {
			if p == CHANNEL_MONITOR_PERSISTENCE_PRIMARY_NAMESPACE {
				touched.insert(k);
			} else if p == CHANNEL_MONITOR_UPDATE_PERSISTENCE_PRIMARY_NAMESPACE {
				touched.insert(s);
			}
		}
		if let Some((k, _, _)) = update.as_ref() {
			touched.insert(k.to_string());
		}
		let cm = match self.cm.as_ref() {
			Some(c) => Arc::clone(c),
			None => return,
		};
		for key in touched {
			let chan_id = match self.chans.get(&key) {
				Some(c) => c.chan_id,
				None => continue,
			};
			let blob = match cm.get_monitor(ChannelId(chan_id)) {
				Ok(m) => m.encode(),
				Err(()) => continue,
			};
			let mon = match read_monitor(&self.keys, &blob) {
				Ok(m) => m,
				Err(e) => {
					ctx.out.harness_errors.push(format!("async mirror monitor does not round-trip: {}", e));
					self.dead = true;
					return;
				},
			};
			let id = mon.get_latest_update_id();
			let ch = self.chans.get_mut(&key).unwrap();
			let hidx = ch.handed.len();
			let upd = match update.as_ref() {
				Some((k, uid, bytes)) if *k == key && *uid == id => Some(Arc::clone(bytes)),
				_ => None,
			};
			if upd.is_some() {
				ch.update_by_id.insert(id, hidx);
			}
			ch.handed.push(AHanded { id, blob: Arc::new(blob), update: upd, mon: Arc::new(mon), epoch: self.epoch });
			ch.by_call.insert(call, hidx);
		}
	}

	fn register(&mut self, ctx: &mut ACtx, chan_id: [u8; 32], blob: Vec<u8>) {
		let mon = match read_monitor(&self.keys, &blob) {
			Ok(m) => m,
			Err(e) => {
				ctx.out.harness_errors.push(format!("initial monitor does not deserialise: {}", e));
				self.dead = true;
				return;
			},
		};
		let key = format!("{}", mon.persistence_key());
		self.height = self.height.max(mon.current_best_block().height);
		self.chan_keys.insert(chan_id, key.clone());
		let ch = self.chans.entry(key.clone()).or_default();
		ch.key = key.clone();
		ch.chan_id = chan_id;
		let call = self.begin_call();
		let cm = Arc::clone(self.cm.as_ref().unwrap());
		let res = catch(|| cm.watch_channel(ChannelId(chan_id), mon));
		match res {
			Ok(Ok(st)) => {
				if st != ChannelMonitorUpdateStatus::InProgress {
					ctx.out.bump("probe:async_watch_not_in_progress");
				}
			},
			Ok(Err(())) => {
				ctx.out.harness_errors.push("watch_channel refused the monitor".into());
				self.dead = true;
				return;
			},
			Err((m, l)) => {
				ctx.violate("C19-0 panic", format!("watch_channel panicked: {} at {}", m, l));
				self.dead = true;
				return;
			},
		}
		ctx.note(&format!("n{} watch {}", self.node, &key[..8]));
		ctx.out.bump("call:watch_channel");
		self.record_handed(ctx, call, None);
	}

	fn feed_update(&mut self, ctx: &mut ACtx, chan_id: [u8; 32], bytes: Vec<u8>) {
		if self.dead {
			return;
		}
		let key = match self.chan_keys.get(&chan_id) {
			Some(k) => k.clone(),
			None => return,
		};
		let upd = match ChannelMonitorUpdate::read(&mut &bytes[..]) {
			Ok(u) => u,
			Err(e) => {
				ctx.out.harness_errors.push(format!("captured update does not deserialise: {:?}", e));
				self.dead = true;
				return;
			},
		};
		for s in upd.verif_steps() {
			ctx.out.bump(&format!("update_step:{}", s.0));
		}
		let call = self.begin_call();
		let cm = Arc::clone(self.cm.as_ref().unwrap());
		let res = catch(|| cm.update_channel(ChannelId(chan_id), &upd));
		match res {
			Ok(st) => {
				ctx.note(&format!("n{} update {} id {} -> {:?}", self.node, &key[..8], upd.update_id, st));
			},
			Err((m, l)) => {
				ctx.violate("C19-0 panic", format!("update_channel panicked: {} at {}", m, l));
				self.dead = true;
				return;
			},
		}
		ctx.out.bump("call:update_channel");
		self.broadcaster.take();
		self.record_handed(ctx, call, Some((&key, upd.update_id, Arc::new(bytes))));
	}

	fn feed_blocks(&mut self, ctx: &mut ACtx, chain: &lnsim::chain::ChainModel, upto: u32) {
		if self.dead || upto <= self.height {
			return;
		}
		let cm = Arc::clone(self.cm.as_ref().unwrap());
		self.epoch += 1;
		for h in (self.height + 1)..=upto {
			let b = chain.block_at(h);
			let txdata: Vec<(usize, &Transaction)> = b.txs.iter().enumerate().map(|(i, t)| (i + 1, t)).collect();
			if !txdata.is_empty() {
				let call = self.begin_call();
				if let Err((m, l)) = catch(|| cm.transactions_confirmed(&b.header, &txdata, h)) {
					ctx.violate("C19-0 panic", format!("transactions_confirmed panicked: {} at {}", m, l));
					self.dead = true;
					return;
				}
				self.record_handed(ctx, call, None);
			}
			let call = self.begin_call();
			if let Err((m, l)) = catch(|| cm.best_block_updated(&b.header, h)) {
				ctx.violate("C19-0 panic", format!("best_block_updated panicked: {} at {}", m, l));
				self.dead = true;
				return;
			}
			self.record_handed(ctx, call, None);
			ctx.out.bump("call:block_to_async_chain_monitor");
		}
		self.broadcaster.take();
		self.height = upto;
		self.epoch += 1;
	}

	/// Polls parked futures until nothing moves, collects acknowledgements, then checks the crash
	/// states produced by the store operations that took effect.
	fn settle_tasks(&mut self, ctx: &mut ACtx) {
		for _ in 0..64 {
			let before = self.kv.parked.lock().unwrap().len();
			let done = match catch(|| self.spawner.poll_all()) {
				Ok(d) => d,
				Err((m, l)) => {
					ctx.violate("C19-0 panic", format!("a persister future panicked: {} at {}", m, l));
					self.dead = true;
					return;
				},
			};
			let after = self.kv.parked.lock().unwrap().len();
			if done == 0 && before == after {
				break;
			}
		}
		// op-level oracles over what took effect
		self.scan_ops(ctx);
		// crash states *before* the acknowledgements of this round are taken into account
		let snaps = self.kv.store.take_snaps();
		for (opi, snap) in snaps.iter() {
			self.check_snapshot(ctx, snap, *opi);
		}
		if let Some(cm) = self.cm.as_ref() {
			let evs = cm.release_pending_monitor_events();
			for (_, chan, events, _) in evs {
				for e in events {
					if let MonitorEvent::Completed { monitor_update_id, .. } = e {
						if let Some(key) = self.chan_keys.get(&chan.0) {
							let ch = self.chans.get_mut(key).unwrap();
							if ch.acked.map_or(true, |a| a < monitor_update_id) {
								ch.acked = Some(monitor_update_id);
							}
							ctx.out.bump("probe:async_completion_reported");
							ctx.note(&format!("n{} completed {} id {}", self.node, &key[..8], monitor_update_id));
						}
					}
				}
			}
		}
		// ... and with them (C09-2 for this persister: completion only after the write resolved)
		let snap = self.kv.store.current();
		let opi = self.kv.store.op_count();
		self.check_snapshot(ctx, &snap, opi);
	}

	fn scan_ops(&mut self, ctx: &mut ACtx) {
		let ops: Vec<crate::kv::Op> = {
			let g = self.kv.store.inner.lock().unwrap();
			g.ops[self.ops_seen..].to_vec()
		};
		let first = self.ops_seen;
		self.ops_seen += ops.len();
		let bad: Vec<String> = std::mem::take(&mut self.kv.store.inner.lock().unwrap().bad_keys);
		for b in bad {
			ctx.violate("C19-8 invalid store key", format!("node {}: {}", self.node, b));
		}
		for (i, op) in ops.iter().enumerate() {
			*ctx.hist = fnv_extend(*ctx.hist, op.kind.name().as_bytes());
			*ctx.hist = fnv_extend(*ctx.hist, join(&op.primary, &op.secondary, &op.key).as_bytes());
			ctx.out.bump(&format!("storeop:{}", op.kind.name()));
			if op.err {
				ctx.out.bump(&format!("fault:store_error_{}", op.kind.name()));
				if op.kind == OpKind::Write {
					// "The node will now likely stall ... You should restart as soon as possible."
					ctx.out.bump("fault:store_error_fatal_to_node");
					self.dead = true;
				}
			}
			if let OpKind::Remove { lazy } = op.kind {
				if op.primary == CHANNEL_MONITOR_UPDATE_PERSISTENCE_PRIMARY_NAMESPACE {
					ctx.out.bump("oracle:C19-5 cleanup below stored monitor");
					let uid: Option<u64> = op.key.parse().ok();
					// the stored monitor at the moment the removal took effect
					let stored = self.stored_id_before(first + i, &op.secondary);
					match (uid, stored) {
						(Some(u), Some(s)) if u <= s => {
							if op.existed {
								ctx.out.bump("probe:stale_update_removed");
							}
						},
						_ => ctx.violate(
							"C19-5 cleanup removes an update the stored monitor does not contain",
							format!(
								"node {} op {}: remove(lazy={}) of update {} of {} while the stored monitor is at {:?} (key existed: {})",
								self.node, first + i, lazy, op.key, &op.secondary[..8.min(op.secondary.len())], stored, op.existed
							),
						),
					}
				}
			}
		}
	}

	/// Update id of the full monitor of `key` that was in the store before op `opi` took effect.
	fn stored_id_before(&self, opi: usize, key: &str) -> Option<u64> {
		let g = self.kv.store.inner.lock().unwrap();
		let oc = self.kv.op_call.lock().unwrap();
		let ch = self.chans.get(key)?;
		for o in (0..opi).rev() {
			let op = &g.ops[o];
			if op.kind == OpKind::Write
				&& op.applied && op.primary == CHANNEL_MONITOR_PERSISTENCE_PRIMARY_NAMESPACE
				&& op.key == key
			{
				let call = oc.get(&o)?;
				let h = ch.by_call.get(call)?;
				return Some(ch.handed[*h].id);
			}
		}
		None
	}

	fn coin(&self, variant: u64, opi: usize, key: &str) -> bool {
		let mut h = fnv(&self.coin_seed.to_le_bytes());
		h = fnv_extend(h, &variant.to_le_bytes());
		h = fnv_extend(h, &(opi as u64).to_le_bytes());
		h = fnv_extend(h, key.as_bytes());
		(h >> 17) & 1 == 1
	}

	fn check_snapshot(&mut self, ctx: &mut ACtx, snap: &Snapshot, opi: usize) {
		let st = snap.crash_state(&|_| false);
		self.check_state(ctx, &st, opi, "all lazy removals effective");
		if snap.lazy_pending.is_empty() {
			return;
		}
		ctx.out.bump("fault:crash_with_lazy_removals_pending");
		let st = snap.crash_state(&|_| true);
		self.check_state(ctx, &st, opi, "no pending lazy removal effective");
		if snap.lazy_pending.len() >= 2 {
			let st = snap.crash_state(&|k| self.coin(0, opi, k));
			self.check_state(ctx, &st, opi, "some lazy removals lost");
		}
	}

	fn chan_sub(
		state: &BTreeMap<String, (Val, usize)>, key: &str,
	) -> (u64, Option<usize>, Vec<(u64, usize)>) {
		let mk = join(CHANNEL_MONITOR_PERSISTENCE_PRIMARY_NAMESPACE, "", key);
		let base = state.get(&mk).map(|(_, o)| *o);
		let prefix = format!("{}/{}/", CHANNEL_MONITOR_UPDATE_PERSISTENCE_PRIMARY_NAMESPACE, key);
		let mut ups: Vec<(u64, usize)> = Vec::new();
		for (k, (_, o)) in state.range(prefix.clone()..) {
			if !k.starts_with(&prefix) {
				break;
			}
			if let Ok(id) = k[prefix.len()..].parse::<u64>() {
				ups.push((id, *o));
			}
		}
		ups.sort();
		let mut h = fnv(key.as_bytes());
		h = fnv_extend(h, &(base.map_or(u64::MAX, |b| b as u64)).to_le_bytes());
		for (id, o) in ups.iter() {
			h = fnv_extend(h, &id.to_le_bytes());
			h = fnv_extend(h, &(*o as u64).to_le_bytes());
		}
		(h, base, ups)
	}

	fn check_state(&mut self, ctx: &mut ACtx, state: &BTreeMap<String, (Val, usize)>, opi: usize, what: &str) {
		self.crash_states += 1;
		ctx.out.bump("fault:crash_point");
		let keys: Vec<String> = self.chans.keys().cloned().collect();
		let mut todo = Vec::new();
		for key in keys.iter() {
			let (fp, base, ups) = Self::chan_sub(state, key);
			let ch = &self.chans[key];
			if ch.acked.is_none() && base.is_none() {
				continue;
			}
			match ch.verified.get(&fp) {
				Some(rid) => {
					ctx.out.bump("oracle:C19-2 acknowledged updates survive");
					if let Some(a) = ch.acked {
						if *rid < a {
							ctx.violate(
								"C19-2 acknowledged update lost",
								format!(
									"node {} crash before op {} ({}): {} recovers at update id {} but completion of {} was reported",
									self.node, opi, what, &key[..8], rid, a
								),
							);
						}
					}
				},
				None => todo.push((key.clone(), fp, base, ups)),
			}
		}
		if todo.is_empty() {
			ctx.out.bump("probe:crash_state_already_verified");
			return;
		}
		ctx.out.bump("probe:crash_state_recovered");
		*ctx.hist = fnv_extend(*ctx.hist, &(opi as u64).to_le_bytes());
		let kv = Arc::new(AsyncKv::recovering(state, self.list_salt ^ opi as u64));
		let bc = Arc::new(SimBroadcaster::new());
		let sp = ParkSpawner::new();
		let p = new_apersister(&kv, &sp, &self.logger, &self.keys, &bc, &self.fee, self.max_pending);
		ctx.out.bump("oracle:C19-1 recovery succeeds (read_all)");
		let mut recovered: BTreeMap<String, Mon> = BTreeMap::new();
		match catch(|| block_on_ready(p.read_all_channel_monitors_with_updates())) {
			Ok(Some(Ok(v))) => {
				for (_, m) in v {
					recovered.insert(format!("{}", m.persistence_key()), m);
				}
			},
			Ok(Some(Err(e))) => {
				ctx.violate(
					"C19-1 recovery fails",
					format!(
						"node {} crash before op {} ({}): read_all_channel_monitors_with_updates returned {}; store: {}",
						self.node, opi, what, e, Self::render(state)
					),
				);
				return;
			},
			Ok(None) => {
				ctx.out.harness_errors.push("recovery future did not complete on an immediate store".into());
				return;
			},
			Err((m, l)) => {
				// Classify: a gap in the stored update ids whose missing write is still parked (it was
				// issued earlier but a later update's write, to a different key, took effect first)
				// is the cross-key reordering the `KVStore` contract allows. Anything else is not.
				let oracle = if self.gap_with_parked_write(state) {
					ORACLE_REORDER
				} else {
					"C19-1 recovery fails"
				};
				ctx.violate(
					oracle,
					format!(
						"node {} crash before op {} ({}): read_all_channel_monitors_with_updates panicked: {} at {}; store: {}",
						self.node, opi, what, m, l, Self::render(state)
					),
				);
				return;
			},
		}
		for (key, fp, base, ups) in todo {
			let rec = recovered.remove(&key);
			self.judge(ctx, opi, what, &key, fp, base, &ups, rec);
		}
	}

	/// Some channel has stored updates above its stored monitor with an id missing in between, while
	/// an earlier-issued write for that channel is still parked or failed with an injected error.
	fn gap_with_parked_write(&self, state: &BTreeMap<String, (Val, usize)>) -> bool {
		let parked = self.kv.parked.lock().unwrap();
		for (key, ch) in self.chans.iter() {
			let (_, base, ups) = Self::chan_sub(state, key);
			let base_id = match base
				.and_then(|b| self.kv.op_call.lock().unwrap().get(&b).copied())
				.and_then(|c| ch.by_call.get(&c).copied())
			{
				Some(h) => ch.handed[h].id,
				None => continue,
			};
			let above: Vec<u64> = ups.iter().map(|(id, _)| *id).filter(|id| *id > base_id).collect();
			let mut expect = base_id + 1;
			let mut gap = false;
			for id in above.iter() {
				if *id != expect {
					gap = true;
					break;
				}
				expect += 1;
			}
			if !gap {
				continue;
			}
			let mk = CHANNEL_MONITOR_PERSISTENCE_PRIMARY_NAMESPACE;
			let uk = CHANNEL_MONITOR_UPDATE_PERSISTENCE_PRIMARY_NAMESPACE;
			let has_parked = parked.iter().any(|o| {
				o.kind == OpKind::Write && ((o.p == mk && o.k == *key) || (o.p == uk && o.s == *key))
			});
			if has_parked {
				return true;
			}
			// ... or failed with an injected error after a later update had already taken effect
			let g = self.kv.store.inner.lock().unwrap();
			let failed = g.ops.iter().any(|o| {
				o.kind == OpKind::Write
					&& o.err && !o.applied
					&& ((o.primary == mk && o.key == *key) || (o.primary == uk && o.secondary == *key))
			});
			if failed {
				return true;
			}
		}
		false
	}

	fn render(state: &BTreeMap<String, (Val, usize)>) -> String {
		let mut per: BTreeMap<String, Vec<String>> = BTreeMap::new();
		for k in state.keys() {
			let parts: Vec<&str> = k.splitn(3, '/').collect();
			if parts.len() == 3 {
				if parts[0] == CHANNEL_MONITOR_PERSISTENCE_PRIMARY_NAMESPACE {
					per.entry(parts[2][..8.min(parts[2].len())].to_string()).or_default().push("monitor".into());
				} else if parts[0] == CHANNEL_MONITOR_UPDATE_PERSISTENCE_PRIMARY_NAMESPACE {
					per.entry(parts[1][..8.min(parts[1].len())].to_string()).or_default().push(format!("u{}", parts[2]));
				}
			}
		}
		format!("{:?}", per)
	}

	#[allow(clippy::too_many_arguments)]
	fn judge(
		&mut self, ctx: &mut ACtx, opi: usize, what: &str, key: &str, fp: u64, base: Option<usize>,
		ups: &[(u64, usize)], rec: Option<Mon>,
	) {
		let where_ = format!("node {} crash before op {} ({}), channel {}", self.node, opi, what, &key[..8]);
		let acked = self.chans[key].acked;
		let r = match rec {
			Some(r) => r,
			None => {
				if acked.is_some() {
					ctx.violate(
						"C19-2 acknowledged monitor missing",
						format!("{}: no monitor recovered although completion of {:?} was reported", where_, acked),
					);
				}
				return;
			},
		};
		let rid = r.get_latest_update_id();
		*ctx.hist = fnv_extend(*ctx.hist, &rid.to_le_bytes());
		ctx.out.bump("oracle:C19-2 acknowledged updates survive");
		if let Some(a) = acked {
			if rid < a {
				ctx.violate(
					"C19-2 acknowledged update lost",
					format!("{}: recovered at update id {} but completion of {} was reported", where_, rid, a),
				);
				return;
			}
		}
		let b = match base {
			Some(b) => b,
			None => return,
		};
		let call_of = |o: usize| -> Option<usize> { self.kv.op_call.lock().unwrap().get(&o).copied() };
		let ch = &self.chans[key];
		let bh = match call_of(b).and_then(|c| ch.by_call.get(&c).copied()) {
			Some(h) => h,
			None => {
				ctx.out.bump("probe:base_without_handed_monitor");
				return;
			},
		};
		let base_id = ch.handed[bh].id;
		let applied: Vec<u64> = ups.iter().map(|(id, _)| *id).filter(|id| *id > base_id).collect();
		if !applied.is_empty() {
			ctx.out.bump("probe:recovered_by_applying_updates");
		}
		if applied.len() >= 3 {
			ctx.out.bump("probe:recovered_by_applying_3plus_updates");
		}
		ctx.out.bump("oracle:C19-3 recovered equals in-memory monitor");
		let mut ok = true;
		if applied.is_empty() {
			if !r.verif_eq(&ch.handed[bh].mon) {
				ok = false;
				ctx.violate(
					"C19-3 recovered monitor differs from the stored in-memory monitor",
					format!("{}: no updates applied, id {}", where_, rid),
				);
			}
		} else {
			// reference recovery: stored monitor + the updates handed to update_channel
			ctx.out.bump("oracle:C19-3 recovered equals reference recovery");
			let refm = (|| -> Result<Mon, String> {
				let m = read_monitor(&self.keys, &ch.handed[bh].blob)?;
				let bc = SimBroadcaster::new();
				for id in (base_id + 1)..=rid {
					let h = ch.update_by_id.get(&id).ok_or_else(|| format!("update {} was never handed over", id))?;
					let bytes = ch.handed[*h].update.as_ref().unwrap();
					let u = ChannelMonitorUpdate::read(&mut &bytes[..]).map_err(|e| format!("{:?}", e))?;
					match catch(|| m.update_monitor(&u, &bc, &self.fee, &self.logger)) {
						Ok(Ok(())) => {},
						Ok(Err(())) => return Err(format!("update_monitor({}) failed", id)),
						Err((msg, loc)) => return Err(format!("update_monitor({}) panicked: {} at {}", id, msg, loc)),
					}
				}
				Ok(m)
			})();
			match refm {
				Ok(refm) => {
					if !r.verif_eq(&refm) {
						ok = false;
						ctx.violate(
							"C19-3 recovered monitor differs from base monitor + handed updates",
							format!("{}: base id {}, recovered id {}", where_, base_id, rid),
						);
					}
				},
				Err(e) => {
					ok = false;
					ctx.violate(
						"C19-3 reference recovery impossible",
						format!("{}: base id {}, recovered id {}: {}", where_, base_id, rid, e),
					);
				},
			}
			// the in-memory monitor right after update `rid`, when no block arrived in between
			if let Some(uh) = ch.update_by_id.get(&rid) {
				let (be, me) = (ch.handed[bh].epoch, ch.handed[*uh].epoch);
				if ok && be == me && be % 2 == 0 {
					let mem = &ch.handed[*uh].mon;
					let mut eq = r.verif_eq(mem);
					if !eq {
						// pending events handed out in memory but still held by the stored monitor
						if let (Ok(a), Ok(b)) =
							(read_monitor(&self.keys, &r.encode()), read_monitor(&self.keys, &ch.handed[*uh].blob))
						{
							let ea = drain_events(&a, &self.logger);
							let eb = drain_events(&b, &self.logger);
							eq = a.verif_eq(&b) && eb.iter().all(|e| ea.contains(e));
						}
					}
					if !eq {
						ok = false;
						ctx.violate(
							"C19-3 recovered monitor differs from the in-memory monitor of its update",
							format!("{}: base id {}, recovered id {}", where_, base_id, rid),
						);
					}
				} else if ok {
					ctx.out.bump("probe:in_memory_compare_skipped_chain_data_between");
				}
			}
		}
		if ok {
			self.chans.get_mut(key).unwrap().verified.insert(fp, rid);
		}
	}

	// ---- scheduler-facing

	fn act_resolve(&mut self, ctx: &mut ACtx, pick: u32) -> bool {
		if self.dead {
			return false;
		}
		let el = self.kv.eligible(self.global_fifo);
		if el.is_empty() {
			return false;
		}
		let idx = el[pick as usize % el.len()];
		if idx != el[0] {
			ctx.out.bump("fault:store_op_resolved_out_of_issue_order");
		}
		if let Some(kind) = self.kv.resolve(idx) {
			ctx.note(&format!("n{} resolve {}", self.node, kind.name()));
		}
		self.settle_tasks(ctx);
		true
	}

	fn act_resolve_all(&mut self, ctx: &mut ACtx) -> bool {
		if self.dead {
			return false;
		}
		let mut any = false;
		for _ in 0..10_000 {
			let el = self.kv.eligible(true);
			if el.is_empty() || self.dead {
				break;
			}
			self.kv.resolve(el[0]);
			self.settle_tasks(ctx);
			any = true;
		}
		any
	}

	/// A clean restart: possible only when nothing is parked or in flight. The store is read back
	/// with a fresh persister, every monitor is brought to the node's chain tip individually (as a
	/// restarting node does) and registered with a fresh `ChainMonitor`, which persists it anew.
	fn act_reload(&mut self, ctx: &mut ACtx, chain: &lnsim::chain::ChainModel, new_max: Option<u64>) -> bool {
		if self.dead || !self.kv.parked.lock().unwrap().is_empty() || self.spawner.len() > 0 {
			return false;
		}
		if let Some(m) = new_max {
			self.max_pending = m;
		}
		self.cm = None;
		self.begin_call();
		self.kv.immediate.store(true, std::sync::atomic::Ordering::Relaxed);
		let p = new_apersister(
			&self.kv, &self.spawner, &self.logger, &self.keys, &self.broadcaster, &self.fee, self.max_pending,
		);
		let res = catch(|| block_on_ready(p.read_all_channel_monitors_with_updates()));
		self.kv.immediate.store(false, std::sync::atomic::Ordering::Relaxed);
		self.kv.store.take_snaps();
		self.ops_seen = self.kv.store.op_count();
		let mons: Vec<Mon> = match res {
			Ok(Some(Ok(v))) => v.into_iter().map(|(_, m)| m).collect(),
			Ok(Some(Err(e))) => {
				let injected = self.kv.store.inner.lock().unwrap().ops.iter().rev().take(64).any(|o| o.err);
				if !injected {
					ctx.violate("C19-1 recovery fails", format!("node {} restart: {}", self.node, e));
				}
				self.dead = true;
				return true;
			},
			Ok(None) => {
				ctx.out.harness_errors.push("restart read did not complete on an immediate store".into());
				self.dead = true;
				return true;
			},
			Err((m, l)) => {
				ctx.violate("C19-1 recovery fails", format!("node {} restart read panicked: {} at {}", self.node, m, l));
				self.dead = true;
				return true;
			},
		};
		ctx.out.bump("probe:persister_reloaded");
		ctx.note(&format!("n{} async reload: {} monitors", self.node, mons.len()));
		let persister = new_apersister(
			&self.kv, &self.spawner, &self.logger, &self.keys, &self.broadcaster, &self.fee, self.max_pending,
		);
		let cm: AChainMonitor = ChainMonitor::new_async_beta(
			Some(Arc::new(SimFilter::new())),
			Arc::clone(&self.broadcaster),
			Arc::clone(&self.logger),
			Arc::clone(&self.fee),
			persister,
			Arc::clone(&self.keys),
			self.keys.node_keys.get_peer_storage_key(),
			false,
		);
		self.cm = Some(Arc::new(cm));
		// chain data arrives while the monitors are brought to the tip
		self.epoch += 1;
		let mut sorted = mons;
		sorted.sort_by_key(|m| format!("{}", m.persistence_key()));
		for m in sorted {
			let from = m.current_best_block().height;
			for h in (from + 1)..=self.height {
				let b = chain.block_at(h);
				let txdata: Vec<(usize, &Transaction)> = b.txs.iter().enumerate().map(|(i, t)| (i + 1, t)).collect();
				let res = catch(|| {
					if !txdata.is_empty() {
						m.transactions_confirmed(&b.header, &txdata, h, &self.broadcaster, &self.fee, &self.logger);
					}
					m.best_block_updated(&b.header, h, &self.broadcaster, &self.fee, &self.logger);
				});
				if let Err((msg, loc)) = res {
					ctx.violate("C19-0 panic", format!("chain replay on a recovered monitor panicked: {} at {}", msg, loc));
					self.dead = true;
					return true;
				}
			}
			self.broadcaster.take();
			let chan_id = m.channel_id().0;
			let blob = m.encode();
			self.register(ctx, chan_id, blob);
			if self.dead {
				return true;
			}
		}
		self.epoch += 1;
		self.settle_tasks(ctx);
		true
	}

	fn act_cleanup(&mut self, ctx: &mut ACtx, lazy: bool) -> bool {
		if self.dead {
			return false;
		}
		self.begin_call();
		// `cleanup_stale_updates` borrows the persister: run it as a parked task over a persister of
		// its own on the same store
		let p = new_apersister(
			&self.kv,
			&self.spawner,
			&self.logger,
			&self.keys,
			&self.broadcaster,
			&self.fee,
			self.max_pending,
		);
		let _ = &self.aux;
		self.spawner.tasks.lock().unwrap().push(Box::pin(async move {
			let _ = p.cleanup_stale_updates(lazy).await;
		}));
		ctx.note(&format!("n{} spawn cleanup lazy={}", self.node, lazy));
		self.settle_tasks(ctx);
		true
	}
}

// ---------------------------------------------------------------------------------------------
// configuration, actions, driver

#[derive(Clone, Debug, Serialize, Deserialize)]
pub struct AConfig {
	pub world: lnsim::world::Config,
	pub mirrors: Vec<crate::MirrorSpec>,
	pub lazy_mode: u8,
	pub coin_seed: u64,
	pub list_salt: u64,
	pub steps: u64,
	pub global_fifo: bool,
	pub w_world: u32,
	pub w_chain: u32,
	pub w_resolve: u32,
	pub w_cleanup: u32,
	pub w_flush: u32,
	pub w_err: u32,
	pub w_reload: u32,
	pub reload_changes_max: bool,
	pub resolve_all_pct: u8,
	pub close_after: u64,
	pub w_close_coop: u32,
	pub w_force_close: u32,
}

#[derive(Clone, Debug, Serialize, Deserialize, PartialEq)]
pub enum AAction {
	W(WAction),
	Resolve { node: usize, pick: u32 },
	ResolveAll { node: usize },
	Cleanup { node: usize, lazy: bool },
	Flush { node: usize },
	ArmErr { node: usize, after: u32, applied: bool },
	Reload { node: usize, max: Option<u64> },
}

impl AAction {
	fn kind(&self) -> String {
		match self {
			AAction::W(a) => format!("W{}", a.kind()),
			AAction::Resolve { .. } => "Resolve".into(),
			AAction::ResolveAll { .. } => "ResolveAll".into(),
			AAction::Cleanup { .. } => "Cleanup".into(),
			AAction::Flush { .. } => "Flush".into(),
			AAction::ArmErr { .. } => "ArmErr".into(),
			AAction::Reload { .. } => "Reload".into(),
		}
	}
	fn actor(&self) -> usize {
		match self {
			AAction::W(a) => a.actor(),
			AAction::Resolve { node, .. }
			| AAction::ResolveAll { node }
			| AAction::Cleanup { node, .. }
			| AAction::Flush { node }
			| AAction::ArmErr { node, .. }
			| AAction::Reload { node, .. } => *node,
		}
	}
}

struct ARun {
	cfg: AConfig,
	wd: World,
	mirrors: Vec<AsyncMirror>,
	watch_cursor: Vec<usize>,
	out: RunOutcome,
	hist: u64,
	inter: u64,
	trace: Vec<AAction>,
	effective: u64,
	step: u64,
	state_fps: BTreeSet<u64>,
	sample: Vec<String>,
}

fn gen_aconfig(rng: &mut Rng, tier: Tier, global_fifo: bool) -> AConfig {
	let base = crate::gen_config(rng, tier);
	let mut r = rng.fork("async-config");
	AConfig {
		world: base.world,
		mirrors: base.mirrors,
		lazy_mode: base.lazy_mode,
		coin_seed: base.coin_seed,
		list_salt: base.list_salt,
		steps: base.steps,
		global_fifo,
		w_world: 100,
		w_chain: base.w_chain,
		w_resolve: *r.pick(&[20, 50, 100]),
		w_cleanup: *r.pick(&[0, 1, 3]),
		w_flush: *r.pick(&[0, 1, 3]),
		w_err: *r.pick(&[0, 0, 0, 1]),
		w_reload: *r.pick(&[0, 2, 5]),
		reload_changes_max: base.reload_changes_max,
		resolve_all_pct: *r.pick(&[0, 10, 40]),
		close_after: base.close_after,
		w_close_coop: base.w_close_coop,
		w_force_close: base.w_force_close,
	}
}

impl ARun {
	fn new(cfg: AConfig, seed: u64) -> ARun {
		let wd = World::new(cfg.world.clone());
		let mut out = RunOutcome::new("async", seed);
		out.seed = seed;
		ARun {
			cfg,
			wd,
			mirrors: Vec::new(),
			watch_cursor: Vec::new(),
			out,
			hist: fnv(b"persistsim-async"),
			inter: fnv(b"inter"),
			trace: Vec::new(),
			effective: 0,
			step: 0,
			state_fps: BTreeSet::new(),
			sample: Vec::new(),
		}
	}

	fn setup(&mut self) {
		self.wd.setup();
		if self.wd.dead {
			self.out.bump("other:world_setup_failed");
			return;
		}
		for spec in self.cfg.mirrors.clone() {
			if spec.node >= self.wd.nodes.len() {
				continue;
			}
			let node = &self.wd.nodes[spec.node];
			let mut m = AsyncMirror::new(
				spec.node,
				Arc::clone(&node.keys),
				Arc::clone(&node.fee),
				spec.max_pending,
				self.cfg.lazy_mode,
				self.cfg.coin_seed ^ spec.node as u64,
				self.cfg.list_salt ^ (spec.node as u64) << 8,
				self.cfg.global_fifo,
			);
			self.out.bump(&format!("cfg:max_pending_{}", spec.max_pending));
			let mut cursor = 0;
			if let Some(live) = node.live.as_ref() {
				let mut ids = live.monitor.list_monitors();
				ids.sort_by_key(|c| c.0);
				let mut blobs = Vec::new();
				for id in ids {
					if let Ok(mon) = live.monitor.get_monitor(id) {
						blobs.push((id.0, mon.encode()));
					}
				}
				cursor = live.watch.log.lock().unwrap().len();
				for (cid, blob) in blobs {
					let mut ctx = ACtx { out: &mut self.out, step: 0, hist: &mut self.hist };
					m.register(&mut ctx, cid, blob);
				}
				m.height = m.height.max(node.synced_height);
				let mut ctx = ACtx { out: &mut self.out, step: 0, hist: &mut self.hist };
				m.settle_tasks(&mut ctx);
			}
			self.mirrors.push(m);
			self.watch_cursor.push(cursor);
		}
	}

	fn scan(&mut self) {
		for mi in 0..self.mirrors.len() {
			let n = self.mirrors[mi].node;
			let mut updates: Vec<([u8; 32], Vec<u8>)> = Vec::new();
			if let Some(live) = self.wd.nodes[n].live.as_ref() {
				let log = live.watch.log.lock().unwrap();
				let cur = self.watch_cursor[mi].min(log.len());
				for c in log[cur..].iter() {
					if !c.new_channel {
						updates.push((c.chan, c.update_bytes.clone()));
					}
				}
				self.watch_cursor[mi] = log.len();
			}
			let upto = self.wd.nodes[n].synced_height;
			let mut ctx = ACtx { out: &mut self.out, step: self.step, hist: &mut self.hist };
			let m = &mut self.mirrors[mi];
			m.feed_blocks(&mut ctx, &self.wd.chain, upto);
			for (chan, bytes) in updates {
				m.feed_update(&mut ctx, chan, bytes);
			}
			if !m.dead {
				// issuing is synchronous; nothing takes effect until the scheduler says so
				m.settle_tasks(&mut ctx);
			}
		}
	}

	fn apply(&mut self, a: &AAction) -> bool {
		self.step += 1;
		self.trace.push(a.clone());
		let did = match a {
			AAction::W(wa) => {
				if self.wd.dead {
					false
				} else {
					let did = self.wd.apply(wa);
					self.scan();
					if self.wd.dead {
						self.out.bump("other:world_died");
					}
					did
				}
			},
			_ => {
				let node = a.actor();
				match self.mirrors.iter().position(|m| m.node == node) {
					None => false,
					Some(mi) => {
						let mut ctx = ACtx { out: &mut self.out, step: self.step, hist: &mut self.hist };
						let m = &mut self.mirrors[mi];
						match a {
							AAction::Reload { max, .. } => m.act_reload(&mut ctx, &self.wd.chain, *max),
							AAction::Resolve { pick, .. } => m.act_resolve(&mut ctx, *pick),
							AAction::ResolveAll { .. } => m.act_resolve_all(&mut ctx),
							AAction::Cleanup { lazy, .. } => m.act_cleanup(&mut ctx, *lazy),
							AAction::Flush { .. } => {
								if m.dead {
									false
								} else {
									m.kv.store.flush_lazy() > 0
								}
							},
							AAction::ArmErr { after, applied, .. } => {
								if m.dead {
									false
								} else {
									m.kv.store.arm_error(*after, *applied);
									true
								}
							},
							AAction::W(_) => unreachable!(),
						}
					},
				}
			},
		};
		if did {
			self.out.bump(&format!("action:{}", a.kind()));
			self.inter = fnv_extend(self.inter, a.kind().as_bytes());
			self.inter = fnv_extend(self.inter, &[a.actor() as u8]);
			if self.sample.len() < 30 {
				self.sample.push(format!("{:?}", a));
			}
			self.effective += 1;
			let mut h = fnv(b"astate");
			for m in self.mirrors.iter() {
				let parked = m.kv.parked.lock().unwrap().len();
				h = fnv_extend(h, &[m.node as u8, m.dead as u8, parked.min(6) as u8, m.spawner.len().min(6) as u8]);
				for c in m.chans.values() {
					let lag = c.handed.last().map(|h| h.id).unwrap_or(0).saturating_sub(c.acked.unwrap_or(0));
					h = fnv_extend(h, &[lag.min(5) as u8]);
				}
			}
			if self.state_fps.len() < 4096 {
				self.state_fps.insert(h);
			}
		}
		did
	}

	fn finish(mut self, profile: &str) -> RunOutcome {
		let foreign = self.wd.out.violations.len() as u64;
		if foreign > 0 {
			self.out.add("other:lnsim_oracle_tripped", foreign);
		}
		let mut crash_states = 0;
		let mut store_ops = 0;
		for m in self.mirrors.iter() {
			crash_states += m.crash_states;
			store_ops += m.kv.store.op_count() as u64;
		}
		self.out.add("other:store_ops", store_ops);
		self.out.profile = profile.to_string();
		self.out.steps = self.step;
		self.out.sim_seconds = self.wd.clock.saturating_sub(1_700_000_000);
		self.out.sim_blocks = self.wd.out.sim_blocks;
		self.out.history_fp = fnv_extend(self.hist, &self.wd.hist.to_le_bytes());
		self.out.interleaving_fp = self.inter;
		self.out.state_fps = self.state_fps.iter().cloned().collect();
		let c = |k: &str| self.out.counters.get(k).copied().unwrap_or(0);
		self.out.nontrivial = c("probe:async_completion_reported") > 0 && crash_states > 10;
		self.out.sample = Some(json!({
			"profile": profile,
			"mirrors": self.cfg.mirrors,
			"global_fifo": self.cfg.global_fifo,
			"store_ops": store_ops,
			"crash_states": crash_states,
			"first_actions": self.sample,
		}));
		if !self.out.violations.is_empty()
			|| !self.out.harness_errors.is_empty()
			|| std::env::var("PERSISTSIM_FORCE_REPLAY").is_ok()
		{
			self.out.replay = Some(json!({
				"sim": "persistsim",
				"profile": profile,
				"config": serde_json::to_value(&self.cfg).unwrap(),
				"trace": serde_json::to_value(&self.trace).unwrap(),
			}));
		}
		self.out
	}
}

fn adrive(run: &mut ARun, rng: &mut Rng) {
	let mut sched = rng.fork("schedule");
	let mut idle = 0;
	while (run.effective) < run.cfg.steps && idle < 60 {
		// the cross-key ordering finding (C19-1) does not stop the exploration of the other oracles
		if run.mirrors.iter().all(|m| m.dead)
			|| run.out.violations.iter().any(|v| v.oracle != ORACLE_REORDER)
		{
			break;
		}
		let late = run.effective >= run.cfg.close_after;
		if late {
			let (cc, fc) = (run.cfg.w_close_coop, run.cfg.w_force_close);
			run.wd.cfg.weights.insert("CloseCoop".to_string(), cc);
			run.wd.cfg.weights.insert("ForceClose".to_string(), fc);
		}
		let cfg_reload_changes_max = run.cfg.reload_changes_max;
		let cfg = run.cfg.clone();
		let alive: Vec<usize> = run.mirrors.iter().filter(|m| !m.dead).map(|m| m.node).collect();
		let with_parked: Vec<usize> = run
			.mirrors
			.iter()
			.filter(|m| !m.dead && !m.kv.parked.lock().unwrap().is_empty())
			.map(|m| m.node)
			.collect();
		let ws = [
			if run.wd.dead { 0 } else { cfg.w_world },
			if run.wd.dead { 0 } else { cfg.w_chain },
			if with_parked.is_empty() { 0 } else { cfg.w_resolve },
			cfg.w_cleanup,
			cfg.w_flush,
			cfg.w_err,
			cfg.w_reload,
		];
		if ws.iter().all(|w| *w == 0) {
			break;
		}
		let a = match sched.weighted(&ws) {
			0 => match lnsim::sched::next_action(&run.wd, &mut sched).map(AAction::W) {
				Some(AAction::W(WAction::Send { .. })) if sched.chance(4, 5) => {
					crate::gen_send(&run.wd, &mut sched).and_then(|a| match a {
						crate::Action::W(w) => Some(AAction::W(w)),
						_ => None,
					})
				},
				other => other,
			},
			1 => crate::next_chain_action(&run.wd, &mut sched).and_then(|a| match a {
				crate::Action::W(w) => Some(AAction::W(w)),
				_ => None,
			}),
			2 => {
				let node = *sched.pick(&with_parked);
				if sched.below(100) < cfg.resolve_all_pct as u64 {
					Some(AAction::ResolveAll { node })
				} else {
					Some(AAction::Resolve { node, pick: sched.below(8) as u32 })
				}
			},
			3 => Some(AAction::Cleanup { node: *sched.pick(&alive), lazy: sched.coin() }),
			4 => Some(AAction::Flush { node: *sched.pick(&alive) }),
			6 => {
				let node = *sched.pick(&alive);
				// a clean restart needs a quiet store: let everything parked take effect first
				run.apply(&AAction::ResolveAll { node });
				let max = if cfg_reload_changes_max && sched.chance(1, 2) {
					Some(*sched.pick(&crate::MAX_PENDING_CHOICES))
				} else {
					None
				};
				Some(AAction::Reload { node, max })
			},
			_ => Some(AAction::ArmErr { node: *sched.pick(&alive), after: sched.below(12) as u32, applied: sched.coin() }),
		};
		let a = match a {
			Some(a) => a,
			None => {
				idle += 1;
				continue;
			},
		};
		if run.apply(&a) {
			idle = 0;
		} else {
			idle += 1;
		}
		if let AAction::W(_) = a {
			// keep the world itself moving: its own (lnsim) persistence completes eagerly
			if !run.wd.dead {
				for (n, chan) in crate::pending_completions(&run.wd) {
					run.apply(&AAction::W(WAction::CompleteMon { n, chan, which: 0 }));
				}
			}
		}
	}
	// everything parked takes effect at the end
	if run.out.violations.is_empty() {
		let nodes: Vec<usize> = run.mirrors.iter().filter(|m| !m.dead).map(|m| m.node).collect();
		for node in nodes {
			run.apply(&AAction::ResolveAll { node });
		}
	}
}

pub fn run(profile: &str, seed: u64, tier: Tier) -> RunOutcome {
	let mut rng = Rng::new(seed);
	let cfg = gen_aconfig(&mut rng, tier, profile == "async-fifo");
	let mut run = ARun::new(cfg, seed);
	run.setup();
	if !run.wd.dead {
		adrive(&mut run, &mut rng);
	}
	run.finish(profile)
}

pub fn replay(replay: &Value) -> RunOutcome {
	let profile = replay.get("profile").and_then(|p| p.as_str()).unwrap_or("async").to_string();
	let cfg: AConfig = match serde_json::from_value(replay["config"].clone()) {
		Ok(c) => c,
		Err(e) => {
			let mut o = RunOutcome::default();
			o.harness_errors.push(format!("bad replay config: {}", e));
			return o;
		},
	};
	let trace: Vec<AAction> = match serde_json::from_value(replay["trace"].clone()) {
		Ok(t) => t,
		Err(e) => {
			let mut o = RunOutcome::default();
			o.harness_errors.push(format!("bad replay trace: {}", e));
			return o;
		},
	};
	let mut run = ARun::new(cfg, 0);
	run.setup();
	for a in trace.iter() {
		run.apply(a);
	}
	run.finish(&profile)
}
