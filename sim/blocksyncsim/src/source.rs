//! `SimSource`: the simulator's `BlockSource`. Answers from the block tree "as of now", fails or
//! lies at the request index the scheduler chose, and returns `Pending` a chosen number of times
//! before each answer.

use crate::tree::{grind, BlockTree, BAD_MISSING, REGTEST_BITS};
use bitcoin::block::{Header, Version};
use bitcoin::hashes::Hash;
use bitcoin::pow::CompactTarget;
use bitcoin::{BlockHash, TxMerkleNode};
use lightning_block_sync::{
	BlockData, BlockHeaderData, BlockSource, BlockSourceError, BlockSourceResult,
};
use serde::{Deserialize, Serialize};
use std::collections::{BTreeMap, BTreeSet};
use std::future::Future;
use std::pin::Pin;
use std::sync::Mutex;
use std::task::{Context, Poll};

#[derive(Clone, Copy, Debug, PartialEq, Eq, PartialOrd, Ord, Serialize, Deserialize)]
pub enum FaultKind {
	/// the request fails with a transient error
	Transient,
	/// the request fails with a persistent error
	Persistent,
	/// the returned header (or block) does not meet its own target; as a best-block answer: the
	/// source advertises an invented tip with invalid proof of work
	BadPow,
	/// the returned header is a valid one but not the requested one (it does not connect); as a
	/// best-block answer: an invented valid-PoW tip whose parent does not exist
	NonConnecting,
	/// the header data carries a wrong height (as a best-block answer: a wrong height *hint*)
	WrongHeight,
	/// the header data carries a chainwork that does not match
	WrongChainwork,
	/// `get_block` returns a different (valid) block than the requested one
	WrongBlock,
	/// `get_block` returns the right header with a transaction list that does not match it
	BadMerkle,
	/// the source's best tip moves before this request is answered
	TipChange { branch: u32, height: u32 },
}

impl FaultKind {
	pub fn name(&self) -> &'static str {
		match self {
			FaultKind::Transient => "Transient",
			FaultKind::Persistent => "Persistent",
			FaultKind::BadPow => "BadPow",
			FaultKind::NonConnecting => "NonConnecting",
			FaultKind::WrongHeight => "WrongHeight",
			FaultKind::WrongChainwork => "WrongChainwork",
			FaultKind::WrongBlock => "WrongBlock",
			FaultKind::BadMerkle => "BadMerkle",
			FaultKind::TipChange { .. } => "TipChange",
		}
	}
	pub fn code(&self) -> u8 {
		match self {
			FaultKind::Transient => 1,
			FaultKind::Persistent => 2,
			FaultKind::BadPow => 3,
			FaultKind::NonConnecting => 4,
			FaultKind::WrongHeight => 5,
			FaultKind::WrongChainwork => 6,
			FaultKind::WrongBlock => 7,
			FaultKind::BadMerkle => 8,
			FaultKind::TipChange { .. } => 9,
		}
	}
}

#[derive(Clone, Debug, PartialEq, Eq, Serialize, Deserialize)]
pub struct FaultSpec {
	/// request index within the operation (0 = the first call to the source)
	pub at: u32,
	pub kind: FaultKind,
	/// free parameter of the fault (which other block to return, direction of the lie, ...)
	pub arg: u32,
}

#[derive(Clone, Copy, Debug, PartialEq, Eq, PartialOrd, Ord, Serialize, Deserialize)]
pub enum BlockMode {
	Full,
	HeaderOnly,
	/// per block, by its salt
	Mixed,
}

#[derive(Clone, Copy, Debug, PartialEq, Eq, PartialOrd, Ord)]
pub enum ReqKind {
	BestBlock,
	Header,
	Block,
}

#[derive(Clone, Debug)]
pub struct Fired {
	pub at: u32,
	pub kind: FaultKind,
	pub req: ReqKind,
	/// a fault that cannot make an honest client fail (wrong height *hint*, tip change)
	pub benign: bool,
}

#[derive(Default)]
pub struct OpState {
	pub active: bool,
	pub req: u32,
	pub faults: Vec<FaultSpec>,
	pub pend: Vec<u8>,
	pub fired: Vec<Fired>,
	/// None = the source serves every block of the tree
	pub served: Option<BTreeSet<usize>>,
	pub last_best_returned: Option<BlockHash>,
	pub locator_hashes: BTreeSet<BlockHash>,
	pub pendings: u64,
	pub no_tip_change: bool,
	pub req_fp: u64,
	pub kinds: Vec<u8>,
	/// requests refused because the source has "forgotten" a stale block
	pub not_found: u32,
	/// requests for a block the source never serves (BAD_MISSING) or does not know at all
	pub missing_hit: u32,
}

pub struct SrcState {
	pub tree: BlockTree,
	pub best: usize,
	/// headers the source invented (never part of the tree)
	pub phantoms: BTreeMap<BlockHash, BlockHeaderData>,
	pub block_mode: BlockMode,
	pub best_height_known: bool,
	/// if false, height/chainwork lies are never applied to headers whose metadata the client has
	/// nothing to compare against (the tip header, locator headers)
	pub allow_tip_lies: bool,
	pub op: OpState,
	pub total_requests: u64,
}

pub struct SimSource {
	pub st: Mutex<SrcState>,
}

pub struct SimFuture<T> {
	pend: u8,
	val: Option<T>,
}

impl<T: Unpin> Future for SimFuture<T> {
	type Output = T;
	fn poll(mut self: Pin<&mut Self>, cx: &mut Context<'_>) -> Poll<T> {
		if self.pend > 0 {
			self.pend -= 1;
			cx.waker().wake_by_ref();
			Poll::Pending
		} else {
			Poll::Ready(self.val.take().expect("SimFuture polled after completion"))
		}
	}
}

fn hash_from_arg(arg: u32, salt: u8) -> BlockHash {
	let mut b = [0u8; 32];
	let h = simcore::fnv(&[arg.to_le_bytes().as_slice(), &[salt]].concat());
	b[0..8].copy_from_slice(&h.to_le_bytes());
	b[8..16].copy_from_slice(&h.rotate_left(17).to_le_bytes());
	b[16..24].copy_from_slice(&h.rotate_left(31).to_le_bytes());
	b[24..32].copy_from_slice(&h.rotate_left(47).to_le_bytes());
	BlockHash::from_byte_array(b)
}

impl SrcState {
	pub fn new(block_mode: BlockMode, best_height_known: bool, allow_tip_lies: bool) -> SrcState {
		SrcState {
			tree: BlockTree::new(),
			best: 0,
			phantoms: BTreeMap::new(),
			block_mode,
			best_height_known,
			allow_tip_lies,
			op: OpState::default(),
			total_requests: 0,
		}
	}

	pub fn begin_op(
		&mut self, faults: Vec<FaultSpec>, pend: Vec<u8>, served: Option<BTreeSet<usize>>,
		locator_hashes: BTreeSet<BlockHash>,
	) {
		let no_tip_change = served.is_some();
		self.op = OpState {
			active: true,
			faults,
			pend,
			served,
			locator_hashes,
			no_tip_change,
			req_fp: 0xcbf29ce484222325,
			..Default::default()
		};
	}

	pub fn end_op(&mut self) -> OpState {
		let mut op = std::mem::take(&mut self.op);
		op.active = false;
		op
	}

	pub fn header_only(&self, idx: usize) -> bool {
		match self.block_mode {
			BlockMode::Full => false,
			BlockMode::HeaderOnly => true,
			BlockMode::Mixed => self.tree.blocks[idx].salt % 2 == 1,
		}
	}

	fn header_data(&self, idx: usize) -> BlockHeaderData {
		let b = &self.tree.blocks[idx];
		BlockHeaderData { header: b.header, height: b.height, chainwork: b.chainwork }
	}

	fn is_served(&self, idx: usize) -> bool {
		match &self.op.served {
			None => true,
			Some(s) => s.contains(&idx),
		}
	}

	/// Registers the request, returns (pending count, fault to apply).
	fn next_req(&mut self, kind: ReqKind, hash: Option<&BlockHash>) -> (u8, Option<FaultSpec>) {
		let idx = self.op.req;
		self.op.req += 1;
		self.total_requests += 1;
		let k = match kind {
			ReqKind::BestBlock => 0u8,
			ReqKind::Header => 1,
			ReqKind::Block => 2,
		};
		self.op.req_fp = simcore::fnv_extend(self.op.req_fp, &[k]);
		if let Some(h) = hash {
			self.op.req_fp = simcore::fnv_extend(self.op.req_fp, h.as_byte_array());
		}
		if self.op.kinds.len() < 64 {
			self.op.kinds.push(k);
		}
		let pend = if self.op.pend.is_empty() { 0 } else { self.op.pend[idx as usize % self.op.pend.len()] };
		self.op.pendings += pend as u64;
		let fault = self.op.faults.iter().find(|f| f.at == idx).cloned();
		(pend, fault)
	}

	fn fire(&mut self, f: &FaultSpec, req: ReqKind, benign: bool) {
		self.op.fired.push(Fired { at: f.at, kind: f.kind, req, benign });
	}

	fn try_tip_change(&mut self, f: &FaultSpec, req: ReqKind) {
		if let FaultKind::TipChange { branch, height } = f.kind {
			if self.op.no_tip_change {
				return;
			}
			if let Some(idx) = self.tree.resolve(branch, height) {
				if idx != self.best {
					self.best = idx;
					self.fire(f, req, true);
				}
			}
		}
	}

	fn bad_pow_header(&mut self, mut h: Header) -> Header {
		h.nonce = h.nonce.wrapping_add(1);
		let mut ctr = 0;
		grind(&mut h, false, &mut ctr);
		h
	}

	fn other_block(&self, idx: usize, arg: u32) -> Option<usize> {
		let n = self.tree.blocks.len();
		let mut cands = Vec::new();
		if arg % 2 == 0 {
			if let Some(p) = self.tree.blocks[idx].parent {
				cands.push(p);
			}
		}
		cands.push((arg as usize / 2) % n);
		if let Some(p) = self.tree.blocks[idx].parent {
			cands.push(p);
		}
		if idx + 1 < n {
			cands.push(idx + 1);
		}
		cands.into_iter().find(|c| *c != idx)
	}

	fn answer_best(&mut self) -> (u8, BlockSourceResult<(BlockHash, Option<u32>)>) {
		let (pend, fault) = self.next_req(ReqKind::BestBlock, None);
		let mut height_delta: i64 = 0;
		if let Some(f) = fault {
			match f.kind {
				FaultKind::Transient => {
					self.fire(&f, ReqKind::BestBlock, false);
					return (pend, Err(BlockSourceError::transient("sim: transient")));
				},
				FaultKind::Persistent => {
					self.fire(&f, ReqKind::BestBlock, false);
					return (pend, Err(BlockSourceError::persistent("sim: persistent")));
				},
				FaultKind::BadPow | FaultKind::NonConnecting => {
					let best = self.tree.blocks[self.best].clone();
					let dangling = f.kind == FaultKind::NonConnecting;
					let mut h = Header {
						version: Version::from_consensus(0x2000_0000),
						prev_blockhash: if dangling { hash_from_arg(f.arg, 1) } else { best.hash },
						merkle_root: TxMerkleNode::from_byte_array(hash_from_arg(f.arg, 2).to_byte_array()),
						time: best.header.time.wrapping_add(600),
						bits: CompactTarget::from_consensus(REGTEST_BITS),
						nonce: f.arg,
					};
					let mut ctr = 0;
					grind(&mut h, dangling, &mut ctr);
					let data = BlockHeaderData {
						header: h,
						height: best.height + 1,
						chainwork: best.chainwork + h.work(),
					};
					let hash = h.block_hash();
					self.phantoms.insert(hash, data);
					self.fire(&f, ReqKind::BestBlock, false);
					self.op.last_best_returned = Some(hash);
					let hint = if self.best_height_known { Some(data.height) } else { None };
					return (pend, Ok((hash, hint)));
				},
				FaultKind::WrongHeight => {
					if self.best_height_known {
						height_delta = if f.arg % 2 == 0 { 1 } else { -1 };
						self.fire(&f, ReqKind::BestBlock, true);
					}
				},
				FaultKind::TipChange { .. } => self.try_tip_change(&f, ReqKind::BestBlock),
				FaultKind::WrongChainwork | FaultKind::WrongBlock | FaultKind::BadMerkle => {},
			}
		}
		let b = &self.tree.blocks[self.best];
		let hash = b.hash;
		let hint = if self.best_height_known {
			Some((b.height as i64 + height_delta).max(0) as u32)
		} else {
			None
		};
		self.op.last_best_returned = Some(hash);
		(pend, Ok((hash, hint)))
	}

	fn answer_header(&mut self, hash: &BlockHash) -> (u8, BlockSourceResult<BlockHeaderData>) {
		let (pend, fault) = self.next_req(ReqKind::Header, Some(hash));
		if let Some(f) = &fault {
			match f.kind {
				FaultKind::Transient => {
					self.fire(f, ReqKind::Header, false);
					return (pend, Err(BlockSourceError::transient("sim: transient")));
				},
				FaultKind::Persistent => {
					self.fire(f, ReqKind::Header, false);
					return (pend, Err(BlockSourceError::persistent("sim: persistent")));
				},
				FaultKind::TipChange { .. } => self.try_tip_change(f, ReqKind::Header),
				_ => {},
			}
		}
		if let Some(p) = self.phantoms.get(hash) {
			return (pend, Ok(*p));
		}
		let idx = match self.tree.by_hash.get(hash) {
			Some(i) if self.tree.blocks[*i].bad == BAD_MISSING => {
				self.op.missing_hit += 1;
				return (pend, Err(BlockSourceError::persistent("sim: header not found")));
			},
			Some(i) if self.is_served(*i) => *i,
			Some(_) => {
				self.op.not_found += 1;
				return (pend, Err(BlockSourceError::persistent("sim: header not found")));
			},
			None => {
				self.op.missing_hit += 1;
				return (pend, Err(BlockSourceError::persistent("sim: header not found")));
			},
		};
		let mut data = self.header_data(idx);
		if let Some(f) = &fault {
			let unverifiable = self.op.last_best_returned.as_ref() == Some(hash)
				|| self.op.locator_hashes.contains(hash);
			match f.kind {
				FaultKind::BadPow => {
					data.header = self.bad_pow_header(data.header);
					self.fire(f, ReqKind::Header, false);
				},
				FaultKind::NonConnecting | FaultKind::WrongBlock => {
					if let Some(o) = self.other_block(idx, f.arg) {
						data = self.header_data(o);
						self.fire(f, ReqKind::Header, false);
					}
				},
				FaultKind::WrongHeight => {
					if self.allow_tip_lies || !unverifiable {
						if f.arg % 2 == 0 || data.height == 0 {
							data.height += 1 + (f.arg / 2) % 3;
						} else {
							data.height -= 1;
						}
						self.fire(f, ReqKind::Header, false);
					}
				},
				FaultKind::WrongChainwork => {
					if self.allow_tip_lies || !unverifiable {
						let w = data.header.work();
						if f.arg % 2 == 0 || idx == 0 {
							for _ in 0..(1 + (f.arg / 2) % 3) {
								data.chainwork = data.chainwork + w;
							}
						} else {
							data.chainwork = data.chainwork - w;
						}
						self.fire(f, ReqKind::Header, false);
					}
				},
				_ => {},
			}
		}
		(pend, Ok(data))
	}

	fn answer_block(&mut self, hash: &BlockHash) -> (u8, BlockSourceResult<BlockData>) {
		let (pend, fault) = self.next_req(ReqKind::Block, Some(hash));
		if let Some(f) = &fault {
			match f.kind {
				FaultKind::Transient => {
					self.fire(f, ReqKind::Block, false);
					return (pend, Err(BlockSourceError::transient("sim: transient")));
				},
				FaultKind::Persistent => {
					self.fire(f, ReqKind::Block, false);
					return (pend, Err(BlockSourceError::persistent("sim: persistent")));
				},
				FaultKind::TipChange { .. } => self.try_tip_change(f, ReqKind::Block),
				_ => {},
			}
		}
		let mut idx = match self.tree.by_hash.get(hash) {
			Some(i) if self.tree.blocks[*i].bad == BAD_MISSING => {
				self.op.missing_hit += 1;
				return (pend, Err(BlockSourceError::persistent("sim: block not found")));
			},
			Some(i) if self.is_served(*i) => *i,
			Some(_) => {
				self.op.not_found += 1;
				return (pend, Err(BlockSourceError::persistent("sim: block not found")));
			},
			None => {
				self.op.missing_hit += 1;
				return (pend, Err(BlockSourceError::persistent("sim: block not found")));
			},
		};
		let mut bad_pow = false;
		let mut bad_merkle = false;
		if let Some(f) = &fault {
			match f.kind {
				FaultKind::BadPow => {
					bad_pow = true;
					self.fire(f, ReqKind::Block, false);
				},
				FaultKind::NonConnecting | FaultKind::WrongBlock => {
					if let Some(o) = self.other_block(idx, f.arg) {
						idx = o;
						self.fire(f, ReqKind::Block, false);
					}
				},
				FaultKind::BadMerkle => {
					if !self.header_only(idx) {
						bad_merkle = true;
						self.fire(f, ReqKind::Block, false);
					}
				},
				_ => {},
			}
		}
		let data = if self.header_only(idx) {
			let mut h = self.tree.blocks[idx].header;
			if bad_pow {
				h = self.bad_pow_header(h);
			}
			BlockData::HeaderOnly(h)
		} else {
			let mut b = self.tree.full_block(idx);
			if bad_pow {
				b.header = self.bad_pow_header(b.header);
			}
			if bad_merkle {
				let extra = b.txdata[0].clone();
				b.txdata.push(extra);
			}
			BlockData::FullBlock(b)
		};
		(pend, Ok(data))
	}
}

impl SimSource {
	pub fn new(st: SrcState) -> SimSource {
		SimSource { st: Mutex::new(st) }
	}
	pub fn lock(&self) -> std::sync::MutexGuard<'_, SrcState> {
		match self.st.lock() {
			Ok(g) => g,
			Err(p) => p.into_inner(),
		}
	}
}

impl BlockSource for SimSource {
	fn get_header<'a>(
		&'a self, header_hash: &'a BlockHash, _height_hint: Option<u32>,
	) -> impl Future<Output = BlockSourceResult<BlockHeaderData>> + Send + 'a {
		let (pend, val) = self.lock().answer_header(header_hash);
		SimFuture { pend, val: Some(val) }
	}

	fn get_block<'a>(
		&'a self, header_hash: &'a BlockHash,
	) -> impl Future<Output = BlockSourceResult<BlockData>> + Send + 'a {
		let (pend, val) = self.lock().answer_block(header_hash);
		SimFuture { pend, val: Some(val) }
	}

	fn get_best_block<'a>(
		&'a self,
	) -> impl Future<Output = BlockSourceResult<(BlockHash, Option<u32>)>> + Send + 'a {
		let (pend, val) = self.lock().answer_best();
		SimFuture { pend, val: Some(val) }
	}
}
