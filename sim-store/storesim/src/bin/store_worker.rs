//! Worker / replay / shrink entry point used by /verif/sim's batch runner for `storesim` jobs
//! (this workspace is separate because of the shuttle-enabled shadow build of lightning-persister).

use simcore::Sim;

fn lookup(name: &str) -> Option<Box<dyn Sim>> {
	match name {
		"storesim" => Some(Box::new(storesim::StoreSim)),
		_ => None,
	}
}

fn main() {
	let args: Vec<String> = std::env::args().collect();
	std::process::exit(simcore::runner::serve_main(&args, &lookup));
}
