//! The world: one or two real `NetworkGraph`s (+ `P2PGossipSync`) under test, each shadowed by a
//! reference model; `apply` executes one explicit `Action` and evaluates the oracles.

use crate::model::{Lookup, Model, RgsAnnD, RgsD, RgsUpdD, VChan, VDir, VNa, VNode, View, RGS_BACKDATE_SECS, STALE_SECS};
use crate::universe::*;
use bitcoin::constants::ChainHash;
use bitcoin::TxOut;
use lightning::ln::msgs::{
	ChannelAnnouncement, ChannelUpdate, NodeAnnouncement, RoutingMessageHandler,
};
use lightning::ln::msgs::BaseMessageHandler;
use lightning::routing::gossip::{
	ChannelUpdateInfo, NetworkGraph, NetworkUpdate, NodeId, P2PGossipSync,
};
use lightning::routing::utxo::{UtxoFuture, UtxoLookup, UtxoLookupError, UtxoResult};
use lightning::util::logger::{Logger, Record};
use lightning::util::ser::{LengthReadable, ReadableArgs, Writeable};
use lightning::util::wakers::Notifier;
use serde::{Deserialize, Serialize};
use serde_json::json;
use simcore::runner::catch;
use simcore::{fnv, fnv_extend, RunOutcome};
use std::collections::{BTreeMap, BTreeSet};
use std::sync::{Arc, Mutex};
use std::time::Duration;

pub const PROP: &str = "C17";
pub const O_PANIC: &str = "C17-0 panic";
pub const O_RESULT: &str = "C17-1 accept/reject equals model";
pub const O_VIEW: &str = "C17-1 graph view equals model";
pub const O_FORGED: &str = "C17-2 unauthentic data reflected";
pub const O_REGRESS: &str = "C17-3 timestamp regression";
pub const O_ORDER: &str = "C17-4 order independence";
pub const O_ROUNDTRIP: &str = "C17-5 serialization round trip";
pub const O_RGS: &str = "C17-6 rapid gossip sync result";

pub struct NullLogger;
impl Logger for NullLogger {
	fn log(&self, _record: Record) {}
}

pub type Graph = NetworkGraph<Arc<NullLogger>>;
pub type Sync = P2PGossipSync<Arc<Graph>, Arc<SimLookup>, Arc<NullLogger>>;

enum Plan {
	Sync(Result<TxOut, UtxoLookupError>),
	Async,
	/// answers `UtxoResult::Async` with a future that is already resolved
	AsyncDone(Result<TxOut, UtxoLookupError>),
}

#[derive(Default)]
struct LookupInner {
	plan: Option<Plan>,
	calls: u64,
	unplanned_calls: u64,
	created: Vec<(u64, UtxoFuture)>,
}

/// The simulated chain source. What it answers is decided by the action being executed.
#[derive(Default)]
pub struct SimLookup {
	inner: Mutex<LookupInner>,
}

impl UtxoLookup for SimLookup {
	fn get_utxo(&self, _chain_hash: &ChainHash, scid: u64, notifier: Arc<Notifier>) -> UtxoResult {
		let mut l = self.inner.lock().unwrap();
		l.calls += 1;
		match l.plan.take() {
			Some(Plan::Sync(r)) => UtxoResult::Sync(r),
			Some(Plan::Async) => {
				let f = UtxoFuture::new(notifier);
				l.created.push((scid, f.clone()));
				UtxoResult::Async(f)
			},
			Some(Plan::AsyncDone(r)) => {
				let f = UtxoFuture::new(notifier);
				f.resolve(r);
				UtxoResult::Async(f)
			},
			None => {
				l.unplanned_calls += 1;
				UtxoResult::Sync(Err(UtxoLookupError::UnknownTx))
			},
		}
	}
}

#[derive(Clone, Copy, Debug, PartialEq, Eq, Serialize, Deserialize)]
pub enum Mode {
	/// one graph, every kind of message and fault
	Chaos,
	/// two graphs fed the same valid message set in two legal orders with duplication
	Order,
}

#[derive(Clone, Debug, Serialize, Deserialize)]
pub struct Config {
	pub profile: String,
	pub mode: Mode,
	pub key_seed: u64,
	pub n_nodes: usize,
	pub chans: Vec<ChanCfg>,
	pub start_time: u64,
	pub max_steps: u64,
	/// generator-only knobs (swarm configuration); replay ignores them
	pub gen: GenCfg,
}

#[derive(Clone, Debug, Default, Serialize, Deserialize)]
pub struct GenCfg {
	pub w_ca: u32,
	pub w_cu: u32,
	pub w_na: u32,
	pub w_dup: u32,
	pub w_resolve: u32,
	pub w_process: u32,
	pub w_clock: u32,
	pub w_prune: u32,
	pub w_chan_fail: u32,
	pub w_node_fail: u32,
	pub w_roundtrip: u32,
	#[serde(default)]
	pub w_rgs: u32,
	/// percent of announcements delivered with a chain source
	pub lookup_pct: u32,
	/// percent of chain-source answers that are asynchronous
	pub async_pct: u32,
	/// percent of forged / malformed variants among generated messages
	pub bad_pct: u32,
	pub big_clock_pct: u32,
	/// order mode: 0 no lookup, 1 sync lookup, 2 mixed sync/async lookup
	pub order_lookup: u8,
	pub dup_pct: u32,
}

#[derive(Clone, Copy, Debug, PartialEq, Eq, Serialize, Deserialize)]
pub enum UtxoPlan {
	NoLookup,
	Sync(UtxoAnswer),
	Async,
	/// `UtxoResult::Async` whose future resolved before it was handed back
	AsyncDone(UtxoAnswer),
}

#[derive(Clone, Copy, Debug, PartialEq, Eq, Serialize, Deserialize)]
pub enum CuEntry {
	Handle,
	Direct,
	Unsigned,
	VerifyOnly,
}

#[derive(Clone, Copy, Debug, PartialEq, Eq, Serialize, Deserialize)]
pub enum NaEntry {
	Handle,
	Direct,
	Unsigned,
}

#[derive(Clone, Debug, PartialEq, Serialize, Deserialize)]
pub struct RgsAnnSpec {
	pub scid: ScidRef,
	pub a: usize,
	pub b: usize,
	pub sorted: bool,
	/// version 2 only: funding amount carried as additional data
	pub funding: Option<u64>,
}

#[derive(Clone, Debug, PartialEq, Serialize, Deserialize)]
pub struct RgsUpdSpec {
	pub scid: ScidRef,
	pub dir: u8,
	pub disabled: bool,
	pub incremental: bool,
	pub cltv: Option<u16>,
	pub hmin: Option<u64>,
	/// always present in generated snapshots (unique id, see `CuSpec::uid`)
	pub base: Option<u32>,
	pub prop: Option<u32>,
	pub hmax: Option<u64>,
}

/// A rapid-gossip-sync snapshot, encoded by `encode_rgs` from the format description in
/// lightning-rapid-gossip-sync/src/processing.rs.
#[derive(Clone, Debug, PartialEq, Serialize, Deserialize)]
pub struct RgsSpec {
	pub version: u8,
	pub chain_ok: bool,
	pub latest_seen: u32,
	pub with_time: bool,
	pub anns: Vec<RgsAnnSpec>,
	pub upds: Vec<RgsUpdSpec>,
	pub defaults: (u16, u64, u32, u32, u64),
}

#[derive(Clone, Debug, PartialEq, Serialize, Deserialize)]
pub enum Action {
	/// apply a rapid-gossip-sync snapshot (`RapidGossipSync::update_network_graph_no_std`)
	Rgs { g: usize, snap: RgsSpec },
	/// channel_announcement; `signed`: through an entry point that verifies signatures;
	/// `handler`: through `P2PGossipSync::handle_*` (after a wire encode/decode) instead of `NetworkGraph::update_*`
	ChanAnn { g: usize, spec: CaSpec, signed: bool, handler: bool, utxo: UtxoPlan },
	ChanUpd { g: usize, spec: CuSpec, entry: CuEntry },
	NodeAnn { g: usize, spec: NaSpec, entry: NaEntry },
	/// complete the `idx`-th outstanding asynchronous lookup with `answer`
	ResolveUtxo { g: usize, idx: usize, answer: UtxoAnswer },
	/// `get_and_clear_pending_msg_events` (processes completed lookups)
	Process { g: usize },
	Clock { secs: u64 },
	Prune { g: usize, with_time: bool },
	ChanFail { g: usize, scid: ScidRef, permanent: bool, via_update: bool },
	NodeFail { g: usize, node: usize, permanent: bool, via_update: bool },
	RoundTrip { g: usize, adopt: bool },
	Finish,
}

impl Action {
	pub fn kind(&self) -> &'static str {
		match self {
			Action::ChanAnn { .. } => "ChanAnn",
			Action::ChanUpd { .. } => "ChanUpd",
			Action::NodeAnn { .. } => "NodeAnn",
			Action::ResolveUtxo { .. } => "ResolveUtxo",
			Action::Process { .. } => "Process",
			Action::Clock { .. } => "Clock",
			Action::Prune { .. } => "Prune",
			Action::ChanFail { .. } => "ChanFail",
			Action::NodeFail { .. } => "NodeFail",
			Action::RoundTrip { .. } => "RoundTrip",
			Action::Finish => "Finish",
			Action::Rgs { .. } => "Rgs",
		}
	}
	/// Identity of a gossip message independent of the graph it is delivered to and of the entry
	/// point details that do not change what is stored (None for non-message actions).
	pub fn message_key(&self) -> Option<(usize, u64)> {
		let (g, s) = match self {
			Action::ChanAnn { g, spec, signed, .. } => (*g, format!("ca{}{}", serde_json::to_string(spec).ok()?, signed)),
			Action::ChanUpd { g, spec, entry } => {
				(*g, format!("cu{}{}", serde_json::to_string(spec).ok()?, *entry == CuEntry::Unsigned))
			},
			Action::NodeAnn { g, spec, entry } => {
				(*g, format!("na{}{}", serde_json::to_string(spec).ok()?, *entry == NaEntry::Unsigned))
			},
			_ => return None,
		};
		Some((g, fnv(s.as_bytes())))
	}

	pub fn actor(&self) -> usize {
		match self {
			Action::ChanAnn { g, .. }
			| Action::ChanUpd { g, .. }
			| Action::NodeAnn { g, .. }
			| Action::ResolveUtxo { g, .. }
			| Action::Process { g }
			| Action::Prune { g, .. }
			| Action::ChanFail { g, .. }
			| Action::NodeFail { g, .. }
			| Action::Rgs { g, .. }
			| Action::RoundTrip { g, .. } => *g,
			Action::Clock { .. } | Action::Finish => 9,
		}
	}
}

struct CuRec {
	desc: CuDesc,
	trusted: bool,
}
struct NaRec {
	desc: NaDesc,
	trusted: bool,
}
#[derive(Default, Clone)]
struct CaRec {
	utxo_matchable: bool,
	/// capacities vouched for by the trusted rapid-gossip-sync source
	trusted_caps: BTreeSet<u64>,
}

/// One graph under test with everything that shadows it.
pub struct Gut {
	pub graph: Arc<Graph>,
	sync: Sync,
	sync_nolookup: Sync,
	lookup: Arc<SimLookup>,
	pub model: Model,
	futures: Vec<(u64, u64, UtxoFuture)>,
	last_view: View,
	ca_ok: BTreeMap<(u64, Pk, Pk), CaRec>,
	cu_reg: BTreeMap<u32, Vec<CuRec>>,
	na_reg: BTreeMap<[u8; 32], NaRec>,
	// order-mode bookkeeping
	delivered: BTreeSet<u64>,
	ca_scids: BTreeSet<u64>,
	ca_nodes: BTreeSet<Pk>,
	ts_keys: BTreeMap<(u8, u64, Pk, u32), u64>,
	lookup_styles: BTreeMap<u64, bool>,
	feed_ok: bool,
	pub n_dups: u64,
}

impl Gut {
	fn new(logger: &Arc<NullLogger>) -> Gut {
		let graph = Arc::new(NetworkGraph::new(NETWORK, logger.clone()));
		let lookup = Arc::new(SimLookup::default());
		let sync = P2PGossipSync::new(graph.clone(), Some(lookup.clone()), logger.clone());
		let sync_nolookup = P2PGossipSync::new(graph.clone(), None, logger.clone());
		Gut {
			graph,
			sync,
			sync_nolookup,
			lookup,
			model: Model::default(),
			futures: Vec::new(),
			last_view: View::default(),
			ca_ok: BTreeMap::new(),
			cu_reg: BTreeMap::new(),
			na_reg: BTreeMap::new(),
			delivered: BTreeSet::new(),
			ca_scids: BTreeSet::new(),
			ca_nodes: BTreeSet::new(),
			ts_keys: BTreeMap::new(),
			lookup_styles: BTreeMap::new(),
			feed_ok: true,
			n_dups: 0,
		}
	}
	pub fn outstanding(&self) -> usize {
		self.futures.len()
	}
}

fn register_cu(reg: &mut BTreeMap<u32, Vec<CuRec>>, desc: &CuDesc, trusted: bool) {
	let v = reg.entry(desc.base).or_default();
	match v.iter_mut().find(|r| r.desc == *desc) {
		Some(r) => r.trusted |= trusted,
		None => v.push(CuRec { desc: desc.clone(), trusted }),
	}
}

fn vdir(u: &ChannelUpdateInfo) -> VDir {
	VDir {
		ts: u.last_update,
		enabled: u.enabled,
		cltv: u.cltv_expiry_delta,
		hmin: u.htlc_minimum_msat,
		hmax: u.htlc_maximum_msat,
		base: u.fees.base_msat,
		prop: u.fees.proportional_millionths,
	}
}

fn pk_of(id: &NodeId) -> Pk {
	*id.as_array()
}

fn trim_zeros(mut v: Vec<u8>) -> Vec<u8> {
	while v.last() == Some(&0) {
		v.pop();
	}
	v
}

/// Extracts the public read-only view. The second value reports structural damage that the view
/// type cannot express (a node listing one channel twice).
pub fn ldk_view(g: &Graph) -> (View, Option<String>) {
	let ro = g.read_only();
	let mut v = View::default();
	let mut problem = None;
	for (scid, c) in ro.channels().unordered_iter() {
		v.chans.insert(
			*scid,
			VChan {
				n1: pk_of(&c.node_one),
				n2: pk_of(&c.node_two),
				cap: c.capacity_sats,
				dirs: [c.one_to_two.as_ref().map(vdir), c.two_to_one.as_ref().map(vdir)],
			},
		);
	}
	for (id, n) in ro.nodes().unordered_iter() {
		let chans: BTreeSet<u64> = n.channels.iter().cloned().collect();
		if chans.len() != n.channels.len() {
			problem = Some(format!(
				"node {} lists a channel more than once: {:?}",
				simcore::hex(&id.as_slice()[..6]),
				n.channels
			));
		}
		let ann = n.announcement_info.as_ref().map(|a| {
			let mut addrs = Vec::new();
			for ad in a.addresses() {
				addrs.extend_from_slice(&ad.encode());
			}
			VNa {
				ts: a.last_update(),
				alias: a.alias().0,
				rgb: a.rgb(),
				features: trim_zeros(a.features().le_flags().to_vec()),
				addrs,
			}
		});
		v.nodes.insert(pk_of(id), VNode { chans, ann });
	}
	(v, problem)
}

fn put_bigsize(out: &mut Vec<u8>, v: u64) {
	out.extend_from_slice(&lightning::util::ser::BigSize(v).encode());
}

/// Encoder for rapid-gossip-sync snapshots, written from the format description in
/// lightning-rapid-gossip-sync/src/processing.rs (versions 1 and 2, without node details).
pub fn encode_rgs(version: u8, d: &RgsD) -> Vec<u8> {
	let mut out = vec![76u8, 68, 75, version];
	let chain = ChainHash::using_genesis_block(if d.chain_ok { NETWORK } else { WRONG_NETWORK });
	out.extend_from_slice(&chain.to_bytes());
	out.extend_from_slice(&d.latest_seen.to_be_bytes());
	if version == 2 {
		out.push(0); // no default node feature sets
	}
	let mut ids: Vec<Pk> = Vec::new();
	for a in d.anns.iter() {
		for n in [a.n1, a.n2] {
			if !ids.contains(&n) {
				ids.push(n);
			}
		}
	}
	out.extend_from_slice(&(ids.len() as u32).to_be_bytes());
	for id in ids.iter() {
		// version 2 keeps flags in the upper bits of the parity byte; none are set here
		out.extend_from_slice(id);
	}
	out.extend_from_slice(&(d.anns.len() as u32).to_be_bytes());
	let mut prev = 0u64;
	for a in d.anns.iter() {
		out.extend_from_slice(&[0, 0]); // empty channel features
		put_bigsize(&mut out, a.scid - prev);
		prev = a.scid;
		let i1 = ids.iter().position(|x| *x == a.n1).unwrap() as u64;
		let mut i2 = ids.iter().position(|x| *x == a.n2).unwrap() as u64;
		let extra = version == 2 && a.funding.is_some();
		if extra {
			i2 |= 1 << 63;
		}
		put_bigsize(&mut out, i1);
		put_bigsize(&mut out, i2);
		if extra {
			let mut add = Vec::new();
			put_bigsize(&mut add, a.funding.unwrap());
			out.extend_from_slice(&(add.len() as u16).to_be_bytes());
			out.extend_from_slice(&add);
		}
	}
	out.extend_from_slice(&(d.upds.len() as u32).to_be_bytes());
	if d.upds.is_empty() {
		return out;
	}
	out.extend_from_slice(&d.defaults.0.to_be_bytes());
	out.extend_from_slice(&d.defaults.1.to_be_bytes());
	out.extend_from_slice(&d.defaults.2.to_be_bytes());
	out.extend_from_slice(&d.defaults.3.to_be_bytes());
	out.extend_from_slice(&d.defaults.4.to_be_bytes());
	let mut prev = 0u64;
	for u in d.upds.iter() {
		put_bigsize(&mut out, u.scid - prev);
		prev = u.scid;
		let mut flags = u.dir & 1;
		if !u.enabled {
			flags |= 2;
		}
		if u.incremental {
			flags |= 0x80;
		}
		if u.cltv.is_some() {
			flags |= 0x40;
		}
		if u.hmin.is_some() {
			flags |= 0x20;
		}
		if u.base.is_some() {
			flags |= 0x10;
		}
		if u.prop.is_some() {
			flags |= 0x08;
		}
		if u.hmax.is_some() {
			flags |= 0x04;
		}
		out.push(flags);
		if let Some(v) = u.cltv {
			out.extend_from_slice(&v.to_be_bytes());
		}
		if let Some(v) = u.hmin {
			out.extend_from_slice(&v.to_be_bytes());
		}
		if let Some(v) = u.base {
			out.extend_from_slice(&v.to_be_bytes());
		}
		if let Some(v) = u.prop {
			out.extend_from_slice(&v.to_be_bytes());
		}
		if let Some(v) = u.hmax {
			out.extend_from_slice(&v.to_be_bytes());
		}
	}
	out
}

pub struct World {
	pub cfg: Config,
	pub uni: Universe,
	logger: Arc<NullLogger>,
	pub gs: Vec<Gut>,
	pub now: u64,
	pub out: RunOutcome,
	pub trace: Vec<Action>,
	pub step: u64,
	pub dead: bool,
	pub finished: bool,
	hist: u64,
	inter: u64,
	state_fps: BTreeSet<u64>,
	sample: Vec<serde_json::Value>,
	/// order mode: nothing happened that voids the order-independence precondition
	order_ok: bool,
	pub accepted_ca: u64,
	pub accepted_cu: u64,
	pub accepted_na: u64,
	pub rejected: u64,
	/// development only (env GOSSIPSIM_SKIP_C17_1): do not evaluate the model-equality oracles, so
	/// that sensitivity experiments can show what the model-independent oracles catch on their own
	skip_model_oracles: bool,
	/// replay of an order-mode trace: only messages that the trace delivers to *both* graphs are
	/// enabled, so that a shrinker deleting a message from one feed removes it from the other too
	pub order_allowed: Option<BTreeSet<u64>>,
}

fn set_clock(t: u64) {
	lightning::util::verif::set_now(Duration::from_secs(t));
}

impl World {
	pub fn new(cfg: Config) -> World {
		let uni = Universe::new(cfg.key_seed, cfg.n_nodes, cfg.chans.clone());
		let logger = Arc::new(NullLogger);
		let n_graphs = if cfg.mode == Mode::Order { 2 } else { 1 };
		let gs = (0..n_graphs).map(|_| Gut::new(&logger)).collect();
		let now = cfg.start_time;
		set_clock(now);
		let mut out = RunOutcome::new(&cfg.profile, 0);
		out.bump(if cfg.mode == Mode::Order { "mode:order" } else { "mode:chaos" });
		World {
			cfg,
			uni,
			logger,
			gs,
			now,
			out,
			trace: Vec::new(),
			step: 0,
			dead: false,
			finished: false,
			hist: fnv(b"gossipsim"),
			inter: fnv(b"inter"),
			state_fps: BTreeSet::new(),
			sample: Vec::new(),
			order_ok: true,
			accepted_ca: 0,
			accepted_cu: 0,
			accepted_na: 0,
			rejected: 0,
			skip_model_oracles: std::env::var("GOSSIPSIM_SKIP_C17_1").is_ok(),
			order_allowed: None,
		}
	}

	fn violate(&mut self, oracle: &str, msg: String) {
		if self.skip_model_oracles && (oracle == O_RESULT || oracle == O_VIEW) {
			return;
		}
		if oracle == O_ROUNDTRIP {
			// the same fact decides C12 for the network graph ("equal under the library's own equality")
			self.out.violate("C12", "C12-d network graph differs after write/read", self.step, msg.clone());
		}
		self.out.violate(PROP, oracle, self.step, msg);
		self.dead = true;
	}

	fn panic_violation(&mut self, what: &str, p: (String, String)) {
		self.violate(O_PANIC, format!("panic in {} at {}: {}", what, p.1, p.0));
	}

	fn enabled(&self, a: &Action) -> bool {
		let ng = self.gs.len();
		if let (Some(allowed), Some((_, key))) = (&self.order_allowed, a.message_key()) {
			if !allowed.contains(&key) {
				return false;
			}
		}
		match a {
			Action::ChanAnn { g, spec, utxo, .. } => {
				let _ = utxo;
				*g < ng && self.uni.ca_valid(spec)
			},
			Action::ChanUpd { g, spec, .. } => *g < ng && self.uni.cu_valid(spec),
			Action::NodeAnn { g, spec, .. } => *g < ng && self.uni.na_valid(spec),
			Action::ResolveUtxo { g, idx, .. } => *g < ng && *idx < self.gs[*g].futures.len(),
			Action::Process { g } => *g < ng,
			Action::Clock { secs } => *secs > 0 && self.now + *secs < u32::MAX as u64 - 1,
			Action::Prune { g, .. } => *g < ng && !self.gs[*g].model.prune_ambiguous(self.now),
			Action::ChanFail { g, scid, .. } => *g < ng && self.uni.scid_of(*scid).is_some(),
			Action::NodeFail { g, node, .. } => *g < ng && *node < self.uni.total_nodes(),
			Action::RoundTrip { g, adopt } => {
				*g < ng
					&& (!*adopt || (self.gs[*g].futures.is_empty() && self.gs[*g].model.pending_outstanding() == 0))
			},
			Action::Finish => !self.finished,
			Action::Rgs { g, snap } => {
				*g < ng
					&& (snap.version == 1 || snap.version == 2)
					&& !snap.upds.is_empty()
					&& snap.upds.iter().all(|u| u.base.is_some())
					&& snap.anns.len() <= 32
					&& snap.upds.len() <= 64
					&& snap.anns.iter().all(|a| {
						self.uni.scid_of(a.scid).is_some() && a.a < self.uni.total_nodes() && a.b < self.uni.total_nodes() && a.a != a.b
					}) && snap.upds.iter().all(|u| self.uni.scid_of(u.scid).is_some() && u.dir < 2)
					&& (!snap.with_time
						|| (!self.gs[*g].model.prune_ambiguous(self.now)
							&& snap.latest_seen.saturating_sub(RGS_BACKDATE_SECS) as u64 + STALE_SECS != self.now))
			},
		}
	}

	/// Executes one action. Returns false if it was not enabled (skipped).
	pub fn apply(&mut self, a: &Action) -> bool {
		if self.dead {
			return false;
		}
		if !self.enabled(a) {
			self.out.bump("skipped:not_enabled");
			if let Action::Prune { .. } = a {
				self.out.bump("probe:prune_exact_boundary_avoided");
			}
			return false;
		}
		self.step += 1;
		self.trace.push(a.clone());
		self.out.bump(&format!("action:{}", a.kind()));
		let ajson = serde_json::to_string(a).unwrap_or_default();
		self.hist = fnv_extend(self.hist, ajson.as_bytes());
		self.inter = fnv_extend(self.inter, a.kind().as_bytes());
		self.inter = fnv_extend(self.inter, &[a.actor() as u8]);
		if self.sample.len() < 30 {
			self.sample.push(serde_json::to_value(a).unwrap_or(json!(null)));
		}
		for g in self.gs.iter_mut() {
			g.model.begin_step();
		}
		let target = match a {
			Action::Clock { .. } | Action::Finish => None,
			_ => Some(a.actor()),
		};
		match a {
			Action::ChanAnn { g, spec, signed, handler, utxo } => {
				self.do_chan_ann(*g, spec, *signed, *handler, *utxo)
			},
			Action::ChanUpd { g, spec, entry } => self.do_chan_upd(*g, spec, *entry),
			Action::NodeAnn { g, spec, entry } => self.do_node_ann(*g, spec, *entry),
			Action::ResolveUtxo { g, idx, answer } => self.do_resolve(*g, *idx, *answer),
			Action::Process { g } => self.do_process(*g),
			Action::Clock { secs } => {
				self.now += *secs;
				set_clock(self.now);
				self.order_ok = false;
				if *secs > crate::model::STALE_SECS {
					self.out.bump("fault:clock_jump_over_two_weeks");
				}
			},
			Action::Prune { g, with_time } => self.do_prune(*g, *with_time),
			Action::ChanFail { g, scid, permanent, via_update } => {
				self.do_chan_fail(*g, *scid, *permanent, *via_update)
			},
			Action::NodeFail { g, node, permanent, via_update } => {
				self.do_node_fail(*g, *node, *permanent, *via_update)
			},
			Action::RoundTrip { g, adopt } => self.do_roundtrip(*g, *adopt),
			Action::Finish => self.do_finish(),
			Action::Rgs { g, snap } => self.do_rgs(*g, snap),
		}
		if let Some(g) = target {
			if !self.dead {
				self.check_graph(g);
			}
		}
		self.record_state();
		true
	}

	// ---- message delivery ----------------------------------------------------------------

	fn note_result(&mut self, g: usize, what: &str, got_ok: bool, want_ok: bool, detail: &str) {
		self.out.bump("oracle:C17-1_result");
		self.hist = fnv_extend(self.hist, &[got_ok as u8]);
		if got_ok != want_ok {
			self.violate(
				O_RESULT,
				format!(
					"graph {}: {} returned {} but the reference model {} it ({})",
					g,
					what,
					if got_ok { "Ok" } else { "Err" },
					if want_ok { "accepts" } else { "rejects" },
					detail
				),
			);
		}
	}

	fn order_track(&mut self, g: usize, id: u64) {
		if !self.gs[g].delivered.insert(id) {
			self.gs[g].n_dups += 1;
			self.out.bump("fault:duplicate_delivery");
		}
	}

	fn do_chan_ann(&mut self, g: usize, spec: &CaSpec, signed: bool, handler: bool, utxo: UtxoPlan) {
		let (msg, desc) = self.uni.build_ca(spec);
		let with_lookup = utxo != UtxoPlan::NoLookup;
		// bookkeeping for the order-independence precondition and the authenticity registry
		self.order_track(g, desc.full_id ^ (signed as u64) ^ 0x1111);
		{
			let gut = &mut self.gs[g];
			gut.ca_scids.insert(desc.scid);
			gut.ca_nodes.insert(desc.n1);
			gut.ca_nodes.insert(desc.n2);
			match gut.lookup_styles.get(&desc.scid) {
				Some(prev) if *prev != with_lookup => gut.feed_ok = false,
				_ => {
					gut.lookup_styles.insert(desc.scid, with_lookup);
				},
			}
			let valid = desc.sigs_ok && desc.chain_ok && desc.n1 < desc.n2 && desc.b1 != desc.b2;
			if !valid {
				gut.feed_ok = false;
			}
			if desc.sigs_ok || !signed {
				let matchable = match self.uni.chan_by_scid(desc.scid) {
					Some(c) => {
						let real = &self.uni.btc_pk[c];
						(desc.b1 == real[0] && desc.b2 == real[1]) || (desc.b1 == real[1] && desc.b2 == real[0])
					},
					None => false,
				};
				let e = gut.ca_ok.entry((desc.scid, desc.n1, desc.n2)).or_default();
				e.utxo_matchable |= matchable;
			}
		}
		if !desc.sigs_ok {
			self.out.bump("fault:ca_bad_signature");
		}
		if !desc.chain_ok {
			self.out.bump("fault:ca_wrong_chain");
		}
		// what the chain source will say, if asked
		let lookup = match utxo {
			UtxoPlan::NoLookup => Lookup::None,
			UtxoPlan::Sync(ans) | UtxoPlan::AsyncDone(ans) => Lookup::Sync(self.uni.outcome(ans, &desc)),
			UtxoPlan::Async => Lookup::Async,
		};
		let plan = match utxo {
			UtxoPlan::NoLookup => None,
			UtxoPlan::Sync(ans) => Some(Plan::Sync(self.uni.lookup_result(ans, desc.scid))),
			UtxoPlan::AsyncDone(ans) => {
				self.out.bump("probe:utxo_future_resolved_before_returned");
				Some(Plan::AsyncDone(self.uni.lookup_result(ans, desc.scid)))
			},
			UtxoPlan::Async => Some(Plan::Async),
		};
		let gut = &mut self.gs[g];
		let calls_before;
		{
			let mut l = gut.lookup.inner.lock().unwrap();
			l.plan = plan;
			calls_before = l.calls;
		}
		let remembered_removed = gut.model.tomb_chans.contains_key(&desc.scid)
			|| gut.model.tomb_nodes.contains_key(&desc.n1)
			|| gut.model.tomb_nodes.contains_key(&desc.n2);
		let was_known = gut.model.has_chan(desc.scid);
		let want = gut.model.chan_ann(&desc, signed, lookup, self.now);
		if remembered_removed && (desc.sigs_ok || !signed) && desc.chain_ok && !was_known {
			self.out.bump("probe:announcement_refused_by_removal_memory");
		}
		if was_known {
			self.out.bump(if want.accepted { "probe:known_channel_reannounced_and_replaced" } else { "fault:ca_for_known_channel" });
		}
		let lk = gut.lookup.clone();
		let res = if handler && signed {
			// through the wire codec and the message handler
			let bytes = msg.encode();
			let decoded: Result<ChannelAnnouncement, _> = catch(|| LengthReadable::read_from_fixed_length_buffer(&mut &bytes[..])).unwrap_or(Err(lightning::ln::msgs::DecodeError::InvalidValue));
			match decoded {
				Ok(m) => {
					let s = if with_lookup { &gut.sync } else { &gut.sync_nolookup };
					catch(|| s.handle_channel_announcement(None, &m).is_ok())
				},
				Err(e) => {
					self.out.harness_errors.push(format!("own channel_announcement does not decode: {:?}", e));
					self.dead = true;
					return;
				},
			}
		} else if signed {
			let gr = &gut.graph;
			if with_lookup {
				catch(|| gr.update_channel_from_announcement(&msg, &Some(lk)).is_ok())
			} else {
				catch(|| gr.update_channel_from_announcement_no_lookup(&msg).is_ok())
			}
		} else {
			let gr = &gut.graph;
			if with_lookup {
				catch(|| gr.update_channel_from_unsigned_announcement(&msg.contents, &Some(lk)).is_ok())
			} else {
				catch(|| gr.update_channel_from_unsigned_announcement::<Arc<SimLookup>>(&msg.contents, &None).is_ok())
			}
		};
		let (calls_after, created) = {
			let mut l = gut.lookup.inner.lock().unwrap();
			l.plan = None;
			let c: Vec<(u64, UtxoFuture)> = l.created.drain(..).collect();
			(l.calls, c)
		};
		let got = match res {
			Ok(b) => b,
			Err(p) => {
				self.panic_violation("channel_announcement handling", p);
				return;
			},
		};
		let consulted = calls_after > calls_before;
		let started = created.len();
		for (scid, f) in created {
			match want.started {
				Some(id) => gut.futures.push((id, scid, f)),
				None => gut.futures.push((u64::MAX, scid, f)),
			}
		}
		if got {
			self.accepted_ca += 1;
		} else {
			self.rejected += 1;
		}
		if want.started.is_some() {
			self.out.bump("fault:utxo_lookup_async_started");
		}
		let detail = format!("channel_announcement {:?} signed={} handler={} utxo={:?}", spec, signed, handler, utxo);
		self.note_result(g, "channel_announcement", got, want.accepted, &detail);
		if self.dead {
			return;
		}
		if consulted != want.consulted || (started > 0) != want.started.is_some() {
			self.violate(
				O_RESULT,
				format!(
					"graph {}: chain source consulted={} (model {}), async lookups started={} (model {}) for {}",
					g,
					consulted,
					want.consulted,
					started,
					want.started.is_some() as u8,
					detail
				),
			);
		}
	}

	fn do_chan_upd(&mut self, g: usize, spec: &CuSpec, entry: CuEntry) {
		let (msg, desc) = self.uni.build_cu(spec);
		let signed = entry != CuEntry::Unsigned;
		self.order_track(g, fnv(&msg.encode()) ^ (signed as u64) ^ 0x2222);
		{
			let gut = &mut self.gs[g];
			if !gut.ca_scids.contains(&desc.scid) || entry == CuEntry::VerifyOnly {
				gut.feed_ok = false;
			}
			let src_ok = match self.uni.chan_by_scid(desc.scid) {
				Some(c) => {
					let (a, b) = (self.uni.node_id[self.uni.chans[c].a], self.uni.node_id[self.uni.chans[c].b]);
					let (n1, n2) = if a < b { (a, b) } else { (b, a) };
					let src = if desc.dir == 0 { n1 } else { n2 };
					!desc.tampered && desc.signer == src && desc.hmax <= self.uni.chans[c].capacity_sats * 1000
				},
				None => false,
			};
			if !src_ok || !desc.chain_ok {
				gut.feed_ok = false;
			}
			let mid = fnv(&msg.encode());
			let key = (1u8, desc.scid, [desc.dir; 33], desc.ts);
			match gut.ts_keys.get(&key) {
				Some(prev) if *prev != mid => gut.feed_ok = false,
				_ => {
					gut.ts_keys.insert(key, mid);
				},
			}
			register_cu(&mut gut.cu_reg, &desc, !signed);
		}
		if desc.tampered {
			self.out.bump("fault:cu_tampered_signature");
		}
		if !desc.chain_ok {
			self.out.bump("fault:cu_wrong_chain");
		}
		let gut = &mut self.gs[g];
		let known = gut.model.chan(desc.scid).cloned();
		match &known {
			Some(c) => {
				let src = if desc.dir == 0 { c.n1 } else { c.n2 };
				if desc.signer != src && signed {
					self.out.bump("fault:cu_signed_by_other_key");
				}
				if let Some(cap) = c.cap {
					if desc.hmax == cap * 1000 {
						self.out.bump("probe:htlc_max_at_capacity");
					} else if desc.hmax > cap * 1000 {
						self.out.bump("fault:cu_htlc_max_above_capacity");
					}
				}
				if let Some(cur) = &c.dirs[desc.dir as usize] {
					if cur.ts == desc.ts {
						self.out.bump("fault:cu_equal_timestamp");
					} else if cur.ts > desc.ts {
						self.out.bump("fault:cu_older_timestamp");
					}
				}
			},
			None => {
				if gut.model.pending_for_scid(desc.scid) {
					self.out.bump("probe:update_held_during_async_lookup");
				} else {
					self.out.bump("fault:cu_unknown_channel");
				}
			},
		}
		let want = gut.model.chan_upd(&desc, signed, entry == CuEntry::VerifyOnly);
		let gr = &gut.graph;
		let res = match entry {
			CuEntry::Handle => {
				let bytes = msg.encode();
				let decoded: Result<ChannelUpdate, _> = catch(|| LengthReadable::read_from_fixed_length_buffer(&mut &bytes[..])).unwrap_or(Err(lightning::ln::msgs::DecodeError::InvalidValue));
				match decoded {
					Ok(m) => {
						let s = &gut.sync;
						catch(|| s.handle_channel_update(None, &m).is_ok())
					},
					Err(e) => {
						self.out.harness_errors.push(format!("own channel_update does not decode: {:?}", e));
						self.dead = true;
						return;
					},
				}
			},
			CuEntry::Direct => catch(|| gr.update_channel(&msg).is_ok()),
			CuEntry::Unsigned => catch(|| gr.update_channel_unsigned(&msg.contents).is_ok()),
			CuEntry::VerifyOnly => catch(|| gr.verify_channel_update(&msg).is_ok()),
		};
		let got = match res {
			Ok(b) => b,
			Err(p) => {
				self.panic_violation("channel_update handling", p);
				return;
			},
		};
		if got && entry != CuEntry::VerifyOnly {
			self.accepted_cu += 1;
		} else if !got {
			self.rejected += 1;
		}
		let detail = format!("channel_update {:?} entry={:?}", spec, entry);
		self.note_result(g, "channel_update", got, want, &detail);
	}

	fn do_node_ann(&mut self, g: usize, spec: &NaSpec, entry: NaEntry) {
		let (msg, desc) = self.uni.build_na(spec);
		let signed = entry != NaEntry::Unsigned;
		self.order_track(g, fnv(&msg.encode()) ^ (signed as u64) ^ 0x3333);
		{
			let gut = &mut self.gs[g];
			if !gut.ca_nodes.contains(&desc.node) || desc.tampered || desc.signer != desc.node {
				gut.feed_ok = false;
			}
			let mid = fnv(&msg.encode());
			let key = (2u8, 0u64, desc.node, desc.ts);
			match gut.ts_keys.get(&key) {
				Some(prev) if *prev != mid => gut.feed_ok = false,
				_ => {
					gut.ts_keys.insert(key, mid);
				},
			}
			match gut.na_reg.get_mut(&desc.alias) {
				Some(rec) => {
					if rec.desc != desc {
						self.out.harness_errors.push(format!("two different node_announcements share uid {}", spec.uid));
					}
					rec.trusted |= !signed;
				},
				None => {
					gut.na_reg.insert(desc.alias, NaRec { desc: desc.clone(), trusted: !signed });
				},
			}
		}
		if signed && (desc.tampered || desc.signer != desc.node) {
			self.out.bump("fault:na_bad_signature");
		}
		let gut = &mut self.gs[g];
		match gut.model.node(&desc.node) {
			Some(n) => {
				if let Some(a) = &n.ann {
					if a.ts >= desc.ts {
						self.out.bump("fault:na_stale_or_equal_timestamp");
					}
				}
			},
			None => {
				self.out.bump("fault:na_for_node_without_channel");
			},
		}
		let held_before = gut.model.stat_held;
		let want = gut.model.node_ann(&desc, signed);
		if gut.model.stat_held > held_before {
			self.out.bump("probe:node_announcement_held_during_async_lookup");
		}
		let gr = &gut.graph;
		let res = match entry {
			NaEntry::Handle => {
				let bytes = msg.encode();
				let decoded: Result<NodeAnnouncement, _> = catch(|| LengthReadable::read_from_fixed_length_buffer(&mut &bytes[..])).unwrap_or(Err(lightning::ln::msgs::DecodeError::InvalidValue));
				match decoded {
					Ok(m) => {
						let s = &gut.sync;
						catch(|| s.handle_node_announcement(None, &m).is_ok())
					},
					Err(e) => {
						self.out.harness_errors.push(format!("own node_announcement does not decode: {:?}", e));
						self.dead = true;
						return;
					},
				}
			},
			NaEntry::Direct => catch(|| gr.update_node_from_announcement(&msg).is_ok()),
			NaEntry::Unsigned => catch(|| gr.update_node_from_unsigned_announcement(&msg.contents).is_ok()),
		};
		let got = match res {
			Ok(b) => b,
			Err(p) => {
				self.panic_violation("node_announcement handling", p);
				return;
			},
		};
		if got {
			self.accepted_na += 1;
		} else {
			self.rejected += 1;
		}
		let detail = format!("node_announcement {:?} entry={:?}", spec, entry);
		self.note_result(g, "node_announcement", got, want, &detail);
	}

	fn do_resolve(&mut self, g: usize, idx: usize, answer: UtxoAnswer) {
		if answer != UtxoAnswer::Real {
			self.order_ok = false;
		}
		let (id, scid, fut) = self.gs[g].futures.remove(idx);
		let result = self.uni.lookup_result(answer, scid);
		match answer {
			UtxoAnswer::Real => self.out.bump("fault:utxo_async_resolved_real"),
			UtxoAnswer::WrongScript => self.out.bump("fault:utxo_async_resolved_wrong_script"),
			_ => self.out.bump("fault:utxo_async_resolved_error"),
		}
		if idx > 0 {
			self.out.bump("probe:utxo_resolved_out_of_order");
		}
		if let Err(p) = catch(|| fut.resolve(result)) {
			self.panic_violation("UtxoFuture::resolve", p);
			return;
		}
		drop(fut);
		if id != u64::MAX && !self.gs[g].model.resolve(id, answer) {
			self.out.harness_errors.push("model lost track of an outstanding lookup".into());
		}
	}

	fn do_process(&mut self, g: usize) {
		let now = self.now;
		let uni = &self.uni;
		let gut = &mut self.gs[g];
		let waiting = gut.model.completed_waiting();
		let (acc, rej) = gut.model.process_completed(now, &|ans, d| uni.outcome(ans, d));
		let s = &gut.sync;
		let res = catch(|| s.get_and_clear_pending_msg_events().len());
		match res {
			Ok(n) => {
				self.hist = fnv_extend(self.hist, &(n as u64).to_le_bytes());
			},
			Err(p) => {
				self.panic_violation("get_and_clear_pending_msg_events", p);
				return;
			},
		}
		if waiting > 0 {
			self.out.add("probe:async_lookups_processed", waiting as u64);
			self.out.add("probe:async_announcement_accepted", acc);
			self.out.add("probe:async_announcement_rejected", rej);
		}
		self.accepted_ca += acc;
	}

	fn do_prune(&mut self, g: usize, with_time: bool) {
		self.order_ok = false;
		let now = self.now;
		let gut = &mut self.gs[g];
		let eff = gut.model.prune(now);
		let gr = &gut.graph;
		let res = if with_time {
			catch(|| gr.remove_stale_channels_and_tracking_with_time(now))
		} else {
			catch(|| gr.remove_stale_channels_and_tracking())
		};
		if let Err(p) = res {
			self.panic_violation("remove_stale_channels_and_tracking", p);
			return;
		}
		self.out.add("fault:prune_direction_dropped", eff.dirs_dropped);
		self.out.add("fault:prune_channel_removed", eff.chans_removed);
		self.out.add("fault:prune_node_removed", eff.nodes_removed);
		self.out.add("probe:tombstone_forgotten", eff.tombs_forgotten);
	}

	fn do_chan_fail(&mut self, g: usize, scid: ScidRef, permanent: bool, via_update: bool) {
		self.order_ok = false;
		let scid = self.uni.scid_of(scid).expect("enabled");
		let now = self.now;
		let gut = &mut self.gs[g];
		let removed = if permanent || !via_update { gut.model.chan_failed(scid, now) } else { false };
		let gr = &gut.graph;
		let res = if via_update {
			catch(|| gr.handle_network_update(&NetworkUpdate::ChannelFailure { short_channel_id: scid, is_permanent: permanent }))
		} else {
			catch(|| gr.channel_failed_permanent(scid))
		};
		if let Err(p) = res {
			self.panic_violation("channel failure handling", p);
			return;
		}
		if removed {
			self.out.bump("fault:channel_failed_permanent_removed");
		}
	}

	fn do_node_fail(&mut self, g: usize, node: usize, permanent: bool, via_update: bool) {
		self.order_ok = false;
		let pk = self.uni.node_id[node];
		let pubkey = self.uni.node_pk[node];
		let now = self.now;
		let gut = &mut self.gs[g];
		let removed = if permanent || !via_update { gut.model.node_failed(&pk, now) } else { false };
		let gr = &gut.graph;
		let res = if via_update {
			catch(|| gr.handle_network_update(&NetworkUpdate::NodeFailure { node_id: pubkey, is_permanent: permanent }))
		} else {
			catch(|| gr.node_failed_permanent(&pubkey))
		};
		if let Err(p) = res {
			self.panic_violation("node failure handling", p);
			return;
		}
		if removed {
			self.out.bump("fault:node_failed_permanent_removed");
		}
	}

	fn do_roundtrip(&mut self, g: usize, adopt: bool) {
		self.out.bump("oracle:C17-5_roundtrip");
		let logger = self.logger.clone();
		let gr = self.gs[g].graph.clone();
		let bytes = match catch(|| gr.encode()) {
			Ok(b) => b,
			Err(p) => {
				self.panic_violation("NetworkGraph::write", p);
				return;
			},
		};
		self.out.add("bytes_serialized", bytes.len() as u64);
		let read = catch(|| {
			let mut rd: &[u8] = &bytes[..];
			let r = <Graph as ReadableArgs<Arc<NullLogger>>>::read(&mut rd, logger);
			(r, rd.len())
		});
		let (g2, rest) = match read {
			Ok((Ok(g2), rest)) => (g2, rest),
			Ok((Err(e), _)) => {
				self.violate(O_ROUNDTRIP, format!("graph {}: own serialisation does not read back: {:?}", g, e));
				return;
			},
			Err(p) => {
				self.panic_violation("NetworkGraph::read", p);
				return;
			},
		};
		if rest != 0 {
			self.violate(O_ROUNDTRIP, format!("graph {}: {} bytes left unread", g, rest));
			return;
		}
		let eq = catch(|| *gr == g2);
		match eq {
			Ok(true) => {},
			Ok(false) => {
				let (v1, _) = ldk_view(&gr);
				let (v2, _) = ldk_view(&g2);
				let d = v1.first_diff(&v2, "original", "read-back").unwrap_or_else(|| "non-view field (stored message / received time)".into());
				self.violate(O_ROUNDTRIP, format!("graph {}: read(write(g)) != g: {}", g, d));
				return;
			},
			Err(p) => {
				self.panic_violation("NetworkGraph::eq", p);
				return;
			},
		}
		let (v1, _) = ldk_view(&gr);
		let (v2, p2) = ldk_view(&g2);
		if let Some(d) = v1.first_diff(&v2, "original", "read-back") {
			self.violate(O_ROUNDTRIP, format!("graph {}: public view changed by round trip: {}", g, d));
			return;
		}
		if let Some(p) = p2 {
			self.violate(O_ROUNDTRIP, format!("graph {}: read-back graph damaged: {}", g, p));
			return;
		}
		if gr.get_last_rapid_gossip_sync_timestamp() != g2.get_last_rapid_gossip_sync_timestamp() {
			self.violate(O_ROUNDTRIP, format!("graph {}: rapid-gossip-sync timestamp changed by round trip", g));
			return;
		}
		// second generation: the read-back graph must serialise to something that reads back equal too
		let bytes2 = match catch(|| g2.encode()) {
			Ok(b) => b,
			Err(p) => {
				self.panic_violation("NetworkGraph::write (read-back)", p);
				return;
			},
		};
		if bytes2 == bytes {
			self.out.bump("probe:roundtrip_bytes_identical");
		} else {
			self.out.bump("probe:roundtrip_bytes_reordered");
			if bytes2.len() != bytes.len() {
				self.violate(O_ROUNDTRIP, format!("graph {}: re-serialisation changed length {} -> {}", g, bytes.len(), bytes2.len()));
				return;
			}
		}
		if adopt {
			self.out.bump("fault:graph_replaced_by_deserialised_copy");
			let gut = &mut self.gs[g];
			let graph = Arc::new(g2);
			gut.sync = P2PGossipSync::new(graph.clone(), Some(gut.lookup.clone()), self.logger.clone());
			gut.sync_nolookup = P2PGossipSync::new(graph.clone(), None, self.logger.clone());
			gut.graph = graph;
			gut.model.adopt_deserialised();
			self.order_ok = false;
		}
	}

	fn rgs_desc(&self, snap: &RgsSpec) -> RgsD {
		let mut anns: Vec<RgsAnnD> = snap
			.anns
			.iter()
			.map(|a| {
				let (x, y) = (self.uni.node_id[a.a], self.uni.node_id[a.b]);
				let lesser_first = x < y;
				let (n1, n2) = if lesser_first == a.sorted { (x, y) } else { (y, x) };
				RgsAnnD {
					scid: self.uni.scid_of(a.scid).expect("enabled"),
					n1,
					n2,
					funding: if snap.version == 2 { a.funding } else { None },
				}
			})
			.collect();
		anns.sort_by_key(|a| a.scid);
		anns.dedup_by_key(|a| a.scid);
		let mut upds: Vec<RgsUpdD> = snap
			.upds
			.iter()
			.map(|u| RgsUpdD {
				scid: self.uni.scid_of(u.scid).expect("enabled"),
				dir: u.dir,
				enabled: !u.disabled,
				incremental: u.incremental,
				cltv: u.cltv,
				hmin: u.hmin,
				base: u.base,
				prop: u.prop,
				hmax: u.hmax,
			})
			.collect();
		upds.sort_by_key(|u| (u.scid, u.dir));
		upds.dedup_by_key(|u| (u.scid, u.dir));
		RgsD {
			chain_ok: snap.chain_ok,
			latest_seen: snap.latest_seen,
			time: if snap.with_time { Some(self.now) } else { None },
			anns,
			upds,
			defaults: snap.defaults,
		}
	}

	fn do_rgs(&mut self, g: usize, snap: &RgsSpec) {
		self.order_ok = false;
		self.out.bump("oracle:C17-6_rgs_result");
		let d = self.rgs_desc(snap);
		let bytes = encode_rgs(snap.version, &d);
		self.out.add("bytes_rgs", bytes.len() as u64);
		let gut = &mut self.gs[g];
		let want = gut.model.rgs(&d);
		// everything a snapshot carries comes from the trusted source
		for a in d.anns.iter() {
			let e = gut.ca_ok.entry((a.scid, a.n1, a.n2)).or_default();
			if let Some(f) = a.funding {
				e.trusted_caps.insert(f);
			}
		}
		for cu in want.attempted.iter() {
			register_cu(&mut gut.cu_reg, cu, true);
		}
		let rgs = lightning_rapid_gossip_sync::RapidGossipSync::new(gut.graph.clone(), self.logger.clone());
		let time = d.time;
		let res = catch(|| rgs.update_network_graph_no_std(&bytes, time).map_err(|e| format!("{:?}", e)));
		let got = match res {
			Ok(r) => r,
			Err(p) => {
				self.panic_violation("RapidGossipSync::update_network_graph_no_std", p);
				return;
			},
		};
		self.hist = fnv_extend(self.hist, &[got.is_ok() as u8]);
		if want.ok {
			self.out.bump("probe:rgs_snapshot_applied");
			self.out.add("probe:rgs_channels_added", want.added.len() as u64);
			self.out.add("probe:rgs_updates_applied", want.applied);
			self.out.add("probe:rgs_incremental_skipped_unknown_direction", want.skipped_incremental);
			self.out.add("fault:prune_channel_removed", want.prune.chans_removed);
			self.out.add("fault:prune_direction_dropped", want.prune.dirs_dropped);
		} else {
			self.out.bump("fault:rgs_snapshot_rejected");
		}
		match (&got, want.ok) {
			(Ok(t), true) if *t == snap.latest_seen => {},
			(Err(_), false) => {},
			_ => {
				self.violate(
					O_RGS,
					format!("graph {}: snapshot returned {:?} but the model {} it ({:?})", g, got, if want.ok { "accepts" } else { "rejects" }, snap),
				);
				return;
			},
		}
		let have = self.gs[g].graph.get_last_rapid_gossip_sync_timestamp();
		if have != self.gs[g].model.last_rgs {
			self.violate(O_RGS, format!("graph {}: last rapid-gossip-sync timestamp is {:?}, model {:?}", g, have, self.gs[g].model.last_rgs));
		}
	}

	fn do_finish(&mut self) {
		self.finished = true;
		if self.cfg.mode != Mode::Order || self.gs.len() != 2 {
			return;
		}
		let pre = self.order_ok
			&& self.gs.iter().all(|g| g.feed_ok && g.futures.is_empty() && g.model.pending_outstanding() == 0)
			&& self.gs[0].delivered == self.gs[1].delivered
			&& !self.gs[0].delivered.is_empty();
		if !pre {
			self.out.bump("skipped:order_precondition_void");
			return;
		}
		self.out.bump("oracle:C17-4_order_independence");
		let (a, b) = (self.gs[0].graph.clone(), self.gs[1].graph.clone());
		let cmp = catch(|| {
			let (ra, rb) = (a.read_only(), b.read_only());
			let mut ka: Vec<u64> = ra.channels().unordered_keys().cloned().collect();
			let mut kb: Vec<u64> = rb.channels().unordered_keys().cloned().collect();
			ka.sort();
			kb.sort();
			if ka != kb {
				return Some(format!("channel sets differ: {:?} vs {:?}", ka, kb));
			}
			for k in ka.iter() {
				if ra.channel(*k) != rb.channel(*k) {
					return Some(format!("channel {} differs: {:?} vs {:?}", k, ra.channel(*k), rb.channel(*k)));
				}
			}
			let mut na: Vec<NodeId> = ra.nodes().unordered_keys().cloned().collect();
			let mut nb: Vec<NodeId> = rb.nodes().unordered_keys().cloned().collect();
			na.sort();
			nb.sort();
			if na != nb {
				return Some(format!("node sets differ: {:?} vs {:?}", na, nb));
			}
			for n in na.iter() {
				let (x, y) = (ra.node(n).unwrap(), rb.node(n).unwrap());
				let (mut cx, mut cy) = (x.channels.clone(), y.channels.clone());
				cx.sort();
				cy.sort();
				if cx != cy || x.announcement_info != y.announcement_info {
					return Some(format!("node {} differs: {:?} vs {:?}", n, x, y));
				}
			}
			None
		});
		match cmp {
			Ok(None) => {},
			Ok(Some(d)) => {
				self.violate(
					O_ORDER,
					format!("two graphs fed the same valid messages in two legal orders differ: {}", d),
				);
				return;
			},
			Err(p) => {
				self.panic_violation("graph comparison", p);
				return;
			},
		}
		// Observations only (the statement promises "the same graph", not the same in-memory
		// list order or byte order): strict `==` and byte equality.
		match catch(|| (*a == *b, a.encode() == b.encode())) {
			Ok((strict, bytes)) => {
				self.out.bump(if strict { "probe:order_strict_eq_holds" } else { "probe:order_strict_eq_differs_in_list_order" });
				self.out.bump(if bytes { "probe:order_bytes_equal" } else { "probe:order_bytes_differ_in_iteration_order" });
				// development only: make the observation a failure so that it can be minimised
				if !strict && std::env::var("GOSSIPSIM_STRICT_ORDER").is_ok() {
					self.violate("C17-4x strict PartialEq (observation)", "`NetworkGraph ==` is false for two graphs with identical channels, updates and node data (NodeInfo::channels lists are in arrival order)".into());
				}
			},
			Err(p) => self.panic_violation("graph comparison", p),
		}
	}

	// ---- oracles evaluated after every step -------------------------------------------------

	fn check_graph(&mut self, g: usize) {
		let gr = self.gs[g].graph.clone();
		let (view, problem) = match catch(|| ldk_view(&gr)) {
			Ok(v) => v,
			Err(p) => {
				self.panic_violation("read_only view", p);
				return;
			},
		};
		self.hist = fnv_extend(self.hist, format!("{:?}", view).as_bytes());
		if let Err(e) = self.gs[g].model.self_check() {
			self.out.harness_errors.push(e);
			self.dead = true;
			return;
		}
		// C17-1
		self.out.bump("oracle:C17-1_view");
		if let Some(p) = problem {
			self.violate(O_VIEW, format!("graph {}: {}", g, p));
			return;
		}
		let mv = self.gs[g].model.view();
		if let Some(d) = view.first_diff(&mv, "graph", "model") {
			self.violate(O_VIEW, format!("graph {}: {}", g, d));
			if !self.skip_model_oracles {
				return;
			}
		}
		let lk = self.gs[g].lookup.inner.lock().unwrap().unplanned_calls;
		if lk > 0 {
			self.violate(O_RESULT, format!("graph {}: chain source consulted outside of a channel_announcement", g));
			return;
		}
		// C17-2: everything shown traces back to an authentic message
		self.out.bump("oracle:C17-2_authentic");
		if let Some(m) = self.check_authentic(g, &view) {
			self.violate(O_FORGED, format!("graph {}: {}", g, m));
			return;
		}
		// C17-3: no field moved back (or sideways) in time
		self.out.bump("oracle:C17-3_monotone");
		if let Some(m) = self.check_monotone(g, &view) {
			self.violate(O_REGRESS, format!("graph {}: {}", g, m));
			return;
		}
		self.gs[g].last_view = view;
	}

	fn check_authentic(&self, g: usize, view: &View) -> Option<String> {
		let gut = &self.gs[g];
		for (scid, c) in view.chans.iter() {
			let rec = match gut.ca_ok.get(&(*scid, c.n1, c.n2)) {
				Some(r) => r,
				None => {
					return Some(format!(
						"channel {} between {}/{} is in the graph but no authentic announcement for it was ever delivered",
						scid,
						simcore::hex(&c.n1[..6]),
						simcore::hex(&c.n2[..6])
					))
				},
			};
			if let Some(cap) = c.cap {
				let real = self.uni.chan_by_scid(*scid).map(|i| self.uni.chans[i].capacity_sats);
				if !(rec.trusted_caps.contains(&cap) || (Some(cap) == real && rec.utxo_matchable)) {
					return Some(format!(
						"channel {} shows capacity {} but the chain holds {:?} (funding keys match: {})",
						scid, cap, real, rec.utxo_matchable
					));
				}
			}
			for (i, d) in c.dirs.iter().enumerate() {
				let d = match d {
					Some(d) => d,
					None => continue,
				};
				let src = if i == 0 { c.n1 } else { c.n2 };
				let same = |r: &CuDesc| {
					r.scid == *scid
						&& r.dir as usize == i && r.ts == d.ts
						&& r.enabled == d.enabled
						&& r.cltv == d.cltv && r.hmin == d.hmin
						&& r.hmax == d.hmax && r.prop == d.prop
						&& r.chain_ok
				};
				let recs: &[CuRec] = gut.cu_reg.get(&d.base).map(|v| &v[..]).unwrap_or(&[]);
				if !recs.iter().any(|r| same(&r.desc)) {
					return Some(format!(
						"channel {} dir {} shows {:?}, which is not the content of any delivered message (uid {}: {:?})",
						scid,
						i,
						d,
						d.base,
						recs.iter().map(|r| &r.desc).collect::<Vec<_>>()
					));
				}
				if !recs.iter().any(|r| same(&r.desc) && (r.trusted || (!r.desc.tampered && r.desc.signer == src))) {
					let r = &recs.iter().find(|r| same(&r.desc)).unwrap().desc;
					return Some(format!(
						"channel {} dir {} reflects update uid {} whose signature does not verify against {} (signer {}, tampered {})",
						scid,
						i,
						d.base,
						simcore::hex(&src[..6]),
						simcore::hex(&r.signer[..6]),
						r.tampered
					));
				}
				if let Some(cap) = c.cap {
					if d.hmax > cap * 1000 {
						return Some(format!("channel {} dir {} shows htlc_maximum {} above capacity {} sat", scid, i, d.hmax, cap));
					}
				}
			}
		}
		for (pk, n) in view.nodes.iter() {
			if n.chans.is_empty() {
				return Some(format!("node {} is in the graph without channels", simcore::hex(&pk[..6])));
			}
			let a = match &n.ann {
				Some(a) => a,
				None => continue,
			};
			let rec = match gut.na_reg.get(&a.alias) {
				Some(r) => r,
				None => return Some(format!("node {} shows an announcement that was never delivered", simcore::hex(&pk[..6]))),
			};
			let r = &rec.desc;
			let same = r.node == *pk && r.ts == a.ts && r.rgb == a.rgb && r.features == a.features && r.addrs == a.addrs;
			if !same {
				return Some(format!("node {} shows {:?}, not the content of the message with that alias {:?}", simcore::hex(&pk[..6]), a, r));
			}
			if !(rec.trusted || (!r.tampered && r.signer == *pk)) {
				return Some(format!("node {} reflects an announcement whose signature does not verify", simcore::hex(&pk[..6])));
			}
		}
		None
	}

	fn check_monotone(&self, g: usize, view: &View) -> Option<String> {
		let gut = &self.gs[g];
		for (scid, c) in view.chans.iter() {
			if gut.model.reset_chans.contains(scid) {
				continue;
			}
			if let Some(old) = gut.last_view.chans.get(scid) {
				if old.n1 != c.n1 || old.n2 != c.n2 {
					continue;
				}
				for i in 0..2 {
					if let (Some(x), Some(y)) = (&old.dirs[i], &c.dirs[i]) {
						if x != y && y.ts <= x.ts {
							return Some(format!("channel {} dir {} went from {:?} to {:?}", scid, i, x, y));
						}
					}
				}
			}
		}
		for (pk, n) in view.nodes.iter() {
			if gut.model.reset_nodes.contains(pk) {
				continue;
			}
			if let Some(old) = gut.last_view.nodes.get(pk) {
				if let (Some(x), Some(y)) = (&old.ann, &n.ann) {
					if x != y && y.ts <= x.ts {
						return Some(format!("node {} announcement went from {:?} to {:?}", simcore::hex(&pk[..6]), x, y));
					}
				}
				if old.ann.is_some() && n.ann.is_none() {
					return Some(format!("node {} lost its announcement while staying in the graph", simcore::hex(&pk[..6])));
				}
			}
		}
		None
	}

	fn record_state(&mut self) {
		let mut h = fnv(b"state");
		for gut in self.gs.iter() {
			let v = &gut.last_view;
			for (i, c) in self.uni.chans.iter().enumerate() {
				if let Some(ch) = v.chans.get(&c.scid) {
					let bits = 1u8
						| (ch.cap.is_some() as u8) << 1
						| (ch.dirs[0].is_some() as u8) << 2
						| (ch.dirs[1].is_some() as u8) << 3
						| (ch.dirs[0].as_ref().map(|d| d.enabled).unwrap_or(false) as u8) << 4
						| (ch.dirs[1].as_ref().map(|d| d.enabled).unwrap_or(false) as u8) << 5;
					h = fnv_extend(h, &[i as u8, bits]);
				}
			}
			let extra = v.chans.len().saturating_sub(v.chans.keys().filter(|s| self.uni.chan_by_scid(**s).is_some()).count());
			let anns = v.nodes.values().filter(|n| n.ann.is_some()).count();
			h = fnv_extend(
				h,
				&[
					0xff,
					extra.min(3) as u8,
					v.nodes.len() as u8,
					anns as u8,
					(gut.model.tomb_chans.len().min(3)) as u8,
					(gut.model.tomb_nodes.len().min(2)) as u8,
					(gut.model.pending_outstanding().min(3)) as u8,
					(gut.model.completed_waiting().min(2)) as u8,
				],
			);
		}
		if self.state_fps.len() < 4096 {
			self.state_fps.insert(h);
		}
	}

	pub fn finish(mut self) -> RunOutcome {
		self.out.steps = self.step;
		self.out.sim_seconds = self.now - self.cfg.start_time;
		self.out.history_fp = self.hist;
		self.out.interleaving_fp = self.inter;
		self.out.state_fps = self.state_fps.iter().cloned().collect();
		for gut in self.gs.iter() {
			self.out.add("probe:held_message_displaced_by_newer", gut.model.stat_held_displaced);
			self.out.add("probe:channel_replaced_by_chain_validated_announcement", gut.model.stat_replaced);
		}
		let faults: u64 = self.out.counters.iter().filter(|(k, _)| k.starts_with("fault:")).map(|(_, v)| *v).sum();
		self.out.nontrivial = match self.cfg.mode {
			Mode::Chaos => self.accepted_ca >= 1 && self.accepted_cu >= 1 && (self.rejected >= 1 || faults >= 1),
			Mode::Order => {
				self.out.counters.get("oracle:C17-4_order_independence").copied().unwrap_or(0) > 0
					&& self.accepted_ca >= 4 && self.accepted_cu >= 4
					&& self.gs.iter().any(|g| g.n_dups > 0)
			},
		};
		self.out.sample = Some(json!({
			"profile": self.cfg.profile,
			"mode": format!("{:?}", self.cfg.mode),
			"nodes": self.cfg.n_nodes,
			"channels": self.cfg.chans.len(),
			"accepted": {"channel_announcements": self.accepted_ca, "channel_updates": self.accepted_cu, "node_announcements": self.accepted_na},
			"rejected": self.rejected,
			"first_actions": self.sample,
		}));
		if !self.out.violations.is_empty() || !self.out.harness_errors.is_empty() {
			self.out.replay = Some(json!({
				"sim": "gossipsim",
				"profile": self.cfg.profile,
				"config": serde_json::to_value(&self.cfg).unwrap(),
				"trace": serde_json::to_value(&self.trace).unwrap(),
			}));
		}
		self.out
	}
}
