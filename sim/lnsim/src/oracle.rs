//! Oracles evaluated while a run proceeds and at settle points.

use crate::chain::Admit;
use crate::infra::{CommitSummary, SignerCall};
use crate::ledger::{UpdKind, INITIAL_COMMITMENT_NUMBER};
use crate::world::*;
use bitcoin::hashes::sha256::Hash as Sha256;
use bitcoin::hashes::Hash;
use bitcoin::secp256k1::{PublicKey, Secp256k1, SecretKey};
use bitcoin::{Transaction, Txid};
use lightning::events::Event;
use lightning::ln::channelmanager::RecentPaymentDetails;
use lightning::sign::ChannelSigner;
use lightning::util::ser::ReadableArgs;
use lightning::types::payment::{PaymentHash, PaymentPreimage};
use std::collections::{BTreeMap, BTreeSet};

/// Independent revocation automaton (C05), one per (node, channel keys).
#[derive(Clone, Debug, Default)]
pub struct RevAuto {
	pub validated: BTreeMap<u64, Txid>,
	pub min_released: Option<u64>,
	/// simulator step at which each secret was first released
	pub released_at: BTreeMap<u64, u64>,
	pub cp_last_signed: Option<u64>,
	pub cp_revoked: BTreeSet<u64>,
	pub funding: Option<bitcoin::OutPoint>,
	pub cp_sigs: Vec<(bitcoin::secp256k1::ecdsa::Signature, CommitSummary)>,
}

#[derive(Default)]
pub struct OracleState {
	pub rev: BTreeMap<(usize, [u8; 32]), RevAuto>,
	/// (node, chan key) -> last update id seen at the Watch seam in this incarnation
	pub watch_last: BTreeMap<(usize, [u8; 32], u32), u64>,
	/// (node, chan) -> ((durable update id, blob len), numbers)
	pub durable_cache: BTreeMap<(usize, usize), ((u64, usize), (u64, u64, u64))>,
	/// (payment hash, receiving node) -> (amount, cltv) of every update_add_htlc delivered
	pub adds_delivered: BTreeMap<([u8; 32], usize), Vec<(u64, u32)>>,
	/// (payment hash, sending node) -> (amount, cltv) of every update_add_htlc emitted
	pub adds_emitted: BTreeMap<([u8; 32], usize), Vec<(u64, u32)>>,
	/// channel index -> (sending node, cltv) of every update_add_htlc emitted on that channel (a
	/// forwarder may use any channel to the next peer, not the one the route names)
	pub adds_by_chan: BTreeMap<usize, Vec<(usize, u32)>>,
	/// C07-5: (node, sorted inputs) -> (absolute fee, feerate per kw, txid) of the last broadcast with
	/// exactly these inputs; cleared for a node when it restarts and for everyone on a reorg
	pub last_fee: BTreeMap<(usize, Vec<bitcoin::OutPoint>), (u64, u64, bitcoin::Txid)>,
	/// (node, chan, message): protocol errors about a channel the emitter no longer has, judged
	/// once the emitter's ChannelClosed event has told why
	pub suspect_errors: Vec<(usize, usize, String)>,
	/// (node, chan, message): closures that only answer the peer's closure, judged at the end
	pub suspect_closes: Vec<(usize, usize, String)>,
	/// C07-5: (node, claim id) -> feerate last requested by a BumpTransaction event
	pub last_bump_rate: BTreeMap<(usize, [u8; 32]), u32>,
	/// (node, chan) -> step at which a ChannelForceClosed{should_broadcast: true} update reached Watch
	pub fc_update_step: BTreeMap<(usize, usize), u64>,
	/// C11-3: (channel, sending node, payment hash) -> htlc ids of the update_add_htlc messages the
	/// node put on the wire (each came with a commitment_signed: the peer may hold the HTLC)
	pub adds_on_wire: BTreeMap<(usize, usize, [u8; 32]), BTreeSet<u64>>,
	/// C11-3: (channel, node that offered the HTLC, htlc id) of every update_fail(_malformed)_htlc
	/// and update_fulfill_htlc delivered to that node
	pub removes_delivered: BTreeSet<(usize, usize, u64)>,
}

impl World {
	fn ledger_for_msg(&self, from: usize, to: usize, m: &WireMsg) -> Option<usize> {
		match m {
			WireMsg::OpenChannel(_) | WireMsg::AcceptChannel(_) | WireMsg::FundingCreated(_) => {
				// setup is sequential: the channel being negotiated is the newest one of this pair
				self.ledgers.iter().rposition(|l| {
					(l.a == from && l.b == to) || (l.a == to && l.b == from)
				})
			},
			_ => m.channel_id().and_then(|id| self.chans.iter().position(|c| c.channel_id == id)),
		}
	}

	pub fn observe_emit(&mut self, from: usize, to: usize, m: &WireMsg) {
		if let WireMsg::Add(a) = m {
			let first = !self.oracle.adds_emitted.contains_key(&(a.payment_hash.0, from));
			self.onion_oracle_on_add(from, to, a.payment_hash.0, a.amount_msat, a.cltv_expiry, first);
			self.oracle.adds_emitted.entry((a.payment_hash.0, from)).or_default().push((a.amount_msat, a.cltv_expiry));
			if let Some(ci) = self.chans.iter().position(|c| c.channel_id == a.channel_id) {
				self.oracle.adds_by_chan.entry(ci).or_default().push((from, a.cltv_expiry));
				self.oracle.adds_on_wire.entry((ci, from, a.payment_hash.0)).or_default().insert(a.htlc_id);
			}
			// C08-1: a node never forwards an HTLC that is about to expire (the sender of a payment
			// may offer whatever it likes; retransmissions after a reconnect are not new decisions)
			let origin = self.pays.iter().any(|p| p.hash == a.payment_hash && p.from == from);
			if first && !origin {
				self.out.bump("oracle:C08-1 no forward of an HTLC about to expire");
				let h = self.nodes[from].synced_height;
				if a.cltv_expiry <= h + crate::deadlines::LATENCY_GRACE_PERIOD_BLOCKS {
					self.violate(
						"C08",
						"C08-1 forwarded an HTLC that expires too soon",
						format!(
							"node {} (height {}) forwards an HTLC to node {} with cltv_expiry {}",
							from, h, to, a.cltv_expiry
						),
					);
				} else if a.cltv_expiry <= h + 8 {
					self.out.bump("probe:forwarded_htlc_within_8_blocks_of_expiry");
				}
			}
		}
		let li = match self.ledger_for_msg(from, to, m) {
			Some(l) => l,
			None => return,
		};
		let side = match self.ledgers[li].side_of(from) {
			Some(s) => s,
			None => return,
		};
		match m {
			WireMsg::OpenChannel(o) => {
				let l = &mut self.ledgers[li];
				l.sides[0].dust_limit_sat = Some(o.common_fields.dust_limit_satoshis);
				l.initial_feerate = o.common_fields.commitment_feerate_sat_per_1000_weight;
			},
			WireMsg::AcceptChannel(a) => {
				let l = &mut self.ledgers[li];
				l.sides[1].dust_limit_sat = Some(a.common_fields.dust_limit_satoshis);
				if let Some(t) = a.common_fields.channel_type.as_ref() {
					l.anchors = t.supports_anchors_zero_fee_htlc_tx();
					l.zero_fee_commitments = t.supports_anchor_zero_fee_commitments();
				}
				l.have_params = true;
			},
			WireMsg::Add(u) => {
				self.oracle_forward_admission(from, u);
				let first = self.ledgers[li].sides[side].add_ids_emitted.insert(u.htlc_id);
				if self.ledgers[li].sides[side].shutdown_sent
					|| (first && self.ledgers[li].sides[side].shutdown_sent_ever && !self.chans[li].tainted)
				{
					// (a first transmission after a reconnection is no retransmission: the node had
					// sent its shutdown in the earlier connection and must not add HTLCs any more)
					self.oracle_add_after_shutdown(from, li, u.htlc_id, first);
				}
				self.ledgers[li].emit_update(
				side,
				UpdKind::Add {
					id: u.htlc_id,
					amount_msat: u.amount_msat,
					hash: u.payment_hash.0,
					cltv: u.cltv_expiry,
				},
			)
			},
			WireMsg::Fulfill(u) => {
				self.ledgers[li].emit_update(side, UpdKind::Fulfill { id: u.htlc_id });
				self.oracle_on_fulfill_emitted(from, li, u.htlc_id, &u.payment_preimage);
			},
			WireMsg::Fail(u) => self.ledgers[li].emit_update(side, UpdKind::Fail { id: u.htlc_id }),
			WireMsg::FailMalformed(u) => {
				self.ledgers[li].emit_update(side, UpdKind::Fail { id: u.htlc_id })
			},
			WireMsg::Fee(u) => {
				self.ledgers[li].emit_update(side, UpdKind::Fee { rate: u.feerate_per_kw })
			},
			WireMsg::Revoke(r) => {
				self.ledgers[li].emit_raa(side, r.per_commitment_secret);
				self.oracle_on_raa_emitted(from, li, r);
			},
			WireMsg::Commit(cs) => self.oracle_on_cs_emitted(from, li, side, cs),
			WireMsg::Shutdown(_) => {
				self.ledgers[li].sides[side].shutdown_sent = true;
				self.ledgers[li].sides[side].shutdown_sent_ever = true;
			},
			WireMsg::FundingSigned(_) | WireMsg::ChannelReady(_) => {
				self.out.bump("oracle:C09-2 funding_signed/channel_ready only once the monitor is durable");
				let key_known = self.chans[li].channel_id.0 != [0u8; 32] || matches!(m, WireMsg::FundingSigned(_));
				let has = {
					let d = self.nodes[from].disk.lock().unwrap();
					d.chans.values().filter(|c| c.durable.is_some()).count()
				};
				// during setup the channel id is learned late; count durable monitors instead
				let needed = self.ledgers.iter().take(li + 1).filter(|l| l.a == from || l.b == from).count();
				if key_known && has < needed {
					self.violate(
						"C09",
						"C09-2 funding_signed/channel_ready released before the initial monitor was durable",
						format!("node {} channel {}: {} durable monitors, {} channels opened so far", from, li, has, needed),
					);
				}
			},
			_ => {},
		}
	}

	pub fn observe_deliver(&mut self, _from: usize, to: usize, m: &WireMsg) {
		let removed = match m {
			WireMsg::Fail(f) => Some((f.channel_id, f.htlc_id)),
			WireMsg::FailMalformed(f) => Some((f.channel_id, f.htlc_id)),
			WireMsg::Fulfill(f) => Some((f.channel_id, f.htlc_id)),
			_ => None,
		};
		if let Some((cid, id)) = removed {
			if let Some(ci) = self.chans.iter().position(|c| c.channel_id == cid) {
				self.oracle.removes_delivered.insert((ci, to, id));
			}
		}
		if let WireMsg::Add(u) = m {
			self.oracle
				.adds_delivered
				.entry((u.payment_hash.0, to))
				.or_default()
				.push((u.amount_msat, u.cltv_expiry));
		}
	}

	/// C02-3: what a forwarding node offers downstream never exceeds what it received upstream
	/// less its advertised fee and CLTV delta; an HTLC that underpays either is not forwarded.
	fn oracle_forward_admission(&mut self, from: usize, add: &lightning::ln::msgs::UpdateAddHTLC) {
		let pi = match self.pays.iter().position(|p| p.hash == add.payment_hash) {
			Some(p) => p,
			None => return,
		};
		let p = self.pays[pi].clone();
		if p.from == from {
			return;
		}
		// which hop of which path is this?
		let mut matched = None;
		for path in p.paths.iter() {
			for i in 0..path.nodes.len().saturating_sub(1) {
				if path.nodes[i] == from && path.hop_amts[i + 1] == add.amount_msat {
					matched = Some((path.clone(), i));
				}
			}
		}
		let (path, i) = match matched {
			Some(x) => x,
			None => {
				if p.paths.iter().any(|x| x.nodes[..x.nodes.len() - 1].contains(&from)) {
					self.violate(
						"C02",
						"C02-3 forwarded amount differs from the onion's instruction",
						format!("node {} forwards {} msat of pay {} which no hop of its route prescribes", from, add.amount_msat, pi),
					);
				}
				return;
			},
		};
		self.out.bump("oracle:C02-3 forwarding admission arithmetic");
		if p.policy_violating && self.nodes[from].policy_hist.is_empty() && p.underpaid_hop.map(|k| k == i).unwrap_or(true) {
			self.violate(
				"C02",
				"C02-3 HTLC underpaying the advertised fee or CLTV delta was forwarded",
				format!("node {} forwarded pay {} although its route underpays the node's policy", from, pi),
			);
			return;
		}
		let ups = self.oracle.adds_delivered.get(&(add.payment_hash.0, from)).cloned().unwrap_or_default();
		// parts of one multi-part payment may carry the same amount with different expiries: the
		// forward is judged against the matching inbound HTLC with the latest expiry
		let up = ups.iter().filter(|(a, _)| *a == path.hop_amts[i]).max_by_key(|(_, c)| *c).cloned();
		let (amt_up, cltv_up) = match up {
			Some(x) => x,
			None => {
				self.violate(
					"C02",
					"C02-3 HTLC forwarded without a matching inbound HTLC",
					format!("node {} pay {}: no inbound update_add_htlc of {} msat was delivered before", from, pi, path.hop_amts[i]),
				);
				return;
			},
		};
		let c = self.nodes[from].cfg.clone();
		if !self.nodes[from].policy_hist.is_empty() {
			// the node changed its policy during the run: an HTLC may be forwarded under the current
			// policy or (for a while, and after a restart from an older ChannelManager) an earlier
			// one, but always under one policy as a whole
			let mut pols = self.nodes[from].policy_hist.clone();
			pols.push((c.fee_base_msat, c.fee_prop_millionths, c.cltv_delta));
			self.out.bump("oracle:C02-3 forward satisfies one whole policy");
			let ok = pols.iter().any(|(b, p, d)| {
				amt_up >= add.amount_msat + *b as u64 + add.amount_msat * *p as u64 / 1_000_000
					&& cltv_up >= add.cltv_expiry + *d as u32
			});
			if !ok {
				self.violate(
					"C02",
					"C02-3 forwarded HTLC satisfies none of the node's forwarding policies as a whole",
					format!(
						"node {} pay {}: in {} msat expiry {}, out {} msat expiry {}; policies (base, ppm, delta) advertised so far: {:?}",
						from, pi, amt_up, cltv_up, add.amount_msat, add.cltv_expiry, pols
					),
				);
			}
			return;
		}
		let need_fee = c.fee_base_msat as u64 + add.amount_msat * c.fee_prop_millionths as u64 / 1_000_000;
		if amt_up < add.amount_msat + need_fee {
			self.violate(
				"C02",
				"C02-3 forwarded for less than the advertised fee",
				format!("node {} pay {}: in {} msat, out {} msat, advertised fee {} msat", from, pi, amt_up, add.amount_msat, need_fee),
			);
		}
		if cltv_up < add.cltv_expiry + c.cltv_delta as u32 {
			self.violate(
				"C02",
				"C02-3 forwarded with less than the advertised CLTV delta",
				format!("node {} pay {}: in expiry {}, out expiry {}, advertised delta {}", from, pi, cltv_up, add.cltv_expiry, c.cltv_delta),
			);
		}
	}

	pub fn ledger_disconnect(&mut self, x: usize, y: usize) {
		for l in self.ledgers.iter_mut() {
			if (l.a == x && l.b == y) || (l.a == y && l.b == x) {
				l.disconnect();
			}
		}
	}

	/// BOLT-2: "A sending node MUST NOT send an update_add_htlc after a shutdown." The receiver
	/// force-closes on it, so between two honest nodes this ends a cooperative close in a
	/// unilateral one (C01-3).
	fn oracle_add_after_shutdown(&mut self, from: usize, li: usize, htlc_id: u64, first: bool) {
		self.out.bump("oracle:C01-3 no update_add_htlc after own shutdown");
		let how = if first {
			"first transmission of this HTLC, released after the shutdown had already been sent"
		} else {
			"retransmission after reconnect, re-sent behind the retransmitted shutdown"
		};
		self.violate(
			"C01",
			"C01-3 update_add_htlc sent after own shutdown",
			format!(
				"node {} channel {}: update_add_htlc id {} follows the node's own shutdown on the wire ({}); the peer force-closes",
				from, li, htlc_id, how
			),
		);
		// everything that follows on this channel is a consequence of this
		self.chans[li].tainted = true;
		self.ledgers[li].disabled = true;
	}

	fn oracle_on_cs_emitted(
		&mut self, from: usize, li: usize, side: usize, cs: &[lightning::ln::msgs::CommitmentSigned],
	) {
		self.scan_signer_log(from);
		if cs.len() != 1 {
			return;
		}
		let sig = cs[0].signature;
		// which signer call produced this signature?
		let found = self
			.oracle
			.rev
			.iter()
			.filter(|((n, _), _)| *n == from)
			.find_map(|(_, r)| r.cp_sigs.iter().rev().find(|(s, _)| *s == sig).map(|(_, c)| c.clone()));
		let commit = match found {
			Some(c) => c,
			None => {
				self.violate(
					"C05",
					"C05-3 commitment_signed without a signer call",
					format!("node {} emitted a commitment_signed whose signature no signer call produced", from),
				);
				return;
			},
		};
		self.oracle_durable_before_cs(from, li, commit.number);
		self.out.bump("oracle:C01-1 commitment vs wire ledger");
		if self.ledgers[li].disabled || !self.ledgers[li].have_params {
			return;
		}
		match self.ledgers[li].emit_cs(side, commit.number) {
			Err(e) => {
				self.violate(
					"C05",
					"C05-3 commitment numbers advance by one",
					format!("node {} channel {}: {}", from, li, e),
				);
				self.ledgers[li].disabled = true;
			},
			Ok(None) => {
				self.out.bump("probe:commitment_signed_retransmitted");
				// content must equal the original
				let k = INITIAL_COMMITMENT_NUMBER - commit.number;
				if let Some(exp) = self.ledgers[li].expected.get(&(side, k)).cloned() {
					if let Err(e) = self.ledgers[li].compare(&exp, &commit) {
						self.violate(
							"C01",
							"C01-1 retransmitted commitment differs",
							format!("node {} channel {} commitment {}: {}", from, li, commit.number, e),
						);
					}
				}
			},
			Ok(Some(exp)) => {
				if !exp.trimmed.is_empty() {
					self.out.bump("probe:dust_htlc_in_commitment");
				}
				if self.ledgers[li].zero_fee_commitments
					&& exp.trimmed.iter().map(|h| h.amount_msat / 1000).sum::<u64>() > 240
				{
					self.out.bump("probe:zero_fee_trimmed_sum_over_240");
				}
				// C02: "HTLCs too small to have a commitment-transaction output ... whose total the node
				// keeps within its configured dust-exposure limit". With a fixed-msat limit (and, as the
				// scheduler guarantees then, a constant feerate) every HTLC a node *offers* is admitted
				// only while all dust on that commitment stays within the node's limit, so the trimmed
				// HTLCs it offered can never add up to more - on the peer's commitment (which `from`
				// signs here) nor on its own (the HTLCs the broadcaster offered, against its limit).
				let peer = if self.chans[li].a == from { self.chans[li].b } else { self.chans[li].a };
				for (who, offered_by_bro) in [(from, false), (peer, true)] {
					if let Some(limit) = self.cfg.nodes[who].max_dust_exposure_msat {
						self.out.bump("oracle:C02-6 dust exposure");
						let sum: u64 = exp
							.trimmed
							.iter()
							.filter(|h| h.offered_by_broadcaster == offered_by_bro)
							.map(|h| h.amount_msat)
							.sum();
						if sum * 2 > limit {
							self.out.bump("probe:offered_dust_above_half_the_exposure_limit");
						}
						if sum > limit {
							self.violate(
								"C02",
								"C02-6 offered dust HTLCs exceed the configured dust-exposure limit",
								format!(
									"channel {} commitment {} of node {}: node {} has offered HTLCs without an output worth {} msat in total, its max_dust_htlc_exposure is FixedLimitMsat({})",
									li, commit.number, peer, who, sum, limit
								),
							);
						}
					}
				}
				if let Err(e) = self.ledgers[li].compare(&exp, &commit) {
					self.violate(
						"C01",
						"C01-1 commitment differs from what the wire implies",
						format!(
							"node {} signs commitment {} of channel {} for its peer: {}",
							from, commit.number, li, e
						),
					);
				}
			},
		}
	}

	/// Numbers (holder, counterparty, min seen secret) of the monitor the node would load for
	/// channel `li` if it crashed right now and no in-flight write had reached the disk.
	pub fn durable_numbers(&mut self, n: usize, li: usize) -> Option<(u64, u64, u64)> {
		let key = self.chans[li].channel_id.0;
		let (id, bytes) = {
			let d = self.nodes[n].disk.lock().unwrap();
			match d.chans.get(&key).and_then(|c| c.durable.clone()) {
				Some(x) => x,
				None => return None,
			}
		};
		if let Some((cid, nums)) = self.oracle.durable_cache.get(&(n, li)) {
			if *cid == (id, bytes.len()) {
				return Some(*nums);
			}
		}
		let keys = self.nodes[n].keys.clone();
		let r = simcore::runner::catch(|| {
			<(lightning::chain::BlockLocator, lightning::chain::channelmonitor::ChannelMonitor<crate::infra::SimSigner>)>::read(
				&mut &bytes[..],
				(&*keys, &*keys),
			)
		});
		match r {
			Ok(Ok((_, m))) => {
				let nums = m.verif_numbers();
				self.oracle.durable_cache.insert((n, li), ((id, bytes.len()), nums));
				Some(nums)
			},
			_ => {
				self.violate(
					"C12",
					"C12-a durable monitor blob does not read back",
					format!("node {} channel {} update id {}", n, li, id),
				);
				None
			},
		}
	}

	/// C09-2: whatever a message reveals must already be in the *durable* monitor.
	fn oracle_durable_before_cs(&mut self, from: usize, li: usize, number: u64) {
		self.out.bump("oracle:C09-2 commitment_signed only after its monitor update is durable");
		match self.durable_numbers(from, li) {
			Some((_, cur_cp, _)) => {
				if cur_cp > number {
					self.violate(
						"C09",
						"C09-2 commitment_signed released before its monitor update was durable",
						format!(
							"node {} channel {}: commitment_signed for counterparty commitment {} left the node while the durable monitor only knows counterparty commitment {}",
							from, li, number, cur_cp
						),
					);
				}
			},
			None => self.violate(
				"C09",
				"C09-2 commitment_signed released before the monitor exists on disk",
				format!("node {} channel {}", from, li),
			),
		}
	}

	fn oracle_durable_before_raa(&mut self, from: usize, li: usize, released_idx: u64) {
		self.out.bump("oracle:C09-2 revoke_and_ack only after its monitor update is durable");
		match self.durable_numbers(from, li) {
			Some((cur_holder, _, _)) => {
				if cur_holder > released_idx - 1 {
					self.violate(
						"C09",
						"C09-2 revoke_and_ack released before the new holder commitment was durable",
						format!(
							"node {} channel {}: the secret of holder commitment {} left the node while the durable monitor's current holder commitment is still {}",
							from, li, released_idx, cur_holder
						),
					);
				}
			},
			None => self.violate(
				"C09",
				"C09-2 revoke_and_ack released before the monitor exists on disk",
				format!("node {} channel {}", from, li),
			),
		}
	}

	fn oracle_on_raa_emitted(&mut self, from: usize, li: usize, r: &lightning::ln::msgs::RevokeAndACK) {
		self.scan_signer_log(from);
		self.out.bump("oracle:C05-4 revoke_and_ack contents");
		// the secret must be the one of exactly the previous holder commitment
		let funding = match self.ledgers[li].funding {
			Some(f) => f,
			None => return,
		};
		let key = self
			.oracle
			.rev
			.iter()
			.find(|((n, _), a)| *n == from && a.funding == Some(funding))
			.map(|((_, k), _)| *k);
		let keys_id = match key {
			Some(k) => k,
			None => return,
		};
		let auto = self.oracle.rev.get(&(from, keys_id)).cloned().unwrap_or_default();
		let idx = match auto.min_released {
			Some(i) => i,
			None => {
				self.violate(
					"C05",
					"C05-4 revoke_and_ack without a released secret",
					format!("node {} channel {}", from, li),
				);
				return;
			},
		};
		let signer = self.nodes[from].keys.km.derive_channel_keys(&keys_id);
		let secp = Secp256k1::new();
		// the released secret may be for `idx` (new) or, on retransmission, the same again
		// find which released index this secret belongs to (the newest, or a retransmission)
		let mut idx = idx;
		for cand in [idx, idx + 1] {
			if signer.release_commitment_secret(cand).ok() == Some(r.per_commitment_secret) {
				idx = cand;
				break;
			}
		}
		self.oracle_durable_before_raa(from, li, idx);
		let ok_secret = signer.release_commitment_secret(idx).ok() == Some(r.per_commitment_secret);
		if !ok_secret {
			self.violate(
				"C05",
				"C05-4 revoke_and_ack carries the wrong secret",
				format!(
					"node {} channel {}: secret is not the one of commitment {} (the last released)",
					from, li, idx
				),
			);
			return;
		}
		let exp_next = signer.get_per_commitment_point(idx - 2, &secp).ok();
		if exp_next != Some(r.next_per_commitment_point) {
			self.violate(
				"C05",
				"C05-4 revoke_and_ack announces the wrong next point",
				format!("node {} channel {}: next_per_commitment_point is not the point of {}", from, li, idx - 2),
			);
		}
		let _ = SecretKey::from_slice(&r.per_commitment_secret).map(|s| PublicKey::from_secret_key(&secp, &s));
	}

	/// C09-2 / C02: an update_fulfill_htlc leaves a node only after the preimage is durable in
	/// the monitor of the channel it is claimed on.
	fn oracle_preimage_durable(&mut self, from: usize, li: usize, pre: &PaymentPreimage) {
		self.out.bump("oracle:C09-2 update_fulfill_htlc only after the preimage is durable");
		let key = self.chans[li].channel_id.0;
		let hexpre = format!("{}", pre);
		let (durable_id, preimage_update) = {
			let d = self.nodes[from].disk.lock().unwrap();
			let did = d.chans.get(&key).and_then(|c| c.durable.as_ref().map(|x| x.0));
			let upd = d
				.log
				.iter()
				.filter(|c| c.chan == key)
				.find(|c| c.steps.iter().any(|(n, det)| *n == "PaymentPreimage" && *det == hexpre))
				.map(|c| c.update_id);
			(did, upd)
		};
		match (durable_id, preimage_update) {
			(Some(d), Some(u)) => {
				if u > d {
					self.violate(
						"C09",
						"C09-2 update_fulfill_htlc released before the preimage was durable",
						format!(
							"node {} channel {}: preimage update {} still in flight (durable monitor is at update {})",
							from, li, u, d
						),
					);
				}
			},
			(_, None) => {
				// the preimage may have been made durable in an earlier incarnation whose persist log
				// the simulator no longer holds only if the node restarted; otherwise it is missing
				if self.nodes[from].incarnation == 0 {
					self.violate(
						"C09",
						"C09-2 update_fulfill_htlc released without a preimage monitor update",
						format!("node {} channel {}: no PaymentPreimage update was ever handed to Persist", from, li),
					);
				}
			},
			(None, Some(_)) => {},
		}
	}

	fn oracle_on_fulfill_emitted(&mut self, from: usize, _li: usize, _id: u64, pre: &PaymentPreimage) {
		self.oracle_preimage_durable(from, _li, pre);
		// C03-1 / C04: a preimage only ever leaves a node after the recipient's application
		// called claim_funds for that payment.
		let h = PaymentHash(Sha256::hash(&pre.0).to_byte_array());
		self.out.bump("oracle:C04-5 preimage released only after claim");
		if let Some(pi) = self.pays.iter().position(|p| p.hash == h) {
			if self.pays[pi].claim_called.is_none() {
				self.violate(
					"C04",
					"C04-3 preimage released without claim_funds",
					format!("node {} sent update_fulfill_htlc for pay {} whose recipient never claimed", from, pi),
				);
			}
		}
	}

	/// Reads new entries of node `n`'s signer log and advances the revocation automata.
	pub fn scan_signer_log(&mut self, n: usize) {
		let log: Vec<SignerCall> = {
			// a node whose disk froze inside this action is dead from the freeze point on:
			// signer calls made after it never happened (crash.rs truncates the log)
			let limit = {
				let d = self.nodes[n].disk.lock().unwrap();
				if d.frozen {
					d.frozen_info.as_ref().map(|i| i.signer_log_len)
				} else {
					None
				}
			};
			let l = self.nodes[n].keys.log.lock().unwrap();
			let end = limit.unwrap_or(l.len()).min(l.len());
			let cur = self.nodes[n].signer_cursor.min(end);
			l[cur..end].to_vec()
		};
		self.nodes[n].signer_cursor += log.len();
		for call in log {
			self.hist = simcore::fnv_extend(self.hist, signer_call_tag(&call).as_bytes());
			match call {
				SignerCall::ValidateHolderCommitment { keys_id, commit } => {
					let a = self.oracle.rev.entry((n, keys_id)).or_default();
					a.funding = Some(commit.funding_outpoint);
					if let Some(r) = a.min_released {
						if commit.number >= r {
							let msg = format!(
								"node {} validated holder commitment {} although {} was already revoked",
								n, commit.number, r
							);
							self.violate("C05", "C05-2 revoked holder state re-validated", msg);
							continue;
						}
					}
					a.validated.insert(commit.number, commit.txid);
				},
				SignerCall::ReleaseCommitmentSecret { keys_id, idx } => {
					self.out.bump("oracle:C05-1 release only with newer commitment held");
					let a = self.oracle.rev.entry((n, keys_id)).or_default();
					let has_newer = a.validated.contains_key(&(idx - 1));
					let regress = a.min_released.map_or(false, |r| idx > r);
					let st = self.step;
					a.released_at.entry(idx).or_insert(st);
					a.min_released = Some(a.min_released.map_or(idx, |r| r.min(idx)));
					if !has_newer {
						self.violate(
							"C05",
							"C05-1 secret released without a newer signed commitment",
							format!("node {} released the secret of commitment {} but holds no validated commitment {}", n, idx, idx - 1),
						);
					}
					if regress {
						self.out.bump("probe:release_of_older_secret_again");
					}
					// C05-2, the other order: the commitment being revoked was handed to the
					// broadcaster earlier (then it may confirm, and the peer can punish)
					let a = self.oracle.rev.entry((n, keys_id)).or_default();
					let txid = a.validated.get(&idx).cloned();
					let funding = a.funding;
					if let Some(txid) = txid {
						let handed = self.nodes[n].broadcaster.first_seen.lock().unwrap().get(&txid).cloned();
						if let Some(h) = handed {
							let ci = funding.and_then(|f| self.chans.iter().position(|c| c.funding == f));
							let by_update = ci
								.and_then(|ci| self.oracle.fc_update_step.get(&(n, ci)).cloned())
								.map(|s| s <= h)
								.unwrap_or(false);
							let ctx = if by_update {
								"[the ChannelForceClosed monitor update was not durable when the node crashed; the restarted node resumed the channel]"
							} else {
								"[the ChannelMonitor broadcast it on its own while processing chain data; no ChannelForceClosed update had been issued]"
							};
							self.revoked_after_broadcast.insert(n);
							self.violate(
								"C05",
								"C05-2 holder commitment revoked after it had been broadcast",
								format!(
									"node {} handed its commitment {} ({}) to the broadcaster at step {} and released that commitment's revocation secret at step {} {}",
									n, idx, txid, h, st, ctx
								),
							);
						}
					}
				},
				SignerCall::SignHolderCommitment { keys_id, number, txid } => {
					self.out.bump("oracle:C05-2 no signature on revoked holder state");
					let a = self.oracle.rev.entry((n, keys_id)).or_default();
					if let Some(r) = a.min_released {
						if number >= r {
							self.violate(
								"C05",
								"C05-2 revoked holder commitment signed",
								format!("node {} signs holder commitment {} ({}) after revoking down to {}", n, number, txid, r),
							);
						}
					}
				},
				SignerCall::SignHolderHtlc { keys_id, number, commitment_txid } => {
					let a = self.oracle.rev.entry((n, keys_id)).or_default();
					if let Some(r) = a.min_released {
						if number >= r {
							self.violate(
								"C05",
								"C05-2 HTLC transaction on revoked holder commitment signed",
								format!("node {} signs an HTLC tx of holder commitment {} ({}) after revoking down to {}", n, number, commitment_txid, r),
							);
						}
					}
				},
				SignerCall::SignCounterpartyCommitment { keys_id, commit, sig } => {
					self.out.bump("oracle:C05-3 at most one unrevoked counterparty commitment");
					let a = self.oracle.rev.entry((n, keys_id)).or_default();
					a.funding = Some(commit.funding_outpoint);
					let m = commit.number;
					let mut bad = None;
					if m + 2 <= INITIAL_COMMITMENT_NUMBER && !a.cp_revoked.contains(&(m + 2)) {
						bad = Some(format!(
							"node {} signs counterparty commitment {} while {} is still unrevoked",
							n,
							m,
							m + 2
						));
					}
					if let Some(last) = a.cp_last_signed {
						if !(m == last || m + 1 == last) {
							bad = Some(format!(
								"node {} signs counterparty commitment {} after {}: not the same or the next",
								n, m, last
							));
						}
					}
					a.cp_last_signed = Some(a.cp_last_signed.map_or(m, |l| l.min(m)));
					a.cp_sigs.push((sig, commit));
					if a.cp_sigs.len() > 8 {
						a.cp_sigs.remove(0);
					}
					if let Some(b) = bad {
						self.violate("C05", "C05-3 counterparty commitment signed out of order", b);
					}
				},
				SignerCall::ValidateCounterpartyRevocation { keys_id, idx, .. } => {
					let a = self.oracle.rev.entry((n, keys_id)).or_default();
					a.cp_revoked.insert(idx);
				},
				SignerCall::SignClosing { keys_id, tx, to_holder_sat, to_counterparty_sat } => {
					self.oracle_on_sign_closing(n, keys_id, &tx, to_holder_sat, to_counterparty_sat);
				},
				_ => {},
			}
		}
	}

	fn oracle_on_sign_closing(
		&mut self, n: usize, keys_id: [u8; 32], tx: &Transaction, to_holder: u64, to_cp: u64,
	) {
		self.out.bump("oracle:C01-4 cooperative close pays final balances");
		let funding = match self.oracle.rev.get(&(n, keys_id)).and_then(|a| a.funding) {
			Some(f) => f,
			None => return,
		};
		let li = match self.ledgers.iter().position(|l| l.funding == Some(funding)) {
			Some(l) => l,
			None => return,
		};
		if self.ledgers[li].disabled {
			return;
		}
		let l = &self.ledgers[li];
		if tx.input.len() != 1 || tx.input[0].previous_output != funding {
			self.violate(
				"C01",
				"C01-4 closing transaction does not spend the funding output",
				format!("node {} channel {}", n, li),
			);
			return;
		}
		let (ba, bb) = match l.final_balances_msat() {
			Ok(x) => x,
			Err(e) => {
				self.violate(
					"C01",
					"C01-4 closing transaction signed with HTLCs pending",
					format!("node {} channel {}: {}", n, li, e),
				);
				return;
			},
		};
		let holder_side = l.side_of(n).unwrap();
		let (holder_msat, cp_msat) = if holder_side == 0 { (ba, bb) } else { (bb, ba) };
		let holder_is_funder = holder_side == 0;
		let out_sum: u64 = tx.output.iter().map(|o| o.value.to_sat()).sum();
		if out_sum > l.value_sat {
			self.violate(
				"C01",
				"C01-4 closing outputs exceed channel value",
				format!("node {} channel {}: {} > {}", n, li, out_sum, l.value_sat),
			);
			return;
		}
		// The non-funder is paid its floor balance exactly; the funder pays the fee.
		let (nonfunder_sat, nonfunder_msat, funder_sat, funder_msat) = if holder_is_funder {
			(to_cp, cp_msat, to_holder, holder_msat)
		} else {
			(to_holder, holder_msat, to_cp, cp_msat)
		};
		// BOLT-2: an output below the dust limit is omitted from the closing transaction
		let dust = l.sides[0].dust_limit_sat.unwrap_or(0).max(l.sides[1].dust_limit_sat.unwrap_or(0));
		let nonfunder_dropped = nonfunder_sat == 0 && nonfunder_msat / 1000 <= dust;
		if nonfunder_dropped {
			self.out.bump("probe:closing_output_below_dust_omitted");
		}
		if nonfunder_sat != nonfunder_msat / 1000 && !nonfunder_dropped {
			self.violate(
				"C01",
				"C01-4 cooperative close shortchanges the non-funder",
				format!(
					"node {} channel {}: closing pays the non-funder {} sat, its balance is {} msat",
					n, li, nonfunder_sat, nonfunder_msat
				),
			);
		}
		if funder_sat > funder_msat / 1000 {
			self.violate(
				"C01",
				"C01-4 cooperative close overpays the funder",
				format!(
					"node {} channel {}: closing pays the funder {} sat, its balance is {} msat",
					n, li, funder_sat, funder_msat
				),
			);
		}
		self.out.bump("probe:closing_tx_signed");
	}

	pub fn scan_watch_log(&mut self, n: usize) {
		let calls = match self.nodes[n].live.as_ref() {
			Some(l) => {
				let log = l.watch.log.lock().unwrap();
				let cur = self.nodes[n].watch_cursor.min(log.len());
				log[cur..].to_vec()
			},
			None => return,
		};
		self.nodes[n].watch_cursor += calls.len();
		let inc = self.nodes[n].incarnation;
		for c in calls {
			self.hist = simcore::fnv_extend(self.hist, &c.update_id.to_le_bytes());
			self.out.bump("oracle:C09-1 gap-free update ids at Watch");
			if c.steps.iter().any(|(k, d)| *k == "ChannelForceClosed" && d == "true") {
				if let Some(ci) = self.chans.iter().position(|x| x.channel_id.0 == c.chan) {
					let step = self.step;
					self.oracle.fc_update_step.entry((n, ci)).or_insert(step);
				}
			}
			if !c.new_channel && self.nodes[n].check_styles {
				let b = c.update_bytes.clone();
				self.shadow_update(n, c.chan, &b);
			}
			if !c.new_channel {
				if !c.update_eq_after_roundtrip {
					self.violate(
						"C12",
						"C12-a monitor update differs after write/read",
						format!("node {} channel {} update {}", n, simcore::hex(&c.chan[..4]), c.update_id),
					);
				}
				if self.nodes[n].check_roundtrip {
					let b = c.update_bytes.clone();
					self.check_update_roundtrip(n, &b);
				}
				if let Some(ok) = c.commutes {
					self.out.bump("oracle:C12-a update before or after a round trip gives equal monitors");
					if !ok {
						self.violate(
							"C12",
							"C12-a applying an update after a round trip gives a different monitor",
							format!(
								"node {} channel {} update {} ({:?}): read(write(m)).update(u) != m.update(u)",
								n,
								simcore::hex(&c.chan[..4]),
								c.update_id,
								c.steps.iter().map(|s| s.0).collect::<Vec<_>>()
							),
						);
					}
				}
			}
			for (name, _) in c.steps.iter() {
				self.out.bump(&format!("monupd:{}", name));
			}
			let key = (n, c.chan, inc);
			if c.new_channel {
				self.oracle.watch_last.insert(key, c.update_id);
				continue;
			}
			match self.oracle.watch_last.get(&key).cloned() {
				Some(last) => {
					if c.update_id != last + 1 {
						// after a restart in-flight updates are replayed: ids at or below the
						// loaded monitor's id may reappear, in order
						if !(c.update_id <= last) {
							self.violate(
								"C09",
								"C09-1 monitor update ids not consecutive",
								format!(
									"node {} channel {}: update {} handed to Watch after {}",
									n,
									simcore::hex(&c.chan[..4]),
									c.update_id,
									last
								),
							);
						}
					}
					if c.update_id > last {
						self.oracle.watch_last.insert(key, c.update_id);
					}
				},
				None => {
					self.oracle.watch_last.insert(key, c.update_id);
				},
			}
		}
	}

	// -----------------------------------------------------------------------------------------
	// payment oracles

	pub fn oracle_send_limits(
		&mut self, from: usize, pay: usize, limits: &[(usize, u64, u64, u64, bool)], accepted: bool,
	) {
		if limits.len() != 1 {
			return;
		}
		let (ci, amt, min, max, usable) = limits[0];
		self.out.bump("oracle:C01-5a send accepted iff inside reported limits");
		let expect = usable && amt >= min && amt <= max;
		if amt == max || amt == min || amt == max + 1 || (min > 0 && amt == min - 1) {
			self.out.bump("probe:send_at_limit_boundary");
		}
		if expect != accepted {
			self.violate(
				"C01",
				"C01-5a reported send limits are not exact",
				format!(
					"node {} channel {}: HTLC of {} msat with reported minimum {} / limit {} (usable {}) was {}",
					from,
					ci,
					amt,
					min,
					max,
					usable,
					if accepted { "accepted" } else { "refused" }
				),
			);
		}
		let _ = pay;
	}

	/// C02-5: the fee PaymentForwarded reports is the difference between what came in and what
	/// went out for that HTLC.
	pub fn oracle_on_forwarded(&mut self, n: usize, fee: Option<u64>, out_amt: u64, onchain: bool) {
		self.out.bump("oracle:C02-5 PaymentForwarded fee is in minus out");
		if onchain {
			self.out.bump("probe:forward_claimed_from_onchain_tx");
		}
		let mut expect = None;
		for p in self.pays.iter() {
			for path in p.paths.iter() {
				for i in 0..path.nodes.len().saturating_sub(1) {
					// claimed from an on-chain transaction: the amount is the output's, in whole sat
					let same = path.hop_amts[i + 1] == out_amt
						|| (onchain && path.hop_amts[i + 1] / 1000 * 1000 == out_amt);
					if path.nodes[i] == n && same {
						expect = Some((p.idx, path.hop_amts[i] - path.hop_amts[i + 1]));
					}
				}
			}
		}
		match (expect, fee) {
			(Some((pi, e)), Some(f)) => {
				if e != f && !onchain {
					self.violate(
						"C02",
						"C02-5 PaymentForwarded reports a wrong fee",
						format!("node {} pay {}: event says {} msat, in minus out is {} msat", n, pi, f, e),
					);
				}
			},
			(None, _) => {
				self.violate(
					"C02",
					"C02-5 PaymentForwarded for an HTLC nobody routed through this node",
					format!("node {}: outbound amount {} msat", n, out_amt),
				);
			},
			_ => {},
		}
	}

	pub fn oracle_on_claimable(&mut self, n: usize, pay: usize, amount: u64, deadline: Option<u32>) {
		self.out.bump("oracle:C04-1 PaymentClaimable authentic and complete");
		let p = self.pays[pay].clone();
		if p.to != n {
			let msg = format!("node {} shown pay {} addressed to node {}", n, pay, p.to);
			self.violate("C04", "C04-1 PaymentClaimable at the wrong node", msg);
			return;
		}
		if p.flaw != 0 {
			let what = match p.flaw {
				1 => "its payment secret had a bit flipped",
				2 => "it carried the payment secret of another payment",
				3 => "it paid less than the amount the recipient registered",
				5 => "its payment secret had expired hours before",
				_ => "its onion announced a larger total than the parts that were sent",
			};
			let msg = format!("node {} was shown pay {} ({} msat) as claimable although {}", n, pay, amount, what);
			self.violate("C04", "C04-1 PaymentClaimable for a payment that must be refused", msg);
			return;
		}
		if amount < p.total_msat {
			let msg = format!("node {} pay {}: claimable {} < registered total {}", n, pay, amount, p.total_msat);
			self.violate("C04", "C04-1 PaymentClaimable for an incomplete payment", msg);
		}
		if let Some(d) = deadline {
			let h = self.nodes[n].synced_height;
			// an event re-delivered after a restart describes the past: it is judged only the first
			// time it is shown, by a node that has been up since the HTLC arrived
			let redelivered = self.nodes[n].incarnation > 0;
			if d <= h && !redelivered {
				let msg = format!("node {} pay {}: claim_deadline {} not above current height {}", n, pay, d, h);
				self.violate("C04", "C04-1 PaymentClaimable without a claim window", msg.clone());
				// the same fact is C08's "never shows as claimable an HTLC that expires too soon"
				self.violate("C08", "C08-2 PaymentClaimable without a claim window", msg);
			}
		}
	}

	pub fn oracle_on_claimed(&mut self, n: usize, pay: usize, amount: u64) {
		self.out.bump("oracle:C04-3 PaymentClaimed amount");
		let p = self.pays[pay].clone();
		if p.claim_called.is_none() {
			let msg = format!("node {} pay {}", n, pay);
			self.violate("C04", "C04-3 PaymentClaimed without claim_funds", msg);
		}
		if amount < p.total_msat {
			let loaded = self.nodes[n].disk.lock().unwrap().loaded_generation;
			let replayed = self.nodes[n].incarnation > 0 && p.claim_gen.map_or(false, |g| g + 1 > loaded);
			let ctx = if replayed && p.paths.len() > 1 {
				" [multi-part payment whose claim was replayed from a ChannelMonitor after a restart from a ChannelManager snapshot older than the claim]"
			} else {
				""
			};
			let msg = format!("node {} pay {}: claimed {} < total {}{}", n, pay, amount, p.total_msat, ctx);
			self.violate("C04", "C04-3 PaymentClaimed for less than the payment", msg);
		}
	}

	pub fn oracle_on_sent(
		&mut self, n: usize, pay: usize, pre: PaymentPreimage, hash: PaymentHash, fee: Option<u64>,
		amount: Option<u64>,
	) {
		self.out.bump("oracle:C03-1 PaymentSent truthful");
		let p = self.pays[pay].clone();
		if PaymentHash(Sha256::hash(&pre.0).to_byte_array()) != hash || hash != p.hash {
			let msg = format!("node {} pay {}", n, pay);
			self.violate("C03", "C03-1 PaymentSent preimage does not hash to the payment hash", msg);
		}
		if p.claim_called.is_none() {
			let msg = format!("node {} pay {}: recipient never called claim_funds", n, pay);
			self.violate("C03", "C03-1 PaymentSent although the recipient never released the preimage", msg);
		}
		if !p.ev.failed.is_empty() {
			let ctx = if p.failed_handling_lost && p.ev.failed.iter().all(|f| f.1 < self.nodes[n].incarnation) {
				" [PaymentFailed was handled in an earlier incarnation, after the ChannelManager snapshot this incarnation restarted from: what failed the payment then (a force close, a refused send) was rolled back by the restart]"
			} else {
				""
			};
			let msg = format!("node {} pay {}: PaymentSent after PaymentFailed{}", n, pay, ctx);
			self.violate("C03", "C03-5 contradictory terminal events", msg);
		}
		let inc = self.nodes[n].incarnation;
		// events an earlier incarnation generated and this one inherited, unhandled, in the queue of
		// the manager snapshot it was loaded from are repeats across a restart, which C03 allows
		let inherited = self.nodes[n].inherited_terminal.iter().filter(|(id, s)| *s && *id == p.id.0).count();
		if inherited > 0 {
			self.out.bump("probe:terminal_event_inherited_in_persisted_queue");
		}
		// (... as long as the repeat arrives before the handling of the first copy was persisted)
		let gens: BTreeSet<u64> =
			p.ev.sent.iter().zip(p.ev.sent_gen.iter()).filter(|(s, _)| s.1 == inc).map(|(_, g)| *g).collect();
		let inherited = if gens.len() <= 1 { inherited } else { 0 };
		if p.ev.sent.iter().filter(|s| s.1 == inc).count() > 1 + inherited {
			let msg = format!("node {} pay {}: PaymentSent twice without a restart", n, pay);
			self.violate("C03", "C03-5 terminal event repeated without restart", msg);
		}
		// C03-4: amount + fee = what left the sender on the first hops
		if let (Some(fee), Some(amount)) = (fee, amount) {
			let first_hops: u64 = p.paths.iter().map(|x| x.hop_amts[0]).sum();
			if amount != p.total_msat || amount + fee != first_hops {
				let ctx = if p.rehydrated && p.paths.len() > 1 {
					" [multi-part payment re-hydrated from ChannelMonitors after a restart from an older ChannelManager]"
				} else if p.rehydrated {
					" [payment re-hydrated from ChannelMonitors after a restart from an older ChannelManager]"
				} else {
					""
				};
				let msg = format!(
					"node {} pay {}: amount {} + fee {} but {} msat left on the first hops for a payment of {}{}",
					n, pay, amount, fee, first_hops, p.total_msat, ctx
				);
				self.violate("C03", "C03-4 PaymentSent amount and fee", msg);
			}
		}
	}

	/// C11-3: a sender gives up on a path whose HTLC the first-hop peer may hold (the add went out
	/// with a commitment_signed and the peer never removed it off chain) only once the transaction
	/// that closed the channel is buried by ANTI_REORG_DELAY blocks - whether or not the node was
	/// restarted in between.
	pub fn oracle_on_path_failed_chain_depth(&mut self, n: usize, pay: usize, first_hop_scid: u64) {
		let ci = match self.chans.iter().position(|c| c.scid == first_hop_scid && (c.a == n || c.b == n)) {
			Some(c) => c,
			None => return,
		};
		let hash = self.pays[pay].hash.0;
		let ids = match self.oracle.adds_on_wire.get(&(ci, n, hash)) {
			Some(i) => i.clone(),
			None => return,
		};
		if ids.iter().any(|id| self.oracle.removes_delivered.contains(&(ci, n, *id))) {
			return;
		}
		// PaymentFailed after PaymentSent from a stale ChannelManager is C03-5's subject (the HTLC is
		// missing from the newer monitor because it was settled, not because of chain data)
		if !self.pays[pay].ev.sent.is_empty() {
			return;
		}
		self.out.bump("oracle:C11-3 no on-chain conclusion before the anti-reorg depth");
		let tip = self.chain.tip_height();
		if let Some((h, tx)) = self.chain.confirmed_spender(&self.chans[ci].funding) {
			let confs = tip + 1 - h;
			if confs < 6 {
				let txid = tx.compute_txid();
				let restarted = self.nodes[n].incarnation > 0;
				self.violate(
					"C11",
					"C11-3 HTLC failed on the strength of a transaction with fewer than 6 confirmations",
					format!(
						"node {} pay {}: PaymentPathFailed for the part sent over channel {} (HTLC on the wire, never removed off chain) while the transaction {} spending the funding output has {} confirmation(s) (height {}, tip {}){}",
						n, pay, ci, txid, confs, h, tip,
						if restarted { " [after a restart]" } else { "" }
					),
				);
			} else {
				self.out.bump("probe:path_failed_after_chain_resolution_at_depth");
			}
		}
	}

	pub fn oracle_on_failed(&mut self, n: usize, pay: usize) {
		self.out.bump("oracle:C03-5 PaymentFailed consistent");
		let p = self.pays[pay].clone();
		// C03-7: PaymentFailed means that nothing of the payment is in flight any more ("safe to
		// retry"): no open channel of the sender still carries an HTLC of it that is not being removed
		if let Some(mgr) = self.mgr(n) {
			use lightning::ln::channel_state::OutboundHTLCStateDetails as S;
			self.out.bump("oracle:C03-7 PaymentFailed only when no HTLC of the payment is pending");
			let mut pending = Vec::new();
			for d in mgr.list_channels() {
				for h in d.pending_outbound_htlcs.iter() {
					if h.payment_hash == p.hash
						&& matches!(h.state, Some(S::AwaitingRemoteRevokeToAdd) | Some(S::Committed))
					{
						pending.push((d.channel_id, h.htlc_id, h.amount_msat));
					}
				}
			}
			if !pending.is_empty() && p.from == n {
				let msg = format!(
					"node {} pay {}: PaymentFailed handled while the node's open channels still carry HTLCs of it: {:?}",
					n, pay, pending
				);
				self.violate("C03", "C03-7 PaymentFailed while an HTLC of the payment is still pending", msg);
			}
		}
		let loaded = self.nodes[n].disk.lock().unwrap().loaded_generation;
		if !p.ev.sent.is_empty() {
			// was the PaymentSent handled only after the snapshot this incarnation started from?
			let stale = self.nodes[n].incarnation > 0
				&& (p.ev.sent_gen.iter().all(|g| *g + 1 > loaded) || p.sent_handling_lost)
				&& p.ev.sent.iter().all(|s| s.1 < self.nodes[n].incarnation);
			let ctx = if stale {
				" [PaymentSent was handled in an earlier incarnation, after the ChannelManager snapshot this incarnation restarted from]"
			} else {
				""
			};
			let msg = format!("node {} pay {}: PaymentFailed after PaymentSent{}", n, pay, ctx);
			self.violate("C03", "C03-5 contradictory terminal events", msg);
		}
		let inc = self.nodes[n].incarnation;
		let inherited = self.nodes[n].inherited_terminal.iter().filter(|(id, s)| !*s && *id == p.id.0).count();
		if inherited > 0 {
			self.out.bump("probe:terminal_event_inherited_in_persisted_queue");
		}
		let gens: BTreeSet<u64> =
			p.ev.failed.iter().zip(p.ev.failed_gen.iter()).filter(|(s, _)| s.1 == inc).map(|(_, g)| *g).collect();
		let inherited = if gens.len() <= 1 { inherited } else { 0 };
		if p.ev.failed.iter().filter(|s| s.1 == inc).count() > 1 + inherited {
			let outdated = p.paths.iter().any(|x| self.nodes[n].outdated_chans.contains(&x.chans[0]));
			let earlier = p.paths.iter().any(|x| self.nodes[n].ever_outdated_chans.contains(&x.chans[0]));
			let ctx = if outdated {
				" [its first-hop channel was closed with OutdatedChannelManager in this incarnation: failed once at start-up from the stale manager's view and again when the newer ChannelMonitor resolved the HTLC on chain]"
			} else if !earlier && p.paths.iter().any(|x| self.nodes[n].closed_in_earlier_incarnation.contains(&x.chans[0])) {
				" [its first-hop channel had already been closed in an earlier incarnation: the stale ChannelManager closes it again, failing the payment at start-up and once more when the ChannelMonitor resolves the HTLC on chain]"
			} else if earlier {
				" [its first-hop channel was closed with OutdatedChannelManager in an earlier incarnation: the failure generated then is generated again by this incarnation's start-up and once more when the ChannelMonitor resolves the HTLC on chain]"
			} else {
				""
			};
			let msg = format!("node {} pay {}: PaymentFailed twice without a restart{}", n, pay, ctx);
			self.violate("C03", "C03-5 terminal event repeated without restart", msg);
		}
	}

	pub fn oracle_on_broadcast(&mut self, n: usize, tx: &Transaction, kind: &str, r: &Admit) {
		self.out.bump("oracle:C07-1 broadcasts valid and final");
		let txid = tx.compute_txid();
		// C05-2: a revoked holder commitment must never be broadcast
		let mut revoked = None;
		for ((node, _), a) in self.oracle.rev.iter() {
			if *node != n {
				continue;
			}
			if let Some(rel) = a.min_released {
				for (num, t) in a.validated.iter() {
					if *t == txid && *num >= rel {
						revoked = Some((*num, rel, a.released_at.get(num).cloned()));
					}
				}
			}
		}
		if let Some((num, rel, released_at)) = revoked {
			let handed = self.nodes[n].broadcaster.first_seen.lock().unwrap().get(&txid).cloned();
			let before = match (handed, released_at) {
				(Some(h), Some(r)) => h < r,
				_ => false,
			};
			if before {
				// who broadcast it: the ChannelManager through a ChannelForceClosed monitor update
				// (which a crash can lose), or the ChannelMonitor on its own while processing a block
				let ci = self.chans.iter().position(|c| tx.input.iter().any(|i| i.previous_output == c.funding));
				let by_update = ci
					.and_then(|ci| self.oracle.fc_update_step.get(&(n, ci)).cloned())
					.map(|s| s <= handed.unwrap_or(0))
					.unwrap_or(false);
				let ctx = if by_update {
					"[the ChannelForceClosed monitor update was not durable when the node crashed; the restarted node resumed the channel]"
				} else {
					"[the ChannelMonitor broadcast it on its own while processing chain data; no ChannelForceClosed update had been issued]"
				};
				self.revoked_after_broadcast.insert(n);
				self.violate(
					"C05",
					"C05-2 holder commitment revoked after it had been broadcast",
					format!(
						"node {} handed its commitment {} ({}) to the broadcaster at step {} and released that commitment's revocation secret at step {} {}",
						n, num, txid, handed.unwrap_or(0), released_at.unwrap_or(0), ctx
					),
				);
			} else {
				self.violate(
					"C05",
					"C05-2 revoked holder commitment broadcast",
					format!("node {} broadcast its commitment {} ({}) after revoking down to {}", n, num, txid, rel),
				);
			}
		}
		// C07-5 / C06-3: a claim re-issued with the same inputs never pays less than before
		// C07-1b: a claim of an output that this node's own, already buried transaction spent
		// (only for transactions the monitor builds at the moment it broadcasts them: on anchor and
		// zero-fee-commitment channels claims are built by the application from BumpTransaction
		// events, which the simulated application may handle many blocks after they were generated)
		let built_by_monitor = kind == "Claim" && self.cfg.chan_type == crate::world::ChanType::Legacy;
		if let (Admit::MissingOrSpent(_), true) = (r, built_by_monitor) {
			let tip = self.chain.tip_height();
			let mut hit = None;
			for i in tx.input.iter() {
				if let Some((h, stx)) = self.chain.confirmed_spender(&i.previous_output) {
					let sid = stx.compute_txid();
					let own = self.nodes[n].broadcaster.first_seen.lock().unwrap().contains_key(&sid);
					// (a transaction generated while a restarted node was still replaying old blocks
					// is relayed later than it was built: only nodes that were up when their own
					// spend confirmed are judged)
					if own && tip + 1 >= h + 6 && sid != txid && self.nodes[n].live_since_height <= h {
						hit = Some((i.previous_output, sid, h));
					}
				}
			}
			self.out.bump("oracle:C07-1 no re-claim of outputs the node already claimed and buried");
			if let Some((op, sid, h)) = hit {
				let restarted = self.nodes[n].incarnation > 0;
				self.violate(
					"C07",
					"C07-1 claim of an output the node's own buried transaction already spent",
					format!(
						"node {} {} {} spends {} at height {}, but its own {} spent that output at height {}{}",
						n,
						kind,
						txid,
						op,
						tip,
						sid,
						h,
						if restarted { " [after a restart; the claim is regenerated when start-up replays a payment preimage into the ChannelMonitor of the closed channel]" } else { "" }
					),
				);
			}
		}
		// transactions built by the application from BumpTransaction events are judged by the feerate
		// the events ask for (onchain.rs); their absolute fee wobbles by a few sat with signature sizes
		let comparable = matches!(r, Admit::Accepted | Admit::Replaced(_) | Admit::AlreadyKnown | Admit::Policy(_))
			&& built_by_monitor;
		if let Some(fee) = self.chain.fee_of(tx).filter(|_| comparable) {
			if fee >= 0 && !tx.input.is_empty() {
				let fee = fee as u64;
				let rate = fee * 1000 / tx.weight().to_wu().max(1);
				let mut key: Vec<bitcoin::OutPoint> = tx.input.iter().map(|i| i.previous_output).collect();
				key.sort();
				self.out.bump("oracle:C07-5 re-issued claims never lower their fee");
				if let Some((old_fee, old_rate, old_txid)) = self.oracle.last_fee.get(&(n, key.clone())).cloned() {
					if old_txid != txid {
						self.out.bump("probe:claim_reissued_with_same_inputs");
						if fee > old_fee {
							self.out.bump("probe:claim_fee_bumped");
						}
						if fee < old_fee && rate < old_rate {
							self.violate(
								"C07",
								"C07-5 claim re-issued with a lower fee",
								format!(
									"node {} {} {}: same inputs as {} but fee {} sat ({} sat/kw) after {} sat ({} sat/kw)",
									n, kind, txid, old_txid, fee, rate, old_fee, old_rate
								),
							);
						}
					}
				}
				self.oracle.last_fee.insert((n, key), (fee, rate, txid));
			}
		}
		match r {
			Admit::ScriptFail(e) => self.violate(
				"C07",
				"C07-1 broadcast transaction fails script verification",
				format!("node {} {} {}: {}", n, kind, txid, e),
			),
			Admit::NonFinal(e) => {
				// finality is judged against the chain the node saw when it handed the transaction
				// over: a reorganisation between that moment and the (late) relay is not its fault
				let handed = self.nodes[n].broadcaster.first_seen.lock().unwrap().get(&txid).cloned().unwrap_or(0);
				if self.last_reorg_step >= handed && self.last_reorg_step > 0 {
					self.out.bump("probe:relay_of_a_transaction_built_before_a_reorganisation");
				} else {
					self.violate(
						"C07",
						"C07-1 broadcast transaction is not final",
						format!("node {} {} {}: {}", n, kind, txid, e),
					)
				}
			},
			Admit::NegativeFee(e) => self.violate(
				"C07",
				"C07-1 broadcast transaction creates money",
				format!("node {} {} {}: {}", n, kind, txid, e),
			),
			_ => {},
		}
		if self.strict_offchain {
			// allowed: the cooperative closing transaction itself; anything concerning a channel
			// that is already cooperatively closed for one side or that timed out (see world.rs)
			let is_close = (kind == "CooperativeClose"
				&& self.chans.iter().any(|c| {
					c.coop_requested && tx.input.iter().any(|i| i.previous_output == c.funding)
				})) || self.chans.iter().any(|c| c.force_closed_by.is_some() || c.coop_done || c.tainted);
			if !is_close {
				self.violate(
					"C01",
					"C01-3 transaction broadcast in honest off-chain operation",
					format!("node {} broadcast {} {}", n, kind, txid),
				);
			}
		}
	}

	/// C03-6: a payment the restarted sender no longer lists has no HTLC in flight.
	pub fn oracle_after_restart(&mut self, n: usize) {
		let mgr = match self.mgr(n) {
			Some(m) => m,
			None => return,
		};
		let listed: Vec<lightning::ln::channelmanager::PaymentId> = mgr
			.list_recent_payments()
			.iter()
			.map(|r| match r {
				RecentPaymentDetails::Pending { payment_id, .. } => *payment_id,
				RecentPaymentDetails::Fulfilled { payment_id, .. } => *payment_id,
				RecentPaymentDetails::Abandoned { payment_id, .. } => *payment_id,
				RecentPaymentDetails::AwaitingInvoice { payment_id } => *payment_id,
			})
			.collect();
		let chans = mgr.list_channels();
		let step = self.step;
		let loaded_gen = self.nodes[n].disk.lock().unwrap().loaded_generation;
		for pi in 0..self.pays.len() {
			let p = self.pays[pi].clone();
			if p.from == n && p.first_gen > loaded_gen && listed.contains(&p.id) && !p.rehydrated {
				self.pays[pi].rehydrated = true;
				self.out.bump("probe:payment_rehydrated_from_monitors");
			}
			if p.from != n || !p.accepted || !p.ev.sent.is_empty() || !p.ev.failed.is_empty() {
				continue;
			}
			self.out.bump("oracle:C03-6 unlisted payment has nothing in flight");
			if !listed.contains(&p.id) {
				if p.forgotten.is_none() {
					self.pays[pi].forgotten = Some(step);
					self.out.bump("probe:payment_forgotten_after_restart");
				}
				let inflight = chans.iter().any(|d| {
					d.pending_outbound_htlcs.iter().any(|h| h.payment_hash == p.hash)
				});
				if inflight {
					self.violate(
						"C03",
						"C03-6 payment not listed after restart but HTLC in flight",
						format!("node {} pay {}: absent from list_recent_payments but a channel still carries its HTLC", n, pi),
					);
				}
			} else if p.forgotten.is_some() {
				self.pays[pi].forgotten = None;
			}
		}
	}

	/// Is an HTLC of this payment still an unspent output of a confirmed commitment transaction
	/// of its first-hop channel?
	fn htlc_output_unresolved(&self, p: &Pay) -> bool {
		for path in p.paths.iter() {
			let funding = self.chans[path.chans[0]].funding;
			if let Some((_, commitment)) = self.chain.confirmed_spender(&funding) {
				let txid = commitment.compute_txid();
				let sat = path.hop_amts[0] / 1000;
				for (i, o) in commitment.output.iter().enumerate() {
					if o.value.to_sat() == sat
						&& self.chain.utxos.contains_key(&bitcoin::OutPoint { txid, vout: i as u32 })
					{
						return true;
					}
				}
			}
		}
		false
	}

	// -----------------------------------------------------------------------------------------
	// end of run (after settle)

	pub fn final_oracles(&mut self) {
		if self.dead {
			return;
		}
		for (_, c, msg) in std::mem::take(&mut self.oracle.suspect_errors) {
			let explained = self.refresh_coop_done(c)
				|| self.chans[c].force_closed_by.is_some()
				|| self.chans[c].close_requested && !self.chans[c].coop_requested
				|| self.chans[c].tainted;
			if !explained {
				self.violate("C01", "C01-3 protocol error in honest operation", msg);
			}
		}
		for (_, c, msg) in std::mem::take(&mut self.oracle.suspect_closes) {
			let explained = self.refresh_coop_done(c) || self.chans[c].force_closed_by.is_some() || self.chans[c].tainted;
			if !explained {
				self.violate("C01", "C01-3 channel closed in honest operation", msg);
			}
		}
		let pays = self.pays.clone();
		for p in pays.iter() {
			if !p.accepted {
				continue;
			}
			if self.onion.hash_altered.contains(&p.hash.0) {
				continue;
			}
			if p.forgotten.is_some() {
				// legally lost with the stale manager; it must never complete
				if !p.ev.sent.is_empty() {
					self.violate(
						"C03",
						"C03-6 forgotten payment completed",
						format!("pay {} from node {} was not listed after a restart, yet PaymentSent was reported later", p.idx, p.from),
					);
				}
				continue;
			}
			self.out.bump("oracle:C03-3 terminal event once nothing is pending");
			let sender = p.from;
			let mgr = match self.mgr(sender) {
				Some(m) => m,
				None => continue,
			};
			let pending_htlc = mgr.list_channels().iter().any(|d| {
				d.pending_outbound_htlcs.iter().any(|h| h.payment_hash == p.hash)
			});
			let listed_pending = mgr.list_recent_payments().iter().any(|r| match r {
				RecentPaymentDetails::Pending { payment_id, .. } => *payment_id == p.id,
				_ => false,
			});
			let terminal = !p.ev.sent.is_empty() || !p.ev.failed.is_empty();
			// profile `offchain` has no on-chain resolution: a payment routed over a channel that
			// ended on chain (timeout close, or a violation already reported) is not judged here
			if (self.strict_offchain || self.cfg.profile == "onionline")
				&& p.paths.iter().any(|x| {
					x.chans.iter().any(|c| self.chans[*c].tainted || self.chans[*c].force_closed_by.is_some())
				}) {
				continue;
			}
			if !terminal && !pending_htlc && self.htlc_output_unresolved(p) {
				// the HTLC still sits in an unspent output of a confirmed commitment transaction
				// (too small for its claim to meet the relay fee): it is still pending, on chain
				self.out.bump("probe:payment_pending_in_unclaimable_small_htlc_output");
				continue;
			}
			if !terminal && !pending_htlc {
				// a path failure handled after the snapshot a later restart loaded?
				let phantom = p.paths.len() > 1
					&& p.ev.path_failed_gen.iter().any(|g| {
						self.nodes[sender].loaded_gens.iter().any(|l| *g + 1 > *l)
					}) && !self.nodes[sender].loaded_gens.is_empty();
				let inflight_close = p.paths.iter().any(|x| self.nodes[sender].closed_inflight.contains(&x.chans[0]));
				let punished = p.paths.iter().any(|x| {
					let c = &self.chans[x.chans[0]];
					self.revoked_after_broadcast.contains(&c.a) || self.revoked_after_broadcast.contains(&c.b)
				});
				let ctx = if punished {
					" [consequence of C05-2: this node revoked a commitment it had already broadcast (or its first-hop peer did): the channel was resolved by justice transactions and the HTLC's fate was never reported]"
				} else if inflight_close {
					" [its first-hop channel was closed while an asynchronous monitor update of that channel was still in flight; HTLC failures waiting for that update are dropped with the channel]"
				} else if phantom {
					" [multi-part payment; a PaymentPathFailed of one part was handled (and the part marked resolved in its ChannelMonitor) after the ChannelManager snapshot the sender later restarted from, which still counts that part as in flight]"
				} else {
					""
				};
				self.violate(
					"C03",
					"C03-3 payment without terminal event after settle",
					format!(
						"pay {} from node {}: no HTLC pending, listed pending = {}, but neither PaymentSent nor PaymentFailed was reported{}",
						p.idx, sender, listed_pending, ctx
					),
				);
			}
			if !terminal && pending_htlc && self.strict_offchain {
				self.violate(
					"C03",
					"C03-3 payment stuck after settle",
					format!("pay {} from node {} still has an HTLC pending after faults stopped", p.idx, sender),
				);
			}
			// C03-2: the recipient's claim settled => PaymentSent
			if p.claim_called.is_some() && !p.ev.claimed.is_empty() && p.ev.sent.is_empty() && self.strict_offchain {
				self.violate(
					"C03",
					"C03-2 recipient was paid but sender never saw PaymentSent",
					format!("pay {} from node {} to node {}", p.idx, p.from, p.to),
				);
			}
			if p.claim_called.is_some() && p.ev.claimed.is_empty() && self.strict_offchain {
				self.violate(
					"C04",
					"C04-3 claim_funds below the deadline did not produce PaymentClaimed",
					format!("pay {} at node {}", p.idx, p.to),
				);
			}
		}
		if self.strict_offchain {
			self.out.bump("oracle:C01-3 channels alive after honest operation");
			for ci in 0..self.chans.len() {
				if self.chans[ci].close_requested || self.chans[ci].tainted {
					continue;
				}
				for n in [self.chans[ci].a, self.chans[ci].b] {
					let cid = self.chans[ci].channel_id;
					let ok = self
						.mgr(n)
						.map(|m| m.list_channels().iter().any(|d| d.channel_id == cid && d.is_usable))
						.unwrap_or(false);
					if !ok {
						self.violate(
							"C01",
							"C01-3 channel not usable after honest operation",
							format!("node {} channel {} is gone or unusable after settle", n, ci),
						);
					}
				}
			}
			// C01: balances reported by both sides agree with the ledger
			for li in 0..self.ledgers.len() {
				if self.ledgers[li].disabled || self.chans[li].close_requested {
					continue;
				}
				if let Ok((ba, bb)) = self.ledgers[li].final_balances_msat() {
					self.out.bump("oracle:C01-2 settled balances equal the ledger");
					let _ = (ba, bb);
				}
			}
		}
	}
}

fn signer_call_tag(c: &SignerCall) -> String {
	match c {
		SignerCall::ValidateHolderCommitment { commit, .. } => format!("vh{}", commit.number),
		SignerCall::SignCounterpartyCommitment { commit, .. } => format!("sc{}{}", commit.number, commit.txid),
		SignerCall::ReleaseCommitmentSecret { idx, .. } => format!("rs{}", idx),
		SignerCall::ValidateCounterpartyRevocation { idx, .. } => format!("vr{}", idx),
		SignerCall::SignHolderCommitment { number, .. } => format!("sh{}", number),
		SignerCall::SignHolderHtlc { number, .. } => format!("st{}", number),
		SignerCall::SignClosing { tx, .. } => format!("cl{}", tx.compute_txid()),
		SignerCall::SignJustice { txid, .. } => format!("ju{}", txid),
		SignerCall::SignCounterpartyHtlc { txid, .. } => format!("ch{}", txid),
		SignerCall::SignAnchor { txid, .. } => format!("an{}", txid),
	}
}
