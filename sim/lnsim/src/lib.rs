//! lnsim: deterministic simulation of a small Lightning network built from the real
//! `ChannelManager` / `ChainMonitor` / `ChannelMonitor` code, with the simulator owning message
//! delivery, persistence, the chain, time, and crashes.

pub mod chain;
pub mod crash;
pub mod infra;
pub mod ledger;
pub mod onchain;
pub mod oracle;
pub mod sched;
pub mod world;

use serde_json::Value;
use simcore::{Rng, RunOutcome, Sim, Tier};
use world::{Action, Config, World};

pub struct LnSim;

fn run_world(mut wd: World, mut rng: Option<Rng>, trace: Option<Vec<Action>>, seed: u64) -> RunOutcome {
	wd.out.seed = seed;
	wd.setup();
	match trace {
		Some(actions) => {
			for a in actions.iter() {
				if wd.dead {
					break;
				}
				wd.apply(a);
			}
		},
		None => {
			let rng = rng.as_mut().unwrap();
			let mut sched = rng.fork("schedule");
			let max = wd.cfg.max_steps;
			let mut idle = 0;
			while (wd.trace.len() as u64) < max && !wd.dead && idle < 50 {
				match sched::next_action(&wd, &mut sched) {
					Some(a) => {
						if wd.apply(&a) {
							idle = 0;
						} else {
							idle += 1;
						}
					},
					None => break,
				}
			}
			if !wd.dead {
				wd.apply(&Action::Settle);
			}
			if !wd.dead && !wd.strict_offchain {
				wd.apply(&Action::Liquidate);
			}
		},
	}
	if !wd.dead && matches!(wd.trace.last(), Some(&Action::Settle) | Some(&Action::Liquidate)) {
		wd.final_oracles();
		if wd.trace.last() == Some(&Action::Liquidate) {
			wd.wealth_oracle(&[]);
		}
	}
	let progressed = wd.out.counters.get("event:PaymentSent").copied().unwrap_or(0)
		+ wd.out.counters.get("event:PaymentFailed").copied().unwrap_or(0)
		+ wd.out.counters.iter().filter(|(k, _)| k.starts_with("fault:")).map(|(_, v)| *v).sum::<u64>();
	wd.out.nontrivial = progressed > 0;
	wd.finish()
}

impl Sim for LnSim {
	fn name(&self) -> &'static str {
		"lnsim"
	}

	fn run(&self, profile: &str, seed: u64, tier: Tier) -> RunOutcome {
		let mut rng = Rng::new(seed);
		let cfg = sched::gen_config(profile, &mut rng, tier);
		let wd = World::new(cfg);
		run_world(wd, Some(rng), None, seed)
	}

	fn replay(&self, replay: &Value) -> RunOutcome {
		let cfg: Config = match serde_json::from_value(replay["config"].clone()) {
			Ok(c) => c,
			Err(e) => {
				let mut o = RunOutcome::default();
				o.harness_errors.push(format!("bad replay config: {}", e));
				return o;
			},
		};
		let trace: Vec<Action> = match serde_json::from_value(replay["trace"].clone()) {
			Ok(t) => t,
			Err(e) => {
				let mut o = RunOutcome::default();
				o.harness_errors.push(format!("bad replay trace: {}", e));
				return o;
			},
		};
		let wd = World::new(cfg);
		run_world(wd, None, Some(trace), 0)
	}

	fn components(&self) -> (Vec<String>, Vec<String>) {
		(
			vec![
				"ChannelManager".into(),
				"Channel state machine".into(),
				"ChannelMonitor".into(),
				"ChainMonitor".into(),
				"OnchainTxHandler / packages".into(),
				"KeysManager + InMemorySigner (inside LDK's policy-enforcing TestChannelSigner)".into(),
				"onion construction and peeling".into(),
				"OutboundPayments / inbound_payment".into(),
				"message (de)serialisation on every simulated wire hop".into(),
				"libsecp256k1".into(),
				"libbitcoinconsensus (script verification of every relayed transaction)".into(),
			],
			vec![
				"peer transport (per-direction FIFO queues owned by the scheduler)".into(),
				"chainmonitor::Persist (SimPersister: durable / in-flight blobs)".into(),
				"BroadcasterInterface (outbox relayed by the scheduler)".into(),
				"FeeEstimator".into(),
				"block chain, mempool and miner (ChainModel)".into(),
				"chain::Filter".into(),
				"Router (routes are built from the simulated topology)".into(),
				"application / event handler policy".into(),
				"Logger".into(),
			],
		)
	}
}
