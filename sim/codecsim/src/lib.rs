//! codecsim — deterministic simulation of the *stream seam* of LDK's peer-message codecs (C13).
//!
//! Each peer message type of `lightning::ln::msgs` is one node. A run is a seeded sequence of
//! `(message value, fault plan)` actions. The simulator owns the byte stream the real decoders read
//! from: a `FaultyReader` (chunked delivery, EOF / io::Error at an offset, byte mutations, trailing
//! bytes, rewritten length prefixes) wrapped in LDK's own `FixedLengthReader`, exactly how frames are
//! decoded in `ln::wire::do_read` (`LengthReadable::read_from_fixed_length_buffer`). Oracles compare
//! with a small structural model of the BOLT layouts (`msgs.rs`, `tlvmodel.rs`). See DESIGN.md §5 C13.

pub mod allocguard;
pub mod engine;
pub mod gen;
pub mod msgs;
pub mod reader;
pub mod sched;
pub mod tlvmodel;

use engine::{Action, Env};
use serde_json::Value;
use simcore::{Rng, RunOutcome, Sim, Tier};

pub struct CodecSim;

pub const PROFILES: &[&str] = &["stream", "ioskip"];

impl Sim for CodecSim {
	fn name(&self) -> &'static str {
		"codecsim"
	}

	fn run(&self, profile: &str, seed: u64, tier: Tier) -> RunOutcome {
		let mut rng = Rng::new(seed);
		let cfg = sched::gen_config(profile, &mut rng, tier);
		let mut env = Env::new(profile, seed);
		let mut sch = rng.fork("schedule");
		let mut attempts = 0u32;
		while (env.trace.len() as u32) < cfg.cases && attempts < cfg.cases * 6 && env.out.violations.is_empty() {
			attempts += 1;
			let a = sched::next_action(&cfg, &mut sch);
			env.apply(&a);
		}
		env.finish(serde_json::to_value(&cfg).unwrap(), profile)
	}

	fn replay(&self, replay: &Value) -> RunOutcome {
		let profile = replay["profile"].as_str().unwrap_or("stream").to_string();
		let trace: Vec<Action> = match serde_json::from_value(replay["trace"].clone()) {
			Ok(t) => t,
			Err(e) => {
				let mut o = RunOutcome::default();
				o.harness_errors.push(format!("bad replay trace: {}", e));
				return o;
			},
		};
		let mut env = Env::new(&profile, replay["seed"].as_u64().unwrap_or(0));
		for a in trace.iter() {
			env.apply(a);
		}
		env.finish(replay["config"].clone(), &profile)
	}

	fn components(&self) -> (Vec<String>, Vec<String>) {
		(
			vec![
				"lightning::ln::msgs: Writeable + LengthReadable codecs of 50 peer message types (hand-written and impl_writeable_msg!)".into(),
				"lightning::util::ser: FixedLengthReader, LengthLimitedRead, ReadTrackingReader, BigSize, CollectionLength, WithoutLength, Vec/Option/tuple/primitive codecs".into(),
				"lightning::util::ser_macros: encode_tlv_stream! / _decode_tlv_stream_range! (TLV ordering, unknown odd/even rule, length checks)".into(),
				"lightning-types features codecs; SocketAddress, Hostname, NodeId, OnionPacket, onion_message::packet::Packet, BlindedMessagePath, AttributionData codecs".into(),
				"rust-bitcoin consensus codecs reached through TxAddInput / TxSignatures; libsecp256k1 key and signature parsing".into(),
			],
			vec![
				"the byte stream under the decoder (FaultyReader: chunking, EOF, io::Error, mutation, extension; counts requested offsets)".into(),
				"frame length declaration (the value handed to FixedLengthReader::new, normally taken from the transport header)".into(),
				"message values (seeded generators through public struct fields; two types with pub(crate) fields are built from hand-laid-out bytes)".into(),
				"type dispatch (wire::read is pub(crate); each type's own LengthReadable impl is called directly; dispatch is C13-7 in transportsim)".into(),
			],
		)
	}
}

#[cfg(test)]
mod tests {
	use crate::engine::{Action, Env, Val};
	use crate::reader::Chunking;
	use crate::sched::{HAS_PREFIX, HAS_RANGE_BYTE};

	/// Every type builds, encodes, matches its layout model and round-trips for a few seeds; the
	/// scheduler's static hints agree with the models.
	#[test]
	fn all_types_clean() {
		simcore::runner::install_panic_hook();
		for ty in 0..crate::msgs::NUM_TYPES {
			for s in 0..40u64 {
				let mut env = Env::new("stream", 0);
				let v = Val { ty, vseed: s * 7919 + ty as u64, big: s % 5 == 0 };
				assert!(env.apply(&Action::Clean { v, chunk: Chunking::Random { seed: s, max: 7 }, slack: 9 }));
				let (inf, bad) = (
					env.apply(&Action::Inflate { v, which: 0, plus_one: false, chunk: Chunking::All }),
					env.apply(&Action::BadByte { v, which: 0, chunk: Chunking::All }),
				);
				let o = env.finish(serde_json::Value::Null, "stream");
				assert!(o.violations.is_empty() && o.harness_errors.is_empty(), "{:?} {:?}", o.violations, o.harness_errors);
				if inf {
					assert!(HAS_PREFIX.contains(&ty), "type {} has a prefix", ty);
				}
				if bad {
					assert!(HAS_RANGE_BYTE.contains(&ty), "type {} has a range byte", ty);
				}
			}
		}
	}
}

#[cfg(test)]
mod harvest_tests {
	use crate::engine::{harvested, wire_types, Env};
	use crate::reader::Chunking;

	#[test]
	fn wire_type_table_and_harvest() {
		simcore::runner::install_panic_hook();
		let t = wire_types();
		assert_eq!(t.len(), crate::msgs::NUM_TYPES as usize);
		assert_eq!(t[0], 16); // init
		assert_eq!(t[3], 18); // ping
		assert_eq!(t[30], 128); // update_add_htlc
		let mut sorted = t.clone();
		sorted.sort();
		sorted.dedup();
		assert_eq!(sorted.len(), t.len());
		// a ping with 2 padding bytes: num_pong_bytes=1, byteslen=2, 00 00
		let a = harvested(18, &[0, 1, 0, 2, 0, 0], Chunking::One).unwrap();
		let mut env = Env::new("stream", 0);
		assert!(env.apply(&a));
		let o = env.finish(serde_json::Value::Null, "stream");
		assert!(o.violations.is_empty(), "{:?}", o.violations);
		// a ping that promises 3 padding bytes but carries 2 does not decode
		let a = harvested(18, &[0, 1, 0, 3, 0, 0], Chunking::All).unwrap();
		let mut env = Env::new("stream", 0);
		env.apply(&a);
		let o = env.finish(serde_json::Value::Null, "stream");
		assert_eq!(o.violations.len(), 1);
		assert!(harvested(12345, &[], Chunking::All).is_none());
	}
}
