//! Executes a workload against the real store under a shuttle scheduler and records the
//! invocation/response history.

use crate::model::{kind_of, value_of, Action, Config};
use lightning::util::persist::KVStoreSync;
use lightning_persister::fs_store::v1::FilesystemStore;
use lightning_persister::fs_store::v2::FilesystemStoreV2;
use lightning_persister::verif::{self, Fault, VerifPrepared, INJECTED, SITES};
use shuttle::scheduler::{PctScheduler, RandomScheduler, ReplayScheduler, Schedule, Scheduler, Task, TaskId};
use simcore::runner::catch;
use std::collections::BTreeMap;
use std::path::PathBuf;
use std::sync::atomic::{AtomicU64, Ordering};
use std::sync::{Arc, Mutex};

/// Thread index used for the sequential final phase (run by the main shuttle thread).
pub const MAIN: usize = 99;

#[derive(Clone, Debug, PartialEq, Eq)]
pub enum Outcome {
	/// the operation did not return (its thread stopped after a panic elsewhere, or it panicked)
	Pending,
	Done,
	Value(Vec<u8>),
	NotFound,
	Keys(Vec<String>),
	/// returned an injected error of this kind
	Injected(String),
	/// returned an error nobody injected
	Error(String),
	Panicked,
}

#[derive(Clone, Debug)]
pub struct OpRec {
	pub a: Action,
	/// stamp taken before the (first) call into the store
	pub inv: u64,
	/// for two-phase operations: stamp taken after `verif_prepare_*` returned
	pub issued: Option<u64>,
	/// stamp taken after the store call (for two-phase operations: `execute`) returned
	pub res: Option<u64>,
	pub outcome: Outcome,
	/// version taken by a two-phase operation (diagnostics only)
	pub version: Option<u64>,
}

#[derive(Default)]
struct Hist {
	stamp: u64,
	ops: BTreeMap<u32, OpRec>,
	/// (stamp, what, op id, thread): what = 0 invoke, 1 issued, 2 response
	order: Vec<(u64, u8, u32, usize)>,
	panics: Vec<(u32, String, String)>,
}

impl Hist {
	fn tick(&mut self, what: u8, id: u32, t: usize) -> u64 {
		self.stamp += 1;
		self.order.push((self.stamp, what, id, t));
		self.stamp
	}
}

/// What one execution (one schedule) produced.
#[derive(Clone, Debug, Default)]
pub struct ExecResult {
	pub ops: Vec<OpRec>,
	pub order: Vec<(u64, u8, u32, usize)>,
	pub panics: Vec<(u32, String, String)>,
	pub fired: Vec<(String, u32, String)>,
	pub fs_points: u64,
	pub lock_map_size: Option<usize>,
	pub leftover_tmp: usize,
	pub schedule: String,
	pub schedule_len: usize,
	/// the shuttle runner itself panicked (deadlock, step bound, harness bug)
	pub runner_panic: Option<(String, String)>,
	pub completed: bool,
}

enum Store {
	V1(FilesystemStore),
	V2(FilesystemStoreV2),
}

impl Store {
	fn kv(&self) -> &dyn KVStoreSync {
		match self {
			Store::V1(s) => s,
			Store::V2(s) => s,
		}
	}
	fn prep_write(&self, p: &str, s: &str, k: &str, buf: Vec<u8>) -> Result<VerifPrepared, lightning::io::Error> {
		match self {
			Store::V1(st) => st.verif_prepare_write(p, s, k, buf),
			Store::V2(st) => st.verif_prepare_write(p, s, k, buf),
		}
	}
	fn prep_remove(&self, p: &str, s: &str, k: &str, lazy: bool) -> Result<VerifPrepared, lightning::io::Error> {
		match self {
			Store::V1(st) => st.verif_prepare_remove(p, s, k, lazy),
			Store::V2(st) => st.verif_prepare_remove(p, s, k, lazy),
		}
	}
	fn state_size(&self) -> usize {
		match self {
			Store::V1(st) => st.verif_state_size(),
			Store::V2(st) => st.verif_state_size(),
		}
	}
}

/// Per-execution scratch directory, removed on drop.
struct Scratch {
	root: PathBuf,
}

static SCRATCH_SEQ: AtomicU64 = AtomicU64::new(0);

impl Scratch {
	fn new(tag: u64) -> Scratch {
		let base = std::env::var("VERIF_TMP").ok().filter(|s| !s.is_empty()).unwrap_or_else(|| {
			if std::path::Path::new("/dev/shm").is_dir() {
				"/dev/shm".to_string()
			} else {
				std::env::temp_dir().to_string_lossy().to_string()
			}
		});
		let n = SCRATCH_SEQ.fetch_add(1, Ordering::Relaxed);
		let root =
			PathBuf::from(base).join(format!("storesim-{}-{:016x}-{}", std::process::id(), tag, n));
		let _ = std::fs::remove_dir_all(&root);
		std::fs::create_dir_all(&root).expect("create scratch directory");
		Scratch { root }
	}
	fn data(&self) -> PathBuf {
		self.root.join("data")
	}
}

impl Drop for Scratch {
	fn drop(&mut self) {
		let _ = std::fs::remove_dir_all(&self.root);
	}
}

fn classify_err(e: &lightning::io::Error) -> Outcome {
	let s = e.to_string();
	if s.contains(INJECTED) {
		Outcome::Injected(format!("{:?}", e.kind()))
	} else {
		Outcome::Error(format!("{:?}: {}", e.kind(), s))
	}
}

type Shared = Arc<Mutex<Hist>>;

fn begin(h: &Shared, a: &Action) {
	let mut h = h.lock().unwrap();
	let inv = h.tick(0, a.id, a.t);
	h.ops.insert(
		a.id,
		OpRec { a: a.clone(), inv, issued: None, res: None, outcome: Outcome::Pending, version: None },
	);
}

fn finish(h: &Shared, a: &Action, t: usize, outcome: Outcome) {
	let mut h = h.lock().unwrap();
	let res = h.tick(2, a.id, t);
	let r = h.ops.get_mut(&a.id).expect("op began");
	r.res = Some(res);
	r.outcome = outcome;
}

fn panicked(h: &Shared, a: &Action, t: usize, p: (String, String)) {
	let mut hh = h.lock().unwrap();
	hh.panics.push((a.id, p.0, p.1));
	let res = hh.tick(2, a.id, t);
	let r = hh.ops.get_mut(&a.id).expect("op began");
	r.res = Some(res);
	r.outcome = Outcome::Panicked;
}

/// Executes one synchronous operation. Returns false if the thread must stop (library panic).
fn run_sync(store: &Store, cfg: &Config, a: &Action, h: &Shared) -> bool {
	let (p, s) = match cfg.namespaces.get(a.ns) {
		Some(x) => (x.0.as_str(), x.1.as_str()),
		None => return true,
	};
	let key = match cfg.keys.get(a.key) {
		Some(k) => k.as_str(),
		None => return true,
	};
	begin(h, a);
	let r = match a.op.as_str() {
		"write" => {
			let buf = value_of(a.id, a.len);
			catch(|| store.kv().write(p, s, key, buf)).map(|r| match r {
				Ok(()) => Outcome::Done,
				Err(e) => classify_err(&e),
			})
		},
		"read" => {
			catch(|| store.kv().read(p, s, key)).map(|r| match r {
				Ok(v) => Outcome::Value(v),
				Err(e) if e.kind() == lightning::io::ErrorKind::NotFound && !e.to_string().contains(INJECTED) => {
					Outcome::NotFound
				},
				Err(e) => classify_err(&e),
			})
		},
		"remove" => catch(|| store.kv().remove(p, s, key, a.lazy)).map(|r| match r {
			Ok(()) => Outcome::Done,
			Err(e) => classify_err(&e),
		}),
		"list" => catch(|| store.kv().list(p, s)).map(|r| match r {
			Ok(mut v) => {
				v.sort();
				Outcome::Keys(v)
			},
			Err(e) => classify_err(&e),
		}),
		_ => Ok(Outcome::Done),
	};
	match r {
		Ok(o) => {
			finish(h, a, a.t, o);
			true
		},
		Err(p) => {
			panicked(h, a, a.t, p);
			false
		},
	}
}

/// Phase 1 of a two-phase operation, by the issuer; phase 2 is handed to a fresh shuttle thread,
/// exactly as `write_async`/`remove_async` hand their closure to `spawn_blocking`.
fn run_prepare(
	store: &Arc<Store>, cfg: &Config, a: &Action, h: &Shared,
	execs: &Arc<Mutex<Vec<shuttle::thread::JoinHandle<()>>>>, n_exec: &mut usize,
) -> bool {
	let (p, s) = match cfg.namespaces.get(a.ns) {
		Some(x) => (x.0.as_str(), x.1.as_str()),
		None => return true,
	};
	let key = match cfg.keys.get(a.key) {
		Some(k) => k.as_str(),
		None => return true,
	};
	begin(h, a);
	let prep = if a.op == "prep_write" {
		let buf = value_of(a.id, a.len);
		catch(|| store.prep_write(p, s, key, buf))
	} else {
		catch(|| store.prep_remove(p, s, key, a.lazy))
	};
	let prepared = match prep {
		Ok(Ok(pr)) => pr,
		Ok(Err(e)) => {
			finish(h, a, a.t, classify_err(&e));
			return true;
		},
		Err(pn) => {
			panicked(h, a, a.t, pn);
			return false;
		},
	};
	{
		let mut hh = h.lock().unwrap();
		let st = hh.tick(1, a.id, a.t);
		let r = hh.ops.get_mut(&a.id).expect("op began");
		r.issued = Some(st);
		r.version = Some(prepared.version());
	}
	*n_exec += 1;
	let exec_t = 10 + *n_exec; // thread label of the executor, for the interleaving hash
	let h2 = Arc::clone(h);
	let a2 = a.clone();
	let jh = shuttle::thread::spawn(move || match catch(move || prepared.execute()) {
		Ok(Ok(())) => finish(&h2, &a2, exec_t, Outcome::Done),
		Ok(Err(e)) => finish(&h2, &a2, exec_t, classify_err(&e)),
		Err(pn) => panicked(&h2, &a2, exec_t, pn),
	});
	execs.lock().unwrap().push(jh);
	true
}

/// Records every scheduling decision so that the execution can be replayed with
/// `ReplayScheduler` (the same encoding `FailurePersistence` would print).
struct Recording {
	inner: Box<dyn Scheduler>,
	log: Arc<Mutex<Vec<Schedule>>>,
}

impl Scheduler for Recording {
	fn new_execution(&mut self) -> Option<Schedule> {
		let s = self.inner.new_execution()?;
		self.log.lock().unwrap().push(Schedule::new(s.seed));
		Some(s)
	}
	fn next_task(&mut self, runnable: &[&Task], current: Option<TaskId>, is_yielding: bool) -> Option<TaskId> {
		let r = self.inner.next_task(runnable, current, is_yielding);
		if let Some(t) = r {
			if let Some(s) = self.log.lock().unwrap().last_mut() {
				s.push_task(t);
			}
		}
		r
	}
	fn next_u64(&mut self) -> u64 {
		if let Some(s) = self.log.lock().unwrap().last_mut() {
			s.push_random();
		}
		self.inner.next_u64()
	}
}

pub enum SchedChoice {
	/// `RandomScheduler::new_from_seed(seed, 1)`: one execution
	Random(u64),
	/// `PctScheduler::new_from_seed(seed, 3, 2)`: shuttle's PCT spends its first execution on an
	/// oldest-task-first calibration pass (a sequential schedule), the second is the PCT schedule
	Pct(u64),
	/// `ReplayScheduler` over a recorded schedule string
	Replay(String),
}

fn static_site(s: &str) -> Option<&'static str> {
	SITES.iter().copied().find(|x| *x == s)
}

/// Runs the workload once per execution the scheduler asks for. `tag` only names the scratch dir.
pub fn execute(cfg: &Config, actions: &[Action], sched: SchedChoice, tag: u64) -> Vec<ExecResult> {
	let threads = cfg.threads.max(1);
	let mut programs: Vec<Vec<Action>> = vec![Vec::new(); threads];
	for a in actions {
		// actions of threads that do not exist are not enabled: skipped
		if a.t < threads {
			programs[a.t].push(a.clone());
		}
	}
	let programs = Arc::new(programs);
	let cfg = Arc::new(cfg.clone());
	let plan: Vec<Fault> = cfg
		.faults
		.iter()
		.filter_map(|f| static_site(&f.site).map(|site| Fault { site, nth: f.nth, kind: kind_of(&f.kind) }))
		.collect();

	let results: Arc<Mutex<Vec<ExecResult>>> = Arc::new(Mutex::new(Vec::new()));
	let log: Arc<Mutex<Vec<Schedule>>> = Arc::new(Mutex::new(Vec::new()));
	let inner: Box<dyn Scheduler> = match &sched {
		SchedChoice::Random(seed) => Box::new(RandomScheduler::new_from_seed(*seed, 1)),
		SchedChoice::Pct(seed) => Box::new(PctScheduler::new_from_seed(*seed, 3, 2)),
		SchedChoice::Replay(s) => match shuttle_engine::scheduler::serialization::deserialize_schedule(s) {
			Some(sch) => Box::new(ReplayScheduler::new_from_schedule(sch)),
			None => {
				let mut r = ExecResult::default();
				r.runner_panic = Some(("invalid schedule string".to_string(), "replay".to_string()));
				return vec![r];
			},
		},
	};
	let recording = Recording { inner, log: Arc::clone(&log) };

	let mut sc = shuttle::Config::new();
	sc.stack_size = 512 << 10;
	sc.failure_persistence = shuttle::FailurePersistence::None;
	sc.silence_warnings = true;
	sc.max_steps = shuttle::MaxSteps::FailAfter(200_000);
	let runner = shuttle::Runner::new(recording, sc);

	// Partial histories survive a runner panic (deadlock): the body publishes them here first.
	let current: Arc<Mutex<Option<Shared>>> = Arc::new(Mutex::new(None));
	// Scratch directories of executions that never got to drop theirs (runner panic).
	let roots: Arc<Mutex<Vec<PathBuf>>> = Arc::new(Mutex::new(Vec::new()));
	let roots_b = Arc::clone(&roots);

	let results_b = Arc::clone(&results);
	let current_b = Arc::clone(&current);
	let body = move || {
		verif::install(plan.clone());
		let scratch = Scratch::new(tag);
		roots_b.lock().unwrap().push(scratch.root.clone());
		let h: Shared = Arc::new(Mutex::new(Hist::default()));
		*current_b.lock().unwrap() = Some(Arc::clone(&h));
		let store = match cfg.store.as_str() {
			"v2" => match catch(|| FilesystemStoreV2::new(scratch.data())) {
				Ok(Ok(s)) => Store::V2(s),
				Ok(Err(e)) => {
					h.lock().unwrap().panics.push((0, format!("FilesystemStoreV2::new failed: {}", e), "new".into()));
					return;
				},
				Err(p) => {
					h.lock().unwrap().panics.push((0, p.0, p.1));
					return;
				},
			},
			_ => Store::V1(FilesystemStore::new(scratch.data())),
		};
		let store = Arc::new(store);
		let execs: Arc<Mutex<Vec<shuttle::thread::JoinHandle<()>>>> = Arc::new(Mutex::new(Vec::new()));
		let mut handles = Vec::new();
		for t in 0..programs.len() {
			let (store, cfg, h, execs, programs) =
				(Arc::clone(&store), Arc::clone(&cfg), Arc::clone(&h), Arc::clone(&execs), Arc::clone(&programs));
			handles.push(shuttle::thread::spawn(move || {
				let mut n_exec = t * 100;
				for a in programs[t].iter() {
					let go = if a.is_prepared() {
						// two-phase operations are enabled on the issuer thread only
						if t != 0 {
							continue;
						}
						run_prepare(&store, &cfg, a, &h, &execs, &mut n_exec)
					} else {
						run_sync(&store, &cfg, a, &h)
					};
					if !go {
						break;
					}
				}
			}));
		}
		for jh in handles {
			let _ = jh.join();
		}
		loop {
			let jh = execs.lock().unwrap().pop();
			match jh {
				Some(jh) => {
					let _ = jh.join();
				},
				None => break,
			}
		}
		// Quiescence. No faults from here on.
		let (fired, fs_points) = verif::report();
		verif::install(Vec::new());
		let had_panic = !h.lock().unwrap().panics.is_empty();
		let mut lock_map_size = None;
		if !had_panic {
			lock_map_size = catch(|| store.state_size()).ok();
			let mut id = 10_000u32;
			'fin: for ns in 0..cfg.namespaces.len() {
				for key in 0..cfg.keys.len() {
					id += 1;
					let a = Action { t: MAIN, id, op: "read".into(), ns, key, len: 0, lazy: false };
					if !run_sync(&store, &cfg, &a, &h) {
						break 'fin;
					}
				}
				id += 1;
				let a = Action { t: MAIN, id, op: "list".into(), ns, key: 0, len: 0, lazy: false };
				if !run_sync(&store, &cfg, &a, &h) {
					break 'fin;
				}
			}
		}
		// Raw scan of the data directory (not through the store): temporary files left behind.
		let mut leftover_tmp = 0;
		let mut stack = vec![scratch.data()];
		while let Some(d) = stack.pop() {
			if let Ok(rd) = std::fs::read_dir(&d) {
				for e in rd.flatten() {
					let p = e.path();
					if p.is_dir() {
						stack.push(p);
					} else if p.extension().and_then(|x| x.to_str()) == Some("tmp") {
						leftover_tmp += 1;
					}
				}
			}
		}
		let hh = h.lock().unwrap();
		let mut r = ExecResult::default();
		r.ops = hh.ops.values().cloned().collect();
		r.order = hh.order.clone();
		r.panics = hh.panics.clone();
		r.fired = fired.iter().map(|f| (f.site.to_string(), f.nth, format!("{:?}", f.kind))).collect();
		r.fs_points = fs_points;
		r.lock_map_size = lock_map_size;
		r.leftover_tmp = leftover_tmp;
		r.completed = true;
		drop(hh);
		*current_b.lock().unwrap() = None;
		results_b.lock().unwrap().push(r);
		drop(store);
		drop(scratch);
	};

	let run = catch(move || {
		runner.run(body);
	});
	for r in roots.lock().unwrap().iter() {
		let _ = std::fs::remove_dir_all(r);
	}
	let mut out = std::mem::take(&mut *results.lock().unwrap());
	if let Err(p) = run {
		// The runner died in the middle of an execution: keep what was recorded.
		let mut r = ExecResult::default();
		if let Some(h) = current.lock().unwrap().take() {
			if let Ok(hh) = h.lock() {
				r.ops = hh.ops.values().cloned().collect();
				r.order = hh.order.clone();
				r.panics = hh.panics.clone();
			}
		}
		r.runner_panic = Some(p);
		out.push(r);
	}
	let log = log.lock().unwrap();
	for (i, r) in out.iter_mut().enumerate() {
		if let Some(s) = log.get(i) {
			r.schedule = shuttle_engine::scheduler::serialization::serialize_schedule(s);
			r.schedule_len = s.len();
		}
	}
	out
}
