//! A counting allocator wrapper. It is NOT installed by this library: a binary that wants the
//! C13-3 "bounded allocation" oracle to be evaluated opts in with
//!
//! ```ignore
//! #[global_allocator]
//! static A: codecsim::allocguard::Guard = codecsim::allocguard::Guard;
//! ```
//!
//! When no binary installs it, `installed()` stays false and the oracle is skipped (and its
//! `oracle:` counter stays at zero, so evidence shows that it did not run). Counters are
//! per-thread (each simulated run executes in its own thread), const-initialised thread locals
//! without destructors, so using them from inside the allocator is sound.

use std::alloc::{GlobalAlloc, Layout, System};
use std::cell::Cell;
use std::sync::atomic::{AtomicBool, Ordering};

pub struct Guard;

static INSTALLED: AtomicBool = AtomicBool::new(false);

thread_local! {
	static CUR: Cell<usize> = const { Cell::new(0) };
	static PEAK: Cell<usize> = const { Cell::new(0) };
	static MAX_ONE: Cell<usize> = const { Cell::new(0) };
}

#[inline]
fn on_alloc(sz: usize) {
	// `try_with`: thread-locals may be gone during thread teardown.
	let _ = CUR.try_with(|c| {
		let v = c.get().wrapping_add(sz);
		c.set(v);
		let _ = PEAK.try_with(|p| {
			if v > p.get() {
				p.set(v)
			}
		});
	});
	let _ = MAX_ONE.try_with(|m| {
		if sz > m.get() {
			m.set(sz)
		}
	});
}
#[inline]
fn on_free(sz: usize) {
	let _ = CUR.try_with(|c| c.set(c.get().wrapping_sub(sz)));
}

unsafe impl GlobalAlloc for Guard {
	unsafe fn alloc(&self, l: Layout) -> *mut u8 {
		if !INSTALLED.load(Ordering::Relaxed) {
			INSTALLED.store(true, Ordering::Relaxed);
		}
		on_alloc(l.size());
		System.alloc(l)
	}
	unsafe fn dealloc(&self, p: *mut u8, l: Layout) {
		on_free(l.size());
		System.dealloc(p, l)
	}
	unsafe fn alloc_zeroed(&self, l: Layout) -> *mut u8 {
		on_alloc(l.size());
		System.alloc_zeroed(l)
	}
	unsafe fn realloc(&self, p: *mut u8, l: Layout, new: usize) -> *mut u8 {
		on_free(l.size());
		on_alloc(new);
		System.realloc(p, l, new)
	}
}

pub fn installed() -> bool {
	INSTALLED.load(Ordering::Relaxed)
}

/// Starts a measurement window on this thread; returns the baseline.
pub fn begin() -> usize {
	let cur = CUR.with(|c| c.get());
	PEAK.with(|p| p.set(cur));
	MAX_ONE.with(|m| m.set(0));
	cur
}

/// (peak bytes above the baseline, largest single request) since `begin`.
pub fn end(baseline: usize) -> (usize, usize) {
	let peak = PEAK.with(|p| p.get());
	(peak.saturating_sub(baseline), MAX_ONE.with(|m| m.get()))
}
