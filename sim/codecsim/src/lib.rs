//! codecsim: see /verif/DESIGN.md
