//! Batch runner: forks worker processes, aggregates outcomes, shrinks failures, writes replay
//! files and the evidence file, prints the VIOLATION / KNOWN-FINDING lines.

use crate::shrink::shrink;
use crate::{mix, Counters, RunOutcome, Sim, Tier, Violation};
use serde::{Deserialize, Serialize};
use serde_json::{json, Value};
use std::cell::RefCell;
use std::collections::{BTreeMap, BTreeSet, HashSet};
use std::io::{BufRead, BufReader, Write};
use std::panic::{catch_unwind, AssertUnwindSafe};
use std::process::{Command, Stdio};
use std::time::{Duration, Instant};

thread_local! {
	static LAST_PANIC: RefCell<Option<(String, String)>> = RefCell::new(None);
}

/// Records panic message and location per thread, silently (the batch must not be flooded by
/// panics that the simulators catch and turn into violations).
pub fn install_panic_hook() {
	std::panic::set_hook(Box::new(|info| {
		let msg = if let Some(s) = info.payload().downcast_ref::<&str>() {
			s.to_string()
		} else if let Some(s) = info.payload().downcast_ref::<String>() {
			s.clone()
		} else {
			"<non-string panic>".to_string()
		};
		let loc = info
			.location()
			.map(|l| format!("{}:{}", l.file(), l.line()))
			.unwrap_or_else(|| "<unknown>".to_string());
		if std::env::var("VERIF_PANIC_TRACE").is_ok() {
			eprintln!("panic at {}: {}\n{}", loc, msg, std::backtrace::Backtrace::force_capture());
		}
		LAST_PANIC.with(|p| *p.borrow_mut() = Some((msg, loc)));
	}));
}

pub fn take_last_panic() -> Option<(String, String)> {
	LAST_PANIC.with(|p| p.borrow_mut().take())
}

/// Runs `f` under `catch_unwind`; on panic returns `Err((message, location))`.
pub fn catch<T>(f: impl FnOnce() -> T) -> Result<T, (String, String)> {
	match catch_unwind(AssertUnwindSafe(f)) {
		Ok(v) => Ok(v),
		Err(_) => Err(take_last_panic()
			.unwrap_or_else(|| ("<panic>".to_string(), "<unknown>".to_string()))),
	}
}

/// Executes one run in a fresh thread (fresh thread-locals: simulated clock, panic slot) with a
/// large stack. A panic that escapes the simulator is a harness error, not a violation.
pub fn run_isolated<F: FnOnce() -> RunOutcome + Send>(f: F) -> RunOutcome {
	std::thread::scope(|s| {
		let h = std::thread::Builder::new()
			.stack_size(256 << 20)
			.spawn_scoped(s, move || match catch(f) {
				Ok(o) => o,
				Err((msg, loc)) => {
					let mut o = RunOutcome::default();
					o.harness_errors.push(format!("uncaught panic at {}: {}", loc, msg));
					o
				},
			})
			.expect("spawn run thread");
		h.join().unwrap_or_else(|_| {
			let mut o = RunOutcome::default();
			o.harness_errors.push("run thread died".to_string());
			o
		})
	})
}

#[derive(Clone, Debug, Serialize, Deserialize)]
pub struct Job {
	pub sim: String,
	pub profile: String,
	pub runs: u64,
	/// worker executable for sims that live in another cargo workspace (None = this binary)
	#[serde(default)]
	pub exe: Option<String>,
}

/// Everything that defines one registered check (`./check C07 quick`).
#[derive(Clone, Debug)]
pub struct Plan {
	pub property: String,
	pub tier: Tier,
	pub seed: u64,
	pub jobs: Vec<Job>,
	/// evidence `level`
	pub level: String,
	/// evidence `coverage.rule`
	pub rule: String,
	pub assumptions: Vec<String>,
	/// probe counters this property cares about (reported even when zero)
	pub probes: Vec<String>,
	pub exhaustive: bool,
}

#[derive(Clone, Debug, Serialize, Deserialize)]
pub struct KnownFinding {
	pub property: String,
	pub oracle: String,
	/// substring that must occur in the violation message
	#[serde(rename = "match")]
	pub matcher: String,
	pub what: String,
}

#[derive(Clone, Debug, Default, Serialize, Deserialize)]
pub struct KnownFindings {
	#[serde(default)]
	pub findings: Vec<KnownFinding>,
	#[serde(default)]
	pub fixed: Vec<String>,
}

pub fn load_known_findings(verif_dir: &str) -> KnownFindings {
	let p = format!("{}/known_findings.json", verif_dir);
	match std::fs::read_to_string(&p) {
		Ok(s) => serde_json::from_str(&s).unwrap_or_else(|e| {
			eprintln!("HARNESS-ERROR cannot parse {}: {}", p, e);
			std::process::exit(2)
		}),
		Err(_) => KnownFindings::default(),
	}
}

/// Aggregate over all runs of a check.
#[derive(Default)]
pub struct Agg {
	pub runs: u64,
	pub nontrivial: u64,
	pub counters: Counters,
	pub states: HashSet<u64>,
	pub interleavings: HashSet<u64>,
	pub nontrivial_interleavings: HashSet<u64>,
	pub steps: u64,
	pub sim_seconds: u64,
	pub sim_blocks: u64,
	pub samples: Vec<Value>,
	pub failing: Vec<RunOutcome>,
	pub harness_errors: Vec<String>,
	pub foreign: BTreeMap<String, u64>,
	pub per_job: Vec<Value>,
	pub seeds: Vec<u64>,
}

const MAX_STATES: usize = 4_000_000;

impl Agg {
	fn absorb(&mut self, mut o: RunOutcome) {
		self.runs += 1;
		if o.nontrivial {
			self.nontrivial += 1;
			self.nontrivial_interleavings.insert(o.interleaving_fp);
		}
		for (k, v) in o.counters.iter() {
			*self.counters.entry(k.clone()).or_insert(0) += *v;
		}
		if self.states.len() < MAX_STATES {
			for fp in o.state_fps.drain(..) {
				self.states.insert(fp);
			}
		}
		self.interleavings.insert(o.interleaving_fp);
		self.steps += o.steps;
		self.sim_seconds += o.sim_seconds;
		self.sim_blocks += o.sim_blocks;
		if self.seeds.len() < 8 {
			self.seeds.push(o.seed);
		}
		if let Some(s) = o.sample.take() {
			if self.samples.len() < 3 {
				self.samples.push(s);
			}
		}
		for e in o.harness_errors.iter() {
			if self.harness_errors.len() < 20 {
				self.harness_errors.push(format!("seed {} ({}): {}", o.seed, o.profile, e));
			}
		}
		if !o.violations.is_empty() && self.failing.len() < 64 {
			self.failing.push(o);
		}
	}
}

fn worker_count() -> u64 {
	std::env::var("VERIF_JOBS")
		.ok()
		.and_then(|s| s.parse().ok())
		.unwrap_or_else(|| std::thread::available_parallelism().map(|n| n.get() as u64).unwrap_or(4))
}

/// The worker side: runs indices `i ≡ w (mod nw)` of a job and prints one line per run.
pub fn worker_main(sim: &dyn Sim, profile: &str, tier: Tier, seed: u64, w: u64, nw: u64, runs: u64) {
	install_panic_hook();
	let stdout = std::io::stdout();
	let mut i = w;
	while i < runs {
		let run_seed = mix(seed, i);
		{
			let mut so = stdout.lock();
			let _ = writeln!(so, "START {} {}", i, run_seed);
			let _ = so.flush();
		}
		let mut out = run_isolated(|| sim.run(profile, run_seed, tier));
		out.seed = run_seed;
		if out.profile.is_empty() {
			out.profile = profile.to_string();
		}
		if out.violations.is_empty() && out.harness_errors.is_empty() {
			out.replay = None;
		}
		let line = serde_json::to_string(&out).expect("serialise outcome");
		let mut so = stdout.lock();
		let _ = writeln!(so, "RESULT {}", line);
		let _ = so.flush();
		i += nw;
	}
}

fn run_job(exe: &str, job: &Job, tier: Tier, seed: u64, agg: &mut Agg) {
	let nw = worker_count().min(job.runs.max(1));
	let t0 = Instant::now();
	let mut children = Vec::new();
	let exe: &str = job.exe.as_deref().unwrap_or(exe);
	for w in 0..nw {
		let child = Command::new(exe)
			.arg("worker")
			.arg(&job.sim)
			.arg(&job.profile)
			.arg(tier.as_str())
			.arg(seed.to_string())
			.arg(w.to_string())
			.arg(nw.to_string())
			.arg(job.runs.to_string())
			.stdout(Stdio::piped())
			.stderr(Stdio::inherit())
			.spawn()
			.expect("spawn worker");
		children.push(child);
	}
	let (tx, rx) = std::sync::mpsc::channel::<(u64, Result<RunOutcome, String>)>();
	let mut readers = Vec::new();
	for (w, child) in children.iter_mut().enumerate() {
		let out = child.stdout.take().unwrap();
		let tx = tx.clone();
		readers.push(std::thread::spawn(move || {
			let mut current: Option<String> = None;
			for line in BufReader::new(out).lines() {
				let line = match line {
					Ok(l) => l,
					Err(_) => break,
				};
				if let Some(rest) = line.strip_prefix("START ") {
					current = Some(rest.to_string());
				} else if let Some(rest) = line.strip_prefix("RESULT ") {
					current = None;
					match serde_json::from_str::<RunOutcome>(rest) {
						Ok(o) => {
							let _ = tx.send((w as u64, Ok(o)));
						},
						Err(e) => {
							let _ = tx.send((w as u64, Err(format!("bad worker line: {}", e))));
						},
					}
				}
			}
			if let Some(cur) = current {
				let _ = tx.send((
					w as u64,
					Err(format!("worker {} died during run (index seed) {}", w, cur)),
				));
			}
		}));
	}
	drop(tx);
	let before = agg.runs;
	for (_w, res) in rx {
		match res {
			Ok(o) => agg.absorb(o),
			Err(e) => agg.harness_errors.push(e),
		}
	}
	for r in readers {
		let _ = r.join();
	}
	for mut c in children {
		let _ = c.wait();
	}
	let dt = t0.elapsed().as_secs_f64();
	agg.per_job.push(json!({
		"sim": job.sim, "profile": job.profile, "runs_requested": job.runs,
		"runs_done": agg.runs - before, "wall_s": dt, "workers": nw,
	}));
	if agg.runs - before != job.runs {
		agg.harness_errors.push(format!(
			"job {}/{}: {} of {} runs reported",
			job.sim,
			job.profile,
			agg.runs - before,
			job.runs
		));
	}
}

/// Runs a whole check. Returns the process exit code.
pub fn run_check(
	plan: &Plan, lookup: &dyn Fn(&str) -> Option<Box<dyn Sim>>, verif_dir: &str,
) -> i32 {
	install_panic_hook();
	let t0 = Instant::now();
	let exe = std::env::current_exe().expect("current_exe").to_string_lossy().to_string();
	let mut agg = Agg::default();
	println!(
		"verif: property={} tier={} VERIF_SEED={} jobs={}",
		plan.property,
		plan.tier.as_str(),
		plan.seed,
		plan.jobs.iter().map(|j| format!("{}/{}x{}", j.sim, j.profile, j.runs)).collect::<Vec<_>>().join(",")
	);
	for (ji, job) in plan.jobs.iter().enumerate() {
		// each job gets its own sub-seed so that profiles do not share run seeds
		run_job(&exe, job, plan.tier, mix(plan.seed, 0x10000 + ji as u64), &mut agg);
	}

	let known = load_known_findings(verif_dir);
	let mut exit = 0;
	let mut own: Vec<(Violation, RunOutcome)> = Vec::new();
	for o in agg.failing.iter() {
		for v in o.violations.iter() {
			if v.property == plan.property {
				own.push((v.clone(), o.clone()));
			} else {
				*agg.foreign.entry(format!("{} {}", v.property, v.oracle)).or_insert(0) += 1;
				// debugging aid: keep the (unshrunk) replay of runs that tripped another property's oracle
				if std::env::var("VERIF_FOREIGN_REPLAYS").is_ok() {
					if let Some(r) = o.replay.as_ref() {
						let name: String = v.oracle.chars().map(|c| if c.is_alphanumeric() { c } else { '_' }).collect();
						let path = format!("{}/replays/foreign-{}-{}-{}.json", verif_dir, v.property, o.seed, name);
						let doc = serde_json::json!({"property": v.property, "oracle": v.oracle, "message": v.message, "seed": o.seed, "replay": r});
						let _ = std::fs::create_dir_all(format!("{}/replays", verif_dir));
						let _ = std::fs::write(&path, serde_json::to_string_pretty(&doc).unwrap_or_default());
					}
				}
			}
		}
	}
	for (k, n) in agg.foreign.iter() {
		println!("NOTE: {} run(s) tripped an oracle of another property: {} (reported by that property's own check)", n, k);
	}
	// group own violations by oracle, report the first of each (after shrinking)
	let mut reported: BTreeSet<String> = BTreeSet::new();
	let mut known_matched: Vec<String> = Vec::new();
	let mut violation_count = 0;
	let mut min_samples: Vec<Value> = Vec::new();
	let _ = std::fs::create_dir_all(format!("{}/replays", verif_dir));
	for (v, o) in own.iter() {
		if let Some(k) = known.findings.iter().find(|k| {
			k.property == v.property
				&& (k.oracle == v.oracle || k.oracle == "*")
				&& v.message.contains(&k.matcher)
		}) {
			let line = format!("KNOWN-FINDING: property={} {}", k.property, k.what);
			if !known_matched.contains(&line) {
				println!("{}", line);
				known_matched.push(line);
			}
			continue;
		}
		violation_count += 1;
		if !reported.insert(v.oracle.clone()) {
			continue;
		}
		let sim_name = o
			.replay
			.as_ref()
			.and_then(|r| r.get("sim"))
			.and_then(|s| s.as_str())
			.unwrap_or("")
			.to_string();
		let path = format!(
			"{}/replays/{}-{}-{}.json",
			verif_dir,
			plan.property,
			o.seed,
			sanitize(&v.oracle)
		);
		let mut file = json!({
			"property": v.property, "oracle": v.oracle, "message": v.message, "step": v.step,
			"seed": o.seed, "profile": o.profile, "tier": plan.tier.as_str(),
			"replay": o.replay.clone().unwrap_or(Value::Null),
			"minimised": false,
		});
		let external_exe = plan.jobs.iter().find(|j| j.sim == sim_name).and_then(|j| j.exe.clone());
		if let (Some(_), Some(xe)) = (o.replay.as_ref(), external_exe.as_ref()) {
			// the simulation lives in another binary: let it minimise the file in place
			std::fs::write(&path, serde_json::to_string_pretty(&file).unwrap()).expect("write replay");
			let _ = Command::new(xe).arg("shrinkfile").arg(&path).output();
			if let Ok(sf) = std::fs::read_to_string(&path) {
				if let Ok(v) = serde_json::from_str::<Value>(&sf) {
					file = v;
				}
			}
		} else if let (Some(rep), Some(sim)) = (o.replay.as_ref(), lookup(&sim_name)) {
			let budget = Duration::from_secs(
				std::env::var("VERIF_SHRINK_SECS").ok().and_then(|s| s.parse().ok()).unwrap_or(90),
			);
			let orig_len = rep.get("trace").and_then(|t| t.as_array()).map(|a| a.len()).unwrap_or(0);
			let (min, spent) = shrink(sim.as_ref(), rep, &v.property, &v.oracle, budget);
			let min_len = min.get("trace").and_then(|t| t.as_array()).map(|a| a.len()).unwrap_or(0);
			// re-run the minimised trace for its message
			let out = run_isolated(|| sim.replay(&min));
			if let Some(v2) =
				out.violations.iter().find(|x| x.property == v.property && x.oracle == v.oracle)
			{
				file["replay"] = min.clone();
				file["message"] = json!(v2.message);
				file["step"] = json!(v2.step);
				file["minimised"] = json!(true);
				file["shrink"] = json!({"original_actions": orig_len, "minimised_actions": min_len, "replays_spent": spent});
				if min_samples.len() < 2 {
					min_samples.push(json!({"minimised_failing_trace": min.get("trace").cloned().unwrap_or(Value::Null), "oracle": v.oracle, "message": v2.message}));
				}
			}
		}
		std::fs::write(&path, serde_json::to_string_pretty(&file).unwrap()).expect("write replay");
		// Confirm in a fresh process that the file reproduces the violation.
		let confirm_exe = external_exe.clone().unwrap_or_else(|| exe.clone());
		let confirm = Command::new(&confirm_exe).arg("replay").arg(&path).output();
		let confirmed = match confirm {
			Ok(out) => {
				out.status.code() == Some(1)
					&& String::from_utf8_lossy(&out.stdout).contains(&format!("oracle={}", v.oracle))
			},
			Err(_) => false,
		};
		if !confirmed {
			agg.harness_errors.push(format!(
				"replay file {} did not reproduce {} in a fresh process (non-determinism?)",
				path, v.oracle
			));
		}
		println!(
			"VIOLATION property={} replay={} oracle=\"{}\" seed={} message={}",
			v.property,
			path,
			v.oracle,
			o.seed,
			file["message"].as_str().unwrap_or("").replace('\n', " ")
		);
		exit = 1;
	}

	let wall = t0.elapsed().as_secs_f64();
	write_evidence(plan, &agg, wall, violation_count, &known_matched, &min_samples, lookup, verif_dir);
	if !agg.harness_errors.is_empty() {
		for e in agg.harness_errors.iter() {
			println!("HARNESS-ERROR {}", e);
		}
		if exit == 0 {
			exit = 2;
		}
	}
	println!(
		"verif: property={} runs={} nontrivial={} distinct_interleavings={} states={} violations={} wall={:.1}s exit={}",
		plan.property,
		agg.runs,
		agg.nontrivial,
		agg.nontrivial_interleavings.len(),
		agg.states.len(),
		violation_count,
		wall,
		exit
	);
	exit
}

fn sanitize(s: &str) -> String {
	s.chars().map(|c| if c.is_ascii_alphanumeric() || c == '-' { c } else { '_' }).collect()
}

#[allow(clippy::too_many_arguments)]
fn write_evidence(
	plan: &Plan, agg: &Agg, wall: f64, violations: u64, known: &[String], min_samples: &[Value],
	lookup: &dyn Fn(&str) -> Option<Box<dyn Sim>>, verif_dir: &str,
) {
	let mut real: BTreeSet<String> = BTreeSet::new();
	let mut stub: BTreeSet<String> = BTreeSet::new();
	for j in plan.jobs.iter() {
		if let Some(s) = lookup(&j.sim) {
			let (r, st) = s.components();
			real.extend(r);
			stub.extend(st);
		}
	}
	let mut actions = BTreeMap::new();
	let mut faults = BTreeMap::new();
	let mut probes = BTreeMap::new();
	let mut oracles = BTreeMap::new();
	let mut other = BTreeMap::new();
	for p in plan.probes.iter() {
		probes.insert(p.clone(), 0u64);
	}
	for (k, v) in agg.counters.iter() {
		if let Some(r) = k.strip_prefix("action:") {
			actions.insert(r.to_string(), *v);
		} else if let Some(r) = k.strip_prefix("fault:") {
			faults.insert(r.to_string(), *v);
		} else if let Some(r) = k.strip_prefix("probe:") {
			probes.insert(r.to_string(), *v);
		} else if let Some(r) = k.strip_prefix("oracle:") {
			oracles.insert(r.to_string(), *v);
		} else {
			other.insert(k.clone(), *v);
		}
	}
	let zero_probes: Vec<&String> =
		plan.probes.iter().filter(|p| probes.get(*p).copied().unwrap_or(0) == 0).collect();
	let mut samples = agg.samples.clone();
	samples.extend(min_samples.iter().cloned());
	if samples.is_empty() {
		samples.push(json!("no sample recorded"));
	}
	let ev = json!({
		"property_id": plan.property,
		"tier": plan.tier.as_str(),
		"seed": plan.seed,
		"level": plan.level,
		"coverage": {
			"evaluations": agg.runs,
			"distinct_nontrivial": agg.nontrivial_interleavings.len(),
			"rule": plan.rule,
			"samples": samples,
			"exhaustive": plan.exhaustive,
			"nontrivial_runs": agg.nontrivial,
			"distinct_interleavings_all": agg.interleavings.len(),
			"states_distinct": agg.states.len(),
			"steps_total": agg.steps,
			"sim_seconds": agg.sim_seconds,
			"sim_blocks": agg.sim_blocks,
			"runs_per_hour": if wall > 0.0 { (agg.runs as f64 / wall * 3600.0) as u64 } else { 0 },
			"seeds_first": agg.seeds,
			"jobs": agg.per_job,
			"actions_by_kind": actions,
			"faults_fired": faults,
			"probes": probes,
			"probes_at_zero": zero_probes,
			"oracle_evaluations": oracles,
			"other_counters": other,
			"components_real": real,
			"components_stubbed": stub,
			"foreign_violations": agg.foreign,
			"known_findings_matched": known,
			"harness_errors": agg.harness_errors,
		},
		"assumptions": plan.assumptions,
		"wall_s": wall,
		"violations": violations,
	});
	let _ = std::fs::create_dir_all(format!("{}/evidence", verif_dir));
	let path = format!("{}/evidence/{}.json", verif_dir, plan.property);
	std::fs::write(&path, serde_json::to_string_pretty(&ev).unwrap()).expect("write evidence");
}

/// `verif replay <file>`: replays a replay file; exit 1 + VIOLATION line if it (still) fails.
pub fn replay_main(path: &str, lookup: &dyn Fn(&str) -> Option<Box<dyn Sim>>) -> i32 {
	install_panic_hook();
	let s = match std::fs::read_to_string(path) {
		Ok(s) => s,
		Err(e) => {
			println!("HARNESS-ERROR cannot read {}: {}", path, e);
			return 2;
		},
	};
	let file: Value = match serde_json::from_str(&s) {
		Ok(v) => v,
		Err(e) => {
			println!("HARNESS-ERROR cannot parse {}: {}", path, e);
			return 2;
		},
	};
	let rep = &file["replay"];
	let sim_name = rep.get("sim").and_then(|s| s.as_str()).unwrap_or("");
	let sim = match lookup(sim_name) {
		Some(s) => s,
		None => {
			println!("HARNESS-ERROR unknown sim {:?} in {}", sim_name, path);
			return 2;
		},
	};
	let out = run_isolated(|| sim.replay(rep));
	for e in out.harness_errors.iter() {
		println!("HARNESS-ERROR {}", e);
	}
	let mut code = 0;
	for v in out.violations.iter() {
		println!(
			"VIOLATION property={} replay={} oracle={} step={} message={}",
			v.property,
			path,
			v.oracle,
			v.step,
			v.message.replace('\n', " ")
		);
		code = 1;
	}
	if code == 0 {
		println!("replay of {} finished without violation (history_fp={:016x})", path, out.history_fp);
		if !out.harness_errors.is_empty() {
			code = 2;
		}
	}
	code
}


/// `shrinkfile <path>`: minimise a replay file in place (used for sims in other workspaces).
pub fn shrinkfile_main(path: &str, lookup: &dyn Fn(&str) -> Option<Box<dyn Sim>>) -> i32 {
	install_panic_hook();
	let s = match std::fs::read_to_string(path) {
		Ok(s) => s,
		Err(_) => return 2,
	};
	let mut file: Value = match serde_json::from_str(&s) {
		Ok(v) => v,
		Err(_) => return 2,
	};
	let rep = file["replay"].clone();
	let sim_name = rep.get("sim").and_then(|s| s.as_str()).unwrap_or("").to_string();
	let sim = match lookup(&sim_name) {
		Some(s) => s,
		None => return 2,
	};
	let property = file["property"].as_str().unwrap_or("").to_string();
	let oracle = file["oracle"].as_str().unwrap_or("").to_string();
	let budget = Duration::from_secs(
		std::env::var("VERIF_SHRINK_SECS").ok().and_then(|s| s.parse().ok()).unwrap_or(90),
	);
	let orig_len = rep.get("trace").and_then(|t| t.as_array()).map(|a| a.len()).unwrap_or(0);
	let (min, spent) = shrink(sim.as_ref(), &rep, &property, &oracle, budget);
	let min_len = min.get("trace").and_then(|t| t.as_array()).map(|a| a.len()).unwrap_or(0);
	let out = run_isolated(|| sim.replay(&min));
	if let Some(v2) = out.violations.iter().find(|x| x.property == property && x.oracle == oracle) {
		file["replay"] = min;
		file["message"] = json!(v2.message);
		file["step"] = json!(v2.step);
		file["minimised"] = json!(true);
		file["shrink"] = json!({"original_actions": orig_len, "minimised_actions": min_len, "replays_spent": spent});
		let _ = std::fs::write(path, serde_json::to_string_pretty(&file).unwrap());
	}
	0
}

/// Entry point for a worker binary of another workspace: handles `worker`, `replay`, `shrinkfile`.
pub fn serve_main(args: &[String], lookup: &dyn Fn(&str) -> Option<Box<dyn Sim>>) -> i32 {
	match args.get(1).map(|s| s.as_str()) {
		Some("worker") => {
			let sim = match lookup(&args[2]) {
				Some(s) => s,
				None => return 2,
			};
			let tier = Tier::parse(&args[4]).unwrap_or(Tier::Quick);
			worker_main(
				sim.as_ref(),
				&args[3],
				tier,
				args[5].parse().unwrap(),
				args[6].parse().unwrap(),
				args[7].parse().unwrap(),
				args[8].parse().unwrap(),
			);
			0
		},
		Some("replay") => replay_main(&args[2], lookup),
		Some("shrinkfile") => shrinkfile_main(&args[2], lookup),
		_ => 2,
	}
}
