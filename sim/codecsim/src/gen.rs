//! Seeded generators for the primitive building blocks of peer messages. Everything is a pure
//! function of the `Rng` handed in.

use bitcoin::absolute::LockTime;
use bitcoin::constants::ChainHash;
use bitcoin::hashes::Hash;
use bitcoin::secp256k1::ecdsa::Signature;
use bitcoin::secp256k1::{PublicKey, Secp256k1, SecretKey};
use bitcoin::transaction::Version;
use bitcoin::{Amount, OutPoint, ScriptBuf, Sequence, Transaction, TxIn, TxOut, Txid, Witness};
use lightning::ln::msgs::SocketAddress;
use lightning::ln::types::ChannelId;
use lightning::routing::gossip::NodeId;
use lightning::util::ser::Hostname;
use simcore::Rng;
use std::sync::OnceLock;

static KEYS: OnceLock<Vec<PublicKey>> = OnceLock::new();

/// A fixed pool of valid public keys (constant across runs; building keys costs ~30 µs each).
fn key_pool() -> &'static Vec<PublicKey> {
	KEYS.get_or_init(|| {
		let secp = Secp256k1::signing_only();
		(1u8..=32)
			.map(|i| {
				let mut sk = [i; 32];
				sk[0] = 1;
				sk[31] = i.wrapping_mul(7).wrapping_add(1);
				PublicKey::from_secret_key(&secp, &SecretKey::from_slice(&sk).unwrap())
			})
			.collect()
	})
}

pub struct G {
	pub r: Rng,
	/// allow payloads close to the 65 535-byte frame limit
	pub big: bool,
}

impl G {
	pub fn new(seed: u64, big: bool) -> G {
		G { r: Rng::new(seed), big }
	}
	pub fn u8v(&mut self) -> u8 {
		match self.r.below(6) {
			0 => 0,
			1 => 0xff,
			2 => 1,
			_ => self.r.next_u64() as u8,
		}
	}
	pub fn u16v(&mut self) -> u16 {
		match self.r.below(8) {
			0 => 0,
			1 => 0xffff,
			2 => 1,
			3 => 0xfd,
			4 => 0xfc,
			_ => self.r.next_u64() as u16,
		}
	}
	pub fn u32v(&mut self) -> u32 {
		match self.r.below(8) {
			0 => 0,
			1 => u32::MAX,
			2 => 1,
			3 => 0x10000,
			_ => self.r.next_u64() as u32,
		}
	}
	pub fn u64v(&mut self) -> u64 {
		match self.r.below(10) {
			0 => 0,
			1 => u64::MAX,
			2 => 1,
			3 => 0xffff_ffff,
			4 => 0x1_0000_0000,
			5 => 21_000_000_0000_0000_000,
			_ => self.r.next_u64() >> self.r.below(64),
		}
	}
	pub fn i64v(&mut self) -> i64 {
		match self.r.below(8) {
			0 => 0,
			1 => i64::MAX,
			2 => i64::MIN,
			3 => -1,
			_ => self.r.next_u64() as i64,
		}
	}
	pub fn bytes(&mut self, n: usize) -> Vec<u8> {
		let mut v = vec![0u8; n];
		match self.r.below(8) {
			0 => {},
			1 => v.iter_mut().for_each(|b| *b = 0xff),
			_ => self.r.fill(&mut v),
		}
		v
	}
	pub fn arr32(&mut self) -> [u8; 32] {
		let mut a = [0u8; 32];
		a.copy_from_slice(&self.bytes(32));
		a
	}
	/// vector length: 0 / 1 / 2 / small / anywhere up to `max` / exactly `max`
	pub fn vlen(&mut self, max: usize) -> usize {
		let small = max.min(16);
		match self.r.weighted(&[3, 3, 2, 6, if self.big { 2 } else { 0 }, if self.big { 1 } else { 0 }]) {
			0 => 0,
			1 => 1.min(max),
			2 => 2.min(max),
			3 => self.r.range(0, small as u64) as usize,
			4 => self.r.range(0, max as u64) as usize,
			_ => max,
		}
	}
	pub fn coin(&mut self) -> bool {
		self.r.coin()
	}
	pub fn pk(&mut self) -> PublicKey {
		*self.r.pick(key_pool())
	}
	pub fn node_id(&mut self) -> NodeId {
		// NodeId is "any 33 bytes" by design (unvalidated), so both valid keys and junk occur.
		if self.coin() {
			NodeId::from_pubkey(&self.pk())
		} else {
			let mut b = self.bytes(33);
			b[0] = 2 + (b[0] & 1);
			NodeId::from_slice(&b).unwrap()
		}
	}
	pub fn sig(&mut self) -> Signature {
		// any r, s below the group order parse; clearing the top bit guarantees that
		let mut b = [0u8; 64];
		self.r.fill(&mut b);
		b[0] &= 0x7f;
		b[32] &= 0x7f;
		match self.r.below(8) {
			0 => b = [0u8; 64],
			1 => {
				b = [0xffu8; 64];
				b[0] = 0x7f;
				b[32] = 0x7f;
			},
			_ => {},
		}
		Signature::from_compact(&b).expect("r,s < 2^255 always parse")
	}
	pub fn txid(&mut self) -> Txid {
		Txid::from_byte_array(self.arr32())
	}
	pub fn chain_hash(&mut self) -> ChainHash {
		ChainHash::from(self.arr32())
	}
	pub fn channel_id(&mut self) -> ChannelId {
		ChannelId(self.arr32())
	}
	pub fn script(&mut self, max: usize) -> ScriptBuf {
		let n = self.vlen(max);
		ScriptBuf::from(self.bytes(n))
	}
	/// Feature vector: `len` little-endian bytes with a mix of known/unknown, required/optional
	/// bits, possibly with zero high bytes (a non-minimal but legal wire form).
	pub fn feature_bytes(&mut self) -> Vec<u8> {
		let n = match self.r.below(8) {
			0 => 0,
			1 => 1,
			2 => 2,
			3 => 3,
			4 => self.r.range(0, 8) as usize,
			5 => self.r.range(0, 40) as usize,
			6 => {
				if self.big {
					self.r.range(0, 600) as usize
				} else {
					7
				}
			},
			_ => 8,
		};
		let mut v = vec![0u8; n];
		match self.r.below(5) {
			0 => {},
			1 => self.r.fill(&mut v),
			_ => {
				// sparse bits
				let k = self.r.range(0, 6);
				for _ in 0..k {
					if n > 0 {
						let bit = self.r.below((n * 8) as u64) as usize;
						v[bit / 8] |= 1 << (bit % 8);
					}
				}
			},
		}
		v
	}
	pub fn hostname(&mut self) -> Hostname {
		const CH: &[u8] = b"abcdefghijklmnopqrstuvwxyzABCDEFGHIJKLMNOPQRSTUVWXYZ0123456789.-_";
		let n = match self.r.below(6) {
			0 => 0,
			1 => 1,
			2 => 255,
			_ => self.r.range(1, 64) as usize,
		};
		let s: String = (0..n).map(|_| *self.r.pick(CH) as char).collect();
		Hostname::try_from(s).expect("valid hostname alphabet")
	}
	pub fn sockaddr(&mut self) -> SocketAddress {
		match self.r.below(5) {
			0 => {
				let b = self.bytes(4);
				SocketAddress::TcpIpV4 { addr: [b[0], b[1], b[2], b[3]], port: self.u16v() }
			},
			1 => {
				let mut a = [0u8; 16];
				a.copy_from_slice(&self.bytes(16));
				SocketAddress::TcpIpV6 { addr: a, port: self.u16v() }
			},
			2 => {
				let mut a = [0u8; 12];
				a.copy_from_slice(&self.bytes(12));
				SocketAddress::OnionV2(a)
			},
			3 => SocketAddress::OnionV3 {
				ed25519_pubkey: self.arr32(),
				checksum: self.u16v(),
				version: self.u8v(),
				port: self.u16v(),
			},
			_ => SocketAddress::Hostname { hostname: self.hostname(), port: self.u16v() },
		}
	}
	pub fn witness(&mut self, max_items: usize, max_item: usize) -> Witness {
		let n = self.vlen(max_items);
		let items: Vec<Vec<u8>> = (0..n)
			.map(|_| {
				let l = self.vlen(max_item);
				self.bytes(l)
			})
			.collect();
		Witness::from_slice(&items)
	}
	/// A transaction with at least one input and one output (a zero-input transaction has no
	/// unambiguous consensus encoding), small enough for a u16 length prefix.
	pub fn tx(&mut self) -> Transaction {
		let nin = 1 + self.vlen(if self.big { 40 } else { 3 });
		let nout = 1 + self.vlen(if self.big { 40 } else { 3 });
		let segwit = self.coin();
		let input = (0..nin)
			.map(|_| TxIn {
				previous_output: OutPoint { txid: self.txid(), vout: self.u32v() },
				script_sig: self.script(40),
				sequence: Sequence(self.u32v()),
				witness: if segwit { self.witness(4, 80) } else { Witness::new() },
			})
			.collect();
		let output = (0..nout)
			.map(|_| TxOut { value: Amount::from_sat(self.u64v()), script_pubkey: self.script(40) })
			.collect();
		Transaction {
			version: Version(self.r.next_u64() as i32),
			lock_time: LockTime::from_consensus(self.u32v()),
			input,
			output,
		}
	}
	pub fn string(&mut self, max: usize) -> String {
		let n = self.vlen(max);
		let mut s = String::with_capacity(n + 4);
		let multi = self.r.below(3) == 0;
		while s.len() < n {
			if multi && self.r.below(4) == 0 && s.len() + 4 <= n {
				s.push(*self.r.pick(&['é', 'ß', '€', '漢', '🦀', '\u{0}', '\u{7f}']));
			} else {
				s.push((0x20 + self.r.below(0x5f) as u8) as char);
			}
		}
		// a multi-byte char may not fit exactly; pad with ASCII
		while s.len() < n {
			s.push('x');
		}
		s
	}
}
