use blocksyncsim::BlockSyncSim;
use serde_json::Value;
use simcore::{mix, Sim, Tier};

#[test]
fn clean_and_deterministic() {
	for i in 0..60 {
		let seed = mix(1, i);
		let a = BlockSyncSim.run("sync", seed, Tier::Quick);
		assert!(a.violations.is_empty(), "seed {}: {:?}", seed, a.violations);
		assert!(a.harness_errors.is_empty(), "seed {}: {:?}", seed, a.harness_errors);
		let b = BlockSyncSim.run("sync", seed, Tier::Quick);
		assert_eq!(a.history_fp, b.history_fp);
		assert_eq!(a.counters, b.counters);
	}
}

fn load(name: &str) -> Value {
	let p = format!("{}/replays/{}", env!("CARGO_MANIFEST_DIR"), name);
	serde_json::from_str(&std::fs::read_to_string(p).unwrap()).unwrap()
}

fn strip_faults(v: &mut Value) {
	for a in v["trace"].as_array_mut().unwrap().iter_mut() {
		if let Some(p) = a.get_mut("Poll") {
			p["faults"] = Value::Array(vec![]);
		}
	}
}

/// The recorded candidate finding (source metadata accepted unchecked when the parent header comes
/// from the cache) reproduces, and the same traces without the lie are clean.
#[test]
fn candidate_traces() {
	for (name, oracle) in [
		("candidate-tip-height-lie.json", "C20-1 notifications describe one chain"),
		("candidate-tip-chainwork-lie.json", "C20-2 listeners only move to more work"),
		("candidate-fork-chainwork-inflation.json", "C20-2 listeners only move to more work"),
	] {
		let mut rep = load(name);
		let o = BlockSyncSim.replay(&rep);
		assert!(o.violations.iter().any(|v| v.oracle == oracle), "{}: {:?}", name, o.violations);
		strip_faults(&mut rep);
		let o = BlockSyncSim.replay(&rep);
		assert!(o.violations.is_empty() && o.harness_errors.is_empty(), "{}: {:?}", name, o.violations);
	}
}

/// In the default profile the same lies are injected only where the client can check them
/// (the tip header's metadata has nothing to be compared with), so the traces are clean.
#[test]
fn default_profile_gates_unverifiable_lies() {
	for name in ["candidate-tip-height-lie.json", "candidate-tip-chainwork-lie.json"] {
		let mut rep = load(name);
		rep["config"]["allow_tip_lies"] = Value::Bool(false);
		let o = BlockSyncSim.replay(&rep);
		assert!(o.violations.is_empty(), "{}: {:?}", name, o.violations);
	}
}

/// Observation outside the property's stated fault set: dropping the `poll_best_tip` future after
/// it has notified listeners leaves the client's tip behind the listeners; the next poll
/// re-notifies. Without the cancellation the same trace is clean.
#[test]
fn cancelled_poll_observation() {
	let mut rep = load("observation-cancelled-poll.json");
	let o = BlockSyncSim.replay(&rep);
	assert!(o.violations.iter().any(|v| v.oracle == "C20-1 notifications describe one chain"), "{:?}", o.violations);
	for a in rep["trace"].as_array_mut().unwrap().iter_mut() {
		if let Some(p) = a.get_mut("Poll") {
			p["cancel_after"] = Value::Null;
		}
	}
	let o = BlockSyncSim.replay(&rep);
	assert!(o.violations.is_empty() && o.harness_errors.is_empty(), "{:?}", o.violations);
}
