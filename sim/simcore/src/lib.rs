//! simcore: the parts every simulation shares — the single PRNG, run outcomes, the batch runner
//! (worker processes), the trace shrinker, evidence and replay files.
//!
//! Nothing in here reads a clock or draws randomness except `Rng`, which is seeded from
//! `VERIF_SEED` only. Wall-clock is read in exactly one place (`runner`), for `wall_s` and
//! runs-per-hour in the evidence file, never for a decision.

pub mod outcome;
pub mod rng;
pub mod runner;
pub mod shrink;

pub use outcome::{Counters, RunOutcome, Tier, Violation};
pub use rng::{mix, Rng};

use serde_json::Value;

/// One simulation engine (lnsim, transportsim, ...). `run` generates and executes one seeded run;
/// `replay` executes a recorded run literally, without the PRNG deciding anything.
pub trait Sim: Send + Sync {
	fn name(&self) -> &'static str;
	/// Executes run `seed` of `profile`. Must be a pure function of (profile, seed, tier, code).
	fn run(&self, profile: &str, seed: u64, tier: Tier) -> RunOutcome;
	/// Executes the `replay` object of a replay file (as produced in `RunOutcome::replay`).
	fn replay(&self, replay: &Value) -> RunOutcome;
	/// Human description of what is real and what is a stub, for the evidence file.
	fn components(&self) -> (Vec<String>, Vec<String>);
}

/// 64-bit FNV-1a, used for every fingerprint (stable across runs and platforms).
pub fn fnv(bytes: &[u8]) -> u64 {
	let mut h: u64 = 0xcbf29ce484222325;
	for b in bytes {
		h ^= *b as u64;
		h = h.wrapping_mul(0x100000001b3);
	}
	h
}

pub fn fnv_extend(mut h: u64, bytes: &[u8]) -> u64 {
	for b in bytes {
		h ^= *b as u64;
		h = h.wrapping_mul(0x100000001b3);
	}
	h
}

pub fn hex(bytes: &[u8]) -> String {
	let mut s = String::with_capacity(bytes.len() * 2);
	for b in bytes {
		s.push_str(&format!("{:02x}", b));
	}
	s
}

pub fn unhex(s: &str) -> Option<Vec<u8>> {
	if s.len() % 2 != 0 {
		return None;
	}
	let mut out = Vec::with_capacity(s.len() / 2);
	let b = s.as_bytes();
	for i in (0..b.len()).step_by(2) {
		let hi = (b[i] as char).to_digit(16)?;
		let lo = (b[i + 1] as char).to_digit(16)?;
		out.push((hi * 16 + lo) as u8);
	}
	Some(out)
}
