//! The stubs the simulator owns: logger, fee estimator, broadcaster, router, filter, keys with a
//! recording signer, the disk behind `Persist`, and the `chain::Watch` tap.

use bitcoin::secp256k1::ecdh::SharedSecret;
use bitcoin::secp256k1::ecdsa::{RecoverableSignature, Signature};
use bitcoin::secp256k1::{self, schnorr, PublicKey, Scalar, Secp256k1, SecretKey};
use bitcoin::{ScriptBuf, Transaction, Txid};
use lightning::blinded_path::message::{BlindedMessagePath, MessageContext, MessageForwardNode};
use lightning::blinded_path::payment::{BlindedPaymentPath, ReceiveTlvs};
use lightning::chain;
use lightning::chain::chaininterface::{
	BroadcasterInterface, ConfirmationTarget, FeeEstimator, TransactionType,
};
use lightning::chain::chainmonitor::{self, ChainMonitor};
use lightning::chain::channelmonitor::{ChannelMonitor, ChannelMonitorUpdate, MonitorEvent};
use lightning::chain::transaction::OutPoint;
use lightning::chain::{ChannelMonitorUpdateStatus, WatchedOutput};
use lightning::ln::chan_utils::{
	ChannelPublicKeys, ChannelTransactionParameters, ClosingTransaction, CommitmentTransaction,
	HTLCOutputInCommitment, HolderCommitmentTransaction,
};
use lightning::ln::channel_state::ChannelDetails;
use lightning::ln::channelmanager::ChannelManager;
use lightning::ln::inbound_payment::ExpandedKey;
use lightning::ln::msgs::{UnsignedChannelAnnouncement, UnsignedGossipMessage};
use lightning::ln::script::ShutdownScript;
use lightning::ln::types::ChannelId;
use lightning::offers::invoice::UnsignedBolt12Invoice;
use lightning::onion_message::messenger::{Destination, MessageRouter, OnionMessagePath};
use lightning::routing::router::{InFlightHtlcs, Route, RouteParameters, Router};
use lightning::sign::ecdsa::EcdsaChannelSigner;
use lightning::sign::{
	ChannelSigner, EntropySource, HTLCDescriptor, InMemorySigner, KeysManager, NodeSigner,
	PeerStorageKey, ReceiveAuthKey, Recipient, SignerProvider,
};
use lightning::types::payment::PaymentPreimage;
use lightning::util::dyn_signer::DynSigner;
use lightning::util::logger::{Logger, Record};
use lightning::util::persist::MonitorName;
use lightning::util::ser::Writeable;
use lightning::util::test_channel_signer::{EnforcementState, TestChannelSigner};
use lightning_invoice::RawBolt11Invoice;

use std::collections::{BTreeMap, VecDeque};
use std::sync::atomic::{AtomicBool, AtomicU32, Ordering};
use std::sync::{Arc, Mutex};

// ---------------------------------------------------------------------------------------------
// Logger: keeps the last records per node for failure reports only. Never reads a clock.

pub struct SimLogger {
	pub node: usize,
	pub ring: Mutex<VecDeque<String>>,
	pub cap: usize,
}

impl SimLogger {
	pub fn new(node: usize) -> Self {
		let cap = std::env::var("VERIF_LOG_LINES").ok().and_then(|s| s.parse().ok()).unwrap_or(0);
		SimLogger { node, ring: Mutex::new(VecDeque::new()), cap }
	}
	pub fn dump(&self) -> Vec<String> {
		self.ring.lock().unwrap().iter().cloned().collect()
	}
}

impl Logger for SimLogger {
	fn log(&self, record: Record) {
		if self.cap == 0 {
			return;
		}
		let mut ring = self.ring.lock().unwrap();
		if ring.len() >= self.cap {
			ring.pop_front();
		}
		let line = format!(
			"n{} {:<5} [{}:{}] {}",
			self.node, record.level, record.module_path, record.line, record.args
		);
		if std::env::var("VERIF_LOG_STDERR").is_ok() {
			eprintln!("{}", line);
		}
		ring.push_back(line);
	}
}

// ---------------------------------------------------------------------------------------------
// Fee estimator obeying the documented ordering of targets (assumption T5).

pub struct SimFee {
	/// sat/kw for NonAnchorChannelFee (the "normal" rate)
	pub normal: AtomicU32,
	/// sat/kw ceiling (MaximumFeeEstimate / UrgentOnChainSweep)
	pub max: AtomicU32,
	/// sat/kw floor (all MinAllowed*, ChannelCloseMinimum, AnchorChannelFee, OutputSpendingFee)
	pub floor: AtomicU32,
}

impl SimFee {
	pub fn new() -> Self {
		SimFee { normal: AtomicU32::new(253), max: AtomicU32::new(10_000), floor: AtomicU32::new(253) }
	}
}

impl FeeEstimator for SimFee {
	fn get_est_sat_per_1000_weight(&self, target: ConfirmationTarget) -> u32 {
		let max = self.max.load(Ordering::Relaxed);
		let floor = self.floor.load(Ordering::Relaxed);
		match target {
			ConfirmationTarget::MaximumFeeEstimate | ConfirmationTarget::UrgentOnChainSweep => max,
			ConfirmationTarget::ChannelCloseMinimum
			| ConfirmationTarget::AnchorChannelFee
			| ConfirmationTarget::MinAllowedAnchorChannelRemoteFee
			| ConfirmationTarget::MinAllowedNonAnchorChannelRemoteFee
			| ConfirmationTarget::OutputSpendingFee => floor,
			ConfirmationTarget::NonAnchorChannelFee => {
				self.normal.load(Ordering::Relaxed).clamp(floor, max)
			},
		}
	}
}

// ---------------------------------------------------------------------------------------------
// Broadcaster: an outbox the scheduler relays to the mempool.

pub struct SimBroadcaster {
	/// simulator step at which each txid was first handed to the broadcaster
	pub first_seen: Mutex<BTreeMap<Txid, u64>>,
	pub now_step: std::sync::atomic::AtomicU64,
	pub outbox: Mutex<Vec<(Transaction, String)>>,
	/// total number of transactions ever handed over (monotonic)
	pub total: AtomicU32,
}

impl SimBroadcaster {
	pub fn new() -> Self {
		SimBroadcaster {
			first_seen: Mutex::new(BTreeMap::new()),
			now_step: std::sync::atomic::AtomicU64::new(0),
			outbox: Mutex::new(Vec::new()),
			total: AtomicU32::new(0),
		}
	}
	pub fn take(&self) -> Vec<(Transaction, String)> {
		std::mem::take(&mut *self.outbox.lock().unwrap())
	}
	pub fn len(&self) -> usize {
		self.outbox.lock().unwrap().len()
	}
	pub fn truncate(&self, len: usize) {
		self.outbox.lock().unwrap().truncate(len);
	}
}

impl BroadcasterInterface for SimBroadcaster {
	fn broadcast_transactions(&self, txs: &[(&Transaction, TransactionType)]) {
		let mut o = self.outbox.lock().unwrap();
		for (tx, ty) in txs {
			self.total.fetch_add(1, Ordering::Relaxed);
			let ty = format!("{:?}", ty);
			let kind = ty.split(|c: char| !c.is_alphanumeric()).next().unwrap_or("").to_string();
			let step = self.now_step.load(Ordering::Relaxed);
			self.first_seen.lock().unwrap().entry(tx.compute_txid()).or_insert(step);
			o.push(((*tx).clone(), kind));
		}
	}
}

// ---------------------------------------------------------------------------------------------
// Router: never asked to find anything (routes are built from the simulated topology).

pub struct SimRouter;

impl Router for SimRouter {
	fn find_route(
		&self, _payer: &PublicKey, _params: &RouteParameters,
		_first_hops: Option<&[&ChannelDetails]>, _inflight_htlcs: InFlightHtlcs,
	) -> Result<Route, &'static str> {
		Err("the simulator builds routes itself")
	}

	fn create_blinded_payment_paths<T: secp256k1::Signing + secp256k1::Verification>(
		&self, _recipient: PublicKey, _local_node_receive_key: ReceiveAuthKey,
		_first_hops: Vec<ChannelDetails>, _tlvs: ReceiveTlvs, _amount_msats: Option<u64>,
		_secp_ctx: &Secp256k1<T>,
	) -> Result<Vec<BlindedPaymentPath>, ()> {
		Err(())
	}
}

impl MessageRouter for SimRouter {
	fn find_path(
		&self, _sender: PublicKey, _peers: Vec<PublicKey>, _destination: Destination,
	) -> Result<OnionMessagePath, ()> {
		Err(())
	}

	fn create_blinded_paths<T: secp256k1::Signing + secp256k1::Verification>(
		&self, _recipient: PublicKey, _local_node_receive_key: ReceiveAuthKey,
		_context: MessageContext, _peers: Vec<MessageForwardNode>, _secp_ctx: &Secp256k1<T>,
	) -> Result<Vec<BlindedMessagePath>, ()> {
		Err(())
	}
}

// ---------------------------------------------------------------------------------------------
// chain::Filter: records what the node asked to be told about (used by the filtered styles).

pub struct SimFilter {
	pub txids: Mutex<Vec<(Txid, ScriptBuf)>>,
	pub outputs: Mutex<Vec<(bitcoin::OutPoint, ScriptBuf)>>,
}

impl SimFilter {
	pub fn new() -> Self {
		SimFilter { txids: Mutex::new(Vec::new()), outputs: Mutex::new(Vec::new()) }
	}
	pub fn matches(&self, tx: &Transaction) -> bool {
		let txid = tx.compute_txid();
		if self.txids.lock().unwrap().iter().any(|(t, _)| *t == txid) {
			return true;
		}
		let outs = self.outputs.lock().unwrap();
		tx.input.iter().any(|i| outs.iter().any(|(o, _)| *o == i.previous_output))
			|| tx.output.iter().any(|o| outs.iter().any(|(_, s)| *s == o.script_pubkey))
	}
}

impl chain::Filter for SimFilter {
	fn register_tx(&self, txid: &Txid, script_pubkey: &bitcoin::Script) {
		self.txids.lock().unwrap().push((*txid, script_pubkey.to_owned()));
	}
	fn register_output(&self, output: WatchedOutput) {
		self.outputs
			.lock()
			.unwrap()
			.push((output.outpoint.into_bitcoin_outpoint(), output.script_pubkey));
	}
}

// ---------------------------------------------------------------------------------------------
// Signer seam. Every call on the channel signer is appended to the per-node log; the oracles
// read the log after every action.

#[derive(Clone, Debug)]
pub struct HtlcSummary {
	pub offered: bool,
	pub amount_msat: u64,
	pub cltv_expiry: u32,
	pub payment_hash: [u8; 32],
	pub output_index: Option<u32>,
}

/// What the simulator keeps of a `CommitmentTransaction` seen at the signer.
#[derive(Clone, Debug)]
pub struct CommitSummary {
	pub number: u64,
	pub txid: Txid,
	pub feerate_per_kw: u32,
	pub to_broadcaster_sat: u64,
	pub to_countersignatory_sat: u64,
	pub nondust_htlcs: Vec<HtlcSummary>,
	pub tx: Transaction,
	pub funding_outpoint: bitcoin::OutPoint,
}

#[derive(Clone, Debug)]
pub enum SignerCall {
	ValidateHolderCommitment { keys_id: [u8; 32], commit: CommitSummary },
	SignCounterpartyCommitment { keys_id: [u8; 32], commit: CommitSummary, sig: Signature },
	ReleaseCommitmentSecret { keys_id: [u8; 32], idx: u64 },
	ValidateCounterpartyRevocation { keys_id: [u8; 32], idx: u64, secret: [u8; 32] },
	SignHolderCommitment { keys_id: [u8; 32], number: u64, txid: Txid },
	SignHolderHtlc { keys_id: [u8; 32], number: u64, commitment_txid: Txid },
	SignClosing { keys_id: [u8; 32], tx: Transaction, to_holder_sat: u64, to_counterparty_sat: u64 },
	SignJustice { keys_id: [u8; 32], txid: Txid, input: usize, htlc: bool },
	SignCounterpartyHtlc { keys_id: [u8; 32], txid: Txid, input: usize },
	SignAnchor { keys_id: [u8; 32], txid: Txid },
}

pub type SignerLog = Arc<Mutex<Vec<SignerCall>>>;

fn summarize(commit: &CommitmentTransaction) -> CommitSummary {
	let trusted = commit.trust();
	let built = trusted.built_transaction();
	CommitSummary {
		number: commit.commitment_number(),
		txid: built.txid,
		feerate_per_kw: commit.negotiated_feerate_per_kw(),
		to_broadcaster_sat: commit.to_broadcaster_value_sat(),
		to_countersignatory_sat: commit.to_countersignatory_value_sat(),
		nondust_htlcs: commit
			.nondust_htlcs()
			.iter()
			.map(|h| HtlcSummary {
				offered: h.offered,
				amount_msat: h.amount_msat,
				cltv_expiry: h.cltv_expiry,
				payment_hash: h.payment_hash.0,
				output_index: h.transaction_output_index,
			})
			.collect(),
		tx: built.transaction.clone(),
		funding_outpoint: built.transaction.input[0].previous_output,
	}
}

/// The channel signer every simulated node uses: LDK's own policy-enforcing `TestChannelSigner`
/// (its assertions stay armed) wrapped so that every successful call is appended to the node's
/// signer log, which the independent revocation automaton and the wire-ledger oracle read.
pub struct SimSigner {
	pub inner: TestChannelSigner,
	pub log: SignerLog,
	pub keys_id: [u8; 32],
}

impl Clone for SimSigner {
	fn clone(&self) -> Self {
		SimSigner { inner: self.inner.clone(), log: Arc::clone(&self.log), keys_id: self.keys_id }
	}
}

impl PartialEq for SimSigner {
	fn eq(&self, o: &Self) -> bool {
		self.inner == o.inner
	}
}

impl SimSigner {
	fn rec(&self, call: SignerCall) {
		self.log.lock().unwrap().push(call);
	}
}

impl ChannelSigner for SimSigner {
	fn get_per_commitment_point(
		&self, idx: u64, secp_ctx: &Secp256k1<secp256k1::All>,
	) -> Result<PublicKey, ()> {
		self.inner.get_per_commitment_point(idx, secp_ctx)
	}
	fn release_commitment_secret(&self, idx: u64) -> Result<[u8; 32], ()> {
		let res = self.inner.release_commitment_secret(idx);
		if res.is_ok() {
			self.rec(SignerCall::ReleaseCommitmentSecret { keys_id: self.keys_id, idx });
		}
		res
	}
	fn validate_holder_commitment(
		&self, holder_tx: &HolderCommitmentTransaction, preimages: Vec<PaymentPreimage>,
	) -> Result<(), ()> {
		let res = self.inner.validate_holder_commitment(holder_tx, preimages);
		if res.is_ok() {
			self.rec(SignerCall::ValidateHolderCommitment {
				keys_id: self.keys_id,
				commit: summarize(holder_tx),
			});
		}
		res
	}
	fn validate_counterparty_revocation(&self, idx: u64, secret: &SecretKey) -> Result<(), ()> {
		let res = self.inner.validate_counterparty_revocation(idx, secret);
		if res.is_ok() {
			self.rec(SignerCall::ValidateCounterpartyRevocation {
				keys_id: self.keys_id,
				idx,
				secret: secret.secret_bytes(),
			});
		}
		res
	}
	fn pubkeys(&self, secp_ctx: &Secp256k1<secp256k1::All>) -> ChannelPublicKeys {
		self.inner.pubkeys(secp_ctx)
	}
	fn new_funding_pubkey(
		&self, splice_parent_funding_txid: Txid, secp_ctx: &Secp256k1<secp256k1::All>,
	) -> PublicKey {
		self.inner.new_funding_pubkey(splice_parent_funding_txid, secp_ctx)
	}
	fn channel_keys_id(&self) -> [u8; 32] {
		self.inner.channel_keys_id()
	}
}

impl EcdsaChannelSigner for SimSigner {
	fn sign_counterparty_commitment(
		&self, channel_parameters: &ChannelTransactionParameters,
		commitment_tx: &CommitmentTransaction, inbound_htlc_preimages: Vec<PaymentPreimage>,
		outbound_htlc_preimages: Vec<PaymentPreimage>, secp_ctx: &Secp256k1<secp256k1::All>,
	) -> Result<(Signature, Vec<Signature>), ()> {
		let res = self.inner.sign_counterparty_commitment(
			channel_parameters,
			commitment_tx,
			inbound_htlc_preimages,
			outbound_htlc_preimages,
			secp_ctx,
		);
		if let Ok((sig, _)) = &res {
			self.rec(SignerCall::SignCounterpartyCommitment {
				keys_id: self.keys_id,
				commit: summarize(commitment_tx),
				sig: *sig,
			});
		}
		res
	}
	fn sign_holder_commitment(
		&self, channel_parameters: &ChannelTransactionParameters,
		commitment_tx: &HolderCommitmentTransaction, secp_ctx: &Secp256k1<secp256k1::All>,
	) -> Result<Signature, ()> {
		// Recorded *before* delegating: an attempt to sign a revoked state is the violation,
		// whether or not the policy signer then refuses (panics).
		self.rec(SignerCall::SignHolderCommitment {
			keys_id: self.keys_id,
			number: commitment_tx.commitment_number(),
			txid: commitment_tx.trust().txid(),
		});
		self.inner.sign_holder_commitment(channel_parameters, commitment_tx, secp_ctx)
	}
	fn unsafe_sign_holder_commitment(
		&self, channel_parameters: &ChannelTransactionParameters,
		commitment_tx: &HolderCommitmentTransaction, secp_ctx: &Secp256k1<secp256k1::All>,
	) -> Result<Signature, ()> {
		// Only the simulator's cheater uses this path (archive of revoked states); not logged.
		self.inner.unsafe_sign_holder_commitment(channel_parameters, commitment_tx, secp_ctx)
	}
	fn sign_justice_revoked_output(
		&self, channel_parameters: &ChannelTransactionParameters, justice_tx: &Transaction,
		input: usize, amount: u64, per_commitment_key: &SecretKey,
		secp_ctx: &Secp256k1<secp256k1::All>,
	) -> Result<Signature, ()> {
		self.rec(SignerCall::SignJustice {
			keys_id: self.keys_id,
			txid: justice_tx.compute_txid(),
			input,
			htlc: false,
		});
		self.inner.sign_justice_revoked_output(
			channel_parameters,
			justice_tx,
			input,
			amount,
			per_commitment_key,
			secp_ctx,
		)
	}
	fn sign_justice_revoked_htlc(
		&self, channel_parameters: &ChannelTransactionParameters, justice_tx: &Transaction,
		input: usize, amount: u64, per_commitment_key: &SecretKey, htlc: &HTLCOutputInCommitment,
		secp_ctx: &Secp256k1<secp256k1::All>,
	) -> Result<Signature, ()> {
		self.rec(SignerCall::SignJustice {
			keys_id: self.keys_id,
			txid: justice_tx.compute_txid(),
			input,
			htlc: true,
		});
		self.inner.sign_justice_revoked_htlc(
			channel_parameters,
			justice_tx,
			input,
			amount,
			per_commitment_key,
			htlc,
			secp_ctx,
		)
	}
	fn sign_holder_htlc_transaction(
		&self, htlc_tx: &Transaction, input: usize, htlc_descriptor: &HTLCDescriptor,
		secp_ctx: &Secp256k1<secp256k1::All>,
	) -> Result<Signature, ()> {
		self.rec(SignerCall::SignHolderHtlc {
			keys_id: self.keys_id,
			number: htlc_descriptor.per_commitment_number,
			commitment_txid: htlc_descriptor.commitment_txid,
		});
		self.inner.sign_holder_htlc_transaction(htlc_tx, input, htlc_descriptor, secp_ctx)
	}
	fn sign_counterparty_htlc_transaction(
		&self, channel_parameters: &ChannelTransactionParameters, htlc_tx: &Transaction,
		input: usize, amount: u64, per_commitment_point: &PublicKey, htlc: &HTLCOutputInCommitment,
		secp_ctx: &Secp256k1<secp256k1::All>,
	) -> Result<Signature, ()> {
		self.rec(SignerCall::SignCounterpartyHtlc {
			keys_id: self.keys_id,
			txid: htlc_tx.compute_txid(),
			input,
		});
		self.inner.sign_counterparty_htlc_transaction(
			channel_parameters,
			htlc_tx,
			input,
			amount,
			per_commitment_point,
			htlc,
			secp_ctx,
		)
	}
	fn sign_closing_transaction(
		&self, channel_parameters: &ChannelTransactionParameters, closing_tx: &ClosingTransaction,
		secp_ctx: &Secp256k1<secp256k1::All>,
	) -> Result<Signature, ()> {
		let res = self.inner.sign_closing_transaction(channel_parameters, closing_tx, secp_ctx);
		if res.is_ok() {
			self.rec(SignerCall::SignClosing {
				keys_id: self.keys_id,
				tx: closing_tx.trust().built_transaction().clone(),
				to_holder_sat: closing_tx.to_holder_value_sat(),
				to_counterparty_sat: closing_tx.to_counterparty_value_sat(),
			});
		}
		res
	}
	fn sign_holder_keyed_anchor_input(
		&self, chan_params: &ChannelTransactionParameters, anchor_tx: &Transaction, input: usize,
		secp_ctx: &Secp256k1<secp256k1::All>,
	) -> Result<Signature, ()> {
		self.rec(SignerCall::SignAnchor { keys_id: self.keys_id, txid: anchor_tx.compute_txid() });
		self.inner.sign_holder_keyed_anchor_input(chan_params, anchor_tx, input, secp_ctx)
	}
	fn sign_channel_announcement_with_funding_key(
		&self, channel_parameters: &ChannelTransactionParameters, msg: &UnsignedChannelAnnouncement,
		secp_ctx: &Secp256k1<secp256k1::All>,
	) -> Result<Signature, ()> {
		self.inner.sign_channel_announcement_with_funding_key(channel_parameters, msg, secp_ctx)
	}
	fn sign_splice_shared_input(
		&self, channel_parameters: &ChannelTransactionParameters, tx: &Transaction,
		input_index: usize, secp_ctx: &Secp256k1<secp256k1::All>,
	) -> Result<Signature, ()> {
		self.inner.sign_splice_shared_input(channel_parameters, tx, input_index, secp_ctx)
	}
}

/// The per-node key material. Survives restarts: an HSM does not roll back, and neither does its
/// entropy counter.
pub struct SimKeys {
	pub node: usize,
	pub km: KeysManager,
	pub states: Mutex<BTreeMap<[u8; 32], Arc<Mutex<EnforcementState>>>>,
	pub log: SignerLog,
}

impl SimKeys {
	pub fn new(node: usize, seed: [u8; 32]) -> Self {
		SimKeys {
			node,
			km: KeysManager::new(&seed, 1_600_000_000 + node as u64, node as u32, true),
			states: Mutex::new(BTreeMap::new()),
			log: Arc::new(Mutex::new(Vec::new())),
		}
	}
	pub fn enforcement(&self, keys_id: [u8; 32]) -> Arc<Mutex<EnforcementState>> {
		let mut s = self.states.lock().unwrap();
		Arc::clone(
			s.entry(keys_id).or_insert_with(|| Arc::new(Mutex::new(EnforcementState::new()))),
		)
	}
	pub fn snapshot_enforcement(&self) -> BTreeMap<[u8; 32], EnforcementState> {
		self.states.lock().unwrap().iter().map(|(k, v)| (*k, v.lock().unwrap().clone())).collect()
	}
	pub fn restore_enforcement(&self, snap: &BTreeMap<[u8; 32], EnforcementState>) {
		let s = self.states.lock().unwrap();
		for (k, v) in s.iter() {
			if let Some(old) = snap.get(k) {
				*v.lock().unwrap() = old.clone();
			} else {
				*v.lock().unwrap() = EnforcementState::new();
			}
		}
	}
}

impl EntropySource for SimKeys {
	fn get_secure_random_bytes(&self) -> [u8; 32] {
		self.km.get_secure_random_bytes()
	}
}

impl NodeSigner for SimKeys {
	fn get_expanded_key(&self) -> ExpandedKey {
		self.km.get_expanded_key()
	}
	fn get_peer_storage_key(&self) -> PeerStorageKey {
		self.km.get_peer_storage_key()
	}
	fn get_receive_auth_key(&self) -> ReceiveAuthKey {
		self.km.get_receive_auth_key()
	}
	fn get_node_id(&self, recipient: Recipient) -> Result<PublicKey, ()> {
		self.km.get_node_id(recipient)
	}
	fn ecdh(
		&self, recipient: Recipient, other_key: &PublicKey, tweak: Option<&Scalar>,
	) -> Result<SharedSecret, ()> {
		self.km.ecdh(recipient, other_key, tweak)
	}
	fn sign_invoice(
		&self, invoice: &RawBolt11Invoice, recipient: Recipient,
	) -> Result<RecoverableSignature, ()> {
		self.km.sign_invoice(invoice, recipient)
	}
	fn sign_bolt12_invoice(
		&self, invoice: &UnsignedBolt12Invoice,
	) -> Result<schnorr::Signature, ()> {
		self.km.sign_bolt12_invoice(invoice)
	}
	fn sign_gossip_message(&self, msg: UnsignedGossipMessage) -> Result<Signature, ()> {
		self.km.sign_gossip_message(msg)
	}
	fn sign_message(&self, msg: &[u8]) -> Result<String, ()> {
		self.km.sign_message(msg)
	}
}

impl SignerProvider for SimKeys {
	type EcdsaSigner = SimSigner;

	fn generate_channel_keys_id(&self, inbound: bool, user_channel_id: u128) -> [u8; 32] {
		self.km.generate_channel_keys_id(inbound, user_channel_id)
	}
	fn derive_channel_signer(&self, channel_keys_id: [u8; 32]) -> SimSigner {
		let inner = self.km.derive_channel_keys(&channel_keys_id);
		let inner = TestChannelSigner::new_with_revoked(
			DynSigner::new(inner),
			self.enforcement(channel_keys_id),
			false,
			false,
		);
		SimSigner { inner, log: Arc::clone(&self.log), keys_id: channel_keys_id }
	}
	fn get_destination_script(&self, channel_keys_id: [u8; 32]) -> Result<ScriptBuf, ()> {
		self.km.get_destination_script(channel_keys_id)
	}
	fn get_shutdown_scriptpubkey(&self) -> Result<ShutdownScript, ()> {
		self.km.get_shutdown_scriptpubkey()
	}
}

// ---------------------------------------------------------------------------------------------
// The disk behind `Persist`. Mirrors the durable / in-flight distinction of §3.4 of DESIGN.md.

#[derive(Clone, Debug, Default)]
pub struct ChanDisk {
	/// (update id, bytes) of the last write the node was told is complete (or `Completed` at once)
	pub durable: Option<(u64, Vec<u8>)>,
	/// writes started (`InProgress`) after `durable`; any of them may have reached the disk
	pub candidates: Vec<(u64, Vec<u8>)>,
	/// writes that still need a `channel_monitor_updated` call
	pub completions: Vec<(u64, Vec<u8>)>,
	pub archived: bool,
}

#[derive(Clone, Debug)]
pub struct PersistCall {
	pub chan: [u8; 32],
	pub update_id: u64,
	pub has_update: bool,
	pub new_channel: bool,
	pub status_completed: bool,
	pub steps: Vec<(&'static str, String)>,
}

#[derive(Default)]
pub struct DiskState {
	pub chans: BTreeMap<[u8; 32], ChanDisk>,
	pub manager: Option<Vec<u8>>,
	/// terminal payment events (payment id, is PaymentSent) that were still queued, unhandled, in
	/// the manager snapshot above (hook H6)
	pub manager_pending_terminal: Vec<([u8; 32], bool)>,
	pub manager_generation: u64,
	/// generation of the manager snapshot the current incarnation was loaded from
	pub loaded_generation: u64,
	/// per-channel asynchronous mode (one way until restart)
	pub async_chans: BTreeMap<[u8; 32], bool>,
	/// new channels of this node start asynchronous
	pub async_default: bool,
	pub persist_calls: u64,
	/// crash-inside-call: freeze the disk at this (1-based, counted from arming) persist call
	pub crash_at: Option<(u64, bool)>,
	pub frozen: bool,
	pub frozen_info: Option<FrozenInfo>,
	pub log: Vec<PersistCall>,
}

#[derive(Clone)]
pub struct FrozenInfo {
	pub enforcement: BTreeMap<[u8; 32], EnforcementState>,
	pub outbox_len: usize,
	pub signer_log_len: usize,
	/// the write during which the process died reached the disk: (channel, update id)
	pub survivor: Option<([u8; 32], u64)>,
}

pub type Disk = Arc<Mutex<DiskState>>;

pub struct SimPersister {
	pub disk: Disk,
	pub keys: Arc<SimKeys>,
	pub broadcaster: Arc<SimBroadcaster>,
}

fn ser_monitor(m: &ChannelMonitor<SimSigner>) -> Vec<u8> {
	m.encode()
}

impl SimPersister {
	fn record(
		&self, chan: ChannelId, update_id: u64, update: Option<&ChannelMonitorUpdate>,
		new_channel: bool, data: &ChannelMonitor<SimSigner>,
	) -> ChannelMonitorUpdateStatus {
		let mut d = self.disk.lock().unwrap();
		let key = chan.0;
		let is_async = {
			let dflt = d.async_default;
			*d.async_chans.entry(key).or_insert(dflt)
		};
		let status = if is_async {
			ChannelMonitorUpdateStatus::InProgress
		} else {
			ChannelMonitorUpdateStatus::Completed
		};
		if d.frozen {
			// The process is already dead as far as the outside world is concerned.
			return status;
		}
		d.persist_calls += 1;
		let mut write_reaches_disk = true;
		let mut freeze_now = false;
		if let Some((ref mut n, after)) = d.crash_at {
			*n -= 1;
			if *n == 0 {
				freeze_now = true;
				write_reaches_disk = after;
			}
		}
		if freeze_now {
			d.crash_at = None;
		}
		if write_reaches_disk {
			let bytes = ser_monitor(data);
			let needs_completion = new_channel || update.is_some();
			let steps = update.map(|u| u.verif_steps()).unwrap_or_default();
			d.log.push(PersistCall {
				chan: key,
				update_id,
				has_update: update.is_some(),
				new_channel,
				status_completed: !is_async,
				steps,
			});
			let cd = d.chans.entry(key).or_default();
			if is_async {
				cd.candidates.push((update_id, bytes.clone()));
				if needs_completion {
					cd.completions.push((update_id, bytes));
				}
			} else {
				cd.candidates.retain(|(id, _)| *id > update_id);
				if cd.durable.as_ref().map_or(true, |(id, _)| *id <= update_id) {
					cd.durable = Some((update_id, bytes));
				}
			}
		}
		if freeze_now {
			d.frozen = true;
			d.frozen_info = Some(FrozenInfo {
				enforcement: self.keys.snapshot_enforcement(),
				outbox_len: self.broadcaster.len(),
				signer_log_len: self.keys.log.lock().unwrap().len(),
				survivor: if write_reaches_disk { Some((key, update_id)) } else { None },
			});
		}
		status
	}
}

impl chainmonitor::Persist<SimSigner> for SimPersister {
	fn persist_new_channel(
		&self, _name: MonitorName, monitor: &ChannelMonitor<SimSigner>,
	) -> ChannelMonitorUpdateStatus {
		self.record(monitor.channel_id(), monitor.get_latest_update_id(), None, true, monitor)
	}
	fn update_persisted_channel(
		&self, _name: MonitorName, update: Option<&ChannelMonitorUpdate>,
		monitor: &ChannelMonitor<SimSigner>,
	) -> ChannelMonitorUpdateStatus {
		let id = update.map_or_else(|| monitor.get_latest_update_id(), |u| u.update_id);
		self.record(monitor.channel_id(), id, update, false, monitor)
	}
	fn archive_persisted_channel(&self, name: MonitorName) {
		let _ = name;
	}
}

// ---------------------------------------------------------------------------------------------
// chain::Watch tap

pub type SimChainMonitor = ChainMonitor<
	SimSigner,
	Arc<SimFilter>,
	Arc<SimBroadcaster>,
	Arc<SimFee>,
	Arc<SimLogger>,
	Arc<SimPersister>,
	Arc<SimKeys>,
>;

#[derive(Clone, Debug)]
pub struct WatchCall {
	pub chan: [u8; 32],
	pub new_channel: bool,
	pub update_id: u64,
	pub steps: Vec<(&'static str, String)>,
	pub update_bytes: Vec<u8>,
	pub status: String,
	/// Some(false): applying the update to a re-read copy of the monitor gave a different monitor
	pub commutes: Option<bool>,
	pub update_eq_after_roundtrip: bool,
}

pub struct WatchTap {
	pub inner: Arc<SimChainMonitor>,
	pub log: Mutex<Vec<WatchCall>>,
	pub enabled: AtomicBool,
	/// C12: check "update before or after a round trip gives equal monitors" on every update
	pub check_update_commutes: AtomicBool,
	pub tools: Mutex<Option<(Arc<SimKeys>, Arc<SimFee>, Arc<SimLogger>)>>,
}

impl WatchTap {
	pub fn new(inner: Arc<SimChainMonitor>) -> Self {
		WatchTap {
			inner,
			log: Mutex::new(Vec::new()),
			enabled: AtomicBool::new(true),
			check_update_commutes: AtomicBool::new(false),
			tools: Mutex::new(None),
		}
	}
}

impl chain::Watch<SimSigner> for WatchTap {
	fn watch_channel(
		&self, channel_id: ChannelId, monitor: ChannelMonitor<SimSigner>,
	) -> Result<ChannelMonitorUpdateStatus, ()> {
		let id = monitor.get_latest_update_id();
		let res = self.inner.watch_channel(channel_id, monitor);
		if self.enabled.load(Ordering::Relaxed) {
			self.log.lock().unwrap().push(WatchCall {
				chan: channel_id.0,
				new_channel: true,
				update_id: id,
				steps: Vec::new(),
				update_bytes: Vec::new(),
				status: format!("{:?}", res),
				commutes: None,
				update_eq_after_roundtrip: true,
			});
		}
		res
	}
	fn update_channel(
		&self, channel_id: ChannelId, update: &ChannelMonitorUpdate,
	) -> ChannelMonitorUpdateStatus {
		let commute_check = self.check_update_commutes.load(Ordering::Relaxed);
		let before: Option<Vec<u8>> = if commute_check {
			self.inner.get_monitor(channel_id).ok().map(|m| m.encode())
		} else {
			None
		};
		let res = self.inner.update_channel(channel_id, update);
		let mut commutes = None;
		if let (Some(b), Some((keys, fee, logger))) = (before, self.tools.lock().unwrap().clone()) {
			if let Ok(after) = self.inner.get_monitor(channel_id) {
				// only when the live monitor really applied it (not deferred)
				if after.get_latest_update_id() == update.update_id {
					use lightning::util::ser::ReadableArgs;
					if let Ok((_, m2)) = <(lightning::chain::BlockLocator, ChannelMonitor<SimSigner>)>::read(
						&mut &b[..],
						(&*keys, &*keys),
					) {
						let sink = SimBroadcaster::new();
						let _ = m2.update_monitor(update, &&sink, &fee, &logger);
						commutes = Some(after.verif_eq(&m2));
					}
				}
			}
		}
		if self.enabled.load(Ordering::Relaxed) {
			let bytes = update.encode();
			let eq = {
				use lightning::util::ser::Readable;
				match ChannelMonitorUpdate::read(&mut &bytes[..]) {
					Ok(u2) => u2 == *update,
					Err(_) => false,
				}
			};
			self.log.lock().unwrap().push(WatchCall {
				chan: channel_id.0,
				new_channel: false,
				update_id: update.update_id,
				steps: update.verif_steps(),
				update_bytes: bytes,
				status: format!("{:?}", res),
				commutes,
				update_eq_after_roundtrip: eq,
			});
		}
		res
	}
	fn release_pending_monitor_events(
		&self,
	) -> Vec<(OutPoint, ChannelId, Vec<MonitorEvent>, PublicKey)> {
		self.inner.release_pending_monitor_events()
	}
}

pub type SimManager = ChannelManager<
	Arc<WatchTap>,
	Arc<SimBroadcaster>,
	Arc<SimKeys>,
	Arc<SimKeys>,
	Arc<SimKeys>,
	Arc<SimFee>,
	Arc<SimRouter>,
	Arc<SimRouter>,
	Arc<SimLogger>,
>;

pub fn _unused(_: AtomicBool) {}
