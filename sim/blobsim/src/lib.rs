//! placeholder (scorer and output-sweeper blobs: C12 / C07)
