//! Development driver: `transportsim_dev <profile> <first-index> <count> [threads] [base-seed]`
//! runs seeds mix(base, i) and prints violations, counters and runs/s.
//! `transportsim_dev det <profile> <count>` runs each seed twice and compares history fingerprints.
//! `transportsim_dev shrink <profile> <run-seed>` replays and minimises a failing run.
//! `transportsim_dev one <profile> <run-seed>` prints one run.

use simcore::runner::{install_panic_hook, run_isolated};
use simcore::{mix, RunOutcome, Sim, Tier};
use std::collections::BTreeMap;
use std::sync::atomic::{AtomicU64, Ordering};
use std::sync::{Arc, Mutex};
use std::time::{Duration, Instant};
use transportsim::TransportSim;

fn tier() -> Tier {
	match std::env::var("VERIF_TIER").ok().as_deref() {
		Some("thorough") => Tier::Thorough,
		_ => Tier::Quick,
	}
}

fn main() {
	install_panic_hook();
	let args: Vec<String> = std::env::args().collect();
	let cmd = args.get(1).cloned().unwrap_or_else(|| "mix".into());
	match cmd.as_str() {
		"det" => {
			let profile = args.get(2).cloned().unwrap_or_else(|| "mix".into());
			let count: u64 = args.get(3).and_then(|s| s.parse().ok()).unwrap_or(200);
			let mut bad = 0;
			for i in 0..count {
				let seed = mix(1, i);
				let a = run_isolated(|| TransportSim.run(&profile, seed, tier()));
				let b = run_isolated(|| TransportSim.run(&profile, seed, tier()));
				if a.history_fp != b.history_fp || a.interleaving_fp != b.interleaving_fp || a.steps != b.steps {
					println!("NONDETERMINISM seed {} {:016x} vs {:016x}", seed, a.history_fp, b.history_fp);
					bad += 1;
				}
			}
			println!("determinism: {} seeds x2, {} mismatches", count, bad);
			std::process::exit(if bad == 0 { 0 } else { 2 });
		},
		"rep" => {
			// every run, replayed from its recorded trace, must produce the same history
			std::env::set_var("TRANSPORTSIM_KEEP_REPLAY", "1");
			let profile = args.get(2).cloned().unwrap_or_else(|| "mix".into());
			let count: u64 = args.get(3).and_then(|s| s.parse().ok()).unwrap_or(200);
			let mut bad = 0;
			for i in 0..count {
				let seed = mix(7, i);
				let a = run_isolated(|| TransportSim.run(&profile, seed, tier()));
				let rep = a.replay.clone().expect("replay kept");
				let b = run_isolated(|| TransportSim.replay(&rep));
				if a.history_fp != b.history_fp || a.steps != b.steps || a.counters != b.counters {
					println!("REPLAY-MISMATCH seed {} {:016x} vs {:016x} steps {} vs {}", seed, a.history_fp, b.history_fp, a.steps, b.steps);
					bad += 1;
				}
			}
			println!("replay equivalence: {} seeds, {} mismatches", count, bad);
			std::process::exit(if bad == 0 { 0 } else { 2 });
		},
		"one" => {
			let profile = args.get(2).cloned().unwrap_or_else(|| "mix".into());
			let seed: u64 = args.get(3).and_then(|s| s.parse().ok()).unwrap_or(1);
			let out = run_isolated(|| TransportSim.run(&profile, seed, tier()));
			print_outcome(&out, true);
		},
		"shrink" => {
			let profile = args.get(2).cloned().unwrap_or_else(|| "mix".into());
			let seed: u64 = args.get(3).and_then(|s| s.parse().ok()).unwrap_or(1);
			let out = run_isolated(|| TransportSim.run(&profile, seed, tier()));
			print_outcome(&out, false);
			let v = match out.violations.first() {
				Some(v) => v.clone(),
				None => {
					println!("no violation to shrink");
					return;
				},
			};
			let rep = out.replay.clone().expect("replay");
			let re = run_isolated(|| TransportSim.replay(&rep));
			let same = re.violations.iter().any(|x| x.oracle == v.oracle);
			println!("literal replay reproduces {:?}: {} (history {:016x} vs {:016x})", v.oracle, same, out.history_fp, re.history_fp);
			let (min, spent) = simcore::shrink::shrink(&TransportSim, &rep, &v.property, &v.oracle, Duration::from_secs(60));
			let n0 = rep["trace"].as_array().map(|a| a.len()).unwrap_or(0);
			let n1 = min["trace"].as_array().map(|a| a.len()).unwrap_or(0);
			println!("shrunk {} -> {} actions in {} replays", n0, n1, spent);
			let re = run_isolated(|| TransportSim.replay(&min));
			for x in re.violations.iter() {
				println!("  minimised: {} :: {}", x.oracle, x.message);
			}
			println!("{}", serde_json::to_string(&min["trace"]).unwrap());
			if let Some(p) = args.get(4) {
				std::fs::write(p, serde_json::to_string_pretty(&min).unwrap()).unwrap();
			}
		},
		_ => {
			let profile = cmd;
			let first: u64 = args.get(2).and_then(|s| s.parse().ok()).unwrap_or(0);
			let count: u64 = args.get(3).and_then(|s| s.parse().ok()).unwrap_or(1000);
			let threads: u64 = args.get(4).and_then(|s| s.parse().ok()).unwrap_or(16);
			let base: u64 = args.get(5).and_then(|s| s.parse().ok()).unwrap_or(1);
			let next = Arc::new(AtomicU64::new(first));
			let agg: Arc<Mutex<(BTreeMap<String, u64>, Vec<String>, u64, u64, u64)>> = Default::default();
			let t0 = Instant::now();
			let mut hs = Vec::new();
			for _ in 0..threads {
				let next = next.clone();
				let agg = agg.clone();
				let profile = profile.clone();
				hs.push(std::thread::spawn(move || loop {
					let i = next.fetch_add(1, Ordering::Relaxed);
					if i >= first + count {
						break;
					}
					let seed = mix(base, i);
					let out = run_isolated(|| TransportSim.run(&profile, seed, tier()));
					let mut g = agg.lock().unwrap();
					for (k, v) in out.counters.iter() {
						*g.0.entry(k.clone()).or_insert(0) += *v;
					}
					g.2 += 1;
					if out.nontrivial {
						g.3 += 1;
					}
					g.4 += out.steps;
					for v in out.violations.iter() {
						if g.1.len() < 40 {
							g.1.push(format!("VIOLATION i={} seed={} {} step {} :: {}", i, seed, v.oracle, v.step, v.message));
						}
					}
					for e in out.harness_errors.iter() {
						if g.1.len() < 40 {
							g.1.push(format!("HARNESS i={} seed={} {}", i, seed, e));
						}
					}
				}));
			}
			for h in hs {
				let _ = h.join();
			}
			let dt = t0.elapsed().as_secs_f64();
			let g = agg.lock().unwrap();
			if std::env::var("VERIF_COUNTERS").is_ok() {
				for (k, v) in g.0.iter() {
					println!("  {} = {}", k, v);
				}
			}
			for l in g.1.iter() {
				println!("{}", l);
			}
			println!(
				"profile {} runs {} nontrivial {} steps {} problems {} wall {:.1}s = {:.0} runs/s",
				profile,
				g.2,
				g.3,
				g.4,
				g.1.len(),
				dt,
				g.2 as f64 / dt
			);
		},
	}
}

fn print_outcome(out: &RunOutcome, counters: bool) {
	println!(
		"seed {} steps {} nontrivial {} history {:016x} states {}",
		out.seed,
		out.steps,
		out.nontrivial,
		out.history_fp,
		out.state_fps.len()
	);
	for v in out.violations.iter() {
		println!("  VIOLATION {} step {} :: {}", v.oracle, v.step, v.message);
	}
	for e in out.harness_errors.iter() {
		println!("  HARNESS {}", e);
	}
	if counters {
		for (k, v) in out.counters.iter() {
			println!("  {} = {}", k, v);
		}
		if let Some(s) = out.sample.as_ref() {
			println!("{}", serde_json::to_string(s).unwrap());
		}
	}
}
