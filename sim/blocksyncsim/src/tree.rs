//! The block tree owned by the simulator: real `bitcoin::block::Header`s with valid proof of work
//! at the regtest target, heights, cumulative chainwork, named branches.
//!
//! This is the reference model of "the chain": every oracle question (is X an ancestor of Y, what
//! is the fork point, which tip has more work) is answered here, from parent pointers, without
//! any code of lightning-block-sync.

use bitcoin::absolute::LockTime;
use bitcoin::block::{Block, Header, Version};
use bitcoin::constants::genesis_block;
use bitcoin::hashes::Hash;
use bitcoin::pow::{CompactTarget, Work};
use bitcoin::script::ScriptBuf;
use bitcoin::transaction::{self, OutPoint, Transaction, TxIn, TxOut};
use bitcoin::{Amount, BlockHash, Network, Sequence, TxMerkleNode, Txid, Witness};
use std::collections::BTreeMap;

pub const REGTEST_BITS: u32 = 0x207fffff;

#[derive(Clone, Debug)]
pub struct SimBlock {
	pub header: Header,
	pub hash: BlockHash,
	pub height: u32,
	pub chainwork: Work,
	pub parent: Option<usize>,
	/// makes sibling blocks differ (goes into the coinbase)
	pub salt: u32,
	/// number of non-coinbase transactions
	pub extra_tx: u8,
	/// 0 = fine; BAD_POW = the header misses its own target; BAD_MISSING = the source never serves it
	/// (its children do not connect to anything the client can see)
	pub bad: u8,
	/// this block and all its ancestors are fine
	pub chain_ok: bool,
}

pub const BAD_POW: u8 = 1;
pub const BAD_MISSING: u8 = 2;

#[derive(Clone, Debug)]
pub struct Branch {
	pub parent: Option<u32>,
	/// height of the last block shared with the parent branch
	pub fork_height: u32,
	/// blocks at heights fork_height+1 ..
	pub blocks: Vec<usize>,
}

pub struct BlockTree {
	pub blocks: Vec<SimBlock>,
	pub by_hash: BTreeMap<BlockHash, usize>,
	pub branches: BTreeMap<u32, Branch>,
	pub hashes_ground: u64,
}

fn coinbase(height: u32, salt: u32) -> Transaction {
	let mut sig = Vec::with_capacity(10);
	sig.push(4u8);
	sig.extend_from_slice(&height.to_le_bytes());
	sig.push(4u8);
	sig.extend_from_slice(&salt.to_le_bytes());
	Transaction {
		version: transaction::Version::TWO,
		lock_time: LockTime::ZERO,
		input: vec![TxIn {
			previous_output: OutPoint::null(),
			script_sig: ScriptBuf::from_bytes(sig),
			sequence: Sequence::MAX,
			witness: Witness::new(),
		}],
		output: vec![TxOut { value: Amount::from_sat(50_0000_0000), script_pubkey: ScriptBuf::new() }],
	}
}

fn filler_tx(height: u32, salt: u32, i: u8) -> Transaction {
	let mut id = [0u8; 32];
	id[0..4].copy_from_slice(&height.to_le_bytes());
	id[4..8].copy_from_slice(&salt.to_le_bytes());
	id[8] = i;
	id[31] = 0x77;
	Transaction {
		version: transaction::Version::TWO,
		lock_time: LockTime::ZERO,
		input: vec![TxIn {
			previous_output: OutPoint { txid: Txid::from_byte_array(id), vout: i as u32 },
			script_sig: ScriptBuf::new(),
			sequence: Sequence::MAX,
			witness: Witness::new(),
		}],
		output: vec![TxOut { value: Amount::from_sat(1000 + i as u64), script_pubkey: ScriptBuf::new() }],
	}
}

pub fn txdata_for(height: u32, salt: u32, extra_tx: u8) -> Vec<Transaction> {
	let mut v = Vec::with_capacity(1 + extra_tx as usize);
	v.push(coinbase(height, salt));
	for i in 0..extra_tx {
		v.push(filler_tx(height, salt, i));
	}
	v
}

/// Grinds the nonce until the header meets (want_valid) or misses (!want_valid) its own target.
pub fn grind(header: &mut Header, want_valid: bool, counter: &mut u64) {
	let target = header.target();
	loop {
		*counter += 1;
		let ok = header.validate_pow(target).is_ok();
		if ok == want_valid {
			return;
		}
		header.nonce = header.nonce.wrapping_add(1);
	}
}

impl BlockTree {
	pub fn new() -> BlockTree {
		let g = genesis_block(Network::Regtest);
		let hash = g.header.block_hash();
		let blk = SimBlock {
			header: g.header,
			hash,
			height: 0,
			chainwork: g.header.work(),
			parent: None,
			salt: 0,
			extra_tx: 0,
			bad: 0,
			chain_ok: true,
		};
		let mut by_hash = BTreeMap::new();
		by_hash.insert(hash, 0);
		let mut branches = BTreeMap::new();
		branches.insert(0u32, Branch { parent: None, fork_height: 0, blocks: Vec::new() });
		BlockTree { blocks: vec![blk], by_hash, branches, hashes_ground: 0 }
	}

	/// Mines one valid block on top of `parent`.
	pub fn mine_on(&mut self, parent: usize) -> usize {
		self.mine_on_bad(parent, 0)
	}

	/// Mines one block on top of `parent`; `bad` = 0 (valid), BAD_POW or BAD_MISSING.
	pub fn mine_on_bad(&mut self, parent: usize, bad: u8) -> usize {
		let salt = self.blocks.len() as u32;
		let p = &self.blocks[parent];
		let height = p.height + 1;
		let extra_tx = (salt % 3) as u8;
		let block = Block {
			header: Header {
				version: Version::from_consensus(0x2000_0000),
				prev_blockhash: p.hash,
				merkle_root: TxMerkleNode::all_zeros(),
				time: p.header.time.wrapping_add(600),
				bits: CompactTarget::from_consensus(REGTEST_BITS),
				nonce: salt.wrapping_mul(0x9e37_79b9),
			},
			txdata: txdata_for(height, salt, extra_tx),
		};
		let mut header = block.header;
		header.merkle_root = block.compute_merkle_root().expect("non-empty block");
		grind(&mut header, bad != BAD_POW, &mut self.hashes_ground);
		let hash = header.block_hash();
		let chainwork = p.chainwork + header.work();
		let chain_ok = p.chain_ok && bad == 0;
		let idx = self.blocks.len();
		self.blocks.push(SimBlock { header, hash, height, chainwork, parent: Some(parent), salt, extra_tx, bad, chain_ok });
		self.by_hash.insert(hash, idx);
		idx
	}

	pub fn full_block(&self, idx: usize) -> Block {
		let b = &self.blocks[idx];
		if idx == 0 {
			return genesis_block(Network::Regtest);
		}
		Block { header: b.header, txdata: txdata_for(b.height, b.salt, b.extra_tx) }
	}

	pub fn branch_tip(&self, branch: u32) -> Option<usize> {
		let b = self.branches.get(&branch)?;
		if let Some(last) = b.blocks.last() {
			return Some(*last);
		}
		match b.parent {
			// empty branch: its tip is the fork block on the parent
			Some(p) => self.resolve(p, b.fork_height),
			None => Some(0),
		}
	}

	pub fn branch_tip_height(&self, branch: u32) -> Option<u32> {
		self.branch_tip(branch).map(|i| self.blocks[i].height)
	}

	/// The block at `height` on the chain that ends at the tip of `branch`.
	pub fn resolve(&self, branch: u32, height: u32) -> Option<usize> {
		let mut id = branch;
		loop {
			let b = self.branches.get(&id)?;
			if height > b.fork_height || b.parent.is_none() {
				if b.parent.is_none() && height == 0 {
					return Some(0);
				}
				let off = height.checked_sub(b.fork_height + 1)? as usize;
				return b.blocks.get(off).copied();
			}
			id = b.parent?;
		}
	}

	pub fn extend(&mut self, branch: u32, n: u32) -> bool {
		let mut tip = match self.branch_tip(branch) {
			Some(t) => t,
			None => return false,
		};
		for _ in 0..n {
			tip = self.mine_on(tip);
			self.branches.get_mut(&branch).unwrap().blocks.push(tip);
		}
		true
	}

	pub fn fork(&mut self, new_branch: u32, from: u32, at_height: u32, n: u32, bad: Option<(u32, u8)>) -> bool {
		if self.branches.contains_key(&new_branch) || n == 0 {
			return false;
		}
		let base = match self.resolve(from, at_height) {
			Some(b) => b,
			None => return false,
		};
		let mut tip = base;
		let mut blocks = Vec::with_capacity(n as usize);
		for i in 0..n {
			let b = match bad {
				Some((off, kind)) if off == i && (kind == BAD_POW || kind == BAD_MISSING) => kind,
				_ => 0,
			};
			tip = self.mine_on_bad(tip, b);
			blocks.push(tip);
		}
		self.branches.insert(new_branch, Branch { parent: Some(from), fork_height: at_height, blocks });
		true
	}

	pub fn ancestor_at(&self, mut idx: usize, height: u32) -> Option<usize> {
		if self.blocks[idx].height < height {
			return None;
		}
		while self.blocks[idx].height > height {
			idx = self.blocks[idx].parent?;
		}
		Some(idx)
	}

	pub fn is_ancestor_or_equal(&self, anc: usize, of: usize) -> bool {
		self.ancestor_at(of, self.blocks[anc].height) == Some(anc)
	}

	/// Lowest common ancestor (the fork point).
	pub fn lca(&self, mut a: usize, mut b: usize) -> usize {
		while self.blocks[a].height > self.blocks[b].height {
			a = self.blocks[a].parent.unwrap();
		}
		while self.blocks[b].height > self.blocks[a].height {
			b = self.blocks[b].parent.unwrap();
		}
		while a != b {
			a = self.blocks[a].parent.unwrap();
			b = self.blocks[b].parent.unwrap();
		}
		a
	}

	/// Path genesis..=idx as block indices (index in the vector = height).
	pub fn path_to(&self, idx: usize) -> Vec<usize> {
		let mut v = Vec::with_capacity(self.blocks[idx].height as usize + 1);
		let mut cur = Some(idx);
		while let Some(c) = cur {
			v.push(c);
			cur = self.blocks[c].parent;
		}
		v.reverse();
		v
	}

	/// Blocks strictly above `anc` up to and including `tip`, ascending.
	pub fn path_between(&self, anc: usize, tip: usize) -> Vec<usize> {
		let mut v = Vec::new();
		let mut cur = tip;
		while cur != anc {
			v.push(cur);
			cur = self.blocks[cur].parent.expect("anc must be an ancestor");
		}
		v.reverse();
		v
	}
}
