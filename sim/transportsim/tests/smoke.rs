//! Smoke tests: determinism, replay equivalence, no violation on a few seeds of every profile.
use simcore::runner::run_isolated;
use simcore::{mix, Sim, Tier};
use transportsim::{TransportSim, PROFILES};

#[test]
fn profiles_run_clean_and_deterministic() {
	simcore::runner::install_panic_hook();
	for p in PROFILES.iter() {
		let n = if *p == "rotation" { 6 } else { 40 };
		for i in 0..n {
			let seed = mix(3, i);
			let a = run_isolated(|| TransportSim.run(p, seed, Tier::Quick));
			let b = run_isolated(|| TransportSim.run(p, seed, Tier::Quick));
			assert!(a.violations.is_empty(), "{} seed {}: {:?}", p, seed, a.violations);
			assert!(a.harness_errors.is_empty());
			assert_eq!(a.history_fp, b.history_fp, "{} seed {}", p, seed);
		}
	}
}

#[test]
fn replay_reproduces_history() {
	simcore::runner::install_panic_hook();
	std::env::set_var("TRANSPORTSIM_KEEP_REPLAY", "1");
	for i in 0..30 {
		let seed = mix(5, i);
		let a = run_isolated(|| TransportSim.run("mix", seed, Tier::Quick));
		let rep = a.replay.clone().expect("replay");
		let b = run_isolated(|| TransportSim.replay(&rep));
		assert_eq!(a.history_fp, b.history_fp, "seed {}", seed);
		assert_eq!(a.steps, b.steps);
	}
}
