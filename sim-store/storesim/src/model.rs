//! Workload description (the replayable part of a run) and the per-run configuration.

use serde::{Deserialize, Serialize};
use simcore::Rng;

/// Where a fault is injected: the `nth` arrival (per site, counted over the whole execution) at
/// fault point `site` returns an `io::Error` of `kind`.
#[derive(Clone, Debug, Serialize, Deserialize, PartialEq, Eq)]
pub struct FaultCfg {
	pub site: String,
	pub nth: u32,
	pub kind: String,
}

#[derive(Clone, Debug, Serialize, Deserialize, PartialEq, Eq)]
pub struct SchedCfg {
	/// "random" or "pct"
	pub kind: String,
	pub seed: u64,
}

/// Everything about a run that is not the list of operations.
#[derive(Clone, Debug, Serialize, Deserialize, PartialEq, Eq)]
pub struct Config {
	/// "v1" (FilesystemStore) or "v2" (FilesystemStoreV2)
	pub store: String,
	pub sched: SchedCfg,
	/// (primary, secondary) pairs; operations refer to them by index
	pub namespaces: Vec<(String, String)>,
	/// key names; operations refer to them by index. Every key exists in every namespace.
	pub keys: Vec<String>,
	/// number of worker threads (thread 0 is the issuer of two-phase operations)
	pub threads: usize,
	pub faults: Vec<FaultCfg>,
	/// a non-empty lock map at quiescence is a violation (otherwise only a probe)
	pub strict_lock_map: bool,
	/// hold two-phase operations that returned an (injected) error to issue order too (otherwise
	/// only a probe): no contract says what a failed write leaves behind
	#[serde(default)]
	pub strict_failed_order: bool,
}

/// One operation of one thread's program. `id` is unique per run and determines the written value,
/// so that deleting other actions (shrinking) does not change what this one writes.
#[derive(Clone, Debug, Serialize, Deserialize, PartialEq, Eq)]
pub struct Action {
	/// thread index
	pub t: usize,
	pub id: u32,
	/// "write" | "read" | "remove" | "list" | "prep_write" | "prep_remove"
	pub op: String,
	pub ns: usize,
	#[serde(default)]
	pub key: usize,
	#[serde(default)]
	pub len: usize,
	#[serde(default)]
	pub lazy: bool,
}

impl Action {
	pub fn is_mutation(&self) -> bool {
		matches!(self.op.as_str(), "write" | "remove" | "prep_write" | "prep_remove")
	}
	pub fn is_prepared(&self) -> bool {
		matches!(self.op.as_str(), "prep_write" | "prep_remove")
	}
	pub fn is_write(&self) -> bool {
		matches!(self.op.as_str(), "write" | "prep_write")
	}
}

/// The value written by operation `id`: the tag `<id>` repeated and cut to `len` bytes. Any two
/// writes of a run differ in every tag-sized window, so a value assembled from two writes, or a
/// prefix of one, equals no written value (unless shorter than a tag).
pub fn value_of(id: u32, len: usize) -> Vec<u8> {
	let tag = format!("<{:05}>", id).into_bytes();
	let mut v = Vec::with_capacity(len);
	while v.len() < len {
		let n = (len - v.len()).min(tag.len());
		v.extend_from_slice(&tag[..n]);
	}
	v
}

pub const KINDS: &[&str] = &["Other", "StorageFull", "PermissionDenied", "Interrupted"];

pub fn kind_of(s: &str) -> std::io::ErrorKind {
	match s {
		"StorageFull" => std::io::ErrorKind::StorageFull,
		"PermissionDenied" => std::io::ErrorKind::PermissionDenied,
		"Interrupted" => std::io::ErrorKind::Interrupted,
		_ => std::io::ErrorKind::Other,
	}
}

fn long(c: char, head: &str) -> String {
	let mut s = head.to_string();
	while s.len() < 120 {
		s.push(c);
	}
	s
}

/// Namespace pool. Namespace names start with `n`/`m`, key names with `k`/`K`: the documented
/// `KVStore` precondition that a key must not equal the name of a namespace living in the same
/// directory level is thereby always met.
fn namespace_pool() -> Vec<(String, String)> {
	vec![
		(String::new(), String::new()),
		("n".to_string(), String::new()),
		("n".to_string(), "m".to_string()),
		("n".to_string(), "n".to_string()),
		("nn".to_string(), String::new()),
		(long('n', "n-_"), String::new()),
		(long('n', "n-_"), long('m', "m9")),
	]
}

fn key_pool() -> Vec<String> {
	vec![
		"k".to_string(),
		"ka".to_string(),
		"kab".to_string(),
		long('z', "kab"),
		long('k', "k"),
		"K-_9".to_string(),
		"k0".to_string(),
		"ktmp".to_string(),
	]
}

const MAX_OPS: usize = 24;

/// Draws configuration and workload of run `seed`.
pub fn generate(profile: &str, seed: u64) -> (Config, Vec<Action>) {
	let root = Rng::new(seed);
	let mut rc = root.fork("config");
	let mut rw = root.fork("workload");
	let mut rf = root.fork("faults");

	let (store, strict_lock_map, strict_failed_order) = match profile {
		"v2" => ("v2", false, false),
		"v1-lockmap" => ("v1", true, false),
		"v2-lockmap" => ("v2", true, false),
		"v1-strictfail" => ("v1", false, true),
		"v2-strictfail" => ("v2", false, true),
		_ => ("v1", false, false),
	};

	// swarm: sizes and weights vary per run
	let threads = rc.range(2, 4) as usize;
	let n_ns = rc.range(1, 2) as usize;
	let n_keys = rc.range(1, 3) as usize;
	let mut nsp = namespace_pool();
	rc.shuffle(&mut nsp);
	nsp.truncate(n_ns);
	let mut kp = key_pool();
	// half of the runs use a prefix chain on purpose
	if rc.coin() {
		kp = vec!["k".to_string(), "ka".to_string(), "kab".to_string(), long('z', "kab")];
	}
	rc.shuffle(&mut kp);
	kp.truncate(n_keys);
	let sched = SchedCfg {
		kind: if rc.chance(1, 2) { "random" } else { "pct" }.to_string(),
		seed: rc.next_u64(),
	};

	// operation weights: write, read, remove, list, prep_write, prep_remove
	let mut weights = [
		rw.range(2, 6) as u32,
		rw.range(1, 5) as u32,
		rw.range(0, 3) as u32,
		rw.range(0, 3) as u32,
		rw.range(0, 5) as u32,
		rw.range(0, 3) as u32,
	];
	if rw.chance(1, 5) {
		// runs without the two-phase operations
		weights[4] = 0;
		weights[5] = 0;
	}
	let hot_key = rw.chance(1, 2); // concentrate on one key of one namespace
	let mut per_thread: Vec<usize> = (0..threads).map(|_| rw.range(3, 8) as usize).collect();
	while per_thread.iter().sum::<usize>() > MAX_OPS {
		let i = rw.below(threads as u64) as usize;
		if per_thread[i] > 3 {
			per_thread[i] -= 1;
		}
	}
	let len_class = rw.below(4);
	let mut actions = Vec::new();
	let mut id = 0u32;
	for t in 0..threads {
		for _ in 0..per_thread[t] {
			let mut w = weights;
			if t != 0 {
				// two-phase operations are issued by thread 0 only, in its program order
				w[4] = 0;
				w[5] = 0;
			}
			if w.iter().all(|x| *x == 0) {
				w[0] = 1;
			}
			let op = ["write", "read", "remove", "list", "prep_write", "prep_remove"][rw.weighted(&w)];
			let (ns, key) = if hot_key && rw.chance(3, 4) {
				(0, 0)
			} else {
				(rw.below(n_ns as u64) as usize, rw.below(n_keys as u64) as usize)
			};
			let len = match (len_class + rw.below(2)) % 4 {
				0 => rw.below(17) as usize,
				1 => rw.below(4097) as usize,
				2 => rw.below(65537) as usize,
				_ => *rw.pick(&[0usize, 1, 7, 8, 4095, 4096, 4097, 65535, 65536]),
			};
			let lazy = rw.coin();
			id += 1;
			actions.push(Action {
				t,
				id,
				op: op.to_string(),
				ns,
				key: if op == "list" { 0 } else { key },
				len: if op == "write" || op == "prep_write" { len } else { 0 },
				lazy: (op == "remove" || op == "prep_remove") && lazy,
			});
		}
	}

	// buggify: a per-run random subset of sites, a few arrivals each
	let mut faults = Vec::new();
	if rf.chance(1, 2) {
		let sites: Vec<&str> = lightning_persister::verif::SITES
			.iter()
			.copied()
			.filter(|s| store == "v2" || (*s != "write.metadata" && *s != "write.set_times"))
			.collect();
		let n = rf.range(1, 3);
		for _ in 0..n {
			let site = *rf.pick(&sites);
			let nth = if rf.chance(1, 2) { rf.below(2) } else { rf.below(8) } as u32;
			let kind = *rf.pick(KINDS);
			let f = FaultCfg { site: site.to_string(), nth, kind: kind.to_string() };
			if !faults.iter().any(|g: &FaultCfg| g.site == f.site && g.nth == f.nth) {
				faults.push(f);
			}
		}
	}

	let cfg = Config {
		store: store.to_string(),
		sched,
		namespaces: nsp,
		keys: kp,
		threads,
		faults,
		strict_lock_map,
		strict_failed_order,
	};
	(cfg, actions)
}
