//! Actions, their execution against the real codecs, and the oracles C13-0..6.

use crate::allocguard;
use crate::gen::G;
use crate::msgs::*;
use crate::reader::{Chunking, Cut, ErrKind, FaultyReader, ReadStats};
use crate::tlvmodel::{self, bigsize, bigsize_wide, Rec, TailVerdict};
use lightning::ln::msgs::DecodeError;
use lightning::util::ser::{FixedLengthReader, LengthReadable, Writeable};
use serde::{Deserialize, Serialize};
use serde_json::json;
use simcore::runner::catch;
use simcore::{fnv_extend, RunOutcome};
use std::collections::BTreeSet;

/// Per-decode allocation ceiling (peak bytes above the level before the decode).
pub const ALLOC_LIMIT: usize = 64 << 20;
pub const FULL_SWEEP_MAX: usize = 4096;
pub const SAMPLED: usize = 512;

/// Which value: message type index, generator seed, and whether near-frame-limit sizes may occur.
#[derive(Clone, Copy, Debug, PartialEq, Eq, Serialize, Deserialize)]
pub struct Val {
	pub ty: u16,
	pub vseed: u64,
	pub big: bool,
}

#[derive(Clone, Debug, PartialEq, Eq, Serialize, Deserialize)]
pub enum Offsets {
	/// every offset if the encoding is <= 4 KiB, else the structural boundaries plus 512 offsets
	/// drawn from splitmix(seed)
	Auto { seed: u64 },
	List(Vec<u32>),
}

#[derive(Clone, Copy, Debug, PartialEq, Eq, Serialize, Deserialize)]
pub enum CutMode {
	/// the reader reports end-of-stream after k bytes; the declared length stays L
	Eof,
	/// a complete, shorter frame: declared length k and k bytes
	Truncate,
	/// the reader fails with an io::Error after k bytes
	IoErr(ErrKind),
}

#[derive(Clone, Debug, PartialEq, Eq, Serialize, Deserialize)]
pub enum Action {
	/// decode(encode(m)) through the given chunking, with `slack` foreign bytes behind the frame
	Clean { v: Val, chunk: Chunking, slack: u8 },
	Cut { v: Val, mode: CutMode, offs: Offsets, chunk: Chunking },
	/// at every chosen offset k: xor the byte with a non-zero mask derived from (mseed, k);
	/// `bit_only` restricts the mask to a single bit
	Mutate { v: Val, offs: Offsets, mseed: u64, bit_only: bool, chunk: Chunking },
	/// append `extra` (hex, 1..64 bytes) inside the declared frame
	Extend { v: Val, extra: String, chunk: Chunking },
	/// insert one TLV record with type `typ` at its sorted position; `tw`/`lw` force the BigSize
	/// width of type/length (0 = minimal, 3/5/9 = that many bytes); `claim` overrides the length
	/// field (a huge or simply wrong length) while the value stays `val`
	TlvInsert { v: Val, typ: u64, val: String, tw: u8, lw: u8, claim: Option<u64>, chunk: Chunking },
	/// re-encode the type (field 0) or length (field 1) of existing record `rec` (index modulo the
	/// number of records; same convention for `which` below) with BigSize
	/// width `w`, or overwrite its length with `claim`
	TlvRewrite { v: Val, rec: u16, field: u8, w: u8, claim: Option<u64>, chunk: Chunking },
	/// duplicate record `rec` (dup) or swap it with its successor
	TlvShuffle { v: Val, rec: u16, dup: bool, chunk: Chunking },
	/// overwrite u16 length/count prefix number `which` with 0xffff, or with value+1
	Inflate { v: Val, which: u16, plus_one: bool, chunk: Chunking },
	/// a byte-length prefix governing whole records is lowered by one
	Deflate { v: Val, which: u16, chunk: Chunking },
	/// write an out-of-range value into range-checked byte number `which`
	BadByte { v: Val, which: u16, chunk: Chunking },
	/// `len` bytes of noise from splitmix(nseed) decoded as type `ty`; if `keep` is set the first
	/// `keep` bytes are those of the valid encoding of `v` (so decoding gets past the first fields)
	Raw { v: Val, nseed: u64, len: u32, keep: u32, fill: u8, chunk: Chunking },
	/// literal payload bytes (hex) decoded as type `v.ty` (`v.vseed` is unused): the entry point for
	/// harvested messages. If `expect_ok`, the bytes were produced by the library itself and must
	/// decode; whatever decodes must survive re-encoding (C13-2).
	Bytes { v: Val, hex: String, expect_ok: bool, chunk: Chunking },
	/// compound: unknown odd TLV (value `vlen` bytes) inserted, reader fails inside its value
	IoErrInSkippedTlv { v: Val, typ: u64, vlen: u16, at: u16, kind: ErrKind, chunk: Chunking },
}

impl Action {
	pub fn kind(&self) -> &'static str {
		match self {
			Action::Clean { .. } => "Clean",
			Action::Cut { mode: CutMode::Eof, .. } => "CutEof",
			Action::Cut { mode: CutMode::Truncate, .. } => "CutTruncate",
			Action::Cut { mode: CutMode::IoErr(_), .. } => "CutIoErr",
			Action::Mutate { .. } => "Mutate",
			Action::Extend { .. } => "Extend",
			Action::TlvInsert { .. } => "TlvInsert",
			Action::TlvRewrite { .. } => "TlvRewrite",
			Action::TlvShuffle { .. } => "TlvShuffle",
			Action::Inflate { .. } => "Inflate",
			Action::Deflate { .. } => "Deflate",
			Action::BadByte { .. } => "BadByte",
			Action::Raw { .. } => "Raw",
			Action::Bytes { .. } => "Bytes",
			Action::IoErrInSkippedTlv { .. } => "IoErrInSkippedTlv",
		}
	}
	pub fn val(&self) -> Val {
		match self {
			Action::Clean { v, .. }
			| Action::Cut { v, .. }
			| Action::Mutate { v, .. }
			| Action::Extend { v, .. }
			| Action::TlvInsert { v, .. }
			| Action::TlvRewrite { v, .. }
			| Action::TlvShuffle { v, .. }
			| Action::Inflate { v, .. }
			| Action::Deflate { v, .. }
			| Action::BadByte { v, .. }
			| Action::Raw { v, .. }
			| Action::Bytes { v, .. }
			| Action::IoErrInSkippedTlv { v, .. } => *v,
		}
	}
	fn with_offsets(&self, k: u32) -> Action {
		let mut a = self.clone();
		match &mut a {
			Action::Cut { offs, .. } | Action::Mutate { offs, .. } => *offs = Offsets::List(vec![k]),
			_ => {},
		}
		a
	}
}

pub struct Env {
	pub out: RunOutcome,
	pub hist: u64,
	pub inter: u64,
	pub states: BTreeSet<u64>,
	pub trace: Vec<Action>,
	/// (index into trace, offset) of the first violation that happened inside a sweep
	pub narrow: Option<(usize, u32)>,
	pub saw_ok: bool,
	pub saw_err: bool,
	pub decodes: u64,
	cur_shape: u64,
}

struct Dec<M> {
	res: Result<Result<M, DecodeError>, (String, String)>,
	stats: ReadStats,
	peak: usize,
	max_one: usize,
	declared: usize,
}

fn splitmix(x: &mut u64) -> u64 {
	*x = x.wrapping_add(0x9e3779b97f4a7c15);
	let mut z = *x;
	z = (z ^ (z >> 30)).wrapping_mul(0xbf58476d1ce4e5b9);
	z = (z ^ (z >> 27)).wrapping_mul(0x94d049bb133111eb);
	z ^ (z >> 31)
}

fn decode<M: LengthReadable>(
	data: &[u8], declared: usize, chunk: Chunking, cut: Cut, nested: &[(usize, usize)],
) -> Dec<M> {
	let mut rd = FaultyReader::new(data, chunk, cut, nested);
	let base = if allocguard::installed() { allocguard::begin() } else { 0 };
	let res = catch(|| {
		// exactly what the peer handler's frame decode does, with the stream as the source
		let mut flr = FixedLengthReader::new(&mut rd, declared as u64);
		<M as LengthReadable>::read_from_fixed_length_buffer(&mut flr)
	});
	let (peak, max_one) = if allocguard::installed() { allocguard::end(base) } else { (0, 0) };
	Dec { res, stats: rd.stats, peak, max_one, declared }
}

fn short<T: std::fmt::Debug>(t: &T) -> String {
	let s = format!("{:?}", t);
	if s.len() > 360 {
		let mut cut = 360;
		while !s.is_char_boundary(cut) {
			cut -= 1;
		}
		format!("{}…(+{} chars)", &s[..cut], s.len() - cut)
	} else {
		s
	}
}

fn err_class(e: &DecodeError) -> (u8, &'static str) {
	match e {
		DecodeError::UnknownVersion => (2, "UnknownVersion"),
		DecodeError::UnknownRequiredFeature => (3, "UnknownRequiredFeature"),
		DecodeError::InvalidValue => (4, "InvalidValue"),
		DecodeError::ShortRead => (5, "ShortRead"),
		DecodeError::BadLengthDescriptor => (6, "BadLengthDescriptor"),
		DecodeError::Io(_) => (7, "Io"),
		DecodeError::UnsupportedCompression => (8, "UnsupportedCompression"),
		DecodeError::DangerousValue => (9, "DangerousValue"),
	}
}

/// What the model demands of one decode.
enum Expect<M> {
	Ok(M, &'static str, &'static str),
	Err(&'static str, &'static str),
	/// only the universal oracles apply
	Any,
}

struct Base<N: Node> {
	b: Built<N::M>,
	enc: Vec<u8>,
	/// TLV records of the tail, offsets absolute
	recs: Vec<Rec>,
	/// nested regions: model-declared ones plus every TLV value
	nested: Vec<(usize, usize)>,
}

impl Env {
	pub fn new(profile: &str, seed: u64) -> Env {
		Env {
			out: RunOutcome::new(profile, seed),
			hist: 0xcbf29ce484222325,
			inter: 0xcbf29ce484222325,
			states: BTreeSet::new(),
			trace: Vec::new(),
			narrow: None,
			saw_ok: false,
			saw_err: false,
			decodes: 0,
			cur_shape: 0,
		}
	}

	fn step(&self) -> u64 {
		self.trace.len() as u64
	}

	fn violate(&mut self, oracle: &str, sweep_k: Option<u32>, msg: String) {
		if self.out.violations.is_empty() {
			if let Some(k) = sweep_k {
				self.narrow = Some((self.trace.len().saturating_sub(1), k));
			}
		}
		let step = self.step();
		self.out.violate("C13", oracle, step, msg);
	}

	fn state(&mut self, ty: u16, kind: &str, region: u8, outcome: u8) {
		if self.states.len() < 4096 {
			let mut h = fnv_extend(0xcbf29ce484222325, &ty.to_le_bytes());
			h = fnv_extend(h, kind.as_bytes());
			h = fnv_extend(h, &[region, outcome]);
			h = fnv_extend(h, &self.cur_shape.to_le_bytes());
			self.states.insert(h);
		}
	}

	fn base<N: Node>(&mut self, v: Val) -> Option<Base<N>> {
		let mut g = G::new(v.vseed, v.big);
		let b = match catch(|| N::gen(&mut g)) {
			Ok(Ok(b)) => b,
			Ok(Err(e)) => {
				self.out.harness_errors.push(format!("{} vseed {}: generator: {}", N::NAME, v.vseed, e));
				return None;
			},
			Err((m, loc)) => {
				self.violate("C13-0 panic", None, format!("{} vseed {}: panic while building the value at {}: {}", N::NAME, v.vseed, loc, m));
				return None;
			},
		};
		let enc = match catch(|| b.m.encode()) {
			Ok(e) => e,
			Err((m, loc)) => {
				self.violate("C13-0 panic", None, format!("{} vseed {}: encode panicked at {}: {} ; value {}", N::NAME, v.vseed, loc, m, short(&b.m)));
				return None;
			},
		};
		let l = enc.len();
		// C13-1 (layout half): the encoding must have the BOLT layout the structural model states.
		self.out.bump("oracle:C13-1 layout");
		let mut recs = Vec::new();
		let ok = match N::TAIL {
			Tail::Unread => b.mand == l,
			Tail::Excess => b.mand <= l,
			Tail::Tlv => {
				b.mand <= l
					&& match tlvmodel::parse_stream(&enc[b.mand..]) {
						Ok(r) => {
							recs = r
								.into_iter()
								.map(|r| Rec { typ: r.typ, start: r.start + b.mand, val_start: r.val_start + b.mand, end: r.end + b.mand })
								.collect();
							recs.iter().all(|r| N::KNOWN.contains(&r.typ))
						},
						Err(_) => false,
					}
			},
		};
		if !ok {
			// The layout model was validated against the unchanged tree on every type (unit test +
			// batches), so a disagreement means the writer emits something other than the BOLT layout:
			// a dropped/added field, a changed TLV type number, a changed length prefix.
			let d: Dec<N::M> = decode(&enc, l, Chunking::All, Cut::None, &[]);
			let back = match d.res {
				Ok(Ok(ref m2)) if *m2 == b.m => "it does decode back to the value".to_string(),
				Ok(Ok(ref m2)) => format!("it decodes to a different value {}", short(m2)),
				Ok(Err(ref e)) => format!("it fails to decode: {:?}", e),
				Err((ref m, ref loc)) => format!("decoding it panics at {}: {}", loc, m),
			};
			let tail_desc = match N::TAIL {
				Tail::Tlv => format!("{:?}", tlvmodel::parse_stream(&enc[b.mand.min(l)..]).map(|r| r.iter().map(|x| x.typ).collect::<Vec<_>>())),
				_ => "-".to_string(),
			};
			self.violate("C13-1 layout", None, format!(
				"{} vseed {} big {}: encode(m) does not have the BOLT layout of the model (mandatory part {} bytes, defined TLV types {:?}); encoding is {} bytes, TLV tail parses as {}; {}; value {}",
				N::NAME, v.vseed, v.big, b.mand, N::KNOWN, l, tail_desc, back, short(&b.m)
			));
			return None;
		}
		let mut nested = b.nested.clone();
		for r in recs.iter() {
			if r.end > r.val_start {
				nested.push((r.val_start, r.end));
			}
		}
		nested.sort();
		let mut shape = fnv_extend(0xcbf29ce484222325, &[(usize::BITS - l.leading_zeros()) as u8]);
		for r in recs.iter() {
			shape = fnv_extend(shape, &r.typ.to_le_bytes());
		}
		self.cur_shape = shape;
		if l > FULL_SWEEP_MAX {
			self.out.bump("probe:encoding-over-4KiB");
		}
		if l >= 65000 {
			self.out.bump("probe:encoding-near-frame-limit");
		}
		if matches!(N::TAIL, Tail::Tlv) && !N::KNOWN.is_empty() {
			if recs.len() == N::KNOWN.len() {
				self.out.bump("probe:all-optional-tlvs-present");
			}
			if recs.is_empty() {
				self.out.bump("probe:no-optional-tlv-present");
			}
		}
		Some(Base { b, enc, recs, nested })
	}

	/// Universal oracles (0 panic, 3 allocation, 4 over-read) plus the expectation; then oracle 2 on
	/// any value that is not the one we started from. Returns the outcome class.
	fn check<N: Node>(
		&mut self, what: &str, v: Val, k: Option<u32>, kind: &'static str, region: u8, base_m: Option<&N::M>,
		d: Dec<N::M>, nested_checked: bool, expect: Expect<N::M>,
	) -> u8 {
		self.decodes += 1;
		let ctx = |k: Option<u32>| match k {
			Some(k) => format!("{} vseed {} big {} {} at offset {}", N::NAME, v.vseed, v.big, what, k),
			None => format!("{} vseed {} big {} {}", N::NAME, v.vseed, v.big, what),
		};
		// history: everything observable about this decode
		let mut h = self.hist;
		h = fnv_extend(h, &k.unwrap_or(u32::MAX).to_le_bytes());
		h = fnv_extend(h, &(d.stats.max_req_end as u64).to_le_bytes());
		h = fnv_extend(h, &d.stats.calls.to_le_bytes());
		h = fnv_extend(h, &(d.stats.delivered as u64).to_le_bytes());
		h = fnv_extend(h, &[d.stats.fired as u8]);

		self.out.bump("oracle:C13-0 panic");
		let res = match d.res {
			Err((msg, loc)) => {
				self.hist = fnv_extend(h, b"panic");
				self.violate("C13-0 panic", k, format!("{}: decoder panicked at {}: {}", ctx(k), loc, msg));
				self.state(v.ty, kind, region, 10);
				return 10;
			},
			Ok(r) => r,
		};
		if allocguard::installed() {
			self.out.bump("oracle:C13-3 allocation");
			if d.peak > (1 << 20) {
				self.out.bump("probe:decode-allocated-over-1MiB");
				self.out.bump(&format!("alloc-over-1MiB-by-type:{}", N::NAME));
			}
			if d.peak > ALLOC_LIMIT || d.max_one > ALLOC_LIMIT {
				self.violate("C13-3 allocation", k, format!(
					"{}: decode allocated {} bytes at peak (largest single request {}), frame length {}",
					ctx(k), d.peak, d.max_one, d.declared
				));
			}
		}
		self.out.bump("oracle:C13-4 overread");
		if d.stats.max_req_end > d.declared {
			self.violate("C13-4 overread", k, format!(
				"{}: the decoder asked the stream for bytes up to offset {} but the declared length is {}",
				ctx(k), d.stats.max_req_end, d.declared
			));
		}
		if nested_checked {
			self.out.bump("oracle:C13-4 overread-nested");
			if let Some((s, e, req)) = d.stats.nested_overread {
				self.violate("C13-4 overread", k, format!(
					"{}: a read inside the length-prefixed field [{}, {}) asked for bytes up to {}",
					ctx(k), s, e, req
				));
			}
		}
		let class = match &res {
			Ok(m2) => {
				self.saw_ok = true;
				if base_m.map(|b| b == m2).unwrap_or(false) {
					0
				} else {
					1
				}
			},
			Err(e) => {
				self.saw_err = true;
				let (c, name) = err_class(e);
				self.out.bump(&format!("probe:err-{}", name));
				c
			},
		};
		self.hist = fnv_extend(h, &[class]);
		self.state(v.ty, kind, region, class);

		let mut novel: Option<N::M> = None;
		match expect {
			Expect::Ok(want, oracle, why) => {
				self.out.bump(&format!("oracle:{}", oracle));
				match res {
					Ok(m2) => {
						if m2 != want {
							self.violate(oracle, k, format!("{}: {}: decoded {} but expected {}", ctx(k), why, short(&m2), short(&want)));
						}
					},
					Err(e) => self.violate(oracle, k, format!("{}: {}: decoder returned Err({:?}), expected {}", ctx(k), why, e, short(&want))),
				}
			},
			Expect::Err(oracle, why) => {
				self.out.bump(&format!("oracle:{}", oracle));
				if let Ok(m2) = res {
					self.violate(oracle, k, format!("{}: {}: decoder returned Ok({}) instead of an error", ctx(k), why, short(&m2)));
				}
			},
			Expect::Any => {
				if let Ok(m2) = res {
					if class == 1 {
						novel = Some(m2);
					}
				}
			},
		}
		if let Some(m2) = novel {
			self.reencode::<N>(&ctx(k), k, &m2);
		}
		class
	}

	/// C13-2: decode(b) = Ok(m) ⇒ decode(encode(m)) = Ok(m).
	fn reencode<N: Node>(&mut self, ctx: &str, k: Option<u32>, m2: &N::M) {
		self.out.bump("oracle:C13-2 reencode");
		self.out.bump("probe:decoded-a-different-value");
		let enc2 = match catch(|| m2.encode()) {
			Ok(e) => e,
			Err((msg, loc)) => {
				self.violate("C13-0 panic", k, format!("{}: re-encoding the decoded value {} panicked at {}: {}", ctx, short(m2), loc, msg));
				return;
			},
		};
		let d: Dec<N::M> = decode(&enc2, enc2.len(), Chunking::All, Cut::None, &[]);
		self.decodes += 1;
		match d.res {
			Err((msg, loc)) => self.violate("C13-0 panic", k, format!("{}: decoding the re-encoding of {} panicked at {}: {}", ctx, short(m2), loc, msg)),
			Ok(Ok(m3)) => {
				if m3 != *m2 {
					self.violate("C13-2 reencode", k, format!("{}: decoded value {} re-encodes to bytes that decode to {}", ctx, short(m2), short(&m3)));
				}
			},
			Ok(Err(e)) => self.violate("C13-2 reencode", k, format!("{}: decoded value {} re-encodes to {} bytes that fail to decode: {:?}", ctx, short(m2), enc2.len(), e)),
		}
		self.hist = fnv_extend(self.hist, &(enc2.len() as u64).to_le_bytes());
	}

	fn offsets<N: Node>(&self, offs: &Offsets, base: &Base<N>, upto: usize) -> Vec<u32> {
		match offs {
			Offsets::List(l) => l.iter().cloned().filter(|k| (*k as usize) < upto).collect(),
			Offsets::Auto { seed } => {
				if upto <= FULL_SWEEP_MAX {
					(0..upto as u32).collect()
				} else {
					let mut s: BTreeSet<u32> = BTreeSet::new();
					let mut add = |x: usize| {
						for d in [x.wrapping_sub(1), x, x + 1] {
							if d < upto {
								s.insert(d as u32);
							}
						}
					};
					add(0);
					add(base.b.mand);
					add(upto - 1);
					for r in base.recs.iter() {
						add(r.start);
						add(r.val_start);
						add(r.end);
					}
					for (o, e) in base.b.prefixes.iter() {
						add(*o);
						add(*e);
					}
					let mut st = *seed;
					let mut guard = 0;
					while s.len() < SAMPLED && guard < 4 * SAMPLED {
						s.insert((splitmix(&mut st) % upto as u64) as u32);
						guard += 1;
					}
					s.into_iter().collect()
				}
			},
		}
	}

	/// region class of offset k in a valid encoding
	fn region<N: Node>(base: &Base<N>, k: usize) -> u8 {
		if k < base.b.mand {
			if base.b.prefixes.iter().any(|(o, _)| k >= *o && k < *o + 2) {
				return 1; // inside a u16 length prefix
			}
			return 0; // mandatory field
		}
		match N::TAIL {
			Tail::Excess => 5,
			Tail::Unread => 6,
			Tail::Tlv => {
				for r in base.recs.iter() {
					if k == r.start {
						return 2; // record boundary
					}
					if k > r.start && k < r.val_start {
						return 3; // tlv header
					}
					if k >= r.val_start && k < r.end {
						return 4; // tlv value
					}
				}
				2
			},
		}
	}

	fn keep_only<N: Node>(m: &N::M, kept: &[u64]) -> N::M {
		let mut x = m.clone();
		for t in N::KNOWN.iter() {
			if !kept.contains(t) {
				N::clear(&mut x, *t);
			}
		}
		x
	}

	fn exec<N: Node>(&mut self, a: &Action) -> bool {
		let v = a.val();
		if let Action::Bytes { hex, expect_ok, chunk, .. } = a {
			let data = match simcore::unhex(hex) {
				Some(d) => d,
				None => return false,
			};
			self.cur_shape = data.len() as u64;
			let d: Dec<N::M> = decode(&data, data.len(), *chunk, Cut::None, &[]);
			let ok = matches!(d.res, Ok(Ok(_)));
			let class = self.check::<N>("literal payload", v, None, "Bytes", 9, None, d, false, Expect::Any);
			if *expect_ok {
				self.out.bump("oracle:C13-1 roundtrip");
				if !ok && class != 10 {
					self.violate("C13-1 roundtrip", None, format!("{}: a payload produced by the library does not decode: {}", N::NAME, &hex[..hex.len().min(200)]));
				}
			}
			return true;
		}
		let base: Base<N> = match self.base::<N>(v) {
			Some(b) => b,
			None => return false,
		};
		let l = base.enc.len();
		let kind = a.kind();
		match a {
			Action::Clean { chunk, slack, .. } => {
				// foreign bytes behind the frame: the "next message" on the stream
				let mut data = base.enc.clone();
				let mut st = v.vseed ^ 0x5151;
				for _ in 0..*slack {
					data.push(splitmix(&mut st) as u8);
				}
				let d: Dec<N::M> = decode(&data, l, *chunk, Cut::None, &base.nested);
				if d.stats.calls > 1 {
					self.out.bump("fault:chunked-delivery");
				}
				if !base.nested.is_empty() {
					self.out.bump("probe:nested-length-prefixed-field-checked");
				}
				let want = base.b.m.clone();
				self.check::<N>("clean decode of encode(m)", v, None, kind, 7, Some(&base.b.m), d, true,
					Expect::Ok(want, "C13-1 roundtrip", "decode(encode(m)) must equal m under any chunking"));
				true
			},
			Action::Cut { mode, offs, chunk, .. } => {
				let ks = self.offsets::<N>(offs, &base, l);
				if ks.is_empty() {
					return false;
				}
				for k32 in ks {
					let k = k32 as usize;
					let (d, fired): (Dec<N::M>, bool) = match mode {
						CutMode::Eof => {
							let d = decode(&base.enc, l, *chunk, Cut::Eof(k), &base.nested);
							let f = d.stats.fired;
							(d, f)
						},
						CutMode::Truncate => (decode(&base.enc[..k], k, *chunk, Cut::None, &base.nested), true),
						CutMode::IoErr(kind) => {
							let d = decode(&base.enc, l, *chunk, Cut::Err(k, *kind), &base.nested);
							let f = d.stats.fired;
							(d, f)
						},
					};
					let region = Self::region::<N>(&base, k);
					let expect: Expect<N::M> = if !fired {
						self.out.bump("probe:cut-not-reached");
						Expect::Ok(base.b.m.clone(), "C13-1 roundtrip", "the armed cut was never reached, so this is a clean decode")
					} else {
						match mode {
							CutMode::Eof => self.out.bump("fault:eof"),
							CutMode::Truncate => self.out.bump("fault:truncated-frame"),
							CutMode::IoErr(_) => self.out.bump("fault:io-error"),
						}
						if let CutMode::IoErr(_) = mode {
							Expect::Err("C13-5 reader-error", "the stream failed before the end of the encoding")
						} else if k < base.b.mand {
							Expect::Err("C13-5 truncation", "cut inside the mandatory fields")
						} else {
							match N::TAIL {
								Tail::Unread => Expect::Err("C13-5 truncation", "cut inside the mandatory fields"),
								Tail::Excess => {
									let mut x = base.b.m.clone();
									if let Some(e) = N::excess(&mut x) {
										e.truncate(k - base.b.mand);
									}
									self.out.bump("probe:cut-inside-excess-data");
									Expect::Ok(x, "C13-5 truncation", "cut inside free-form excess data keeps the shorter excess")
								},
								Tail::Tlv => match base.recs.iter().find(|r| r.start == k) {
									Some(r) => {
										let mut x = base.b.m.clone();
										N::strip(&mut x, r.typ);
										self.out.bump("probe:cut-at-tlv-boundary");
										Expect::Ok(x, "C13-5 truncation", "cut exactly at a TLV record boundary drops the later optional fields only")
									},
									None => Expect::Err("C13-5 truncation", "cut inside a TLV record"),
								},
							}
						}
					};
					let what = match mode {
						CutMode::Eof => "stream EOF",
						CutMode::Truncate => "frame truncated",
						CutMode::IoErr(_) => "stream io::Error",
					};
					let class = self.check::<N>(what, v, Some(k32), kind, region, Some(&base.b.m), d, true, expect);
					if let CutMode::IoErr(_) = mode {
						if class == 7 {
							self.out.bump("probe:io-error-surfaced-as-DecodeError::Io");
						}
					}
				}
				true
			},
			Action::Mutate { offs, mseed, bit_only, chunk, .. } => {
				let ks = self.offsets::<N>(offs, &base, l);
				if ks.is_empty() {
					return false;
				}
				let mut data = base.enc.clone();
				for k32 in ks {
					let k = k32 as usize;
					let mut st = *mseed ^ (k as u64).wrapping_mul(0x9e3779b97f4a7c15);
					let r = splitmix(&mut st);
					let mask = if *bit_only { 1u8 << (r % 8) } else { ((r >> 8) as u8).max(1) };
					let old = data[k];
					data[k] = old ^ mask;
					let d: Dec<N::M> = decode(&data, l, *chunk, Cut::None, &[]);
					if d.stats.delivered > k {
						self.out.bump(if *bit_only { "fault:bit-flip" } else { "fault:byte-mutation" });
					} else {
						self.out.bump("probe:mutation-behind-decoder-stop");
					}
					let region = Self::region::<N>(&base, k);
					let mut expect = Expect::Any;
					if matches!(N::TAIL, Tail::Tlv) && k >= base.b.mand {
						match tlvmodel::judge_tail(&base.enc[base.b.mand..], &data[base.b.mand..], N::KNOWN) {
							TailVerdict::MustFail(why) => {
								self.out.bump("probe:mutation-made-tlv-stream-invalid");
								expect = Expect::Err("C13-6 tlv-rules", why);
							},
							TailVerdict::Kept(kept) => {
								self.out.bump("probe:mutation-made-tlv-unknown-odd");
								expect = Expect::Ok(Self::keep_only::<N>(&base.b.m, &kept), "C13-6 tlv-rules", "records with unknown odd types are ignored, untouched records keep their meaning");
							},
							TailVerdict::Unknown => {},
						}
					}
					let class = self.check::<N>("single-byte mutation", v, Some(k32), kind, region, Some(&base.b.m), d, false, expect);
					if class == 0 {
						self.out.bump("probe:mutation-invisible-in-value");
					}
					data[k] = old;
				}
				true
			},
			Action::Extend { extra, chunk, .. } => {
				let extra = match simcore::unhex(extra) {
					Some(e) if !e.is_empty() => e,
					_ => return false,
				};
				let mut data = base.enc.clone();
				data.extend_from_slice(&extra);
				let d: Dec<N::M> = decode(&data, data.len(), *chunk, Cut::None, &[]);
				self.out.bump("fault:trailing-bytes");
				let expect = match N::TAIL {
					Tail::Excess => {
						let mut x = base.b.m.clone();
						if let Some(e) = N::excess(&mut x) {
							e.extend_from_slice(&extra);
						}
						Expect::Ok(x, "C13-1 roundtrip", "bytes after the known gossip fields are kept verbatim as excess data")
					},
					Tail::Unread => Expect::Any,
					Tail::Tlv => match tlvmodel::judge_tail(&base.enc[base.b.mand..], &data[base.b.mand..], N::KNOWN) {
						TailVerdict::MustFail(why) => Expect::Err("C13-6 tlv-rules", why),
						TailVerdict::Kept(kept) => Expect::Ok(Self::keep_only::<N>(&base.b.m, &kept), "C13-6 tlv-rules", "trailing records with unknown odd types are ignored"),
						TailVerdict::Unknown => Expect::Any,
					},
				};
				let class = self.check::<N>("trailing bytes inside the frame", v, None, kind, 8, Some(&base.b.m), d, false, expect);
				if matches!(N::TAIL, Tail::Unread) && class == 0 {
					self.out.bump("probe:trailing-bytes-ignored");
				}
				true
			},
			Action::TlvInsert { typ, val, tw, lw, claim, chunk, .. } => {
				if !matches!(N::TAIL, Tail::Tlv) || N::KNOWN.contains(typ) {
					return false;
				}
				let val = match simcore::unhex(val) {
					Some(x) => x,
					None => return false,
				};
				let tb = if *tw == 0 { Some(bigsize(*typ)) } else { bigsize_wide(*typ, *tw) };
				let lenv = claim.unwrap_or(val.len() as u64);
				let lb = if *lw == 0 { Some(bigsize(lenv)) } else { bigsize_wide(lenv, *lw) };
				let (tb, lb) = match (tb, lb) {
					(Some(t), Some(l)) => (t, l),
					_ => return false,
				};
				let at = base.recs.iter().find(|r| r.typ > *typ).map(|r| r.start).unwrap_or(l);
				let mut data = base.enc[..at].to_vec();
				data.extend_from_slice(&tb);
				data.extend_from_slice(&lb);
				data.extend_from_slice(&val);
				data.extend_from_slice(&base.enc[at..]);
				let d: Dec<N::M> = decode(&data, data.len(), *chunk, Cut::None, &[]);
				// the independent verdict
				let verdict = tlvmodel::judge_tail(&base.enc[base.b.mand..], &data[base.b.mand..], N::KNOWN);
				let expect = match verdict {
					TailVerdict::MustFail(why) => {
						match why {
							"unknown even tlv type" => self.out.bump("fault:unknown-even-tlv"),
							"non-minimal bigsize" => self.out.bump("fault:non-minimal-bigsize"),
							"tlv length overruns frame" | "truncated tlv header" => self.out.bump("fault:huge-tlv-length"),
							_ => self.out.bump("fault:malformed-tlv"),
						}
						Expect::Err("C13-6 tlv-rules", why)
					},
					TailVerdict::Kept(kept) => {
						self.out.bump("fault:unknown-odd-tlv");
						Expect::Ok(Self::keep_only::<N>(&base.b.m, &kept), "C13-6 tlv-rules", "a record with an unknown odd type must be ignored")
					},
					TailVerdict::Unknown => Expect::Any,
				};
				let class = self.check::<N>("inserted TLV record", v, None, kind, 2, Some(&base.b.m), d, false, expect);
				if class == 3 {
					self.out.bump("probe:unknown-even-reported-as-UnknownRequiredFeature");
				}
				true
			},
			Action::TlvRewrite { rec, field, w, claim, chunk, .. } => {
				if base.recs.is_empty() {
					return false;
				}
				let r = base.recs[*rec as usize % base.recs.len()].clone();
				let (tv, tw0) = tlvmodel::read_bigsize(&base.enc, r.start).unwrap();
				let (lv, _) = tlvmodel::read_bigsize(&base.enc, r.start + tw0).unwrap();
				let newt = if *field == 0 && *w != 0 { bigsize_wide(tv, *w) } else { Some(bigsize(tv)) };
				let lval = if *field == 1 { claim.unwrap_or(lv) } else { lv };
				let newl = if *field == 1 && *w != 0 { bigsize_wide(lval, *w) } else { Some(bigsize(lval)) };
				let (newt, newl) = match (newt, newl) {
					(Some(t), Some(l)) => (t, l),
					_ => return false,
				};
				let mut data = base.enc[..r.start].to_vec();
				data.extend_from_slice(&newt);
				data.extend_from_slice(&newl);
				data.extend_from_slice(&base.enc[r.val_start..]);
				if data == base.enc {
					return false;
				}
				let d: Dec<N::M> = decode(&data, data.len(), *chunk, Cut::None, &[]);
				let expect = match tlvmodel::judge_tail(&base.enc[base.b.mand..], &data[base.b.mand..], N::KNOWN) {
					TailVerdict::MustFail(why) => {
						if why == "non-minimal bigsize" {
							self.out.bump("fault:non-minimal-bigsize");
						} else {
							self.out.bump("fault:huge-tlv-length");
						}
						Expect::Err("C13-6 tlv-rules", why)
					},
					// a wrong (smaller) length on a known record: outcome depends on the value codec
					_ => {
						self.out.bump("fault:wrong-tlv-length");
						Expect::Any
					},
				};
				self.check::<N>("rewritten TLV type/length", v, None, kind, 3, Some(&base.b.m), d, false, expect);
				true
			},
			Action::TlvShuffle { rec, dup, chunk, .. } => {
				if base.recs.is_empty() {
					return false;
				}
				let data = if *dup {
					let r = &base.recs[*rec as usize % base.recs.len()];
					let mut d = base.enc[..r.end].to_vec();
					d.extend_from_slice(&base.enc[r.start..r.end]);
					d.extend_from_slice(&base.enc[r.end..]);
					self.out.bump("fault:duplicate-tlv");
					d
				} else {
					if base.recs.len() < 2 {
						return false;
					}
					let i = *rec as usize % (base.recs.len() - 1);
					let (r1, r2) = (&base.recs[i], &base.recs[i + 1]);
					let mut d = base.enc[..r1.start].to_vec();
					d.extend_from_slice(&base.enc[r2.start..r2.end]);
					d.extend_from_slice(&base.enc[r1.start..r1.end]);
					d.extend_from_slice(&base.enc[r2.end..]);
					self.out.bump("fault:out-of-order-tlv");
					d
				};
				let d: Dec<N::M> = decode(&data, data.len(), *chunk, Cut::None, &[]);
				self.check::<N>("duplicated / reordered TLV records", v, None, kind, 2, Some(&base.b.m), d, false,
					Expect::Err("C13-6 tlv-rules", "TLV types must be strictly increasing"));
				true
			},
			Action::Inflate { which, plus_one, chunk, .. } => {
				if base.b.prefixes.is_empty() {
					return false;
				}
				let (off, end) = base.b.prefixes[*which as usize % base.b.prefixes.len()];
				let old = u16::from_be_bytes([base.enc[off], base.enc[off + 1]]);
				let newv = if *plus_one {
					// guaranteed to fail only when the governed field is the last thing in the frame
					if end != l || old == 0xffff {
						return false;
					}
					old + 1
				} else {
					if l - (off + 2) >= 0xffff || old == 0xffff {
						return false;
					}
					0xffff
				};
				let mut data = base.enc.clone();
				data[off..off + 2].copy_from_slice(&newv.to_be_bytes());
				let d: Dec<N::M> = decode(&data, l, *chunk, Cut::None, &[]);
				self.out.bump("fault:inflated-u16-length");
				self.check::<N>("inflated u16 length prefix", v, Some(off as u32), kind, 1, Some(&base.b.m), d, false,
					Expect::Err("C13-5 truncation", "a length prefix that promises more bytes than the frame holds"));
				true
			},
			Action::Deflate { which, chunk, .. } => {
				if base.b.strict.is_empty() {
					return false;
				}
				let off = base.b.strict[*which as usize % base.b.strict.len()];
				let old = u16::from_be_bytes([base.enc[off], base.enc[off + 1]]);
				if old == 0 {
					return false;
				}
				let mut data = base.enc.clone();
				data[off..off + 2].copy_from_slice(&(old - 1).to_be_bytes());
				let d: Dec<N::M> = decode(&data, l, *chunk, Cut::None, &[]);
				self.out.bump("fault:deflated-record-list-length");
				self.check::<N>("record-list length lowered by one", v, Some(off as u32), kind, 1, Some(&base.b.m), d, false,
					Expect::Err("C13-5 truncation", "a record that straddles the end of its declared list"));
				true
			},
			Action::BadByte { which, chunk, .. } => {
				if base.b.bad.is_empty() {
					return false;
				}
				let (off, val) = base.b.bad[*which as usize % base.b.bad.len()];
				if base.enc[off] == val {
					return false;
				}
				let mut data = base.enc.clone();
				data[off] = val;
				let d: Dec<N::M> = decode(&data, l, *chunk, Cut::None, &[]);
				self.out.bump("fault:out-of-range-byte");
				self.check::<N>("out-of-range byte", v, Some(off as u32), kind, 0, Some(&base.b.m), d, false,
					Expect::Err("C13-6 tlv-rules", "bool / encoding-type / key-prefix byte outside its range"));
				true
			},
			Action::Raw { nseed, len, keep, fill, chunk, .. } => {
				let keep = (*keep as usize).min(l).min(*len as usize);
				let mut data = vec![0u8; *len as usize];
				let mut st = *nseed;
				match fill {
					0 => {},
					1 => data.iter_mut().for_each(|b| *b = 0xff),
					_ => data.iter_mut().for_each(|b| *b = splitmix(&mut st) as u8),
				}
				data[..keep].copy_from_slice(&base.enc[..keep]);
				let d: Dec<N::M> = decode(&data, data.len(), *chunk, Cut::None, &[]);
				self.out.bump("fault:noise");
				let class = self.check::<N>("noise", v, None, kind, 9, None, d, false, Expect::Any);
				if class <= 1 {
					self.out.bump("probe:noise-decoded-ok");
				}
				true
			},
			Action::Bytes { .. } => unreachable!("handled above"),
			Action::IoErrInSkippedTlv { typ, vlen, at, kind: ek, chunk, .. } => {
				if !matches!(N::TAIL, Tail::Tlv) || N::KNOWN.contains(typ) || typ % 2 == 0 || *vlen == 0 {
					return false;
				}
				let pos = base.recs.iter().find(|r| r.typ > *typ).map(|r| r.start).unwrap_or(l);
				let mut data = base.enc[..pos].to_vec();
				data.extend_from_slice(&bigsize(*typ));
				data.extend_from_slice(&bigsize(*vlen as u64));
				let vs = data.len();
				data.extend(std::iter::repeat(0x5a).take(*vlen as usize));
				data.extend_from_slice(&base.enc[pos..]);
				let k = vs + (*at as usize % *vlen as usize);
				let d: Dec<N::M> = decode(&data, data.len(), *chunk, Cut::Err(k, *ek), &[]);
				if !d.stats.fired {
					return false;
				}
				self.out.bump("fault:io-error-inside-skipped-tlv");
				self.check::<N>("stream io::Error inside the value of an unknown odd TLV", v, Some(k as u32), kind, 4, Some(&base.b.m), d, false,
					Expect::Err("C13-5 reader-error", "the stream failed before the end of the encoding"));
				true
			},
		}
	}

	/// Executes one action; returns false if it was not enabled (and therefore skipped).
	pub fn apply(&mut self, a: &Action) -> bool {
		let v = a.val();
		self.trace.push(a.clone());
		macro_rules! dispatch {
			($($i:expr => $n:ident),*) => {
				match v.ty {
					$($i => self.exec::<$n>(a),)*
					_ => false,
				}
			};
		}
		let ran = crate::for_each_node!(dispatch);
		if !ran && self.out.violations.is_empty() {
			// not enabled: leaves no mark in the trace
			self.trace.pop();
		}
		if ran {
			self.out.bump(&format!("action:{}", a.kind()));
			self.inter = fnv_extend(self.inter, a.kind().as_bytes());
			self.inter = fnv_extend(self.inter, &v.ty.to_le_bytes());
		} else {
			self.out.bump("skipped:not-enabled");
		}
		self.hist = fnv_extend(self.hist, &[ran as u8]);
		ran
	}

	pub fn finish(mut self, config: serde_json::Value, profile: &str) -> RunOutcome {
		self.out.steps = self.trace.len() as u64;
		self.out.sim_seconds = 0;
		self.out.history_fp = self.hist;
		self.out.interleaving_fp = self.inter;
		self.out.state_fps = self.states.iter().cloned().collect();
		self.out.add("decodes", self.decodes);
		let fired: u64 = self.out.counters.iter().filter(|(k, _)| k.starts_with("fault:")).map(|(_, v)| *v).sum();
		self.out.nontrivial = fired > 0 && self.saw_ok && self.saw_err;
		let first: Vec<serde_json::Value> = self.trace.iter().take(30).map(|a| {
			json!({"kind": a.kind(), "type": type_name(a.val().ty), "action": a})
		}).collect();
		self.out.sample = Some(json!({"config": config, "first_actions": first, "decodes": self.decodes}));
		if !self.out.violations.is_empty() {
			let mut trace = self.trace.clone();
			if let Some((i, k)) = self.narrow {
				if i < trace.len() {
					trace[i] = trace[i].with_offsets(k);
				}
			}
			self.out.replay = Some(json!({"sim": "codecsim", "profile": profile, "config": config, "trace": trace}));
		}
		self.out
	}
}

pub fn type_name(ty: u16) -> &'static str {
	macro_rules! names {
		($($i:expr => $n:ident),*) => {
			match ty {
				$($i => <$n as Node>::NAME,)*
				_ => "?",
			}
		};
	}
	crate::for_each_node!(names)
}

/// (tail kind, known TLV types) of a message type, for the scheduler.
pub fn type_info(ty: u16) -> (Tail, &'static [u64]) {
	macro_rules! info {
		($($i:expr => $n:ident),*) => {
			match ty {
				$($i => (<$n as Node>::TAIL, <$n as Node>::KNOWN),)*
				_ => (Tail::Unread, &[][..]),
			}
		};
	}
	crate::for_each_node!(info)
}

/// BOLT message type number of each node (taken from the library's own `wire::Type` impls).
pub fn wire_types() -> &'static Vec<u16> {
	static T: std::sync::OnceLock<Vec<u16>> = std::sync::OnceLock::new();
	T.get_or_init(|| {
		use lightning::ln::wire::Type;
		let mut out = Vec::new();
		macro_rules! ids {
			($($i:expr => $n:ident),*) => {
				$(
					let mut g = G::new(1, false);
					out.push(<$n as Node>::gen(&mut g).map(|b| b.m.type_id()).unwrap_or(0xffff));
				)*
			};
		}
		crate::for_each_node!(ids);
		out
	})
}

/// Builds the action that checks one harvested wire payload (without the 2-byte type), or None if
/// the type is not one of the simulated nodes.
pub fn harvested(wire_type: u16, payload: &[u8], chunk: Chunking) -> Option<Action> {
	let ty = wire_types().iter().position(|t| *t == wire_type)? as u16;
	Some(Action::Bytes { v: Val { ty, vseed: 0, big: false }, hex: simcore::hex(payload), expect_ok: true, chunk })
}
