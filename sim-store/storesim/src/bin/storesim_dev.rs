//! Development / stand-alone driver for storesim.
//!   storesim_dev batch <profile> <first-index> <count> [jobs]   run indices as the batch runner would (mix(VERIF_SEED, i))
//!   storesim_dev one <profile> <run-seed>                       one run, verbose
//!   storesim_dev determinism <profile> <count>                  every run twice, compare history_fp
//!   storesim_dev shrink <profile> <run-seed> [out.json]         replay + ddmin of a failing run
//!   storesim_dev replay <file>                                  same as `verif replay`
//!   storesim_dev worker <sim> <profile> <tier> <seed> <w> <nw> <runs>   simcore worker protocol

use simcore::runner::{install_panic_hook, replay_main, run_isolated, worker_main};
use simcore::{mix, RunOutcome, Sim, Tier};
use std::collections::BTreeMap;
use std::sync::atomic::{AtomicU64, Ordering};
use std::sync::{Arc, Mutex};
use std::time::Instant;
use storesim::StoreSim;

fn lookup(name: &str) -> Option<Box<dyn Sim>> {
	match name {
		"storesim" => Some(Box::new(StoreSim)),
		_ => None,
	}
}

fn base_seed() -> u64 {
	std::env::var("VERIF_SEED").ok().and_then(|s| s.parse().ok()).unwrap_or(1)
}

fn main() {
	let args: Vec<String> = std::env::args().collect();
	install_panic_hook();
	let code = match args.get(1).map(|s| s.as_str()) {
		Some("batch") => {
			let profile = args[2].clone();
			let first: u64 = args[3].parse().unwrap();
			let count: u64 = args[4].parse().unwrap();
			let jobs: u64 = args.get(5).and_then(|s| s.parse().ok()).unwrap_or(16);
			let next = Arc::new(AtomicU64::new(first));
			let agg: Arc<Mutex<(BTreeMap<String, u64>, Vec<RunOutcome>, u64, u64, std::collections::HashSet<u64>, std::collections::HashSet<u64>)>> =
				Arc::new(Mutex::new(Default::default()));
			let t0 = Instant::now();
			let mut hs = Vec::new();
			for _ in 0..jobs {
				let (next, agg, profile) = (Arc::clone(&next), Arc::clone(&agg), profile.clone());
				hs.push(std::thread::spawn(move || loop {
					let i = next.fetch_add(1, Ordering::Relaxed);
					if i >= first + count {
						break;
					}
					let seed = mix(base_seed(), i);
					let mut o = run_isolated(|| StoreSim.run(&profile, seed, Tier::Quick));
					o.seed = seed;
					let mut a = agg.lock().unwrap();
					for (k, v) in o.counters.iter() {
						*a.0.entry(k.clone()).or_insert(0) += *v;
					}
					a.2 += 1;
					if o.nontrivial {
						a.3 += 1;
						a.4.insert(o.interleaving_fp);
					}
					for s in o.state_fps.iter() {
						a.5.insert(*s);
					}
					if !o.violations.is_empty() || !o.harness_errors.is_empty() {
						println!("index {} seed {}: violations {:?} harness {:?}", i, seed, o.violations, o.harness_errors);
						if a.1.len() < 16 {
							a.1.push(o);
						}
					}
				}));
			}
			for h in hs {
				let _ = h.join();
			}
			let dt = t0.elapsed().as_secs_f64();
			let a = agg.lock().unwrap();
			if std::env::var("VERIF_COUNTERS").is_ok() {
				for (k, v) in a.0.iter() {
					println!("  {} = {}", k, v);
				}
			}
			println!(
				"profile {} runs {} nontrivial {} distinct_nontrivial_interleavings {} states {} failing {} wall {:.1}s = {:.0} runs/s ({} jobs)",
				profile, a.2, a.3, a.4.len(), a.5.len(), a.1.len(), dt, a.2 as f64 / dt, jobs
			);
			if a.1.is_empty() { 0 } else { 1 }
		},
		Some("one") => {
			let seed: u64 = args[3].parse().unwrap();
			let out = run_isolated(|| StoreSim.run(&args[2], seed, Tier::Quick));
			println!(
				"seed {} steps {} nontrivial {} history_fp {:016x} violations {:#?} harness {:?}",
				seed, out.steps, out.nontrivial, out.history_fp, out.violations, out.harness_errors
			);
			println!("{}", serde_json::to_string_pretty(&out.sample).unwrap());
			for (k, v) in out.counters.iter() {
				println!("  {} = {}", k, v);
			}
			if out.violations.is_empty() { 0 } else { 1 }
		},
		Some("determinism") => {
			let profile = args[2].clone();
			let count: u64 = args[3].parse().unwrap();
			let mut diffs = 0;
			for i in 0..count {
				let seed = mix(base_seed(), i);
				let a = run_isolated(|| StoreSim.run(&profile, seed, Tier::Quick));
				let b = run_isolated(|| StoreSim.run(&profile, seed, Tier::Quick));
				if a.history_fp != b.history_fp || a.interleaving_fp != b.interleaving_fp || a.counters != b.counters {
					println!("DIFF index {} seed {}: {:016x} vs {:016x}", i, seed, a.history_fp, b.history_fp);
					diffs += 1;
				}
			}
			println!("determinism: {} seeds x 2, {} differences", count, diffs);
			if diffs == 0 { 0 } else { 2 }
		},
		Some("shrink") => {
			let seed: u64 = args[3].parse().unwrap();
			let out = run_isolated(|| StoreSim.run(&args[2], seed, Tier::Quick));
			let v = match out.violations.first() {
				Some(v) => v.clone(),
				None => {
					println!("seed {} does not fail", seed);
					std::process::exit(0);
				},
			};
			let rep = out.replay.clone().expect("failing run carries a replay object");
			let n0 = rep["trace"].as_array().map(|a| a.len()).unwrap_or(0);
			println!("run: {} / {} at step {}: {}", v.property, v.oracle, v.step, v.message);
			let again = run_isolated(|| StoreSim.replay(&rep));
			let same = again.violations.iter().any(|x| x.oracle == v.oracle && x.message == v.message);
			println!("literal replay (recorded schedule): same oracle and message = {}, history_fp {:016x} vs {:016x}", same, out.history_fp, again.history_fp);
			let t0 = Instant::now();
			let (min, spent) = simcore::shrink::shrink(&StoreSim, &rep, &v.property, &v.oracle, std::time::Duration::from_secs(60));
			let n1 = min["trace"].as_array().map(|a| a.len()).unwrap_or(0);
			let fin = run_isolated(|| StoreSim.replay(&min));
			println!("ddmin: {} -> {} actions, {} replays, {:.1}s", n0, n1, spent, t0.elapsed().as_secs_f64());
			for x in fin.violations.iter() {
				println!("minimised: {} at step {}: {}", x.oracle, x.step, x.message);
			}
			println!("minimised trace: {}", serde_json::to_string(&min["trace"]).unwrap());
			if let Some(p) = args.get(4) {
				let file = serde_json::json!({
					"property": v.property, "oracle": v.oracle, "message": v.message, "step": v.step,
					"seed": seed, "profile": args[2], "replay": min, "minimised": true,
				});
				std::fs::write(p, serde_json::to_string_pretty(&file).unwrap()).expect("write replay file");
				println!("wrote {}", p);
			}
			if same && fin.violations.iter().any(|x| x.oracle == v.oracle) { 1 } else { 2 }
		},
		Some("replay") => replay_main(&args[2], &lookup),
		Some("worker") => {
			let sim = lookup(&args[2]).expect("sim");
			let tier = Tier::parse(&args[4]).expect("tier");
			worker_main(sim.as_ref(), &args[3], tier, args[5].parse().unwrap(), args[6].parse().unwrap(), args[7].parse().unwrap(), args[8].parse().unwrap());
			0
		},
		_ => {
			eprintln!("usage: storesim_dev batch|one|determinism|shrink|replay|worker ...");
			2
		},
	};
	std::process::exit(code);
}
