//! The raw adversary peer: speaks BOLT-8 directly through `PeerChannelEncryptor` (hook H4), not
//! through a `PeerManager`, so it can deviate from BOLT-1 in precisely chosen ways. It also carries
//! the small reference model of what the node it talks to must do with each thing it sends.

use crate::handlers::{custom_known, MsgSpec, WireMsg};
use bitcoin::secp256k1::{PublicKey, Secp256k1, SecretKey, SignOnly};
use lightning::ln::peer_channel_encryptor::{MessageBuf, NextNoiseStep, PeerChannelEncryptor};
use lightning::util::test_utils::TestNodeSigner;
use serde::{Deserialize, Serialize};
use simcore::runner::catch;

/// What the adversary can put on the wire.
#[derive(Clone, Debug, PartialEq, Eq, Serialize, Deserialize)]
pub enum AdvMsg {
	/// the genuine act one (initiator role only; act two / three are automatic replies)
	ActOne,
	/// `len` arbitrary bytes, not framed
	Garbage { len: u32, seed: u64 },
	/// a well-formed `init`; `unknown_even` sets a feature bit nobody knows as required;
	/// `net`: 0 no networks field, 1 the nodes' chain, 2 another chain
	Init { feat_seed: u64, unknown_even: bool, net: u8 },
	/// an encrypted frame with valid MACs carrying message type `ty` and `len` payload bytes
	Frame { ty: u16, len: u32, seed: u64 },
	/// `count` frames of type `ty`, payload lengths `len + i % 5`
	Burst { ty: u16, len: u32, count: u32, seed: u64 },
	/// a well-formed standard message (same builder as the honest nodes use)
	Std { spec: MsgSpec },
	/// a standard message type with an arbitrary payload (only "no panic" is claimed afterwards)
	BadStd { ty: u16, len: u32, seed: u64 },
	/// a frame whose authenticated length header announces 0 or 1 bytes (no room for a type)
	Short { len: u8 },
}

impl AdvMsg {
	pub fn kind(&self) -> &'static str {
		match self {
			AdvMsg::ActOne => "ActOne",
			AdvMsg::Garbage { .. } => "Garbage",
			AdvMsg::Init { .. } => "Init",
			AdvMsg::Frame { .. } => "Frame",
			AdvMsg::Burst { .. } => "Burst",
			AdvMsg::Std { .. } => "Std",
			AdvMsg::BadStd { .. } => "BadStd",
			AdvMsg::Short { .. } => "Short",
		}
	}
}

#[derive(Clone, Copy, Debug, PartialEq, Eq)]
pub enum ModelState {
	/// the node has not yet received our `init`
	PreInit,
	PostInit,
	/// the node must have hung up (at `kill_by`)
	Dead,
}

/// Reference model of the receiving node, advanced as the adversary *writes*; evaluated against
/// the number of bytes actually delivered.
pub struct AdvModel {
	pub state: ModelState,
	/// `(frame_end, message)` the node's handlers must have received once `frame_end` bytes arrived
	pub expect: Vec<(usize, WireMsg)>,
	/// offset by which `peer_connected` must have happened
	pub connect_at: Option<usize>,
	/// the node may hang up once `kill_from` bytes arrived and must have once `kill_by` arrived
	pub kill: Option<(usize, usize, &'static str)>,
	/// from this offset on only "no panic" and "nothing before init" are claimed
	pub unsure_from: Option<usize>,
	/// offset of the first unframed garbage byte
	pub garbage_at: Option<usize>,
	/// features we announced (for the `peer_connected` check)
	pub features: Vec<u8>,
}

pub struct RawPeer {
	pub enc: PeerChannelEncryptor,
	pub signer: TestNodeSigner,
	pub secp: Secp256k1<SignOnly>,
	pub node_id: PublicKey,
	pub initiator: bool,
	pub eph: SecretKey,
	pub act_one_sent: bool,
	inbuf: Vec<u8>,
	rx_len: Option<usize>,
	pub rx_broken: Option<String>,
	/// `(type, payload length)` of every message decrypted from the node
	pub rx: Vec<(u16, usize)>,
	/// ponglens we asked for, in order
	pub pongs_owed: std::collections::VecDeque<u16>,
	pub model: AdvModel,
	pub chain_known: bool,
}

pub fn plaintext(ty: u16, payload: &[u8]) -> Vec<u8> {
	let mut v = Vec::with_capacity(2 + payload.len());
	v.extend_from_slice(&ty.to_be_bytes());
	v.extend_from_slice(payload);
	v
}

/// standard types the library decodes itself
pub fn is_standard_type(ty: u16) -> bool {
	matches!(
		ty,
		1 | 2 | 7 | 9 | 16 | 17 | 18 | 19 | 32..=36 | 38 | 39 | 64..=74 | 77 | 80 | 81 | 127 | 128 | 130..=136
			| 256..=259 | 261..=265 | 513
	)
}

impl RawPeer {
	pub fn new(
		secret: SecretKey, eph: SecretKey, initiator: bool, their_node_id: PublicKey, node_has_chain: bool,
	) -> RawPeer {
		let secp = Secp256k1::signing_only();
		let signer = TestNodeSigner::new(secret);
		let node_id = PublicKey::from_secret_key(&secp, &secret);
		let enc = if initiator {
			PeerChannelEncryptor::new_outbound(their_node_id, eph)
		} else {
			PeerChannelEncryptor::new_inbound(&&signer)
		};
		RawPeer {
			enc,
			signer,
			secp,
			node_id,
			initiator,
			eph,
			act_one_sent: false,
			inbuf: Vec::new(),
			rx_len: None,
			rx_broken: None,
			rx: Vec::new(),
			pongs_owed: Default::default(),
			model: AdvModel {
				state: ModelState::PreInit,
				expect: Vec::new(),
				connect_at: None,
				kill: None,
				unsure_from: None,
				garbage_at: None,
				features: Vec::new(),
			},
			chain_known: node_has_chain,
		}
	}

	pub fn ready(&self) -> bool {
		self.enc.is_ready_for_encryption()
	}

	pub fn encrypt(&mut self, plain: &[u8]) -> Result<Vec<u8>, (String, String)> {
		let buf = MessageBuf::from_encoded(plain).map_err(|_| ("too long".to_string(), String::new()))?;
		catch(|| self.enc.encrypt_buffer(buf))
	}

	/// A frame whose header announces `len` (< 2) bytes: built with the same cipher calls.
	pub fn encrypt_short(&mut self, len: usize) -> Result<Vec<u8>, (String, String)> {
		let plain = vec![0x5au8; len];
		self.encrypt(&plain)
	}

	/// Consumes bytes that arrived from the node. Returns what the adversary writes in response
	/// (act two / act three / pongs), each as one item.
	pub fn feed(&mut self, data: &[u8]) -> Result<Vec<Vec<u8>>, (String, String)> {
		let mut replies = Vec::new();
		if self.rx_broken.is_some() {
			return Ok(replies);
		}
		self.inbuf.extend_from_slice(data);
		loop {
			let step = self.enc.get_noise_step();
			match step {
				NextNoiseStep::ActOne => {
					// responder waiting for act one
					if self.initiator || self.inbuf.len() < 50 {
						break;
					}
					let act: Vec<u8> = self.inbuf.drain(..50).collect();
					let eph = self.eph;
					let r = catch(|| self.enc.process_act_one_with_keys(&act, &&self.signer, eph, &self.secp))?;
					match r {
						Ok(act_two) => replies.push(act_two.to_vec()),
						Err(e) => {
							self.rx_broken = Some(format!("act one from the node rejected: {}", e.err));
							break;
						},
					}
				},
				NextNoiseStep::ActTwo => {
					if !self.initiator || !self.act_one_sent || self.inbuf.len() < 50 {
						break;
					}
					let act: Vec<u8> = self.inbuf.drain(..50).collect();
					let r = catch(|| self.enc.process_act_two(&act, &&self.signer))?;
					match r {
						Ok((act_three, _)) => replies.push(act_three.to_vec()),
						Err(e) => {
							self.rx_broken = Some(format!("act two from the node rejected: {}", e.err));
							break;
						},
					}
				},
				NextNoiseStep::ActThree => {
					if self.inbuf.len() < 66 {
						break;
					}
					let act: Vec<u8> = self.inbuf.drain(..66).collect();
					let r = catch(|| self.enc.process_act_three(&act))?;
					if let Err(e) = r {
						self.rx_broken = Some(format!("act three from the node rejected: {}", e.err));
						break;
					}
				},
				NextNoiseStep::NoiseComplete => match self.rx_len {
					None => {
						if self.inbuf.len() < 18 {
							break;
						}
						let hdr: Vec<u8> = self.inbuf.drain(..18).collect();
						match catch(|| self.enc.decrypt_length_header(&hdr))? {
							Ok(l) => self.rx_len = Some(l as usize),
							Err(e) => {
								self.rx_broken =
									Some(format!("length header #{} from the node: {}", self.rx.len(), e.err));
								break;
							},
						}
					},
					Some(l) => {
						if self.inbuf.len() < l + 16 {
							break;
						}
						let mut body: Vec<u8> = self.inbuf.drain(..l + 16).collect();
						match catch(|| self.enc.decrypt_message(&mut body))? {
							Ok(()) => {
								self.rx_len = None;
								if l < 2 {
									self.rx_broken = Some(format!("node sent a {}-byte message", l));
									break;
								}
								let ty = u16::from_be_bytes([body[0], body[1]]);
								self.rx.push((ty, l - 2));
								if ty == 18 && l >= 4 {
									// ping: answer like a well-behaved peer so timers do not fire
									let ponglen = u16::from_be_bytes([body[2], body[3]]);
									if ponglen < 65532 {
										let mut p = vec![0u8; 2 + 2 + ponglen as usize];
										p[0..2].copy_from_slice(&19u16.to_be_bytes());
										p[2..4].copy_from_slice(&ponglen.to_be_bytes());
										replies.push(self.encrypt(&p)?);
									}
								}
							},
							Err(e) => {
								self.rx_broken =
									Some(format!("message #{} from the node: {}", self.rx.len(), e.err));
								break;
							},
						}
					},
				},
			}
		}
		Ok(replies)
	}

	/// Advances the reference model for one well-formed frame `[start, end)` carrying `plain`.
	/// `visible`: what the node's handlers must be given (None = nothing).
	pub fn model_frame(&mut self, start: usize, end: usize, ty: u16, effect: FrameEffect) {
		let m = &mut self.model;
		if m.state == ModelState::Dead || m.unsure_from.is_some() || m.garbage_at.is_some() {
			return;
		}
		match effect {
			FrameEffect::Unsure => {
				m.unsure_from = Some(start);
			},
			FrameEffect::Short => {
				m.kill = Some((start + 18, end, "announced length below 2"));
				m.state = ModelState::Dead;
			},
			FrameEffect::Init { compatible, features } => {
				if m.state == ModelState::PreInit && compatible {
					m.state = ModelState::PostInit;
					m.connect_at = Some(end);
					m.features = features;
				} else {
					let why = if m.state == ModelState::PostInit { "second init" } else { "incompatible init" };
					m.kill = Some((end, end, why));
					m.state = ModelState::Dead;
				}
			},
			FrameEffect::Msg { wire, then_kill } => {
				if m.state == ModelState::PreInit {
					m.kill = Some((end, end, "message before init"));
					m.state = ModelState::Dead;
					return;
				}
				if let Some(w) = wire {
					if w.visible {
						m.expect.push((end, w));
					}
				}
				if then_kill {
					m.kill = Some((end, end, "error with all-zero channel id"));
					m.state = ModelState::Dead;
				}
			},
			FrameEffect::Unknown => {
				if m.state == ModelState::PreInit {
					m.kill = Some((end, end, "message before init"));
					m.state = ModelState::Dead;
				} else if ty % 2 == 0 {
					m.kill = Some((end, end, "unknown even type"));
					m.state = ModelState::Dead;
				}
			},
		}
	}
}

pub enum FrameEffect {
	Init { compatible: bool, features: Vec<u8> },
	Msg { wire: Option<WireMsg>, then_kill: bool },
	Unknown,
	Short,
	Unsure,
}

/// Classifies a `Frame{ty, payload}`: custom-known types reach the custom handler verbatim, types
/// nobody knows are ignored (odd) or fatal (even); standard types are not generated through `Frame`.
pub fn classify_raw(ty: u16, payload: &[u8]) -> FrameEffect {
	if is_standard_type(ty) || ty == 40 || ty == 41 {
		FrameEffect::Unsure
	} else if custom_known(ty) {
		FrameEffect::Msg {
			wire: Some(WireMsg { ty, bytes: payload.to_vec(), visible: true }),
			then_kill: false,
		}
	} else {
		FrameEffect::Unknown
	}
}
