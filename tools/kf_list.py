#!/usr/bin/env python3
"""Regenerates the bullet list of known findings in DESIGN.md (Appendix B.1) from known_findings.json.
Entries that only mark a consequence of another finding (oracle "*", same text) are folded."""
import json, re
d = json.load(open("/verif/known_findings.json"))
seen = {}
order = []
for f in d["findings"]:
    what = re.sub(r"^\(reported under [^)]*\) ", "", f["what"])
    f = dict(f, what=what)
    key = what[:160]
    if key in seen:
        seen[key]["props"].append(f["property"])
        continue
    seen[key] = {"props": [f["property"]], "oracle": f["oracle"], "what": f["what"]}
    order.append(key)
lines = []
for k in order:
    e = seen[k]
    props = ", ".join(dict.fromkeys(e["props"]))
    what = e["what"]
    if len(what) > 300:
        what = what[:300] + "..."
    lines.append("* **%s** (%s): %s" % (props, e["oracle"], what))
s = open("/verif/DESIGN.md").read()
start = s.index("under more than one property because the same defect is seen by several oracles):\n\n") + len(
    "under more than one property because the same defect is seen by several oracles):\n\n")
end = s.index("\n### B.2 False alarms")
s = s[:start] + "\n".join(lines) + "\n" + s[end:]
open("/verif/DESIGN.md", "w").write(s)
print(len(lines), "entries")
