//! C06: a cheating peer confirms a commitment transaction it has revoked.
//!
//! While the run proceeds every node's fully signed holder commitment (and, for non-anchor
//! channels, its signed HTLC transactions) is archived after each action through LDK's test-only
//! `unsafe_get_latest_holder_commitment_txn` - the archive of a peer that kept its old states.
//! `Cheat` picks one that the victim can punish (the victim holds its revocation secret), hands it
//! to the miner together with a seeded subset of its second-stage transactions and lets the victim
//! learn about it a few blocks late. The liquidation phase then runs the chain (with the seeded
//! confirmation delays, fee changes and monitor reloads of `LiqPlan`) and the oracle walks the spend
//! tree of the revoked commitment: whatever it paid to the cheater must have ended in the victim's
//! hands before the cheater's own spending path matured.

use crate::chain::Admit;
use crate::world::*;
use bitcoin::{OutPoint, Transaction};
use simcore::runner::catch;
use std::collections::BTreeSet;

#[derive(Clone)]
pub struct ArchEntry {
	/// holder commitment number (counts down from 2^48 - 1)
	pub number: u64,
	pub txs: Vec<Transaction>,
	pub step: u64,
}

#[derive(Clone)]
pub struct CheatState {
	pub cheater: usize,
	pub victim: usize,
	pub chan: usize,
	pub number: u64,
	pub commitment: Transaction,
	pub htlc_txs: Vec<Transaction>,
	/// second-stage transactions the cheater keeps pushing to the miner while the chain runs
	pub later: Vec<Transaction>,
	pub step: u64,
}

/// Seeded perturbations of the liquidation phase (rounds count from its start).
#[derive(Clone, Debug, Default)]
pub struct LiqPlan {
	/// (first round, number of rounds) during which blocks are mined without any transaction
	pub holds: Vec<(u32, u32)>,
	/// (round, node): the node is stopped and reloaded from its (fully written) disk
	pub restarts: Vec<(u32, usize)>,
	/// (round, node, sat per kw): the node's fee estimator moves
	pub fees: Vec<(u32, usize, u32)>,
	/// (round, depth): a shallow reorganisation (depth < 6, T4); removed transactions return to
	/// the mempool and are mined again
	pub reorgs: Vec<(u32, u32)>,
}

impl World {
	/// Archives the current holder commitment of every live node (profile `justice`).
	pub fn archive_commitments(&mut self) {
		for n in 0..self.nodes.len() {
			let mon = match self.nodes[n].live.as_ref() {
				Some(l) => l.monitor.clone(),
				None => continue,
			};
			let logger = self.nodes[n].logger.clone();
			for ci in 0..self.chans.len() {
				if self.chans[ci].a != n && self.chans[ci].b != n {
					continue;
				}
				let cid = self.chans[ci].channel_id;
				let m = match mon.get_monitor(cid) {
					Ok(m) => m,
					Err(_) => continue,
				};
				let number = m.verif_numbers().0;
				let have = self.archive.get(&(n, ci)).map(|v| v.iter().any(|e| e.number == number)).unwrap_or(false);
				if have {
					continue;
				}
				let txs = match catch(|| m.unsafe_get_latest_holder_commitment_txn(&logger)) {
					Ok(t) => t,
					Err(_) => continue,
				};
				drop(m);
				if txs.is_empty() {
					continue;
				}
				self.out.bump("probe:commitment_archived");
				if txs.len() > 1 {
					self.out.bump("probe:commitment_archived_with_htlc_txs");
				}
				let step = self.step;
				self.archive.entry((n, ci)).or_default().push(ArchEntry { number, txs, step });
			}
		}
	}

	/// The archive entries of (cheater, chan) the victim can punish, newest first.
	pub fn revoked_entries(&self, cheater: usize, chan: usize) -> Vec<ArchEntry> {
		let c = &self.chans[chan];
		let victim = if c.a == cheater { c.b } else { c.a };
		let (vmon, xmon) = match (self.nodes[victim].live.as_ref(), self.nodes[cheater].live.as_ref()) {
			(Some(v), Some(x)) => (v.monitor.clone(), x.monitor.clone()),
			_ => return Vec::new(),
		};
		let v_min_secret = match vmon.get_monitor(c.channel_id) {
			Ok(m) => m.verif_numbers().2,
			Err(_) => return Vec::new(),
		};
		let x_current = match xmon.get_monitor(c.channel_id) {
			Ok(m) => m.verif_numbers().0,
			Err(_) => return Vec::new(),
		};
		let mut v: Vec<ArchEntry> = self
			.archive
			.get(&(cheater, chan))
			.map(|v| v.iter().filter(|e| e.number > x_current && e.number >= v_min_secret).cloned().collect())
			.unwrap_or_default();
		v.sort_by_key(|e| e.number);
		v
	}

	pub fn do_cheat(&mut self, n: usize, chan: usize, age: u32, same_block: u32, later: u32, v_late: u8) -> bool {
		if self.cheat.is_some() || chan >= self.chans.len() || n >= self.nodes.len() {
			return false;
		}
		let c = self.chans[chan].clone();
		if c.a != n && c.b != n {
			return false;
		}
		let victim = if c.a == n { c.b } else { c.a };
		if !self.chain.utxos.contains_key(&c.funding) {
			return false;
		}
		let entries = self.revoked_entries(n, chan);
		if entries.is_empty() {
			return false;
		}
		let e = entries[(age as usize).min(entries.len() - 1)].clone();
		let commitment = e.txs[0].clone();
		let r = self.chain.admit_ext(&commitment, true, true);
		self.note(&format!(
			"node {} cheats on channel {} with its revoked commitment {} ({}, {} states old, {} htlc txs) -> {:?}",
			n,
			chan,
			e.number,
			commitment.compute_txid(),
			entries.iter().position(|x| x.number == e.number).unwrap_or(0) + 1,
			e.txs.len() - 1,
			r
		));
		if !matches!(r, Admit::Accepted | Admit::Replaced(_)) {
			return false;
		}
		self.out.bump("fault:revoked_commitment_confirmed");
		if !self.in_settle && self.trace.last() != Some(&Action::Settle) {
			self.out.bump("probe:cheat_in_the_middle_of_traffic");
		}
		if age >= 3 {
			self.out.bump("probe:revoked_state_at_least_4_old");
		}
		let mut st = CheatState {
			cheater: n,
			victim,
			chan,
			number: e.number,
			commitment: commitment.clone(),
			htlc_txs: e.txs[1..].to_vec(),
			later: Vec::new(),
			step: self.step,
		};
		if commitment.output.len() > 2 {
			self.out.bump("probe:revoked_commitment_has_htlc_or_anchor_outputs");
		}
		for (i, t) in st.htlc_txs.clone().iter().enumerate() {
			if same_block & (1 << i) != 0 {
				let r = self.chain.admit_ext(t, true, true);
				self.note(&format!("cheater's htlc tx {} with the commitment -> {:?}", t.compute_txid(), r));
				if matches!(r, Admit::Accepted | Admit::Replaced(_)) {
					self.out.bump("fault:cheater_htlc_tx_in_same_block");
				} else {
					st.later.push(t.clone());
				}
			} else if later & (1 << i) != 0 {
				st.later.push(t.clone());
			}
		}
		self.chans[chan].close_requested = true;
		self.chans[chan].force_closed_by = Some(n);
		self.cheat = Some(st);
		// the cheater's own LDK node plays no further part: its signer would (rightly) refuse to act
		// on the revoked state, and what the cheater does from here on is done by the harness
		self.complete_all_monitor_writes(n);
		if self.do_crash(n, &vec![0u8; 8]) {
			self.nodes[n].gone = true;
		}
		// the block with the revoked commitment; the victim may learn of it late
		self.do_mine(1);
		let late = (v_late as u32).min(3);
		if late > 0 {
			self.out.bump("fault:victim_learns_late");
			self.do_mine(late);
		}
		for x in 0..self.nodes.len() {
			self.do_sync(x, 255);
		}
		true
	}

	/// C07: the archive entry of (n, chan) that is the node's *previous* holder commitment and
	/// not yet revoked (its peer has signed the next one, the revoke_and_ack is still to come):
	/// either side may legitimately see it confirmed.
	pub fn previous_unrevoked(&self, n: usize, chan: usize) -> Option<ArchEntry> {
		let c = &self.chans[chan];
		let peer = if c.a == n { c.b } else { c.a };
		let (pm, xm) = match (self.nodes[peer].live.as_ref(), self.nodes[n].live.as_ref()) {
			(Some(p), Some(x)) => (p.monitor.clone(), x.monitor.clone()),
			_ => return None,
		};
		let peer_min_secret = pm.get_monitor(c.channel_id).ok()?.verif_numbers().2;
		let current = xm.get_monitor(c.channel_id).ok()?.verif_numbers().0;
		self.archive
			.get(&(n, chan))?
			.iter()
			.find(|e| e.number == current + 1 && e.number < peer_min_secret)
			.cloned()
	}

	/// The previous, still unrevoked holder commitment of `n` is mined (a watchtower, a backup
	/// restored by the operator, a transaction broadcast just before the update: all legitimate).
	pub fn do_close_prev(&mut self, n: usize, chan: usize) -> bool {
		if chan >= self.chans.len() || n >= self.nodes.len() {
			return false;
		}
		if !self.chain.utxos.contains_key(&self.chans[chan].funding) {
			return false;
		}
		let e = match self.previous_unrevoked(n, chan) {
			Some(e) => e,
			None => return false,
		};
		let tx = e.txs[0].clone();
		let r = self.chain.admit_ext(&tx, true, true);
		self.note(&format!("previous unrevoked commitment {} of node {} on channel {} mined -> {:?}", tx.compute_txid(), n, chan, r));
		if !matches!(r, Admit::Accepted | Admit::Replaced(_)) {
			return false;
		}
		self.out.bump("fault:closed_by_previous_unrevoked_commitment");
		self.chans[chan].close_requested = true;
		if self.chans[chan].force_closed_by.is_none() {
			self.chans[chan].force_closed_by = Some(n);
		}
		// whoever put an older state on chain must not carry on (it would go on to revoke what it
		// has just broadcast): the node stops for good; what is checked is how its peer copes
		self.complete_all_monitor_writes(n);
		if self.do_crash(n, &vec![0u8; 8]) {
			self.nodes[n].gone = true;
		}
		self.do_mine(1);
		for x in 0..self.nodes.len() {
			self.do_sync(x, 255);
		}
		true
	}

	/// The cheater hands whatever second-stage transactions it still has to the miner.
	pub fn cheater_push(&mut self) -> bool {
		let later = match self.cheat.as_ref() {
			Some(c) => c.later.clone(),
			None => return false,
		};
		let mut any = false;
		for t in later.iter() {
			let txid = t.compute_txid();
			if self.chain.confirmed.contains_key(&txid) {
				continue;
			}
			let r = self.chain.admit_ext(t, true, true);
			if matches!(r, Admit::Accepted | Admit::Replaced(_)) {
				self.note(&format!("cheater's htlc tx {} handed to the miner", txid));
				self.out.bump("fault:cheater_htlc_tx_later");
				any = true;
			}
		}
		any
	}

	pub fn do_liq_plan(&mut self, p: LiqPlan) -> bool {
		self.liq_plan = Some(p);
		true
	}

	/// Applies the plan's perturbations for liquidation round `round`; returns true when this
	/// round's block must leave the mempool alone.
	pub fn liq_round_faults(&mut self, round: u32) -> bool {
		let plan = match self.liq_plan.clone() {
			Some(p) => p,
			None => return false,
		};
		for (r, n) in plan.restarts.iter() {
			if *r == round && *n < self.nodes.len() && self.nodes[*n].live.is_some() {
				self.complete_all_monitor_writes(*n);
				self.do_persist_mgr(*n);
				self.complete_all_monitor_writes(*n);
				let picks = vec![0u8; 8];
				if self.do_crash(*n, &picks) {
					self.out.bump("fault:reload_during_onchain_resolution");
					self.do_restart(*n, 0);
					for peer in 0..self.nodes.len() {
						if peer != *n {
							self.do_reconnect(*n, peer);
						}
					}
				}
			}
		}
		for (r, n, rate) in plan.fees.iter() {
			if *r == round && *n < self.nodes.len() {
				// T5: the ceiling never drops below the other estimates
				let normal = self.nodes[*n].fee.normal.load(std::sync::atomic::Ordering::Relaxed);
				self.nodes[*n].fee.max.store((*rate).max(normal), std::sync::atomic::Ordering::Relaxed);
				self.out.bump("fault:fee_estimator_moved_during_onchain_resolution");
			}
		}
		for (r, depth) in plan.reorgs.iter() {
			if *r == round {
				// depth + 100: the transactions of the vanished blocks do not return to the mempool
				// (whoever still needs them has to broadcast them again)
				let readmit = *depth < 100;
				let d = (*depth % 100).clamp(1, 5);
				if !readmit {
					self.out.bump("fault:reorged_transactions_dropped_from_the_mempool");
				}
				self.readmit_foreign = true;
				let done = self.do_reorg(d, readmit, d + 1);
				self.readmit_foreign = false;
				if done {
					self.out.bump("fault:reorg_during_onchain_resolution");
					for n in 0..self.nodes.len() {
						self.do_sync(n, 255);
					}
				}
			}
		}
		let held = plan.holds.iter().any(|(from, len)| round >= *from && round < from + len);
		if held && !self.chain.mempool.is_empty() {
			self.out.bump("fault:confirmation_delayed");
		}
		held
	}

	/// C06-2: nothing the revoked commitment paid to the cheater stays with the cheater.
	pub fn justice_oracle(&mut self) {
		let st = match self.cheat.clone() {
			Some(s) => s,
			None => return,
		};
		if self.dead {
			return;
		}
		let txid = st.commitment.compute_txid();
		let conf_h = match self.chain.confirmed.get(&txid) {
			Some(h) => *h,
			None => {
				self.out.bump("probe:revoked_commitment_lost_the_race");
				return;
			},
		};
		self.out.bump("oracle:C06-2 cheater keeps nothing");
		let victim_scripts: BTreeSet<Vec<u8>> = self.node_scripts(st.victim).iter().map(|s| s.to_bytes()).collect();
		let anchor_like = |v: u64| self.cfg.chan_type != ChanType::Legacy && v <= 330;
		let delay = self.nodes[st.victim].cfg.to_self_delay as u32;
		// walk the spend tree
		let mut stack: Vec<(OutPoint, bitcoin::TxOut, u32)> = st
			.commitment
			.output
			.iter()
			.enumerate()
			.filter(|(_, o)| !anchor_like(o.value.to_sat()))
			.map(|(i, o)| (OutPoint { txid, vout: i as u32 }, o.clone(), conf_h))
			.collect();
		let mut seen_tx: BTreeSet<bitcoin::Txid> = BTreeSet::new();
		let mut to_victim: u64 = 0;
		let mut total: u64 = stack.iter().map(|x| x.1.value.to_sat()).sum();
		let mut problems: Vec<String> = Vec::new();
		let mut second_stage_punished = 0;
		let cheater_htlc_ids: BTreeSet<bitcoin::Txid> = st.htlc_txs.iter().map(|t| t.compute_txid()).collect();
		while let Some((op, out, created)) = stack.pop() {
			let v = out.value.to_sat();
			if victim_scripts.contains(&out.script_pubkey.to_bytes()) {
				to_victim += v;
				continue;
			}
			match self.chain.confirmed_spender(&op) {
				None => {
					if v < 1000 {
						// too small to pay for its own claim at the minimum relay fee (the cheater cannot
						// take it economically either)
						self.out.bump("probe:revoked_output_too_small_to_claim");
						continue;
					}
					problems.push(format!("output {} ({} sat) was never spent", op, v));
				},
				Some((h, tx)) => {
					let stx = tx.clone();
					let sid = stx.compute_txid();
					if cheater_htlc_ids.contains(&sid) {
						second_stage_punished += 1;
					} else if h >= created + delay && op.txid == txid {
						// not checked for outputs further down (their CSV clock starts later)
						problems.push(format!(
							"output {} ({} sat) was only spent at height {}, {} blocks after it confirmed (the cheater's delay is {})",
							op,
							v,
							h,
							h - created,
							delay
						));
					}
					if seen_tx.insert(sid) {
						for (i, o) in stx.output.iter().enumerate() {
							stack.push((OutPoint { txid: sid, vout: i as u32 }, o.clone(), h));
						}
						// value entering from outside the tree (wallet inputs of a fee bump)
						let _ = &mut total;
					}
				},
			}
		}
		if second_stage_punished > 0 {
			self.out.bump("probe:cheater_second_stage_confirmed");
		}
		self.note(&format!(
			"justice: revoked commitment {} confirmed at {}, {} sat in its non-anchor outputs, {} sat reached the victim's scripts",
			txid, conf_h, total, to_victim
		));
		if !problems.is_empty() {
			self.violate(
				"C06",
				"C06-2 cheater keeps part of a revoked commitment",
				format!(
					"node {} confirmed its revoked commitment {} (number {}) on channel {}; victim node {}: {}",
					st.cheater,
					txid,
					st.number,
					st.chan,
					st.victim,
					problems.join("; ")
				),
			);
		}
	}
}
