//! Block chain + mempool + UTXO model (DESIGN §4.2). Script validity is libbitcoinconsensus;
//! finality (nLockTime, BIP-68) and the few policy rules LDK relies on are modelled here.

use bitcoin::block::Header;
use bitcoin::blockdata::constants::genesis_block;
use bitcoin::hashes::Hash;
use bitcoin::{Amount, Network, OutPoint, Transaction, TxOut, Txid};
use lightning::ln::functional_test_utils::create_dummy_header;
use std::collections::{BTreeMap, HashMap, HashSet};

#[derive(Clone)]
pub struct Block {
	pub header: Header,
	pub txs: Vec<Transaction>,
}

#[derive(Clone, Debug)]
pub struct Utxo {
	pub out: TxOut,
	pub height: u32,
}

#[derive(Clone, Debug, PartialEq, Eq)]
pub enum Admit {
	Accepted,
	Replaced(usize),
	AlreadyKnown,
	/// an input is spent by a *confirmed* transaction (lost race) or never existed
	MissingOrSpent(String),
	/// consensus failure: a script does not verify
	ScriptFail(String),
	/// consensus failure: not final at the next block
	NonFinal(String),
	/// outputs exceed inputs
	NegativeFee(String),
	/// policy: below min relay fee / replacement does not pay more / conflicts with non-RBF
	Policy(String),
}

pub struct ChainModel {
	pub blocks: Vec<Block>,
	pub utxos: HashMap<OutPoint, Utxo>,
	pub confirmed: HashMap<Txid, u32>,
	pub mempool: Vec<Transaction>,
	/// every transaction ever seen (confirmed, pending or evicted), for prevout lookups of
	/// already-spent outputs when classifying
	pub all_txs: HashMap<Txid, Transaction>,
	pub time: u32,
	/// setup transactions (coinbase-like, synthetic funding) bypass script checks
	pub setup_txids: HashSet<Txid>,
	/// every header ever mined (also of blocks later reorganised away) with its height, so that
	/// the fork point of a consumer that sits on a vanished block can be found exactly
	pub all_headers: HashMap<bitcoin::BlockHash, (Header, u32)>,
}

pub const MIN_RELAY_SAT_PER_KW: u64 = 253;

impl ChainModel {
	pub fn new() -> Self {
		// height 0 is the real genesis block: a fresh ChannelManager starts from it, and the
		// Listen-style delivery requires every connected header to build on the previous one
		let g = genesis_block(Network::Bitcoin);
		let header = g.header;
		ChainModel {
			blocks: vec![Block { header, txs: Vec::new() }],
			utxos: HashMap::new(),
			confirmed: HashMap::new(),
			mempool: Vec::new(),
			all_txs: HashMap::new(),
			time: 42,
			setup_txids: HashSet::new(),
			all_headers: {
				let mut m = HashMap::new();
				m.insert(header.block_hash(), (header, 0));
				m
			},
		}
	}

	pub fn tip_height(&self) -> u32 {
		(self.blocks.len() - 1) as u32
	}
	pub fn tip_hash(&self) -> bitcoin::BlockHash {
		self.blocks.last().unwrap().header.block_hash()
	}
	pub fn block_at(&self, h: u32) -> &Block {
		&self.blocks[h as usize]
	}

	fn push_block(&mut self, txs: Vec<Transaction>) {
		let prev = self.tip_hash();
		self.time += 600;
		let header = create_dummy_header(prev, self.time);
		let height = self.tip_height() + 1;
		for tx in txs.iter() {
			let txid = tx.compute_txid();
			for i in tx.input.iter() {
				self.utxos.remove(&i.previous_output);
			}
			for (idx, o) in tx.output.iter().enumerate() {
				self.utxos.insert(OutPoint { txid, vout: idx as u32 }, Utxo { out: o.clone(), height });
			}
			self.confirmed.insert(txid, height);
			self.all_txs.insert(txid, tx.clone());
		}
		self.all_headers.insert(header.block_hash(), (header, height));
		self.blocks.push(Block { header, txs });
	}

	/// Height of the highest ancestor of `hash` (a block this model mined at some point) that is
	/// still in the chain; None when the block is unknown.
	pub fn fork_height_of(&self, hash: &bitcoin::BlockHash) -> Option<u32> {
		let mut cur = *hash;
		loop {
			let (hdr, h) = self.all_headers.get(&cur)?;
			if (*h as usize) < self.blocks.len() && self.blocks[*h as usize].header.block_hash() == cur {
				return Some(*h);
			}
			cur = hdr.prev_blockhash;
		}
	}

	/// Mines a setup transaction (no script checks) directly.
	pub fn mine_setup_tx(&mut self, tx: Transaction) {
		self.setup_txids.insert(tx.compute_txid());
		self.push_block(vec![tx]);
	}

	pub fn mine_empty(&mut self, n: u32) {
		for _ in 0..n {
			self.push_block(Vec::new());
		}
	}

	/// The output an input refers to, if currently spendable (confirmed-unspent or created by a
	/// mempool transaction and not spent by another mempool transaction).
	fn lookup_spendable(&self, op: &OutPoint, ignoring: &HashSet<Txid>) -> Option<(TxOut, Option<u32>)> {
		for m in self.mempool.iter() {
			let mid = m.compute_txid();
			if ignoring.contains(&mid) {
				continue;
			}
			if m.input.iter().any(|i| i.previous_output == *op) {
				return None;
			}
		}
		if let Some(u) = self.utxos.get(op) {
			return Some((u.out.clone(), Some(u.height)));
		}
		for m in self.mempool.iter() {
			let mid = m.compute_txid();
			if ignoring.contains(&mid) {
				continue;
			}
			if mid == op.txid {
				return m.output.get(op.vout as usize).map(|o| (o.clone(), None));
			}
		}
		None
	}

	pub fn prevout(&self, op: &OutPoint) -> Option<TxOut> {
		self.all_txs.get(&op.txid).and_then(|t| t.output.get(op.vout as usize).cloned()).or_else(|| {
			self.mempool
				.iter()
				.find(|m| m.compute_txid() == op.txid)
				.and_then(|t| t.output.get(op.vout as usize).cloned())
		})
	}

	pub fn fee_of(&self, tx: &Transaction) -> Option<i64> {
		let mut inp: i64 = 0;
		for i in tx.input.iter() {
			inp += self.prevout(&i.previous_output)?.value.to_sat() as i64;
		}
		let out: i64 = tx.output.iter().map(|o| o.value.to_sat() as i64).sum();
		Some(inp - out)
	}

	fn descendants_in_mempool(&self, roots: &HashSet<Txid>) -> HashSet<Txid> {
		let mut set = roots.clone();
		loop {
			let mut grew = false;
			for m in self.mempool.iter() {
				let mid = m.compute_txid();
				if set.contains(&mid) {
					continue;
				}
				if m.input.iter().any(|i| set.contains(&i.previous_output.txid)) {
					set.insert(mid);
					grew = true;
				}
			}
			if !grew {
				break;
			}
		}
		set
	}

	/// Mempool admission. `package_parent_ok`: a zero-fee (TRUC) parent is accepted when the
	/// caller relays it together with a fee-paying child.
	pub fn admit(&mut self, tx: &Transaction, allow_zero_fee_parent: bool) -> Admit {
		self.admit_ext(tx, allow_zero_fee_parent, false)
	}

	/// `miner`: the transaction is handed to the miner directly (a cheating peer who mines, or
	/// pays a miner): consensus rules only, relay policy (minimum fee, replacement rules) is skipped
	/// and conflicting mempool transactions are simply evicted.
	pub fn admit_ext(&mut self, tx: &Transaction, allow_zero_fee_parent: bool, miner: bool) -> Admit {
		let txid = tx.compute_txid();
		if self.confirmed.contains_key(&txid) || self.mempool.iter().any(|m| m.compute_txid() == txid) {
			return Admit::AlreadyKnown;
		}
		if tx.input.is_empty() {
			return Admit::Policy("no inputs".into());
		}
		// conflicts inside the mempool
		let mut conflicts: HashSet<Txid> = HashSet::new();
		for m in self.mempool.iter() {
			if m.input.iter().any(|mi| tx.input.iter().any(|i| i.previous_output == mi.previous_output)) {
				conflicts.insert(m.compute_txid());
			}
		}
		let evict = self.descendants_in_mempool(&conflicts);
		// inputs
		let next_height = self.tip_height() + 1;
		let mut spent: HashMap<OutPoint, TxOut> = HashMap::new();
		let mut in_sum: u64 = 0;
		let mut seen = HashSet::new();
		for i in tx.input.iter() {
			if !seen.insert(i.previous_output) {
				return Admit::MissingOrSpent(format!("input {} spent twice", i.previous_output));
			}
			if evict.contains(&i.previous_output.txid) {
				return Admit::Policy("spends an output of a transaction it replaces".into());
			}
			match self.lookup_spendable(&i.previous_output, &evict) {
				Some((out, conf_height)) => {
					// BIP-68
					if tx.version.0 >= 2 && i.sequence.is_relative_lock_time() {
						if let Some(rl) = i.sequence.to_relative_lock_time() {
							match rl {
								bitcoin::relative::LockTime::Blocks(h) => {
									let need = h.value() as u32;
									match conf_height {
										Some(ch) => {
											if next_height < ch + need {
												return Admit::NonFinal(format!(
													"BIP68: input {} confirmed at {} needs {} blocks, next height {}",
													i.previous_output, ch, need, next_height
												));
											}
										},
										None => {
											if need > 0 {
												return Admit::NonFinal(format!(
													"BIP68: input {} unconfirmed but needs {} blocks",
													i.previous_output, need
												));
											}
										},
									}
								},
								bitcoin::relative::LockTime::Time(_) => {
									return Admit::NonFinal("time-based relative lock not modelled".into());
								},
							}
						}
					}
					in_sum += out.value.to_sat();
					spent.insert(i.previous_output, out);
				},
				None => {
					return Admit::MissingOrSpent(format!(
						"input {} missing or already spent",
						i.previous_output
					));
				},
			}
		}
		// nLockTime
		let lt = tx.lock_time.to_consensus_u32();
		let lt_enabled = tx.input.iter().any(|i| i.sequence.enables_absolute_lock_time());
		if lt_enabled && lt != 0 {
			if tx.lock_time.is_block_height() {
				// final in block N iff lock_time < N
				if lt >= next_height {
					return Admit::NonFinal(format!(
						"nLockTime {} not final for next height {}",
						lt, next_height
					));
				}
			} else {
				// time-based: LDK's obscured commitment numbers use 0x20xxxxxx, always in the past
				if lt >= 0x2100_0000 {
					return Admit::NonFinal(format!("time-based nLockTime {}", lt));
				}
			}
		}
		// scripts
		let res = tx.verify(|op| spent.get(op).cloned());
		if let Err(e) = res {
			return Admit::ScriptFail(format!("{:?}", e));
		}
		// fee
		let out_sum: u64 = tx.output.iter().map(|o| o.value.to_sat()).sum();
		if out_sum > in_sum {
			return Admit::NegativeFee(format!("inputs {} < outputs {}", in_sum, out_sum));
		}
		let fee = in_sum - out_sum;
		let weight = tx.weight().to_wu();
		let is_truc = tx.version.0 == 3;
		// Bitcoin Core's default: 1 sat per virtual byte
		let _ = MIN_RELAY_SAT_PER_KW;
		if fee < (weight + 3) / 4 && !miner {
			if !(is_truc && allow_zero_fee_parent) {
				return Admit::Policy(format!("fee {} below min relay for weight {}", fee, weight));
			}
		}
		// replacement rules (BIP-125 3/4, simplified)
		if !conflicts.is_empty() {
			let mut old_fee: u64 = 0;
			let mut old_weight: u64 = 0;
			for m in self.mempool.iter() {
				if evict.contains(&m.compute_txid()) {
					old_fee += self.fee_of(m).unwrap_or(0).max(0) as u64;
					old_weight += m.weight().to_wu();
				}
			}
			if fee <= old_fee && !miner {
				return Admit::Policy(format!(
					"replacement fee {} not above replaced fee {}",
					fee, old_fee
				));
			}
			// feerate must be higher than the directly replaced ones
			if (fee as u128) * (old_weight as u128) <= (old_fee as u128) * (weight as u128) && !miner {
				return Admit::Policy("replacement feerate not higher".into());
			}
			let n = evict.len();
			self.mempool.retain(|m| !evict.contains(&m.compute_txid()));
			self.mempool.push(tx.clone());
			self.all_txs.insert(txid, tx.clone());
			return Admit::Replaced(n);
		}
		self.mempool.push(tx.clone());
		self.all_txs.insert(txid, tx.clone());
		Admit::Accepted
	}

	/// Mines one block containing the mempool transactions selected by `include` (by index; a
	/// transaction whose parent is left out is left out too).
	pub fn mine_selected(&mut self, include: &dyn Fn(usize, &Transaction) -> bool) -> Vec<Transaction> {
		let pool = std::mem::take(&mut self.mempool);
		let mut chosen: Vec<Transaction> = Vec::new();
		let mut left: Vec<Transaction> = Vec::new();
		let mut left_ids: HashSet<Txid> = HashSet::new();
		for (idx, tx) in pool.into_iter().enumerate() {
			let parent_left = tx.input.iter().any(|i| left_ids.contains(&i.previous_output.txid));
			if !parent_left && include(idx, &tx) {
				chosen.push(tx);
			} else {
				left_ids.insert(tx.compute_txid());
				left.push(tx);
			}
		}
		self.mempool = left;
		self.push_block(chosen.clone());
		// anything left whose inputs are now spent by the block is evicted
		let utxos = &self.utxos;
		let mut valid_ids: HashSet<Txid> = HashSet::new();
		let mut keep = Vec::new();
		for tx in std::mem::take(&mut self.mempool) {
			let ok = tx.input.iter().all(|i| {
				utxos.contains_key(&i.previous_output) || valid_ids.contains(&i.previous_output.txid)
			});
			if ok {
				valid_ids.insert(tx.compute_txid());
				keep.push(tx);
			}
		}
		self.mempool = keep;
		chosen
	}

	pub fn mine_all(&mut self) -> Vec<Transaction> {
		self.mine_selected(&|_, _| true)
	}

	/// Disconnects the last `depth` blocks. Their transactions go back to the mempool when
	/// `readmit` (as a node's mempool would do), else they are forgotten.
	pub fn reorg(&mut self, depth: u32, readmit: bool) -> Vec<Transaction> {
		let depth = depth.min(self.tip_height());
		let mut removed: Vec<Transaction> = Vec::new();
		let split = self.blocks.len() - depth as usize;
		let tail: Vec<Block> = self.blocks.drain(split..).collect();
		for b in tail.iter() {
			for tx in b.txs.iter() {
				removed.push(tx.clone());
			}
		}
		// rebuild utxo set
		self.utxos.clear();
		self.confirmed.clear();
		let blocks = std::mem::take(&mut self.blocks);
		for (h, b) in blocks.iter().enumerate() {
			for tx in b.txs.iter() {
				let txid = tx.compute_txid();
				for i in tx.input.iter() {
					self.utxos.remove(&i.previous_output);
				}
				for (idx, o) in tx.output.iter().enumerate() {
					self.utxos.insert(
						OutPoint { txid, vout: idx as u32 },
						Utxo { out: o.clone(), height: h as u32 },
					);
				}
				self.confirmed.insert(txid, h as u32);
			}
		}
		self.blocks = blocks;
		let old_pool = std::mem::take(&mut self.mempool);
		if readmit {
			for tx in removed.iter().chain(old_pool.iter()) {
				if self.setup_txids.contains(&tx.compute_txid()) {
					continue;
				}
				let _ = self.admit(tx, true);
			}
		} else {
			for tx in old_pool.iter() {
				let _ = self.admit(tx, true);
			}
		}
		removed
	}

	/// The confirmed transaction spending `op`, with its height.
	pub fn confirmed_spender(&self, op: &OutPoint) -> Option<(u32, &Transaction)> {
		for (h, b) in self.blocks.iter().enumerate() {
			for tx in b.txs.iter() {
				if tx.input.iter().any(|i| i.previous_output == *op) {
					return Some((h as u32, tx));
				}
			}
		}
		None
	}

	pub fn confirmations(&self, txid: &Txid) -> u32 {
		match self.confirmed.get(txid) {
			Some(h) => self.tip_height() - h + 1,
			None => 0,
		}
	}

	pub fn total_utxo_value_by_script(&self) -> BTreeMap<Vec<u8>, u64> {
		let mut m = BTreeMap::new();
		for u in self.utxos.values() {
			*m.entry(u.out.script_pubkey.to_bytes()).or_insert(0) += u.out.value.to_sat();
		}
		m
	}
}

pub fn synthetic_funding_tx(tag: i32, value_sat: u64, script: bitcoin::ScriptBuf) -> Transaction {
	Transaction {
		version: bitcoin::transaction::Version(tag),
		lock_time: bitcoin::absolute::LockTime::ZERO,
		input: Vec::new(),
		output: vec![TxOut { value: Amount::from_sat(value_sat), script_pubkey: script }],
	}
}

pub fn zero_txid() -> Txid {
	Txid::all_zeros()
}
