#!/usr/bin/env bash
# usage: tools/try_mutation.sh <patch.diff> <Cxx> [quick|thorough]  — applies a seeded change to /repo,
# runs the property's check, restores /repo. Prints the verdict line.
set -u
patch="$1"; prop="$2"; tier="${3:-quick}"
cd /verif
if ! git -C /repo diff --quiet; then echo "REFUSE: /repo not clean"; exit 3; fi
git -C /repo apply "$patch" || { echo "APPLY-FAILED $patch"; exit 3; }
out=$(VERIF_SHRINK_SECS=${VERIF_SHRINK_SECS:-15} ./check "$prop" "$tier" 2>&1); rc=$?
git -C /repo checkout -- .
echo "$out" | grep -E "^(VIOLATION|KNOWN-FINDING|HARNESS|verif: property=.*exit=)" | cut -c1-400
echo "MUTATION $(basename $(dirname $patch)) of $(basename $(dirname $(dirname $patch))) vs $prop/$tier: exit=$rc"
